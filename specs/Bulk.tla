------------------------------- MODULE Bulk -------------------------------
(***************************************************************************)
(* Transfers that cross the library's internal staging thresholds          *)
(* (properties C01/C03/C04/C07: "for all sizes").                          *)
(*                                                                         *)
(* The exhaustive models keep objects small; three internal limits are     *)
(* only crossed by large single calls:                                     *)
(*   - Vdata reads/writes of 1,000,000 stored bytes or more are staged     *)
(*     through a bounded buffer (VDATA_BUFFER_MAX),                        *)
(*   - datasets larger than about 1 MB are pre-filled chunk-wise,          *)
(*   - a linked-block element keeps 'nblocks' block ids per table: one     *)
(*     write can span several tables.                                      *)
(* The rule is the same as in the small models -- what is read is what was *)
(* written, fill elsewhere -- so one action per family states it for a     *)
(* parameter set chosen around the threshold; the driver expands the       *)
(* values by formula and reports whether every cell read back is right.    *)
(***************************************************************************)
EXTENDS Naturals, Integers, Sequences, FiniteSets, TLC

CONSTANTS VsCases, SdCases, HlCases, BtCases, CpCases, NbCases, MaxOps, KeepHist
VARIABLES st, out, hist
vars == <<st, out, hist>>
view == <<st>>
Log(op, args, o) == /\ out' = o
                    /\ hist' = IF KeepHist THEN Append(hist, [op |-> op, args |-> args, out |-> o])
                                           ELSE <<[op |-> op, args |-> args, out |-> o]>>
Init == st = "init" /\ out = [ret |-> 0] /\ hist = <<>>

\* a Vdata of nrec records of the given schema written in `pieces` calls, then: the whole table read in ONE call per
\* field subset and buffer interlace; in two calls; after reopen.  match: every value read is the value written
BulkVS(c) == /\ st = "init" /\ c \in VsCases
             /\ Log("BulkVS", c, [match |-> TRUE])
             /\ UNCHANGED st
\* a dataset of the given shape and type; first write = a slab far from the front (fill mode on or off, fill value set);
\* then the whole array is read: the slab's cells hold the data, with fill mode on every other cell the fill value;
\* again after reopen.  layout: plain, linked blocks of the given size (unlimited first dimension), chunked
BulkSD(c) == /\ st = "init" /\ c \in SdCases
             /\ Log("BulkSD", c, [match |-> TRUE])
             /\ UNCHANGED st
\* a linked-block element (block length b, t block ids per table): writes of the given lengths at the given offsets
\* (one call each, spanning many blocks and several tables), then the element is read back whole, in pieces across the
\* table boundaries, and after reopen
BulkHL(c) == /\ st = "init" /\ c \in HlCases
             /\ Log("BulkHL", c, [match |-> TRUE])
             /\ UNCHANGED st
\* a bit-granular element of several buffer lengths (the bit-I/O layer buffers 4096 bytes): n fields whose widths cycle
\* through the given pattern are written; after reopen the element is read back in order, and fields of other widths are
\* read after bit seeks to positions just before, at and just after every multiple of the buffer length, at every
\* bit offset of the case, coming from the preceding buffer, from far away and from behind
BulkBits(c) == /\ st = "init" /\ c \in BtCases
               /\ Log("BulkBits", c, [match |-> TRUE])
               /\ UNCHANGED st
\* a compressed element whose STORED stream is longer than the coders' and the bit layer's buffers: n bytes of the
\* given kind written in `pieces` calls; after reopen read whole, in pieces of awkward lengths, and after forward and
\* backward seeks around the multiples of 4096 of the uncompressed and of the stored stream
BulkComp(c) == /\ st = "init" /\ c \in CpCases
               /\ Log("BulkComp", c, [match |-> TRUE])
               /\ UNCHANGED st
\* an n-bit dataset longer than the coder's 1024-byte expansion buffer: n values (by formula) of a w-bit type stored with
\* (start bit, length, sign extension, fill) are written whole; after reopen the dataset is read in slabs of unequal
\* sizes -- consecutive (the position does not move between them), overlapping backward, skipping forward -- and every
\* value must be the documented projection (specs/NBit.tla, Proj) of what was written
BulkNBit(c) == /\ st = "init" /\ c \in NbCases
               /\ Log("BulkNBit", c, [match |-> TRUE])
               /\ UNCHANGED st
Next == \/ (\E c \in NbCases : BulkNBit(c))
        \/ (\E c \in VsCases : BulkVS(c)) \/ (\E c \in SdCases : BulkSD(c)) \/ (\E c \in HlCases : BulkHL(c))
        \/ (\E c \in BtCases : BulkBits(c)) \/ (\E c \in CpCases : BulkComp(c))
Spec == Init /\ [][Next]_vars
Bound == Len(hist) < MaxOps
=============================================================================
