SPECIFICATION TraceSpec
CONSTANTS
  Schemas = {}
  MaxRecs = 100000
  WriteNs = {1}
  ReadNs = {1}
  BlockSizes = {0}
  DataMod = 13
  MaxOps = 1
  KeepHist = FALSE
INVARIANTS TrackL ReadsStored PosOK
PROPERTIES WriteLocal
POSTCONDITION Verdict
CHECK_DEADLOCK FALSE
