------------------------------ MODULE GRImage ------------------------------
(***************************************************************************)
(* A general raster image (mfgr.c) as a height x width x components array: *)
(* region writes, region / strided reads, the caller's buffer in one of    *)
(* the three interlace modes, a fill value for never-written pixels of a   *)
(* partially written new image, a palette, storage configurations.         *)
(*   pix : <<y, x, c>> -> value | F (fill) ; c = 1..ncomp                  *)
(* Buffer order of a region of ch rows, cw columns, nc components:         *)
(*   pixel (0)     : row, column, component                                *)
(*   line  (1)     : row, component, column                                *)
(*   component (2) : component, row, column                                *)
(***************************************************************************)
EXTENDS Naturals, Integers, Sequences, FiniteSets, TLC

CONSTANTS Dims,       \* set of <<width, height>>
          NComps, Layouts, Coords, Counts, Strides, DataMod, MaxOps, KeepHist
FAIL == -1
F == -1000

VARIABLES st, W, H, NC, il, ril, pix, lut, layout, touched, wc, out, hist
vars == <<st, W, H, NC, il, ril, pix, lut, layout, touched, wc, out, hist>>
view == <<st, W, H, NC, il, ril, pix, lut, layout, touched, wc % DataMod>>

Log(op, args, o) == /\ out' = o
                    /\ hist' = IF KeepHist THEN Append(hist, [op |-> op, args |-> args, out |-> o])
                                           ELSE <<[op |-> op, args |-> args, out |-> o]>>

\* the n-th element (1-based) of a region buffer in interlace m -> <<row, col, comp>> offsets (0-based row/col, 1-based comp)
Elem(m, n, cw, ch, nc) ==
    LET k == n - 1 IN
    IF m = 0 THEN <<k \div (cw * nc), (k \div nc) % cw, (k % nc) + 1>>
    ELSE IF m = 1 THEN <<k \div (cw * nc), k % cw, ((k \div cw) % nc) + 1>>
    ELSE <<(k \div cw) % ch, k % cw, (k \div (cw * ch)) + 1>>
\* the pixel component a buffer element designates, for a region starting at (x0, y0) with strides (sx, sy)
Target(m, n, x0, y0, sx, sy, cw, ch, nc) == LET e == Elem(m, n, cw, ch, nc) IN <<y0 + e[1] * sy, x0 + e[2] * sx, e[3]>>
ValK(k, n) == ((k * 41 + n * 3) % 997) + 1

InImage(x0, y0, sx, sy, cw, ch) == /\ x0 >= 0 /\ y0 >= 0 /\ cw >= 1 /\ ch >= 1 /\ sx >= 1 /\ sy >= 1
                                   /\ x0 + sx * (cw - 1) < W /\ y0 + sy * (ch - 1) < H

Init == /\ st = "init" /\ W = 0 /\ H = 0 /\ NC = 0 /\ il = 0 /\ ril = 0 /\ pix = <<>> /\ lut = <<>> /\ layout = <<>> /\ touched = FALSE
        /\ wc = 0 /\ out = [ret |-> 0] /\ hist = <<>>

\* GRstart; GRcreate(name, ncomp, type, interlace, dims); [GRsetattr FillValue]; layout calls.
\* The interlace given here describes the buffers of GRwriteimage; GRreadimage produces pixel interlace until
\* GRreqimageil asks for another one.
Create(d, nc, m, fs, ly) ==
    /\ st = "init" /\ st' = "open"
    /\ W' = d[1] /\ H' = d[2] /\ NC' = nc /\ il' = m /\ ril' = 0 /\ layout' = ly /\ touched' = FALSE
    /\ pix' = [p \in {<<y, x, c>> : y \in 0..(d[2] - 1), x \in 0..(d[1] - 1), c \in 1..nc} |-> F]
    /\ lut' = <<>>
    /\ Log("Create", [w |-> d[1], h |-> d[2], ncomp |-> nc, il |-> m, fillset |-> fs, layout |-> ly], [ret |-> 0])
    /\ UNCHANGED wc

\* GRwriteimage(start, NULL stride, count, data): the buffer is in the image's OWN interlace
Write(x0, y0, cw, ch, k) ==
    /\ st = "open"
    /\ (layout # <<>> /\ layout[1] \in {"comp"}) => (x0 = 0 /\ y0 = 0 /\ cw = W /\ ch = H)      \* compressed images are written in full
    /\ InImage(x0, y0, 1, 1, cw, ch)      \* (the property speaks of rectangles inside the image only)
    /\ IF TRUE
       THEN LET n == cw * ch * NC
                tgt(i) == Target(il, i, x0, y0, 1, 1, cw, ch, NC)
                idx(p) == CHOOSE i \in 1..n : tgt(i) = p IN
            /\ pix' = [p \in DOMAIN pix |-> IF \E i \in 1..n : tgt(i) = p THEN ValK(k, idx(p)) ELSE pix[p]]
            /\ touched' = TRUE
            /\ Log("Write", [x |-> x0, y |-> y0, cw |-> cw, ch |-> ch, data |-> [i \in 1..n |-> ValK(k, i)]], [ret |-> 0])
       ELSE /\ cw >= 1 /\ ch >= 1
            /\ Log("Write", [x |-> x0, y |-> y0, cw |-> cw, ch |-> ch, data |-> [i \in 1..(cw * ch * NC) |-> 7]], [ret |-> FAIL])
            /\ UNCHANGED <<pix, touched>>
    /\ wc' = wc + 1
    /\ UNCHANGED <<st, W, H, NC, il, ril, lut, layout>>

\* GRreqimageil(il): the interlace GRreadimage will produce
ReqIl(m) == /\ st = "open" /\ ril' = m
            /\ Log("ReqIl", [il |-> m], [ret |-> 0])
            /\ UNCHANGED <<st, W, H, NC, il, pix, lut, layout, touched, wc>>

\* GRreadimage(start, stride, count): the buffer comes in the requested interlace
Read(x0, y0, sx, sy, cw, ch) ==
    /\ st = "open" /\ InImage(x0, y0, sx, sy, cw, ch)
    /\ IF TRUE
       THEN LET n == cw * ch * NC IN
            Log("Read", [x |-> x0, y |-> y0, sx |-> sx, sy |-> sy, cw |-> cw, ch |-> ch],
                [ret |-> 0, data |-> [i \in 1..n |-> pix[Target(ril, i, x0, y0, sx, sy, cw, ch, NC)]]])
       ELSE /\ cw >= 1 /\ ch >= 1
            /\ Log("Read", [x |-> x0, y |-> y0, sx |-> sx, sy |-> sy, cw |-> cw, ch |-> ch], [ret |-> FAIL])
    /\ UNCHANGED <<st, W, H, NC, il, ril, pix, lut, layout, touched, wc>>

\* GRgetlutid(0); GRwritelut(ncomp 3, uint8, pixel interlace, 256 entries): entry e, component c = (e*3+c+k) mod 256
WriteLut(k) == /\ st = "open" /\ lut' = <<k>>
               /\ Log("WriteLut", [k |-> k], [ret |-> 0])
               /\ UNCHANGED <<st, W, H, NC, il, ril, pix, layout, touched, wc>>
ReadLut == /\ st = "open" /\ lut # <<>>
           /\ Log("ReadLut", [a |-> 0], [ret |-> 0, k |-> lut[1], ncomp |-> 3, nentries |-> 256])
           /\ UNCHANGED <<st, W, H, NC, il, ril, pix, lut, layout, touched, wc>>

\* GRgetiminfo
Info == /\ st = "open"
        /\ Log("Info", [a |-> 0], [ncomp |-> NC, il |-> il, w |-> W, h |-> H])
        /\ UNCHANGED <<st, W, H, NC, il, ril, pix, lut, layout, touched, wc>>

\* GRendaccess; GRend; Hclose; Hopen; GRstart; GRselect: the read interlace request starts over
\* (images are STORED pixel-interlaced: the interlace given to GRcreate describes the caller's buffers of
\*  the creating session only; a re-selected image is pixel-interlaced)
Reopen == /\ st = "open" /\ ril' = 0 /\ il' = 0
          /\ touched            \* (an image that has never been written has no data element yet: not generated)
          /\ Log("Reopen", [a |-> 0], [ret |-> 0, ncomp |-> NC, il |-> 0, w |-> W, h |-> H])
          /\ UNCHANGED <<st, W, H, NC, pix, lut, layout, touched, wc>>

Next == \/ \E d \in Dims, nc \in NComps, m \in {0, 1, 2}, fs \in BOOLEAN, ly \in Layouts : Create(d, nc, m, fs, ly)
        \/ \E x0 \in Coords, y0 \in Coords, cw \in Counts, ch \in Counts : Write(x0, y0, cw, ch, (wc + 1) % DataMod)
        \/ \E x0 \in Coords, y0 \in Coords, sx \in Strides, sy \in Strides, cw \in Counts, ch \in Counts : Read(x0, y0, sx, sy, cw, ch)
        \/ \E m \in {0, 1, 2} : ReqIl(m)
        \/ \E k \in {1, 2} : WriteLut(k)
        \/ ReadLut \/ Info \/ Reopen
Spec == Init /\ [][Next]_vars

---------------------------------------------------------------------------
\* the three interlace maps are bijections between buffer positions and the region's pixel components
Bijective == \A m \in {0, 1, 2}, cw \in 1..2, ch \in 1..2, nc \in 1..3 :
               LET n == cw * ch * nc IN
                 /\ \A i, j \in 1..n : i # j => Elem(m, i, cw, ch, nc) # Elem(m, j, cw, ch, nc)
                 /\ \A i \in 1..n : Elem(m, i, cw, ch, nc)[1] < ch /\ Elem(m, i, cw, ch, nc)[2] < cw /\ Elem(m, i, cw, ch, nc)[3] <= nc
ReadsPix == (hist # <<>> /\ hist[Len(hist)].op = "Read" /\ hist[Len(hist)].out.ret = 0) =>
              LET e == hist[Len(hist)]  a == e.args IN
                \A i \in 1..Len(e.out.data) : e.out.data[i] = pix[Target(ril, i, a.x, a.y, a.sx, a.sy, a.cw, a.ch, NC)]
Bound == Len(hist) < MaxOps
=============================================================================
