---------------------------- MODULE Trace_VData ----------------------------
EXTENDS VData, TraceBase
VARIABLE l
TReset == /\ st' = "init" /\ schema' = <<>> /\ recs' = <<>> /\ pos' = 0 /\ mode' = "w" /\ rsel' = <<>> /\ fil' = FULL
          /\ wc' = 0 /\ out' = [ret |-> 0] /\ hist' = <<>>
\* the write counter is bound from the first value of the recorded buffer
WcOK(a) == \E c0 \in 0..(DataMod - 1) : /\ wc % DataMod = c0
                                        /\ a.buf = Buffer([i \in 1..a.n |-> NewRec(c0 + 1, pos + i)], AllFields, a.bil)
Good(ev) ==
    LET a == ev.args  o == ev.obs IN
       \/ ev.op = "Reset" /\ TReset
       \/ /\ ev.op # "Reset"
          /\ \/ ev.op = "Create"    /\ Create(a.schema, a.il, a.bs)
             \/ ev.op = "Write"     /\ WcOK(a) /\ Write(a.n, a.bil)
             \/ ev.op = "Seek"      /\ Seek(a.r)
             \/ ev.op = "SetFields" /\ SetFields(a.sel)
             \/ ev.op = "Read"      /\ rsel = a.sel /\ Read(a.n, a.bil)
             \/ ev.op = "Inquire"   /\ Inquire
             \/ ev.op = "Fpack"     /\ Fpack(a.n, a.sel)
             \/ ev.op = "Bump"      /\ Bump
             \/ ev.op = "SetIl"     /\ SetIl(a.il)
             \/ ev.op = "Detach"    /\ Detach
             \/ ev.op = "Attach"    /\ Attach(a.mode, a.reopen)
          /\ ObsOK(out', o)
TraceInit == Init /\ l = 1 /\ TLCSet(1, 1)
TraceNext ==
    /\ l <= Len(TraceLog)
    /\ IF ENABLED Good(TraceLog[l])
       THEN Good(TraceLog[l]) /\ l' = l + 1
       ELSE Reject(l) /\ l' = NextReset(l) /\ UNCHANGED vars
TraceSpec == TraceInit /\ [][TraceNext]_<<vars, l>>
TrackL == Track(l)
=============================================================================
