------------------------------- MODULE HDisk -------------------------------
(***************************************************************************)
(* The write ordering of an append-only session (hfile.c / hfiledd.c):     *)
(* what is on disk after every physical write, and what a process that     *)
(* reopens the file after a crash at that point can recover.               *)
(*                                                                         *)
(* Disk objects:                                                           *)
(*   blocks[i] : descriptor block i as it is ON DISK                       *)
(*               [valid  : header + a full DD array have been written,     *)
(*                next   : index of the block its header links to (0=none),*)
(*                dds    : set of object names whose DD is in this block]  *)
(*   data      : set of object names whose bytes are on disk               *)
(* Memory (lost in a crash):                                               *)
(*   mblocks   : the same blocks as the library holds them, with `dirty`   *)
(*   pending   : objects created in this session whose DD is only cached   *)
(*                                                                         *)
(* The session (DD caching on, the default):                               *)
(*   Add(o)      : write o's data at the end of the file; put its DD into  *)
(*                 the first free slot in memory (block marked dirty)      *)
(*   NewBlock    : no free slot: append a new block at the end of the file *)
(*                 -- WriteAtCreate says whether a valid empty block is    *)
(*                 written at that moment (the repaired code) or only its  *)
(*                 NIL array without header (the original code)            *)
(*   FlushStep   : the flush walks the chain head to tail and writes each  *)
(*                 dirty block (header with the link + DD array) as ONE    *)
(*                 atomic write per block (header and array are written by *)
(*                 two consecutive writes; both orders are explored)       *)
(*   Crash       : the process dies; Recover = follow the ON-DISK chain    *)
(***************************************************************************)
EXTENDS Naturals, Sequences, FiniteSets, TLC

CONSTANTS OldObjs,        \* objects stored before the session
          NewObjs,        \* objects the session adds
          Slots,          \* DD slots per block
          WriteAtCreate   \* TRUE: repaired HTInew_dd_block; FALSE: original

VARIABLES blocks, data, mblocks, toAdd, phase, flushAt, half
vars == <<blocks, data, mblocks, toAdd, phase, flushAt, half>>

NBlocksOld == (Cardinality(OldObjs) + Slots - 1) \div Slots

\* a deterministic initial layout: old objects fill blocks 1..NBlocksOld in some fixed order
OldSeq == CHOOSE s \in [1..Cardinality(OldObjs) -> OldObjs] : \A i, j \in DOMAIN s : i # j => s[i] # s[j]
InitBlock(i) == [valid |-> TRUE,
                 next  |-> IF i < NBlocksOld THEN i + 1 ELSE 0,
                 dds   |-> {OldSeq[j] : j \in {x \in 1..Cardinality(OldObjs) : (x - 1) \div Slots + 1 = i}}]

Init == /\ blocks = [i \in 1..NBlocksOld |-> InitBlock(i)]
        /\ data = OldObjs
        /\ mblocks = [i \in 1..NBlocksOld |-> [next |-> InitBlock(i).next, dds |-> InitBlock(i).dds, dirty |-> FALSE]]
        /\ toAdd = NewObjs
        /\ phase = "session" /\ flushAt = 0 /\ half = FALSE

LastM == Len(mblocks)
HasRoom(i) == Cardinality(mblocks[i].dds) < Slots
RoomBlocks == {i \in 1..LastM : HasRoom(i)}

\* Hputelement / VSattach(-1)... : data first (beyond everything stored), DD cached
Add(o) ==
    /\ phase = "session" /\ o \in toAdd /\ RoomBlocks # {}
    /\ LET i == CHOOSE x \in RoomBlocks : \A y \in RoomBlocks : x <= y IN
       mblocks' = [mblocks EXCEPT ![i].dds = @ \cup {o}, ![i].dirty = TRUE]
    /\ data' = data \cup {o}
    /\ toAdd' = toAdd \ {o}
    /\ UNCHANGED <<blocks, phase, flushAt, half>>

\* HTInew_dd_block with DD caching on: space at the end of the file; the previous last block is
\* linked IN MEMORY only (marked dirty); on disk the new block is either a valid empty block or garbage
NewBlock ==
    /\ phase = "session" /\ toAdd # {} /\ RoomBlocks = {}
    /\ mblocks' = Append([mblocks EXCEPT ![LastM].next = LastM + 1, ![LastM].dirty = TRUE],
                         [next |-> 0, dds |-> {}, dirty |-> TRUE])
    /\ blocks' = Append(blocks, [valid |-> WriteAtCreate, next |-> 0, dds |-> {}])
    /\ UNCHANGED <<data, toAdd, phase, flushAt, half>>

\* Hsync / Hclose: HTPsync walks head to tail
FlushBegin ==
    /\ phase = "session"
    /\ phase' = "flush" /\ flushAt' = 1 /\ half' = FALSE
    /\ UNCHANGED <<blocks, data, mblocks, toAdd>>

\* one physical write of the flush: first the 6-byte header (count + link), then the DD array
FlushStep ==
    /\ phase = "flush" /\ flushAt <= LastM
    /\ IF ~mblocks[flushAt].dirty
       THEN /\ flushAt' = flushAt + 1 /\ UNCHANGED <<blocks, half, mblocks>>
       ELSE IF ~half
            THEN \* header write: the link becomes visible on disk
                 /\ blocks' = [blocks EXCEPT ![flushAt].next = mblocks[flushAt].next]
                 /\ half' = TRUE /\ UNCHANGED <<flushAt, mblocks>>
            ELSE \* DD array write
                 /\ blocks' = [blocks EXCEPT ![flushAt].dds = mblocks[flushAt].dds, ![flushAt].valid = TRUE]
                 /\ mblocks' = [mblocks EXCEPT ![flushAt].dirty = FALSE]
                 /\ half' = FALSE /\ flushAt' = flushAt + 1
    /\ UNCHANGED <<data, toAdd, phase>>

FlushEnd ==
    /\ phase = "flush" /\ flushAt > LastM
    /\ phase' = "done"
    /\ UNCHANGED <<blocks, data, mblocks, toAdd, flushAt, half>>

Next == (\E o \in NewObjs : Add(o)) \/ NewBlock \/ FlushBegin \/ FlushStep \/ FlushEnd
Spec == Init /\ [][Next]_vars

---------------------------------------------------------------------------
(* What a reader finds if the process dies NOW (every state is a crash point) *)
RECURSIVE Chain(_, _)
Chain(i, seen) == IF i = 0 \/ i \in seen \/ i > Len(blocks) THEN <<>>
                  ELSE <<i>> \o Chain(blocks[i].next, seen \cup {i})
Reach == Chain(1, {})
ReachSet == {Reach[j] : j \in 1..Len(Reach)}

\* the file opens: every block on the on-disk chain is a valid block
Opens == \A i \in ReachSet : blocks[i].valid
\* what the reopened file reports
Reported == UNION {blocks[i].dds : i \in ReachSet}

\* C17, both clauses: at every crash point the file opens, every previously stored object is
\* reported and its data is there; only objects of the interrupted session may be missing
CrashSafe == /\ Opens
             /\ OldObjs \subseteq Reported
             /\ Reported \subseteq data
\* after a completed flush everything is there
Durable == (phase = "done") => Reported = OldObjs \cup (NewObjs \ toAdd)
\* clause 1: before the flush begins nothing that existed is rewritten (the old blocks on disk are untouched)
AppendOnly == (phase = "session") => \A i \in 1..NBlocksOld : blocks[i] = InitBlock(i)
=============================================================================
