---------------------------- MODULE Gen_Bitio ----------------------------
EXTENDS Bitio, Json, CSV, IOUtils, FiniteSets
Ev(o, a, x) == [op |-> o, args |-> a, out |-> x]
\* epilogue: release (flush bit 0), reopen, read everything back byte by byte
Final == IF st' = "w" THEN Pad(bits', 0) ELSE bits'
NB == Len(Final) \div 8
\* the written bits, read back as whole bytes plus the remaining bits of the last partial byte
Defined == Cardinality({i \in 1..Len(Final) : Final[i] # X})
FullB == Defined \div 8
Audit == (IF st' \in {"w", "r"} THEN <<Ev("End", [flush |-> 0], [ret |-> 0, nbytes |-> NB])>> ELSE <<>>)
         \o <<Ev("Start", [reopen |-> TRUE], [ret |-> 0])>>
         \o [i \in 1..FullB |-> Ev("ReadBits", [w |-> 8], [ret |-> 8, hi |-> 0, lo |-> Lo(SubSeq(Final, 8 * i - 7, 8 * i))])]
         \o (IF Defined % 8 = 0 THEN <<>> ELSE
             <<Ev("ReadBits", [w |-> Defined % 8], [ret |-> Defined % 8, hi |-> 0, lo |-> Lo(SubSeq(Final, 8 * FullB + 1, Defined))])>>)
CanAudit == \A i \in 1..Len(bits') : (bits'[i] = X) => \A j \in i..Len(bits') : bits'[j] = X
EmitAudited == (st' # "init" /\ bits' # <<>> /\ CanAudit) =>
    CSVWrite("%1$s", <<ToJson([spec |-> "Bitio", steps |-> hist' \o Audit])>>, IOEnv.GEN_OUT)
EmitFull == (Len(hist') = MaxOps) => EmitAudited
=============================================================================
