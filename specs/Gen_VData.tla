---------------------------- MODULE Gen_VData ----------------------------
EXTENDS VData, Json, CSV, IOUtils
Sch1 == {<< <<1, 1>>, <<2, 2>> >>, << <<2, 1>> >>}
Sch2 == {<< <<1, 1>>, <<2, 2>> >>, << <<2, 1>> >>, << <<4, 1>>, <<1, 3>>, <<2, 1>> >>, << <<8, 2>>, <<1, 1>> >>}
Ev(o, a, x) == [op |-> o, args |-> a, out |-> x]
\* epilogue: detach, reopen, re-attach for reading, read everything back in both buffer interlaces
Audit ==
    (IF st' = "attached" THEN <<Ev("Detach", [a |-> 0], [ret |-> 0])>> ELSE <<>>)
    \o <<Ev("Attach", [mode |-> "r", reopen |-> TRUE], [ret |-> 0, nrec |-> Len(recs'), nfields |-> Len(schema'), recsize |-> RecSize'])>>
    \o <<Ev("Read", [n |-> Len(recs'), bil |-> FULL, sel |-> [i \in 1..Len(schema') |-> i]],
            [ret |-> Len(recs'), buf |-> Buffer(recs', [i \in 1..Len(schema') |-> i], FULL)]),
         Ev("Seek", [r |-> 0], [ret |-> 0]),
         Ev("Read", [n |-> Len(recs'), bil |-> NOIL, sel |-> [i \in 1..Len(schema') |-> i]],
            [ret |-> Len(recs'), buf |-> Buffer(recs', [i \in 1..Len(schema') |-> i], NOIL)])>>
EmitAudited == (st' # "init" /\ recs' # <<>>) =>
    CSVWrite("%1$s", <<ToJson([spec |-> "VData", steps |-> hist' \o Audit])>>, IOEnv.GEN_OUT)
EmitFull == (Len(hist') = MaxOps) => EmitAudited
=============================================================================
