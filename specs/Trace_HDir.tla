---------------------------- MODULE Trace_HDir ----------------------------
(* Trace validation: an execution recorded from the real library (harness/drive.py) must be a      *)
(* behaviour of HDir.  Each recorded call is mapped to the HDir action of the same name with the   *)
(* logged arguments; values the library chooses (allocator answers) are bound from the log; the    *)
(* action's expected observation `out` must agree with the logged observation on every field the   *)
(* specification states.  All invariants of HDir are evaluated in every state of the trace.        *)
EXTENDS HDir, TraceBase

VARIABLE l

TReset == /\ st' = "init" /\ mem' = <<>> /\ disk' = <<>> /\ cache' = FALSE /\ ndds' = 0
          /\ out' = [ret |-> OK] /\ hist' = <<>>

Good(ev) ==
    LET a == ev.args  o == ev.obs IN
       \/ ev.op = "Reset"     /\ TReset
       \/ /\ ev.op # "Reset"
          /\ \/ ev.op = "Create"    /\ Create(a.ndds, a.cache)
             \/ ev.op = "Put"       /\ Put(a.tag, a.ref, a.n)
             \/ ev.op = "PutExt"    /\ PutExt(a.tag, a.ref, a.n)
             \/ ev.op = "Del"       /\ Del(a.tag, a.ref)
             \/ ev.op = "Dup"       /\ Dup(a.tag, a.ref, a.otag, a.oref)
             \/ ev.op = "FillDup"   /\ FillDup(a.tag, a.lo, a.hi, a.otag, a.oref)
             \/ ev.op = "NewRef"    /\ NewRef(o.ret)
             \/ ev.op = "TagNewRef" /\ TagNewRef(a.tag, o.ret)
             \/ ev.op = "Number"    /\ Number(a.tag)
             \/ ev.op = "Walk"      /\ Walk(a.tag, a.ref, a.dir)
             \/ ev.op = "Probe"     /\ Probe(a.tag, a.ref)
             \/ ev.op = "SetCache"  /\ SetCache(a.on)
             \/ ev.op = "Sync"      /\ Sync
             \/ ev.op = "Reopen"    /\ Reopen(a.cache)
          /\ ObsOK(out', o)

TraceInit == Init /\ l = 1 /\ TLCSet(1, 1)

TraceNext ==
    /\ l <= Len(TraceLog)
    /\ IF ENABLED Good(TraceLog[l])
       THEN Good(TraceLog[l]) /\ l' = l + 1
       ELSE Reject(l) /\ l' = NextReset(l) /\ UNCHANGED vars

TraceSpec == TraceInit /\ [][TraceNext]_<<vars, l>>
TrackL == Track(l)
=============================================================================
