SPECIFICATION Spec
CONSTANTS
  Dims <- DimsHist
  NComps = {1}
  Layouts <- LNone
  Coords <- CoordsHist
  Counts = {2}
  Strides = {1}
  DataMod = 1
  MaxOps = 6
  KeepHist = TRUE
CONSTRAINT Bound
ACTION_CONSTRAINT EmitAudited
CHECK_DEADLOCK FALSE
