SPECIFICATION Spec
CONSTANTS
  Forms = {"rel", "abs"}
  Offs = {0, 2}
  Lens = {3}
  MaxOps = 7
  KeepHist = TRUE
VIEW gview
CONSTRAINT CoverBound
CONSTRAINT BoundGen
ACTION_CONSTRAINT EmitAudited
CHECK_DEADLOCK FALSE
