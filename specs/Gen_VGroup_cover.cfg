SPECIFICATION Spec
CONSTANTS
  MaxG = 2
  NumD = 1
  Raws = {"R1"}
  Names <- NamesSmall
  MaxMem = 3
  MaxOps = 9
  KeepHist = TRUE
VIEW view
CONSTRAINT Bound
ACTION_CONSTRAINT EmitAudited
CHECK_DEADLOCK FALSE
