SPECIFICATION Spec
CONSTANTS
  Objs = {"d10", "d20"}
  Names = {}
  Types = {}
  Counts = {}
  DimNames = {"x"}
  ScaleTypes = {"i16", "i8"}
  MaxAttrs = 2
  MaxAdd = 0
  DataMod = 1
  MaxOps = 5
  KeepHist = TRUE
CONSTRAINT Bound
ACTION_CONSTRAINT EmitAudited
CHECK_DEADLOCK FALSE
