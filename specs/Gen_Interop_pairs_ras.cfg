SPECIFICATION Spec
CONSTANTS
  SdsWriters = {}
  RasWriters = {"DFR8", "DF24", "GR"}
  Shapes <- ShapesNone
  Types = {}
  RasDims <- RDimsA
  ScaleSets <- ScalesAll
  Grows = {}
  MaxObjs = 6
  MaxOps = 4
  Mix = TRUE
  KeepHist = TRUE
CONSTRAINT Bound
ACTION_CONSTRAINT EmitAudited
CHECK_DEADLOCK FALSE
