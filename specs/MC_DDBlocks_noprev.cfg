\* only the new block is marked dirty when it is chained: must VIOLATE FileHoldsDisk
SPECIFICATION BCoreSpec
CONSTANTS
  UserTags = {100}
  Refs = {1, 2, 3, 4}
  Lens = {2}
  MaxRef = 65535
  NddsSet = {4}
  MaxOps = 1000
  AllocCand = {}
  GenMode = TRUE
  Observers = FALSE
  KeepHist = FALSE
  DirtyPrev = FALSE
VIEW bview
INVARIANTS MemIsMem FileHoldsDisk NoOrphans
CHECK_DEADLOCK FALSE
