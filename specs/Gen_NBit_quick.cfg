SPECIFICATION Spec
CONSTANTS
  Widths = {8, 16, 32}
  NVals = 4
  Params <- ParamsQuick
  Patterns = {0, 1, 2, 3, 4, 5, 6, 7, 8}
  MaxOps = 4
  KeepHist = TRUE
VIEW view
CONSTRAINT Bound
ACTION_CONSTRAINT EmitAudited
CHECK_DEADLOCK FALSE
