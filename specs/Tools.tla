------------------------------- MODULE Tools -------------------------------
(***************************************************************************)
(* Inspection tools report what is actually in the file (property C19).    *)
(*                                                                         *)
(* hdiff : a file A is built, B is A with ONE point mutation (one element  *)
(*         of one dataset / Vdata / image, one attribute value, one added  *)
(*         dataset).  hdiff X Y exits 0 exactly when X and Y hold equal    *)
(*         content within the classes the options select:                  *)
(*           (none) everything | -d dataset data | -D Vdata data           *)
(*           -g global attributes | -s dataset attributes                  *)
(* hdp   : the values printed by dumpsds -d / dumpvd -d / dumpgr -d for an *)
(*         object are the values the library API returns for it.           *)
(* hdfimport : the dataset produced from a text or binary input has the    *)
(*         shape, type and values of the input.                            *)
(***************************************************************************)
EXTENDS Naturals, Integers, Sequences, FiniteSets, TLC

CONSTANTS FileKinds, Targets, DiffOpts, DumpObjs, ImportCases, MaxOps, KeepHist
FAIL == -1
\* the class of content a mutation target belongs to (targets are named "<class>:<object>:<where>")
ClassOf(t) == CASE t \in {"sds:big2d:first", "sds:big2d:last", "sds:small:first", "sds:unl:last", "sds:chk:mid", "sds:cmp:mid", "sds:chkcmp:last",
                          "sds:t_int8:mid", "sds:t_uint8:big", "sds:t_int16:wrap", "sds:t_uint16:mid", "sds:t_int32:mid", "sds:t_uint32:mid",
                          "sds:t_float32:mid", "sds:t_float64:last", "sds:t_float32:ulp", "sds:t_float64:ulp", "sds:t_char8:mid", "sds:huge:first", "sds:huge:mid", "sds:huge:last"} -> "sds"
                  [] t \in {"vdata:table1:first", "vdata:table1:last", "vdata:table2:mid"} -> "vdata"
                  [] t \in {"gr:img:first", "gr:img:last", "gr:img3:comp0", "gr:img3:comp1", "gr:img3:comp2"} -> "gr"
                  [] t \in {"sdattr:big2d:units", "sdattr:big2d:cal:2", "sdattr:big2d:steps:4", "sdattr:big2d:cal:0hi"} -> "sdattr"
                  [] t \in {"gattr:title", "gattr:levels:4", "gattr:levels:0hi", "gattr:origin:1", "gattr:origin:2hi"} -> "gattr"
                  [] t \in {"added:sds"} -> "added"
\* does the option select the class?
\* (raster images are compared under every option)
Compared(opt, c) == CASE c = "gr" -> TRUE
                      [] opt = "" -> TRUE
                      [] opt = "-d" -> c = "sds"
                      [] opt = "-D" -> c = "vdata"
                      [] opt = "-g" -> c = "gattr"
                      [] opt = "-s" -> c = "sdattr"

VARIABLES st, kind, mut, out, hist
vars == <<st, kind, mut, out, hist>>
view == <<st, kind, mut>>
Log(op, args, o) == /\ out' = o
                    /\ hist' = IF KeepHist THEN Append(hist, [op |-> op, args |-> args, out |-> o])
                                           ELSE <<[op |-> op, args |-> args, out |-> o]>>
Init == st = "init" /\ kind = "" /\ mut = "none" /\ out = [ret |-> 0] /\ hist = <<>>
Build(f) == /\ st = "init" /\ st' = "built" /\ kind' = f /\ mut' = "none" /\ Log("Build", [file |-> f], [ret |-> 0])
\* B := A with one point mutation
Mutate(t) == /\ st = "built" /\ mut = "none"
             /\ (t \in {"sds:huge:first", "sds:huge:mid", "sds:huge:last"}) => kind = "big"
             /\ (t \in {"vdata:table1:first", "vdata:table1:last", "vdata:table2:mid"}) => kind \in {"mixed", "big"}
             /\ (ClassOf(t) = "sds" /\ t \notin {"sds:big2d:first", "sds:big2d:last", "sds:small:first", "sds:unl:last", "sds:chk:mid", "sds:cmp:mid", "sds:huge:first", "sds:huge:mid", "sds:huge:last"}) => kind = "mixed"
             /\ mut' = t /\ Log("Mutate", [target |-> t], [ret |-> 0]) /\ UNCHANGED <<st, kind>>
\* hdiff x y
HDiff(x, y, opt) ==
    /\ st = "built" /\ x \in {"A", "B"} /\ y \in {"A", "B"}
    /\ Log("HDiff", [x |-> x, y |-> y, opt |-> opt],
           [rc |-> IF x = y \/ mut = "none" THEN 0 ELSE IF Compared(opt, ClassOf(mut)) THEN 1 ELSE 0])
    /\ UNCHANGED <<st, kind, mut>>
\* hdp dump of one object of A against the API
Dump(o) == /\ st = "built" /\ Log("Dump", [obj |-> o], [agree |-> TRUE]) /\ UNCHANGED <<st, kind, mut>>
\* hdfimport of a generated input
Import(c) == /\ st = "init" /\ Log("Import", [case |-> c], [agree |-> TRUE]) /\ UNCHANGED <<st, kind, mut>>

Next == \/ \E f \in FileKinds : Build(f)
        \/ \E t \in Targets : Mutate(t)
        \/ \E x \in {"A", "B"}, y \in {"A", "B"}, opt \in DiffOpts : HDiff(x, y, opt)
        \/ \E o \in DumpObjs : Dump(o)
        \/ \E c \in ImportCases : Import(c)
Spec == Init /\ [][Next]_vars
\* hdiff is reflexive and symmetric in whether differences are found (by construction of HDiff; checked on the recorded runs)
Bound == Len(hist) < MaxOps
=============================================================================
