---------------------------- MODULE Gen_Annot ----------------------------
EXTENDS Annot, Json, CSV, IOUtils
Ev(o, a, x) == [op |-> o, args |-> a, out |-> x]
TypeSeq == <<"fl", "fd", "ol", "od">>
TgSeq   == SetToSeq(Targets)
IdxP == [i \in 1..Len(anns') |-> i]
OfTypeP(ty)       == SelectSeq(IdxP, LAMBDA i : anns'[i].type = ty)
OfTargetP(ty, tg) == SelectSeq(IdxP, LAMBDA i : anns'[i].type = ty /\ anns'[i].target = tg)
TextsP(idx)       == [j \in 1..Len(idx) |-> [len |-> anns'[idx[j]].len, k |-> anns'[idx[j]].k]]
\* epilogue: report everything through the interface of the current session, change session, report through the other
AnAudit == <<Ev("FileInfo", [a |-> 0], [fl |-> Len(OfTypeP("fl")), fd |-> Len(OfTypeP("fd")), ol |-> Len(OfTypeP("ol")), od |-> Len(OfTypeP("od"))])>>
           \o [i \in 1..4 |-> Ev("ReadAll", [type |-> TypeSeq[i]], [texts |-> TextsP(OfTypeP(TypeSeq[i])), same |-> TRUE])]
           \o FlattenSeq([i \in 1..Len(TgSeq) |-> [j \in 1..2 |->
                 LET ty == IF j = 1 THEN "ol" ELSE "od" IN
                 Ev("AnnList", [type |-> ty, target |-> TgSeq[i]], [n |-> Len(OfTargetP(ty, TgSeq[i])), texts |-> TextsP(OfTargetP(ty, TgSeq[i])), same |-> TRUE])]])
DfAudit == [i \in 1..2 |-> LET ty == IF i = 1 THEN "fl" ELSE "fd" IN Ev("DfFileAnns", [type |-> ty], [texts |-> SortSeq(TextsP(OfTypeP(ty)), TextLess)])]
           \o FlattenSeq([i \in 1..Len(TgSeq) |-> [j \in 1..2 |->
                 LET ty == IF j = 1 THEN "ol" ELSE "od"  idx == OfTargetP(ty, TgSeq[i]) IN
                 Ev("DfGet", [type |-> ty, target |-> TgSeq[i]], IF idx = <<>> THEN [ret |-> FAIL] ELSE [ret |-> 0, cands |-> TextsP(idx)])]])
Audit == IF st' = "an" THEN <<Ev("ToDF", [a |-> 0], [ret |-> 0])>> \o DfAudit \o <<Ev("ToAN", [a |-> 0], [ret |-> 0])>> \o AnAudit
                       ELSE <<Ev("ToAN", [a |-> 0], [ret |-> 0])>> \o AnAudit \o <<Ev("ToDF", [a |-> 0], [ret |-> 0])>> \o DfAudit
EmitAudited == (st' # "init") => CSVWrite("%1$s", <<ToJson([spec |-> "Annot", steps |-> hist' \o Audit])>>, IOEnv.GEN_OUT)
EmitFull == (Len(hist') = MaxOps) => EmitAudited
=============================================================================
