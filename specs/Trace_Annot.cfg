SPECIFICATION TraceSpec
CONSTANTS
  Targets = {"t1", "t2", "t3"}
  LabLens = {}
  DescLens = {}
  MaxAnns = 1000
  DataMod = 16
  MaxOps = 1
  KeepHist = FALSE
INVARIANTS TrackL TargetsWellFormed
PROPERTIES IdentityStable OneAtATime
POSTCONDITION Verdict
CHECK_DEADLOCK FALSE
