SPECIFICATION Spec
CONSTANTS
  FileKinds = {"big"}
  Targets <- NoneSet
  DiffOpts = {}
  DumpObjs <- BigDumps
  ImportCases <- NoneSet
  MaxOps = 3
  KeepHist = TRUE
CONSTRAINT Bound
ACTION_CONSTRAINT EmitAudited
CHECK_DEADLOCK FALSE
