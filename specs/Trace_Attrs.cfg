SPECIFICATION TraceSpec
CONSTANTS
  Objs = {"sd", "s1", "s2", "d10", "d20", "d21", "gr", "ri", "vd", "vdf0", "vdf1", "vg"}
  Names = {}
  Types = {}
  Counts = {}
  DimNames = {}
  ScaleTypes = {}
  MaxAttrs = 100
  MaxAdd = 100
  DataMod = 16
  MaxOps = 1
  KeepHist = FALSE
INVARIANTS TrackL UniqueNames VarNamesDistinct
PROPERTIES ListStable RefusedChangesNothing
POSTCONDITION Verdict
CHECK_DEADLOCK FALSE
