---------------------------- MODULE Trace_Bitio ----------------------------
EXTENDS Bitio, TraceBase
VARIABLE l
TReset == st' = "init" /\ bits' = <<>> /\ bp' = 0 /\ moved' = FALSE /\ wc' = 0 /\ out' = [ret |-> 0] /\ hist' = <<>>
Good(ev) ==
    LET a == ev.args  o == ev.obs IN
       \/ ev.op = "Reset" /\ TReset
       \/ /\ ev.op # "Reset"
          /\ \/ ev.op = "Create"    /\ Create
             \/ ev.op = "WriteBits" /\ Hi(FieldBits(wc + 1, a.w)) = a.hi /\ Lo(FieldBits(wc + 1, a.w)) = a.lo /\ WriteBits(a.w)
             \/ ev.op = "ReadBits"  /\ ReadBits(a.w)
             \/ ev.op = "Seek"      /\ Seek(a.byte * 8 + a.bit)
             \/ ev.op = "End"       /\ End(a.flush)
             \/ ev.op = "Start"     /\ Start(a.reopen)
          /\ ObsOK(out', o)
TraceInit == Init /\ l = 1 /\ TLCSet(1, 1)
TraceNext ==
    /\ l <= Len(TraceLog)
    /\ IF ENABLED Good(TraceLog[l])
       THEN Good(TraceLog[l]) /\ l' = l + 1
       ELSE Reject(l) /\ l' = NextReset(l) /\ UNCHANGED vars
TraceSpec == TraceInit /\ [][TraceNext]_<<vars, l>>
TrackL == Track(l)
=============================================================================
