#!/usr/bin/env python3
"""writes the Gen_Interop_*.cfg files"""
base = '''SPECIFICATION Spec
CONSTANTS
  SdsWriters = {%s}
  RasWriters = {%s}
  Shapes <- %s
  Types = {%s}
  RasDims <- %s
  ScaleSets <- %s
  MaxObjs = %d
  MaxOps = %d
  Mix = %s
  KeepHist = TRUE
%sACTION_CONSTRAINT %s
CHECK_DEADLOCK FALSE
'''
def q(xs): return ", ".join('"%s"' % x for x in xs)
def cfg(name, sw, rw, shapes, types, rdims, mo, ops, mode, mix, scales="ScalesAll"):
    open("Gen_Interop_%s.cfg" % name, "w").write(base % (q(sw), q(rw), shapes, q(types), rdims, scales, mo, ops, "TRUE" if mix else "FALSE",
        {"cover": "VIEW view\nCONSTRAINT Bound\n", "hist": "CONSTRAINT Bound\n", "sim": ""}[mode], "EmitFull" if mode == "sim" else "EmitAudited"))
ALLT = ["i8", "u8", "i16", "u16", "i32", "u32", "f32", "f64", "c8", "uc8"]
# every sequence of <= 2 (3) writes + listings in between, all types and three ranks
cfg("pairs_sds", ["DFSD", "SD", "NC"], [], "ShapesA", ALLT, "RDimsNone", 4, 4, "hist", True, "ScalesNo")
cfg("scales_sds", ["DFSD", "SD"], [], "ShapesA", ["i16", "f32", "u8"], "RDimsNone", 6, 4, "hist", False)
cfg("pairs_ras", [], ["DFR8", "DF24", "GR"], "ShapesNone", [], "RDimsA", 6, 4, "hist", True)
cfg("clear_sds", ["DFSD", "SD", "NC"], [], "ShapesA", ["i8", "u16", "f32", "f64", "uc8"], "RDimsNone", 6, 5, "hist", False, "ScalesNo")
cfg("clear_ras", [], ["DFR8", "DF24", "GR"], "ShapesNone", [], "RDimsA", 8, 5, "hist", False)
cfg("sim", ["DFSD", "SD", "NC"], ["DFR8", "DF24", "GR"], "ShapesB", ["i8", "u16", "i32", "f32", "f64", "c8"], "RDimsB", 13, 10, "sim", False)
cfg("simmix", ["DFSD", "SD", "NC"], ["DFR8", "DF24", "GR"], "ShapesB", ["i8", "u16", "i32", "f32", "f64", "c8"], "RDimsB", 13, 10, "sim", True)
