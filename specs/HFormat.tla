------------------------------ MODULE HFormat ------------------------------
(* The published HDF4 layout as predicates over the RAW facts an independent reader extracts from   *)
(* a file (reader/h4read.py supplies numbers only; every judgment is made here, by TLC):            *)
(*   size   : file size                                                                             *)
(*   blocks : the descriptor-block chain in the order followed from offset 4: <<offset, ndds, next>>*)
(*   dds    : every non-NULL descriptor: <<tag, ref, offset, length>>                               *)
(*   api    : what the library's own read calls return for each element: <<basetag, ref, len, digest>> *)
(*   rd     : what the independent reader recovers for each element:     <<basetag, ref, len, digest>> *)
(* (property C02)                                                                                   *)
EXTENDS Naturals, Integers, Sequences, FiniteSets, TLC

MAGICLEN == 4
DDHDR    == 6
DDSZ     == 12
FREETAG  == 108
BaseTag(t) == IF (t \div 16384) % 4 = 1 THEN t - 16384 ELSE t

Seq2Set(s) == {s[i] : i \in 1..Len(s)}

\* an acyclic, in-bounds chain: first block right after the magic number, every block inside the file,
\* each link pointing at the next block of the chain, the last link 0
ChainOK(size, blocks) ==
    /\ Len(blocks) >= 1
    /\ blocks[1][1] = MAGICLEN
    /\ \A i \in 1..Len(blocks) :
          /\ blocks[i][2] > 0
          /\ blocks[i][1] + DDHDR + DDSZ * blocks[i][2] <= size
          /\ IF i < Len(blocks) THEN blocks[i][3] = blocks[i + 1][1] ELSE blocks[i][3] = 0
    /\ \A i, j \in 1..Len(blocks) : i # j => blocks[i][1] # blocks[j][1]

Live(d) == d[1] # FREETAG
HasData(d) == d[3] # -1 /\ d[4] # -1

\* no duplicate tag/ref (a special element is found under its base tag)
NoDup(dds) == \A i, j \in 1..Len(dds) : (i # j /\ Live(dds[i]) /\ Live(dds[j])) => <<BaseTag(dds[i][1]), dds[i][2]>> # <<BaseTag(dds[j][1]), dds[j][2]>>

\* every descriptor's offset/length non-negative and inside the file
InBounds(size, dds) == \A i \in 1..Len(dds) : (Live(dds[i]) /\ HasData(dds[i])) => (dds[i][3] >= 0 /\ dds[i][4] >= 0 /\ dds[i][3] + dds[i][4] <= size)

\* live extents (magic, descriptor blocks, data areas) are pairwise disjoint unless deliberately aliased
\* (two descriptors with the very same offset and length: Hdupdd)
Extents(blocks, dds) ==
    {<<0, MAGICLEN>>} \cup {<<blocks[i][1], blocks[i][1] + DDHDR + DDSZ * blocks[i][2]>> : i \in 1..Len(blocks)}
    \cup {<<dds[i][3], dds[i][3] + dds[i][4]>> : i \in {x \in 1..Len(dds) : Live(dds[x]) /\ HasData(dds[x]) /\ dds[x][4] > 0}}
Disjoint(a, b) == a[2] <= b[1] \/ b[2] <= a[1]
NoOverlap(blocks, dds) == \A a, b \in Extents(blocks, dds) : a = b \/ Disjoint(a, b)

WellFormed(size, blocks, dds) == ChainOK(size, blocks) /\ NoDup(dds) /\ InBounds(size, dds) /\ NoOverlap(blocks, dds)

\* the independent reader recovers the same logical content the library's own read calls return
ContentAgrees(api, rd) == Seq2Set(api) = Seq2Set(rd) /\ Len(api) = Len(rd)

VARIABLES nviews
FInit == nviews = 0
\* a file the library has closed or flushed
View(size, blocks, dds, api, rd, rerrs) ==
    /\ WellFormed(size, blocks, dds)
    /\ rerrs = 0                       \* special elements, Vdata headers, Vgroup records internally consistent (reader's structural parse)
    /\ ContentAgrees(api, rd)
    /\ nviews' = nviews + 1

\* a raw-location query (VSgetdatainfo / SDgetdatainfo / ...): with room for `cap` entries the library reports
\* `got` = the first min(cap, n) of the reader's n extents; with cap = 0 (NULL arrays) it reports n; it never
\* writes past `cap` (the driver's arrays are exactly `cap` long, under ASan)
Min(a, b) == IF a < b THEN a ELSE b
DataInfo(cap, ret, got, extents) ==
    /\ IF cap = 0 THEN ret = Len(extents)
       ELSE /\ ret = Min(cap, Len(extents))
            /\ Len(got) = ret
            /\ \A i \in 1..ret : got[i] = extents[i]
    /\ UNCHANGED nviews
=============================================================================
