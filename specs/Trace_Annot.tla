---------------------------- MODULE Trace_Annot ----------------------------
EXTENDS Annot, TraceBase
VARIABLE l
TReset == /\ st' = "init" /\ anns' = <<>> /\ wc' = 0 /\ out' = [ret |-> 0] /\ hist' = <<>>
Good(ev) ==
    LET a == ev.args  o == ev.obs IN
       \/ ev.op = "Reset" /\ TReset
       \/ /\ ev.op # "Reset"
          /\ \/ ev.op = "Setup"      /\ Setup
             \/ ev.op = "Create"     /\ Create(a.type, a.target, a.len, a.k)
             \/ ev.op = "Rewrite"    /\ Rewrite(a.type, a.index + 1, a.len, a.k)
             \/ ev.op = "FileInfo"   /\ FileInfo
             \/ ev.op = "ReadAll"    /\ ReadAll(a.type)
             \/ ev.op = "AnnList"    /\ AnnList(a.type, a.target)
             \/ ev.op = "ToDF"       /\ ToDF
             \/ ev.op = "ToAN"       /\ ToAN
             \/ ev.op = "DfPut"      /\ DfPut(a.type, a.target, a.len, a.k)
             \/ ev.op = "DfOther"    /\ DfOther(a.type, a.target, a.len, a.k)
             \/ ev.op = "DfAddFile"  /\ DfAddFile(a.type, a.len, a.k)
             \/ ev.op = "DfGet"      /\ DfGet(a.type, a.target)
                                     \* what was read is one of the object's annotations
                                     /\ (("got" \in DOMAIN o) => \E i \in 1..Len(out'.cands) : out'.cands[i] = o.got)
             \/ ev.op = "DfFileAnns" /\ DfFileAnns(a.type)
          /\ ObsOK(out', o)
TraceInit == Init /\ l = 1 /\ TLCSet(1, 1)
TraceNext ==
    /\ l <= Len(TraceLog)
    /\ IF ENABLED Good(TraceLog[l])
       THEN Good(TraceLog[l]) /\ l' = l + 1
       ELSE Reject(l) /\ l' = NextReset(l) /\ UNCHANGED vars
TraceSpec == TraceInit /\ [][TraceNext]_<<vars, l>>
TrackL == Track(l)
=============================================================================
