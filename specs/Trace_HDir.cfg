SPECIFICATION TraceSpec
CONSTANTS
  UserTags = {100}
  Refs = {1}
  Lens = {1}
  MaxRef = 65535
  NddsSet = {4}
  MaxOps = 1
  AllocCand = {}
  GenMode = FALSE
  Observers = TRUE
  KeepHist = FALSE
INVARIANTS TrackL TypeOK WriteThrough AllocFresh WalkExact
PROPERTIES OthersUntouched ReopenStable
POSTCONDITION Verdict
CHECK_DEADLOCK FALSE
