SPECIFICATION Spec
CONSTANTS
  VsCases <- NoCases
  SdCases <- NoCases
  HlCases <- HlSet
  BtCases <- NoCases
  NbCases <- NoCases
  CpCases <- NoCases
  MaxOps = 2
  KeepHist = TRUE
VIEW view
CONSTRAINT Bound
ACTION_CONSTRAINT Emit
CHECK_DEADLOCK FALSE
