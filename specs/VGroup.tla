------------------------------- MODULE VGroup -------------------------------
(***************************************************************************)
(* Vgroups as a reference graph (vgp.c, vg.c): each vgroup has a name, a   *)
(* class and an ORDERED member list of tag/ref pairs (duplicates allowed   *)
(* through Vaddtagref, refused by Vinsert); vgroups and vdatas exist in    *)
(* the file independently of membership (deleting an object leaves         *)
(* dangling members); "lone" = member of no vgroup.                        *)
(* Objects are named symbolically (G1.. vgroups in creation order, D1..    *)
(* vdatas, R1.. plain tag/refs); reference numbers are the library's       *)
(* choice and are mapped by the driver.                                    *)
(***************************************************************************)
EXTENDS Naturals, Integers, Sequences, FiniteSets, SequencesExt, TLC

CONSTANTS MaxG, NumD, Raws, Names, MaxMem, MaxOps, KeepHist

FAIL == -1
GName(i) == "G" \o ToString(i)
DName(i) == "D" \o ToString(i)
AllG == {GName(i) : i \in 1..MaxG}
AllD == {DName(i) : i \in 1..NumD}
NoName == <<0, "">>

VARIABLES st,      \* "init" | "open"
          vgs,     \* vgroup id -> [name, class, mem, att]   att \in {"", "r", "w"}
          vds,     \* set of existing vdata ids
          ng,      \* number of vgroups created so far
          out, hist
vars == <<st, vgs, vds, ng, out, hist>>
view == <<st, vgs, vds, ng>>

Log(op, args, o) == /\ out' = o
                    /\ hist' = IF KeepHist THEN Append(hist, [op |-> op, args |-> args, out |-> o])
                                           ELSE <<[op |-> op, args |-> args, out |-> o]>>
Exists(m) == m \in DOMAIN vgs \/ m \in vds \/ m \in Raws
NoneAttached == \A g \in DOMAIN vgs : vgs[g].att = ""
Writable(g) == g \in DOMAIN vgs /\ vgs[g].att = "w"
Attached(g) == g \in DOMAIN vgs /\ vgs[g].att # ""
SeqSet(s) == {s[i] : i \in 1..Len(s)}
Count(s, x) == Cardinality({i \in 1..Len(s) : s[i] = x})
\* the ids of S in creation order (G1, G2, ... / D1, D2, ...)
GOrder(S) == SelectSeq([i \in 1..MaxG |-> GName(i)], LAMBDA x : x \in S)
DOrder(S) == SelectSeq([i \in 1..NumD |-> DName(i)], LAMBDA x : x \in S)

Init == st = "init" /\ vgs = <<>> /\ vds = {} /\ ng = 0 /\ out = [ret |-> 0] /\ hist = <<>>

Setup(nd) == /\ st = "init" /\ st' = "open" /\ vds' = {DName(i) : i \in 1..nd}
         /\ Log("Setup", [nd |-> nd], [ret |-> 0])
         /\ UNCHANGED <<vgs, ng>>

\* Vattach(fid, -1, "w")
New == /\ st = "open" /\ ng < MaxG
       /\ LET g == GName(ng + 1) IN
          /\ vgs' = [x \in DOMAIN vgs \cup {g} |-> IF x = g THEN [name |-> NoName, class |-> NoName, mem |-> <<>>, att |-> "w"] ELSE vgs[x]]
          /\ Log("New", [g |-> g], [ret |-> 0])
       /\ ng' = ng + 1 /\ UNCHANGED <<st, vds>>

SetName(g, nm) == /\ st = "open" /\ Writable(g)
                  /\ vgs' = [vgs EXCEPT ![g].name = nm]
                  /\ Log("SetName", [g |-> g, name |-> nm], [ret |-> 0])
                  /\ UNCHANGED <<st, vds, ng>>
SetClass(g, nm) == /\ st = "open" /\ Writable(g)
                   /\ vgs' = [vgs EXCEPT ![g].class = nm]
                   /\ Log("SetClass", [g |-> g, name |-> nm], [ret |-> 0])
                   /\ UNCHANGED <<st, vds, ng>>

\* Vaddtagref(vg, tag, ref): appended, duplicates allowed, returns the new member count
Add(g, m) == /\ st = "open" /\ Writable(g) /\ Exists(m) /\ Len(vgs[g].mem) < MaxMem
             /\ vgs' = [vgs EXCEPT ![g].mem = Append(@, m)]
             /\ Log("Add", [g |-> g, m |-> m], [ret |-> Len(vgs[g].mem) + 1])
             /\ UNCHANGED <<st, vds, ng>>

\* Vinsert(vg, handle of a vgroup or vdata): refused when already a member; returns the member's index
Insert(g, m) == /\ st = "open" /\ Writable(g) /\ (m \in DOMAIN vgs \/ m \in vds) /\ m # g /\ Len(vgs[g].mem) < MaxMem
                /\ (m \in DOMAIN vgs) => vgs[m].att # "w" \/ TRUE
                /\ IF m \in SeqSet(vgs[g].mem)
                   THEN /\ Log("Insert", [g |-> g, m |-> m], [ret |-> FAIL]) /\ UNCHANGED vgs
                   ELSE /\ vgs' = [vgs EXCEPT ![g].mem = Append(@, m)]
                        /\ Log("Insert", [g |-> g, m |-> m], [ret |-> Len(vgs[g].mem)])
                /\ UNCHANGED <<st, vds, ng>>

\* Vdeletetagref(vg, tag, ref): removes the FIRST occurrence, order of the others preserved
DropFirst(s, x) == LET i == CHOOSE k \in 1..Len(s) : s[k] = x /\ \A j \in 1..(k - 1) : s[j] # x IN
                     SubSeq(s, 1, i - 1) \o SubSeq(s, i + 1, Len(s))
DelRef(g, m) == /\ st = "open" /\ Writable(g) /\ (m \in AllG \cup AllD \cup Raws)
                /\ IF m \in SeqSet(vgs[g].mem)
                   THEN /\ vgs' = [vgs EXCEPT ![g].mem = DropFirst(@, m)]
                        /\ Log("DelRef", [g |-> g, m |-> m], [ret |-> 0])
                   ELSE /\ Log("DelRef", [g |-> g, m |-> m], [ret |-> FAIL]) /\ UNCHANGED vgs
                /\ UNCHANGED <<st, vds, ng>>

Detach(g) == /\ st = "open" /\ Attached(g)
             /\ vgs' = [vgs EXCEPT ![g].att = ""]
             /\ Log("Detach", [g |-> g], [ret |-> 0])
             /\ UNCHANGED <<st, vds, ng>>
Attach(g, m) == /\ st = "open" /\ g \in DOMAIN vgs /\ vgs[g].att = ""
                /\ vgs' = [vgs EXCEPT ![g].att = m]
                /\ Log("Attach", [g |-> g, mode |-> m], [ret |-> 0, n |-> Len(vgs[g].mem)])
                /\ UNCHANGED <<st, vds, ng>>

\* Vdelete(fid, ref): the vgroup is gone; memberships elsewhere are not touched
DeleteG(g) == /\ st = "open" /\ g \in DOMAIN vgs /\ vgs[g].att = ""
              /\ vgs' = [x \in DOMAIN vgs \ {g} |-> vgs[x]]
              /\ Log("DeleteG", [g |-> g], [ret |-> 0])
              /\ UNCHANGED <<st, vds, ng>>
\* VSdelete(fid, ref)
DeleteD(d) == /\ st = "open" /\ d \in vds
              /\ vds' = vds \ {d}
              /\ Log("DeleteD", [d |-> d], [ret |-> 0])
              /\ UNCHANGED <<st, vgs, ng>>

\* through an attached handle: name, class, ordered member list, membership tests
Info(g) == /\ st = "open" /\ Attached(g)
           \* (agree: the member list asked for one member at a time, in a shorter request, and as per-tag counts is the same list)
           /\ Log("Info", [g |-> g], [name |-> vgs[g].name, class |-> vgs[g].class, mem |-> vgs[g].mem, n |-> Len(vgs[g].mem), agree |-> TRUE])
           /\ UNCHANGED <<st, vgs, vds, ng>>
Inq(g, m) == /\ st = "open" /\ Attached(g) /\ (m \in AllG \cup AllD \cup Raws)
             /\ Log("Inq", [g |-> g, m |-> m], [member |-> m \in SeqSet(vgs[g].mem)])
             /\ UNCHANGED <<st, vgs, vds, ng>>

\* file-level queries (generated when nothing is attached, so they see the stored state)
MembersOfAny == UNION {SeqSet(vgs[g].mem) : g \in DOMAIN vgs}
Lone == /\ st = "open" /\ NoneAttached
        /\ Log("Lone", [a |-> 0], [vg |-> GOrder(DOMAIN vgs \ MembersOfAny), vs |-> DOrder(vds \ MembersOfAny)])
        /\ UNCHANGED <<st, vgs, vds, ng>>
Iterate == /\ st = "open" /\ NoneAttached
           /\ Log("Iterate", [a |-> 0], [vg |-> GOrder(DOMAIN vgs), vs |-> DOrder(vds)])
           /\ UNCHANGED <<st, vgs, vds, ng>>
Find(nm) == /\ st = "open" /\ NoneAttached /\ nm # NoName
            /\ Cardinality({g \in DOMAIN vgs : vgs[g].name = nm}) <= 1
            /\ Log("Find", [name |-> nm], [found |-> IF \E g \in DOMAIN vgs : vgs[g].name = nm
                                                  THEN CHOOSE g \in DOMAIN vgs : vgs[g].name = nm ELSE "none"])
            /\ UNCHANGED <<st, vgs, vds, ng>>
\* a file-level scan (Vlone attaches every vgroup internally) while vgroups are attached and edited: what
\* it reports then is not stated (it may or may not see unsaved edits), but it must not disturb them
Peek == /\ st = "open" /\ ~NoneAttached
        /\ Log("Peek", [a |-> 0], [ret |-> 0])
        /\ UNCHANGED <<st, vgs, vds, ng>>
\* a second Vattach of a vgroup that is already attached, released again at once
Reattach(g, m) == /\ st = "open" /\ Attached(g)
                  /\ Log("Reattach", [g |-> g, mode |-> m], [ret |-> 0])
                  /\ UNCHANGED <<st, vgs, vds, ng>>

Reopen == /\ st = "open" /\ NoneAttached
          /\ Log("Reopen", [a |-> 0], [ret |-> 0])
          /\ UNCHANGED <<st, vgs, vds, ng>>

Members == AllG \cup AllD \cup Raws
Next == \/ Setup(NumD) \/ New \/ Lone \/ Iterate \/ Reopen \/ Peek
        \/ \E g \in AllG, m \in {"r", "w"} : Reattach(g, m)
        \/ \E g \in AllG, nm \in Names : SetName(g, nm) \/ SetClass(g, nm)
        \/ \E g \in AllG, m \in Members : Add(g, m) \/ Insert(g, m) \/ DelRef(g, m) \/ Inq(g, m)
        \/ \E g \in AllG : Detach(g) \/ DeleteG(g) \/ Info(g)
        \/ \E g \in AllG, m \in {"r", "w"} : Attach(g, m)
        \/ \E d \in AllD : DeleteD(d)
        \/ \E nm \in Names : Find(nm)
Spec == Init /\ [][Next]_vars

---------------------------------------------------------------------------
\* ordered delete removes exactly one occurrence and keeps the order of the rest
DelOne == [][(hist' # hist /\ hist' # <<>> /\ hist'[Len(hist')].op = "DelRef" /\ hist'[Len(hist')].out.ret = 0) =>
               LET e == hist'[Len(hist')] IN
                 /\ Len(vgs'[e.args.g].mem) = Len(vgs[e.args.g].mem) - 1
                 /\ \A x \in Members : Count(vgs'[e.args.g].mem, x) = Count(vgs[e.args.g].mem, x) - (IF x = e.args.m THEN 1 ELSE 0)]_vars
\* Vinsert never creates a duplicate
InsertNoDup == [][(hist' # hist /\ hist' # <<>> /\ hist'[Len(hist')].op = "Insert" /\ hist'[Len(hist')].out.ret # FAIL) =>
                    Count(vgs'[hist'[Len(hist')].args.g].mem, hist'[Len(hist')].args.m) = 1]_vars
\* lone sets are exactly the non-members
LoneOK == (hist # <<>> /\ hist[Len(hist)].op = "Lone") =>
            \A g \in DOMAIN vgs : (g \in SeqSet(hist[Len(hist)].out.vg)) <=> ~\E h \in DOMAIN vgs : g \in SeqSet(vgs[h].mem)
Bound == Len(hist) < MaxOps
=============================================================================
