SPECIFICATION Spec
CONSTANTS
  MaxIds = 5
  MaxOps = 1000
  KeepHist = FALSE
VIEW view
CONSTRAINT Bound
INVARIANTS CacheCoherent NoDupCache LookupAbstract FreshIds
CHECK_DEADLOCK FALSE
