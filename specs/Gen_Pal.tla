---------------------------- MODULE Gen_Pal ----------------------------
EXTENDS Pal, Json, CSV, IOUtils
Ev(o, a, x) == [op |-> o, args |-> a, out |-> x]
\* epilogue: forget the position, count, then read every palette in descriptor order (each under IP8 and, after
\* the last one, once more through the aliases)
Audit == <<Ev("Restart", [a |-> 0], [ret |-> 0]),
           Ev("Count", [a |-> 0], [n |-> Cardinality(Refs(dds')), lastref |-> lastref'])>>
         \o [i \in 1..Cardinality(Refs(dds')) |->
                LET ip == SelectSeq(dds', LAMBDA e : e[1] = "IP8") IN
                Ev("Get", [a |-> 0], [ret |-> 0, seed |-> pal'[ip[i][2]], lastref |-> ip[i][2]])]
EmitAudited == (exists') =>
    CSVWrite("%1$s", <<ToJson([spec |-> "Pal", steps |-> hist' \o Audit])>>, IOEnv.GEN_OUT)
EmitFull == (Len(hist') = MaxOps) => EmitAudited
BoundGen == Len(hist) <= MaxOps
Small == wc <= 4
=============================================================================
