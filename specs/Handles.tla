------------------------------ MODULE Handles ------------------------------
(***************************************************************************)
(* Identifier safety across the interfaces (property C13).                 *)
(*                                                                         *)
(* The library issues identifiers of several KINDS (file, access element,  *)
(* vgroup, vdata, SD interface, dataset, GR interface, raster image, AN    *)
(* interface (= the file id), annotation).  This module says what every call given an      *)
(* identifier must do, independently of how identifiers are numbered:      *)
(*   Acquire : returns a number that designates the requested object until *)
(*             released; it is not the number of any live identifier of    *)
(*             the same kind                                               *)
(*   Use     : a kind-specific inquiry; succeeds, and names the right       *)
(*             object, exactly when the number is a live identifier of     *)
(*             that kind; any other number yields the failure value        *)
(*   Release : succeeds exactly once per acquisition                       *)
(* Numbers are the implementation's choice: generated behaviours name      *)
(* handles symbolically (h1, h2, ...) and the recorded numbers are bound   *)
(* in trace validation.                                                    *)
(*                                                                         *)
(* Objects are named "f:obj" (file and object), pre-created by the driver  *)
(* with unique contents, so that "designates the wrong object" is visible. *)
(***************************************************************************)
EXTENDS Naturals, Integers, Sequences, FiniteSets, TLC

CONSTANTS Files,       \* {"f1","f2"}
          HNames,      \* symbolic handle names used by the generator
          MaxOps, KeepHist,
          GenMode      \* TRUE: numbers are unknown ("any"); FALSE: bound from the trace

FAIL == -1
ANY  == -8
\* kind -> parent kind ("" = acquired from a path)
\* (the AN interface id returned by ANstart IS the file id, so it is not a kind of its own)
ParentKind == [fid |-> "", aid |-> "fid", vg |-> "fid", vs |-> "fid", gr |-> "fid", ri |-> "gr",
               ann |-> "fid", sd |-> "", sds |-> "sd"]
Kinds == DOMAIN ParentKind
\* objects a handle of each kind can be acquired for (per file)
ObjsOf == [fid |-> {"r", "w"}, aid |-> {"e1", "e2", "e3", "e4"}, vg |-> {"vg1", "vg2"}, vs |-> {"vd1", "vd2"}, gr |-> {"gr"},
           ri |-> {"im1", "im2"}, ann |-> {"lab1"}, sd |-> {"sd"}, sds |-> {"s1", "s2"}]

VARIABLES hs,      \* symbolic handle name -> [kind, num, file, obj, parent, live]
          out, hist
vars == <<hs, out, hist>>

Log(op, args, o) == /\ out' = o
                    /\ hist' = IF KeepHist THEN Append(hist, [op |-> op, args |-> args, out |-> o])
                                           ELSE <<[op |-> op, args |-> args, out |-> o]>>

Live(h)       == h \in DOMAIN hs /\ hs[h].live
LiveOfKind(k) == {h \in DOMAIN hs : hs[h].live /\ hs[h].kind = k}
Children(h)   == {c \in DOMAIN hs : hs[c].live /\ hs[c].parent = h}
Ident(h)      == hs[h].file \o ":" \o (IF hs[h].kind = "fid" THEN "file" ELSE hs[h].obj)

\* a released handle's NUMBER may have been re-issued to a newer handle of the same kind: then it
\* legitimately designates the newer object.  Stale uses are only judged when that is not the case.
StaleOK(h) == GenMode \/ ~\E x \in LiveOfKind(hs[h].kind) : hs[x].num = hs[h].num

\* using a handle of kind k2 in a call of kind k: must fail -- unless the number happens to be a live
\* identifier of kind k (only possible between kinds sharing a numbering scheme; bound from the trace)
WrongKindJudged(k, h) == GenMode \/ ~\E x \in LiveOfKind(k) : hs[x].num = hs[h].num

Init == hs = <<>> /\ out = [ret |-> 0] /\ hist = <<>>

\* acquire a handle of kind k for object o (of file f, or of the parent handle's file).
\* n is the number the library returned (ANY when generating).
Acquire(h, k, p, f, o, n) ==
    /\ h \notin DOMAIN hs
    /\ o \in ObjsOf[k]
    /\ IF ParentKind[k] = "" THEN p = "" ELSE (Live(p) /\ hs[p].kind = ParentKind[k] /\ f = hs[p].file)
    \* at most one SD / GR / AN interface handle per open file in the generated programs
    /\ (k = "gr") => ~\E x \in LiveOfKind(k) : hs[x].parent = p
    /\ (k = "sd") => ~\E x \in LiveOfKind("sd") : hs[x].file = f
    \* the same vdata is attached at most once (multiple attachment: see VSAttachTwice)
    /\ (k = "vs") => ~\E x \in LiveOfKind("vs") : hs[x].file = f /\ hs[x].obj = o
    \* an annotation has ONE id however often it is selected: at most one handle on it at a time
    /\ (k = "ann") => ~\E x \in DOMAIN hs : hs[x].kind = "ann" /\ hs[x].file = f
    /\ (k = "sds") => ~\E x \in LiveOfKind("sds") : hs[x].file = f /\ hs[x].obj = o
    /\ n # FAIL
    /\ GenMode \/ \A x \in LiveOfKind(k) : hs[x].num # n          \* never the number of a live id of that kind
    /\ hs' = [x \in DOMAIN hs \cup {h} |-> IF x = h THEN [kind |-> k, num |-> n, file |-> f, obj |-> o, parent |-> p, live |-> TRUE]
                                                     ELSE hs[x]]
    /\ Log("Acquire", [h |-> h, kind |-> k, parent |-> p, file |-> f, obj |-> o], [ret |-> IF GenMode THEN ANY ELSE n])

\* acquiring through a parent that has been released must fail
AcquireDead(h, k, p, o) ==
    /\ h \notin DOMAIN hs /\ p \in DOMAIN hs /\ ~hs[p].live /\ hs[p].kind = ParentKind[k] /\ o \in ObjsOf[k]
    /\ StaleOK(p)
    /\ Log("AcquireDead", [h |-> h, kind |-> k, parent |-> p, obj |-> o], [ret |-> FAIL])
    /\ UNCHANGED hs

\* a kind-k inquiry through handle h
Use(k, h) ==
    /\ h \in DOMAIN hs
    /\ IF hs[h].live /\ hs[h].kind = k
       THEN Log("Use", [kind |-> k, h |-> h], [ret |-> Ident(h)])
       ELSE /\ hs[h].live \/ hs[h].kind # k \/ StaleOK(h)
            /\ (~hs[h].live /\ hs[h].kind = k) => StaleOK(h)
            /\ WrongKindJudged(k, h)
            /\ Log("Use", [kind |-> k, h |-> h], [ret |-> "FAIL"])
    /\ UNCHANGED hs

\* release through handle h with the kind-k release call
Release(k, h) ==
    /\ h \in DOMAIN hs
    /\ IF hs[h].live /\ hs[h].kind = k
       THEN \* children are released first in generated programs, except the Hclose-with-attached-AID rule
            IF Children(h) = {}
            THEN /\ hs' = [hs EXCEPT ![h].live = FALSE]
                 /\ Log("Release", [kind |-> k, h |-> h], [ret |-> 0])
            ELSE \* (only the LAST open of a path refuses to close; closing one of several opens while
                 \*  handles obtained through it are live is not generated)
                 /\ k = "fid" /\ \E c \in Children(h) : hs[c].kind \in {"aid", "vs"}
                 /\ ~\E x \in LiveOfKind("fid") : x # h /\ hs[x].file = hs[h].file
                 /\ ~\E x \in LiveOfKind("sd") : hs[x].file = hs[h].file
                 /\ Log("Release", [kind |-> k, h |-> h], [ret |-> FAIL])     \* the close fails, the file stays usable
                 /\ UNCHANGED hs
       ELSE /\ (~hs[h].live /\ hs[h].kind = k) => StaleOK(h)
            /\ WrongKindJudged(k, h)
            /\ Log("Release", [kind |-> k, h |-> h], [ret |-> FAIL])
            /\ UNCHANGED hs

\* Vinsert(vgroup of one file, vgroup of ANOTHER file): an identifier from another file must be refused
CrossInsert(h1, h2) ==
    /\ Live(h1) /\ Live(h2) /\ hs[h1].kind = "vg" /\ hs[h2].kind = "vg" /\ hs[h1].file # hs[h2].file
    /\ Log("CrossInsert", [h |-> h1, h2 |-> h2], [ret |-> FAIL])
    /\ UNCHANGED hs

\* a number that was never issued: -1, 0, a live number +- 1, an arbitrary one
UseBogus(k, which) ==
    \* number+1 is only tried for kinds whose numbers the library does not also issue to itself
    \* (it opens files, access elements, vgroups and vdatas internally on behalf of SD/GR/VS objects)
    /\ (which = "plus1" => k \in {"sd", "sds", "ri", "ann"})
    /\ Log("UseBogus", [kind |-> k, which |-> which], [ret |-> "FAIL"])
    /\ UNCHANGED hs

\* everything released: the library must behave as freshly started (the driver re-runs a canonical
\* workload and compares with the result of a fresh process)
Quiesce ==
    /\ \A h \in DOMAIN hs : ~hs[h].live
    /\ Log("Quiesce", [a |-> 0], [ret |-> "same"])
    /\ UNCHANGED hs

FreeName == CHOOSE h \in HNames : h \notin DOMAIN hs
Next ==
    \/ \E k \in Kinds, f \in Files, o \in UNION {ObjsOf[x] : x \in Kinds}, p \in DOMAIN hs \cup {""} :
          HNames \ DOMAIN hs # {} /\ Acquire(FreeName, k, p, f, o, ANY)
    \/ \E k \in Kinds, o \in UNION {ObjsOf[x] : x \in Kinds}, p \in DOMAIN hs :
          HNames \ DOMAIN hs # {} /\ AcquireDead(FreeName, k, p, o)
    \/ \E k \in Kinds, h \in DOMAIN hs : Use(k, h)
    \/ \E k \in Kinds, h \in DOMAIN hs : Release(k, h)
    \* (number+1 is not tried for file ids: the SD interface opens files internally, so the neighbour
    \*  of a file id may have been issued to the library itself)
    \/ \E k \in Kinds, w \in {"minus1", "zero", "plus1", "big"} : UseBogus(k, w)
    \/ \E h1 \in DOMAIN hs, h2 \in DOMAIN hs : CrossInsert(h1, h2)
    \/ Quiesce
Spec == Init /\ [][Next]_vars

---------------------------------------------------------------------------
\* concurrently valid identifiers of one kind are pairwise distinct numbers (checked on bound traces)
NoAlias == GenMode \/ \A a, b \in DOMAIN hs : (a # b /\ hs[a].live /\ hs[b].live /\ hs[a].kind = hs[b].kind) => hs[a].num # hs[b].num
\* a live handle's parent is live
ParentsLive == \A h \in DOMAIN hs : (hs[h].live /\ hs[h].parent # "") => Live(hs[h].parent)
Bound == Len(hist) < MaxOps
=============================================================================
