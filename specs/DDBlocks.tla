------------------------------ MODULE DDBlocks ------------------------------
(***************************************************************************)
(* The storage-aware refinement of HDir: the tag/ref directory as the      *)
(* library keeps it -- a chain of descriptor (DD) blocks of `ndds` slots,  *)
(* each block with a dirty flag in memory and an image in the file that    *)
(* carries the link to the next block (hfiledd.c: HTPcreate / HTPdelete /  *)
(* HTInew_dd_block / HTPsync / HTPstart, hfile.c: Hcache / Hsync / Hclose).*)
(*                                                                         *)
(* Every action is the HDir action of the same call conjoined with what    *)
(* the call does to the blocks, so the module refines HDir by construction *)
(* (same calls, same expected observations) and adds what HDir cannot say: *)
(*   - a new descriptor goes into the first empty slot in chain order; a   *)
(*     new block is chained when there is none;                            *)
(*   - with DD caching a change only marks its block dirty and the file    *)
(*     sees it at the next flush (Hsync, Hcache(off), Hclose); without     *)
(*     caching the one descriptor is written through;                      *)
(*   - a new block is written to the file at once as an empty block; the   *)
(*     link to it lives in the PREVIOUS block, which must therefore be     *)
(*     marked dirty too (or written through);                              *)
(*   - the library's own version descriptor (tag 30) takes the first empty *)
(*     slot at the first Hclose after an element was accessed.             *)
(* What TLC checks here is that this algorithm implements HDir's one-line  *)
(* rule "the file holds the directory after every flush" (FileHoldsDisk),  *)
(* and the module is the generator of the histories that matter for it:    *)
(* one behaviour per transition of the block-level state graph (blocks     *)
(* exactly full, clean or dirty, cached or not, at the moment the next     *)
(* descriptor is needed).                                                  *)
(***************************************************************************)
EXTENDS HDir

CONSTANT DirtyPrev     \* TRUE: the code's rule (the previous block is marked dirty when a block is chained behind it);
                       \* FALSE: only the new block is marked -- kept to show that FileHoldsDisk then fails

VARIABLES mb,    \* the blocks in memory: sequence of [slots : sequence of keys / NIL, dirty : BOOLEAN]
          db,    \* the blocks in the file: sequence of [slots, next] ; next = position of the next block or 0
          ver    \* the version descriptor: "none" | "pending" (an element was accessed; stored at close) | "stored"
bvars == <<vars, mb, db, ver>>
bview == <<st, mem, disk, cache, ndds, mb, db, ver>>

NIL  == <<0, 0>>
VKEY == <<30, 1>>
EmptySlots == [i \in 1..ndds |-> NIL]
EmptySlotsN(n) == [i \in 1..n |-> NIL]

\* first empty slot in chain order: <<block, slot>> or <<0, 0>>
Free(blks) == {<<b, i>> : b \in 1..Len(blks), i \in 1..ndds} \cap {p \in (1..Len(blks)) \X (1..ndds) : blks[p[1]].slots[p[2]] = NIL}
FirstFree(blks) == IF Free(blks) = {} THEN <<0, 0>>
                   ELSE CHOOSE p \in Free(blks) : \A q \in Free(blks) : p[1] < q[1] \/ (p[1] = q[1] /\ p[2] <= q[2])

\* HTInew_dd_block + the placement of key k in its first slot
\* returns <<mb', db'>>
WithNewBlock(m, d, k) ==
    LET n  == Len(m) + 1
        nb == [slots |-> [EmptySlots EXCEPT ![1] = k], dirty |-> cache]
        m1 == IF cache /\ DirtyPrev THEN [m EXCEPT ![n - 1].dirty = TRUE] ELSE m
        \* the file: the new block is written at once as an empty block; without caching the link in the previous
        \* block and the one new descriptor are written through as well
        d0 == Append(d, [slots |-> EmptySlots, next |-> 0])
        d1 == IF cache THEN d0 ELSE [d0 EXCEPT ![n - 1].next = n, ![n].slots[1] = k]
    IN <<Append(m1, nb), d1>>

\* HTPcreate: descriptor for a new key
Place(m, d, k) ==
    LET p == FirstFree(m) IN
    IF p = <<0, 0>> THEN WithNewBlock(m, d, k)
    ELSE <<[m EXCEPT ![p[1]].slots[p[2]] = k, ![p[1]].dirty = (@ \/ cache)],
           IF cache THEN d ELSE [d EXCEPT ![p[1]].slots[p[2]] = k]>>

Where(m, k) == CHOOSE p \in (1..Len(m)) \X (1..ndds) : m[p[1]].slots[p[2]] = k
\* HTPdelete
Unplace(m, d, k) ==
    LET p == Where(m, k) IN
    <<[m EXCEPT ![p[1]].slots[p[2]] = NIL, ![p[1]].dirty = (@ \/ cache)],
      IF cache THEN d ELSE [d EXCEPT ![p[1]].slots[p[2]] = NIL]>>

\* HTPsync: every dirty block is written (header with its link, and all its descriptors)
Flushed(m, d) ==
    <<[b \in 1..Len(m) |-> [m[b] EXCEPT !.dirty = FALSE]],
      [b \in 1..Len(d) |-> IF b <= Len(m) /\ m[b].dirty
                           THEN [slots |-> m[b].slots, next |-> IF b < Len(m) THEN b + 1 ELSE 0]
                           ELSE d[b]]>>

\* HTPstart: the blocks an opening process finds by following the links from the first block
RECURSIVE ChainFrom(_, _, _)
ChainFrom(d, b, fuel) == IF b = 0 \/ fuel = 0 THEN <<>> ELSE <<b>> \o ChainFrom(d, d[b].next, fuel - 1)
Chain(d) == ChainFrom(d, 1, Len(d))
KeysIn(slotsSeq) == {slotsSeq[i] : i \in 1..Len(slotsSeq)} \ {NIL, VKEY}
MemKeys  == UNION {KeysIn(mb[b].slots) : b \in 1..Len(mb)}
FileKeys == LET ch == Chain(db) IN UNION {KeysIn(db[ch[j]].slots) : j \in 1..Len(ch)}

Touch == ver' = IF ver = "none" THEN "pending" ELSE ver

BInit == Init /\ mb = <<>> /\ db = <<>> /\ ver = "none"

BCreate(nd, c) ==
    /\ Create(nd, c)
    /\ mb' = <<[slots |-> EmptySlotsN(nd), dirty |-> FALSE]>>
    /\ db' = <<[slots |-> EmptySlotsN(nd), next |-> 0]>>
    /\ ver' = "none"

BPut(t, r, n) ==
    /\ Put(t, r, n)
    /\ IF <<t, r>> \in Keys(mem)
       THEN UNCHANGED <<mb, db>>
       ELSE LET x == Place(mb, db, <<t, r>>) IN mb' = x[1] /\ db' = x[2]
    /\ Touch

BPutExt(t, r, n) ==
    /\ t < 32768
    /\ PutExt(t, r, n)
    /\ LET x == Place(mb, db, <<t, r>>) IN mb' = x[1] /\ db' = x[2]
    /\ Touch

BDel(t, r) ==
    /\ Del(t, r)
    /\ IF <<t, r>> \in Keys(mem)
       THEN LET x == Unplace(mb, db, <<t, r>>) IN mb' = x[1] /\ db' = x[2]
       ELSE UNCHANGED <<mb, db>>
    /\ UNCHANGED ver

BDup(t, r, ot, or) ==
    /\ Dup(t, r, ot, or)
    /\ IF <<ot, or>> \in Keys(mem) /\ <<t, r>> \notin Keys(mem)
       THEN LET x == Place(mb, db, <<t, r>>) IN mb' = x[1] /\ db' = x[2]
       ELSE UNCHANGED <<mb, db>>
    /\ UNCHANGED ver

BSync ==
    /\ Sync
    /\ LET x == Flushed(mb, db) IN mb' = x[1] /\ db' = x[2]
    /\ UNCHANGED ver

BSetCache(c) ==
    /\ SetCache(c)
    /\ IF c THEN UNCHANGED <<mb, db>>
       ELSE LET x == Flushed(mb, db) IN mb' = x[1] /\ db' = x[2]
    /\ UNCHANGED ver

\* Hclose (version descriptor first, then the flush), Hopen (the chain is read from the file)
BReopen(c) ==
    /\ Reopen(c)
    /\ LET x == IF ver = "pending" THEN Place(mb, db, VKEY) ELSE <<mb, db>>
           y == Flushed(x[1], x[2])
           ch == Chain(y[2]) IN
       /\ db' = y[2]
       /\ mb' = [j \in 1..Len(ch) |-> [slots |-> y[2][ch[j]].slots, dirty |-> FALSE]]
    /\ ver' = IF ver = "pending" THEN "stored" ELSE ver

BNext ==
    \/ \E nd \in NddsSet, c \in BOOLEAN : BCreate(nd, c)
    \/ \E t \in UserTags, r \in Refs, n \in Lens : BPut(t, r, n)
    \/ \E t \in UserTags, r \in Refs, n \in Lens : BPutExt(t, r, n)
    \/ \E t \in UserTags, r \in Refs : BDel(t, r)
    \/ \E t \in UserTags, r \in Refs, ot \in UserTags, or \in Refs : BDup(t, r, ot, or)
    \/ \E c \in BOOLEAN : BSetCache(c)
    \/ \E c \in BOOLEAN : BReopen(c)
    \/ BSync

BSpec == BInit /\ [][BNext]_bvars
\* (at the level of the blocks PutExt and Dup do what Put does: the design check and the cover generator leave them out)
BCore ==
    \/ \E nd \in NddsSet, c \in BOOLEAN : BCreate(nd, c)
    \/ \E t \in UserTags, r \in Refs, n \in Lens : BPut(t, r, n)
    \/ \E t \in UserTags, r \in Refs : BDel(t, r)
    \/ \E c \in BOOLEAN : BSetCache(c)
    \/ \E c \in BOOLEAN : BReopen(c)
    \/ BSync
BCoreSpec == BInit /\ [][BCore]_bvars

---------------------------------------------------------------------------
\* the blocks in memory hold exactly the directory the open file reports
MemIsMem == (st = "open") => MemKeys = Keys(mem)
\* the blocks reachable in the file hold exactly the directory HDir says is persisted
FileHoldsDisk == (st = "open") => FileKeys = Keys(disk)
\* every block allocated in the file is reachable once nothing is dirty
NoOrphans == (st = "open" /\ \A b \in 1..Len(mb) : ~mb[b].dirty) => Len(Chain(db)) = Len(db)
BBound == Len(hist) < MaxOps
=============================================================================
