SPECIFICATION Spec
CONSTANTS
  Shapes <- ShapesSim
  Layouts <- LTypes
  Starts <- StartsSim3
  Counts = {1, 2}
  Strides = {1, 2}
  MaxExt = 7
  DataMod = 7
  MaxOps = 16
  KeepHist = TRUE
ACTION_CONSTRAINT EmitFull
CHECK_DEADLOCK FALSE
