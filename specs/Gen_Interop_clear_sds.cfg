SPECIFICATION Spec
CONSTANTS
  SdsWriters = {"DFSD", "DFSDS", "SD", "NC"}
  RasWriters = {}
  Shapes <- ShapesA
  Types = {"i8", "u16", "f32", "f64", "uc8"}
  RasDims <- RDimsNone
  ScaleSets <- ScalesNo
  Grows = {}
  MaxObjs = 6
  MaxOps = 5
  Mix = FALSE
  KeepHist = TRUE
CONSTRAINT Bound
ACTION_CONSTRAINT EmitAudited
CHECK_DEADLOCK FALSE
