---------------------------- MODULE MC_Comp ----------------------------
EXTENDS Comp
CodersMC == {<<"rle", 0>>}
ChunksMC == {<<"run", 2>>, <<"ctr", 1>>}
CodersAll == {<<"none", 0>>, <<"rle", 0>>, <<"skphuff", 1>>, <<"skphuff", 2>>, <<"skphuff", 3>>, <<"skphuff", 4>>, <<"skphuff", 5>>, <<"skphuff", 7>>, <<"skphuff", 8>>, <<"deflate", 0>>, <<"deflate", 1>>, <<"deflate", 6>>, <<"deflate", 9>>}
ChunksSmall == {<<"run", 1>>, <<"run", 3>>, <<"alt", 4>>, <<"ctr", 5>>}
ChunksBig == {<<"run", 1>>, <<"run", 2>>, <<"run", 3>>, <<"run", 126>>, <<"run", 127>>, <<"run", 128>>, <<"run", 129>>, <<"run", 130>>, <<"run", 131>>,
              <<"alt", 2>>, <<"alt", 127>>, <<"alt", 128>>, <<"alt", 129>>, <<"ctr", 1>>, <<"ctr", 4>>, <<"ctr", 127>>, <<"ctr", 128>>, <<"ctr", 200>>}
=============================================================================
