SPECIFICATION Spec
CONSTANTS
  MaxG = 2
  NumD = 1
  Raws = {"R1"}
  Names <- NamesSmall
  MaxMem = 2
  MaxOps = 100
  KeepHist = FALSE
VIEW view
INVARIANTS LoneOK
PROPERTIES DelOne InsertNoDup
CHECK_DEADLOCK FALSE
