SPECIFICATION Spec
CONSTANTS
  WRefs = {3}
  MaxPals = 3
  MaxOps = 9
  KeepHist = TRUE
VIEW view
CONSTRAINT Small
CONSTRAINT BoundGen
ACTION_CONSTRAINT EmitAudited
CHECK_DEADLOCK FALSE
