\* datasets with an unlimited dimension that gain records in later sessions (1 or 3 at a time, up to twice), next to
\* a second dataset (fixed or unlimited), listed through SD and DFSD in between and at the end
SPECIFICATION Spec
CONSTANTS
  SdsWriters = {"SD"}
  RasWriters = {}
  Shapes <- ShapesA
  Types = {"i16", "f64"}
  RasDims <- RDimsNone
  ScaleSets <- ScalesNo
  Grows = {1, 3}
  MaxObjs = 6
  MaxOps = 5
  Mix = FALSE
  KeepHist = TRUE
CONSTRAINT Bound
ACTION_CONSTRAINT EmitAudited
CHECK_DEADLOCK FALSE
