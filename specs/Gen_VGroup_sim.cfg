SPECIFICATION Spec
CONSTANTS
  MaxG = 4
  NumD = 2
  Raws = {"R1", "R2"}
  Names <- NamesGen
  MaxMem = 12
  MaxOps = 30
  KeepHist = TRUE
ACTION_CONSTRAINT EmitFull
CHECK_DEADLOCK FALSE
