SPECIFICATION Spec
CONSTANTS
  Shapes <- ShapesMC
  Layouts <- LayoutsMC
  Starts <- StartsMC
  Counts = {1, 2, 3}
  Strides = {1, 2}
  MaxExt = 3
  DataMod = 1
  MaxOps = 100
  KeepHist = FALSE
VIEW view
INVARIANTS ReadsCells
PROPERTIES RefusedLocal ExtentMonotone
CHECK_DEADLOCK FALSE
