\* the library's original allocation rule (before bc93373): must VIOLATE StableDesignation (ids alias after the wrap)
SPECIFICATION Spec
CONSTANTS
  MaxIds = 4
  MaxOps = 1000
  KeepHist = FALSE
  IdSpace = 4
  Objs = {1}
  SkipLive = FALSE
  NeedBurn = FALSE
  MustBurn = FALSE
VIEW view
CONSTRAINT Bound
PROPERTY StableDesignation
CHECK_DEADLOCK FALSE
