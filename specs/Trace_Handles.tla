---------------------------- MODULE Trace_Handles ----------------------------
EXTENDS Handles, TraceBase
VARIABLE l
TReset == hs' = <<>> /\ out' = [ret |-> 0] /\ hist' = <<>>
Good(ev) ==
    LET a == ev.args  o == ev.obs IN
       \/ ev.op = "Reset" /\ TReset
       \/ /\ ev.op # "Reset"
          /\ \/ ev.op = "Acquire"     /\ Acquire(a.h, a.kind, a.parent, a.file, a.obj, o.ret)
             \/ ev.op = "AcquireDead" /\ AcquireDead(a.h, a.kind, a.parent, a.obj)
             \/ ev.op = "Use"         /\ Use(a.kind, a.h)
             \/ ev.op = "Release"     /\ Release(a.kind, a.h)
             \/ ev.op = "UseBogus"    /\ UseBogus(a.kind, a.which)
             \/ ev.op = "CrossInsert" /\ CrossInsert(a.h, a.h2)
             \/ ev.op = "Quiesce"     /\ Quiesce
          /\ ObsOK(out', o)
TraceInit == Init /\ l = 1 /\ TLCSet(1, 1)
TraceNext ==
    /\ l <= Len(TraceLog)
    /\ IF ENABLED Good(TraceLog[l])
       THEN Good(TraceLog[l]) /\ l' = l + 1
       ELSE Reject(l) /\ l' = NextReset(l) /\ UNCHANGED vars
TraceSpec == TraceInit /\ [][TraceNext]_<<vars, l>>
TrackL == Track(l)
=============================================================================
