SPECIFICATION Spec
CONSTANTS
  FileKinds = {"rich"}
  MaxOps = 4
  Skip = {}
  KeepHist = TRUE
CONSTRAINT BoundGen
ACTION_CONSTRAINT EmitFull
CHECK_DEADLOCK FALSE
