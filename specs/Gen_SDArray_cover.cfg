SPECIFICATION Spec
CONSTANTS
  Shapes <- ShapesSmall
  Layouts <- LContig
  Starts <- StartsMC
  Counts = {1, 2, 3}
  Strides = {1, 2}
  MaxExt = 4
  DataMod = 1
  MaxOps = 4
  KeepHist = TRUE
VIEW view
CONSTRAINT Bound
ACTION_CONSTRAINT EmitAudited
CHECK_DEADLOCK FALSE
