------------------------------- MODULE Atoms -------------------------------
(***************************************************************************)
(* The atom (identifier) manager of the library (atom.c): every id the     *)
(* library hands out -- file, access element, vgroup, vdata, raster,       *)
(* annotation ids -- is an atom.  One group is modelled (a second one only *)
(* for DestroyGroup); ids are group|counter.                               *)
(*                                                                         *)
(* The model is a transcription of the code at the grain that matters for  *)
(* C13: the hash table is abstracted to the map `live`, but the 4-entry    *)
(* most-recently-used lookup cache is modelled slot by slot, with the      *)
(* swap-toward-the-front of HAatom_object and the first-match clearing of  *)
(* HAremove_atom, because a stale cache entry is exactly how a released id *)
(* would keep designating an object.                                       *)
(***************************************************************************)
EXTENDS Naturals, Integers, Sequences, FiniteSets, TLC

CONSTANTS MaxIds,     \* bound on the id counter (state constraint)
          MaxOps, KeepHist,
          IdSpace,    \* how many different ids a group has (the code: 2^28, the low ATOM_BITS of the counter)
          SkipLive,   \* TRUE: the code's rule since bc93373 (ids still in use are skipped once the counter has wrapped);
                      \* FALSE: the original rule (id = counter mod IdSpace, whatever is live) -- kept to show it aliases
          Objs,       \* the objects offered to a registration (per id and side of the wrap)
          MustBurn,   \* TRUE (the wrap generator): nothing is registered before the Burn step
          NeedBurn    \* TRUE (generators): the counter wraps only after a Burn step (the library's id space is 2^28)

NOID == -1
NULL == 0
VARIABLES live,    \* id -> object (objects are positive integers)
          next,    \* id counter
          cache,   \* sequence of 4 records [id, obj]
          inited,  \* the group exists
          wrapped, \* the counter has run through the whole id space at least once
          burnt,   \* a Burn step has moved the counter to the last ids of the space
          out, hist
vars == <<live, next, cache, inited, wrapped, burnt, out, hist>>
view == <<live, next, cache, inited, wrapped, burnt>>

Empty == [id |-> NOID, obj |-> NULL]
Log(op, args, o) == /\ out' = o
                    /\ hist' = IF KeepHist THEN Append(hist, [op |-> op, args |-> args, out |-> o])
                                           ELSE <<[op |-> op, args |-> args, out |-> o]>>

Init == /\ live = <<>> /\ next = 0 /\ cache = [i \in 1..4 |-> Empty] /\ inited = FALSE
        /\ wrapped = FALSE /\ burnt = FALSE
        /\ out = [ret |-> 0] /\ hist = <<>>

\* HAinit_group
InitGroup == /\ ~inited /\ inited' = TRUE
             /\ Log("InitGroup", [a |-> 0], [ret |-> 0])
             /\ UNCHANGED <<live, next, cache, wrapped, burnt>>

\* HAregister_atom(grp, obj): the new id is the counter taken modulo the id space; once the counter has wrapped the ids
\* still in use are skipped (SkipLive).  The counter is the only thing a registration reads: `next` is kept normalised.
TailId == IdSpace - 3                                       \* where a Burn step leaves the counter: 3 ids before the wrap
Skip(n) == IF SkipLive /\ (wrapped \/ n = IdSpace)        \* the id issued when the (normalised) counter shows n
           THEN LET m == n % IdSpace
                    c == {k \in 0..(IdSpace - 1) : ((m + k) % IdSpace) \notin DOMAIN live} IN
                IF c = {} THEN NOID ELSE (m + (CHOOSE k \in c : \A j \in c : k <= j)) % IdSpace
           ELSE n % IdSpace
Register(obj) ==
    /\ inited
    /\ (NeedBurn /\ ~burnt) => next + 1 < IdSpace
    /\ MustBurn => burnt
    /\ LET id == Skip(next) IN
         IF id = NOID
         THEN /\ Log("Register", [obj |-> obj], [ret |-> -1]) /\ UNCHANGED <<live, next, wrapped>>
         ELSE /\ live' = [x \in DOMAIN live \cup {id} |-> IF x = id THEN obj ELSE live[x]]
              /\ next' = id + 1
              /\ wrapped' = (wrapped \/ next = IdSpace)
              /\ Log("Register", [obj |-> obj], [ret |-> id])
    /\ UNCHANGED <<cache, inited, burnt>>

\* (IdSpace - 3 - next) register/remove pairs of a throwaway object: the counter moves to the last three ids of the
\* space, nothing else changes (a removed atom that was never looked up is in no cache slot)
Burn ==
    /\ inited /\ ~burnt /\ ~wrapped /\ next <= TailId
    /\ MustBurn \/ ~NeedBurn
    /\ next' = TailId /\ burnt' = TRUE
    /\ Log("Burn", [from |-> next, space |-> IdSpace], [ret |-> 0])
    /\ UNCHANGED <<live, cache, inited, wrapped>>

Swap(c, i, j) == [c EXCEPT ![i] = c[j], ![j] = c[i]]

\* HAatom_object(id): cache slots first (a hit moves the entry one slot toward the front), then the table
Lookup(id) ==
    /\ inited
    /\ IF cache[1].id = id THEN /\ Log("Lookup", [id |-> id], [ret |-> cache[1].obj]) /\ UNCHANGED cache
       ELSE IF cache[2].id = id THEN /\ cache' = Swap(cache, 1, 2) /\ Log("Lookup", [id |-> id], [ret |-> cache[2].obj])
       ELSE IF cache[3].id = id THEN /\ cache' = Swap(cache, 2, 3) /\ Log("Lookup", [id |-> id], [ret |-> cache[3].obj])
       ELSE IF cache[4].id = id THEN /\ cache' = Swap(cache, 3, 4) /\ Log("Lookup", [id |-> id], [ret |-> cache[4].obj])
       ELSE IF id \in DOMAIN live
            THEN /\ cache' = [cache EXCEPT ![4] = [id |-> id, obj |-> live[id]]]
                 /\ Log("Lookup", [id |-> id], [ret |-> live[id]])
            ELSE /\ Log("Lookup", [id |-> id], [ret |-> NULL]) /\ UNCHANGED cache
    /\ UNCHANGED <<live, next, inited, wrapped, burnt>>

\* HAremove_atom(id): out of the table; the (single) cache entry holding it is cleared
FirstSlot(id) == IF \E i \in 1..4 : cache[i].id = id
                 THEN CHOOSE i \in 1..4 : cache[i].id = id /\ \A j \in 1..(i - 1) : cache[j].id # id ELSE 0
Remove(id) ==
    /\ inited
    /\ IF id \in DOMAIN live
       THEN /\ live' = [x \in DOMAIN live \ {id} |-> live[x]]
            /\ cache' = IF FirstSlot(id) = 0 THEN cache ELSE [cache EXCEPT ![FirstSlot(id)] = Empty]
            /\ Log("Remove", [id |-> id], [ret |-> live[id]])
       ELSE /\ Log("Remove", [id |-> id], [ret |-> NULL]) /\ UNCHANGED <<live, cache>>
    /\ UNCHANGED <<next, inited, wrapped, burnt>>

\* HAsearch_atom(grp, func, key) with func = "is this the object `obj`": the object if an atom in use designates it, NULL
\* otherwise (how Hopen recognises a file that is already open, and Hendaccess / HLconvert find the other access
\* records of an element); the lookup cache is not involved
Search(obj) ==
    /\ inited
    /\ Log("Search", [obj |-> obj], [ret |-> IF \E i \in DOMAIN live : live[i] = obj THEN obj ELSE NULL])
    /\ UNCHANGED <<live, next, cache, inited, wrapped, burnt>>

\* HAdestroy_group (last reference): everything of the group goes, including its cache entries
Destroy ==
    /\ inited /\ inited' = FALSE
    /\ live' = <<>> /\ next' = 0 /\ wrapped' = FALSE /\ burnt' = FALSE
    /\ cache' = [i \in 1..4 |-> Empty]
    /\ Log("Destroy", [a |-> 0], [ret |-> 0])

RegObj(o) == 100 + (IF wrapped \/ next = IdSpace THEN 50 ELSE 0) + (next % IdSpace) * 3 + o
\* objects registered after the wrap are different from the ones registered before it (so that aliasing shows)
Next == \/ InitGroup \/ Destroy \/ Burn
        \/ \E o \in Objs : Register(RegObj(o))
        \/ \E id \in 0..MaxIds : Lookup(id) \/ Remove(id)
        \/ \E id \in 0..MaxIds, o \in Objs : Search(100 + (id % IdSpace) * 3 + o)
Spec == Init /\ [][Next]_vars

---------------------------------------------------------------------------
\* every cached pair is live and designates the right object: a released id is never served from the cache
CacheCoherent == \A i \in 1..4 : cache[i].id # NOID => (cache[i].id \in DOMAIN live /\ live[cache[i].id] = cache[i].obj)
\* an id is cached at most once (HAremove_atom relies on it)
NoDupCache == \A i, j \in 1..4 : (i # j /\ cache[i].id # NOID) => cache[i].id # cache[j].id
\* what a lookup answers is what the abstract map says (a removed id yields NULL until re-issued)
LookupAbstract == (hist # <<>> /\ hist[Len(hist)].op = "Lookup") =>
                    LET e == hist[Len(hist)] IN
                      e.out.ret = IF e.args.id \in DOMAIN live THEN live[e.args.id] ELSE NULL
\* ids of live atoms are pairwise distinct by construction (the map); before the wrap a new id is never live
FreshIds == ~wrapped => (next % IdSpace) \notin DOMAIN live \/ next = IdSpace
\* a registration never changes what an id in use designates (the counter wrap must not alias: C13 "never alias")
StableDesignation == [][\A i \in DOMAIN live \cap DOMAIN live' :
                            (live'[i] = live[i]) \/ (hist' # <<>> /\ hist'[Len(hist')].op # "Register")]_vars
Bound == next <= MaxIds /\ Len(hist) < MaxOps
=============================================================================
