---------------------------- MODULE Trace_Faults ----------------------------
EXTENDS Faults, TraceBase
VARIABLE l
TReset == phase' = "idle" /\ delivered' = FALSE /\ reported' = FALSE /\ verdict' = "none"
Good(ev) ==
    LET a == ev.args  o == ev.obs IN
       \/ ev.op = "Reset"  /\ TReset
       \/ ev.op = "Inject" /\ Inject(a.k, a.sticky, a.short)
       \/ ev.op = "Call"   /\ Call(a.name, o.failed, o.hit)
       \/ ev.op = "End"    /\ End(o.crashed, o.hung, o.delivered, o.reported, o.identical)
TraceInit == FInit /\ l = 1 /\ TLCSet(1, 1)
TraceNext ==
    /\ l <= Len(TraceLog)
    /\ IF ENABLED Good(TraceLog[l])
       THEN Good(TraceLog[l]) /\ l' = l + 1
       ELSE Reject(l) /\ l' = NextReset(l) /\ UNCHANGED fvars
TraceSpec == TraceInit /\ [][TraceNext]_<<fvars, l>>
TrackL == Track(l)
=============================================================================
