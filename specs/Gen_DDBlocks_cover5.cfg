SPECIFICATION BCoreSpec
CONSTANTS
  UserTags = {100}
  Refs = {1, 2, 3, 4, 5}
  Lens = {2}
  MaxRef = 65535
  NddsSet = {5}
  MaxOps = 1000
  AllocCand = {}
  GenMode = TRUE
  Observers = FALSE
  KeepHist = TRUE
  DirtyPrev = TRUE
VIEW bview
ACTION_CONSTRAINT Canon EmitMatters
CHECK_DEADLOCK FALSE
