SPECIFICATION TraceSpec
CONSTANTS
  Forms = {"rel", "abs"}
  Offs = {0}
  Lens = {1}
  MaxOps = 1
  KeepHist = FALSE
INVARIANTS TrackL KnobsNeverChangeData PlainUntouched ResolveExists
POSTCONDITION Verdict
CHECK_DEADLOCK FALSE
