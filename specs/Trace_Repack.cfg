SPECIFICATION TraceSpec
CONSTANTS
  FileKinds = {}
  TSels = {}
  TTypes = {}
  CSels = {}
  CShapes = {}
  Thresholds = {}
  MaxOps = 1000
  KeepHist = FALSE
INVARIANTS TrackL TypeOK
POSTCONDITION Verdict
CHECK_DEADLOCK FALSE
