SPECIFICATION Spec
CONSTANTS
  SdsWriters = {"DFSD", "SD", "NC"}
  RasWriters = {}
  Shapes <- ShapesA
  Types = {"i8", "u8", "i16", "u16", "i32", "u32", "f32", "f64", "c8", "uc8", "li16", "lu32", "lf32", "lf64"}
  RasDims <- RDimsNone
  ScaleSets <- ScalesNo
  Grows = {}
  MaxObjs = 4
  MaxOps = 4
  Mix = TRUE
  KeepHist = TRUE
CONSTRAINT Bound
ACTION_CONSTRAINT EmitAudited
CHECK_DEADLOCK FALSE
