---------------------------- MODULE Gen_HDir ----------------------------
(* behaviour generator for HDir: every transition TLC generates is written out as one behaviour    *)
(* (the BFS-shortest history that reaches its source state, plus the transition) -- "one           *)
(* implementation test per transition of the model".  With -simulate only complete random          *)
(* behaviours of length MaxOps are written.                                                        *)
EXTENDS HDir, Json, CSV, IOUtils

Ev(o, a, x) == [op |-> o, args |-> a, out |-> x]
TagSeq == SetToSeq(UserTags)
\* the audit appended to every enumerated history: everything the property lets a user observe,
\* before and after a close/reopen, with the values the specification expects in this state
Audit(m, c) ==
    <<Ev("NewRef", [a |-> 0], [ret |-> "any", fresh |-> TRUE]), Ev("NewRef", [a |-> 0], [ret |-> "any", fresh |-> TRUE])>>
    \o [i \in 1..Len(TagSeq) |-> Ev("TagNewRef", [tag |-> TagSeq[i]], [ret |-> "any", fresh |-> TRUE])]
    \o <<Ev("Number", [tag |-> Wild], [ret |-> Count(m, Wild)])>>
    \o [i \in 1..Len(TagSeq) |-> Ev("Number", [tag |-> TagSeq[i]], [ret |-> Count(m, TagSeq[i])])]
    \o <<Ev("Walk", [tag |-> Wild, ref |-> Wild, dir |-> 0], [list |-> Listing(m, Wild, Wild)]),
         Ev("Walk", [tag |-> Wild, ref |-> Wild, dir |-> 1], [list |-> Listing(m, Wild, Wild)])>>
    \o [i \in 1..Len(TagSeq) |-> Ev("Walk", [tag |-> TagSeq[i], ref |-> Wild, dir |-> i % 2], [list |-> Listing(m, TagSeq[i], Wild)])]
    \o <<Ev("Reopen", [cache |-> c], [ret |-> OK, list |-> Listing(m, Wild, Wild)]),
         Ev("Number", [tag |-> Wild], [ret |-> Count(m, Wild)]),
         Ev("NewRef", [a |-> 0], [ret |-> "any", fresh |-> TRUE])>>
    \o [i \in 1..Len(TagSeq) |-> Ev("TagNewRef", [tag |-> TagSeq[i]], [ret |-> "any", fresh |-> TRUE])]

EmitAudited == (st' = "open") =>
    CSVWrite("%1$s", <<ToJson([spec |-> "HDir", steps |-> hist' \o Audit(mem', cache')])>>, IOEnv.GEN_OUT)
EmitAll  == CSVWrite("%1$s", <<ToJson([spec |-> "HDir", steps |-> hist'])>>, IOEnv.GEN_OUT)
EmitFull == (Len(hist') = MaxOps) => EmitAll
LenBound == Len(hist) < MaxOps
=============================================================================
