SPECIFICATION Spec
CONSTANTS
  SdsWriters = {"DFSD", "SD"}
  RasWriters = {}
  Shapes <- ShapesA
  Types = {"i16", "f32", "u8", "li16", "lf32"}
  RasDims <- RDimsNone
  ScaleSets <- ScalesAll
  Grows = {}
  MaxObjs = 6
  MaxOps = 4
  Mix = FALSE
  KeepHist = TRUE
CONSTRAINT Bound
ACTION_CONSTRAINT EmitAudited
CHECK_DEADLOCK FALSE
