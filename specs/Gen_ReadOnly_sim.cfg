SPECIFICATION Spec
CONSTANTS
  FileKinds = {"mixed", "rich"}
  MaxOps = 30
  Skip = {"SDcreate", "SDsetattr_file", "SDsetattr_sds", "SDsetattr_dim", "SDsetcal", "SDsetdatastrs", "SDsetdimname", "SDsetdimscale", "SDsetdimstrs", "SDsetfillvalue", "SDsetrange", "GRsetattr_file", "GRsetattr_ri", "ANcreate", "ANcreatef"}
  KeepHist = TRUE
ACTION_CONSTRAINT EmitFull
CHECK_DEADLOCK FALSE
