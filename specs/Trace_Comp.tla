---------------------------- MODULE Trace_Comp ----------------------------
EXTENDS Comp, TraceBase
VARIABLE l
TReset == /\ st' = "init" /\ coder' = <<>> /\ content' = <<>> /\ posn' = 0 /\ phase' = "seq" /\ newc' = <<>> /\ wmode' = FALSE /\ moved' = FALSE
          /\ wc' = 0 /\ out' = [ret |-> 0] /\ hist' = <<>>
\* a recorded write is explained by the chunk kind whose payload (for the current write counter) it is
KindOK(d, kd) == Payload(<<kd, Len(d)>>, wc + 1) = d
Good(ev) ==
    LET a == ev.args  o == ev.obs IN
       \/ ev.op = "Reset" /\ TReset
       \/ /\ ev.op # "Reset"
          /\ \/ ev.op = "Create"    /\ Create(a.coder)
             \/ ev.op = "Write"     /\ \E kd \in {"run", "alt", "ctr"} : KindOK(a.data, kd) /\
                                           (Write(<<kd, Len(a.data)>>) \/ Rewrite(<<kd, Len(a.data)>>) \/ WriteMoved(<<kd, Len(a.data)>>, o.ret # FAIL))
             \/ ev.op = "Seek"      /\ Seek(a.off)
             \/ ev.op = "Read"      /\ Read(a.n)
             \/ ev.op = "EndAccess" /\ EndAccess
             \/ ev.op = "Start"     /\ Start(a.w, a.reopen)
          /\ ObsOK(out', o)
TraceInit == Init /\ l = 1 /\ TLCSet(1, 1)
TraceNext ==
    /\ l <= Len(TraceLog)
    /\ IF ENABLED Good(TraceLog[l])
       THEN Good(TraceLog[l]) /\ l' = l + 1
       ELSE Reject(l) /\ l' = NextReset(l) /\ UNCHANGED vars
TraceSpec == TraceInit /\ [][TraceNext]_<<vars, l>>
TrackL == Track(l)
=============================================================================
