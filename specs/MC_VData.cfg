SPECIFICATION Spec
CONSTANTS
  Schemas <- Sch1
  MaxRecs = 3
  WriteNs = {1, 2}
  ReadNs = {1, 2}
  BlockSizes = {0}
  DataMod = 2
  MaxOps = 8
  KeepHist = FALSE
VIEW view
CONSTRAINT Bound
INVARIANTS BufferLen ReadsStored PosOK
PROPERTIES WriteLocal
CHECK_DEADLOCK FALSE
