SPECIFICATION BCoreSpec
CONSTANTS
  UserTags = {100}
  Refs = {1, 2, 3, 4}
  Lens = {2}
  MaxRef = 65535
  NddsSet = {4}
  MaxOps = 1000
  AllocCand = {}
  GenMode = TRUE
  Observers = FALSE
  KeepHist = FALSE
  DirtyPrev = TRUE
VIEW bview
INVARIANTS MemIsMem FileHoldsDisk NoOrphans
CHECK_DEADLOCK FALSE
