SPECIFICATION Spec
CONSTANTS
  Keys = {1, 2, 3}
  Aids = {"A1", "A2", "A3"}
  MaxLen = 40
  WriteLens = {1, 2, 5, 9}
  SeekOffs = {0, 1, 3, 4, 7, 12, 20}
  ReadLens = {0, 1, 4, 11}
  BlkCfgs <- BlkGen3
  NddsSet = {4, 5, 7, 16}
  MaxOps = 30
  DataMod = 15
  SharedGrow = FALSE
  KeepHist = TRUE
ACTION_CONSTRAINT EmitFull
CHECK_DEADLOCK FALSE
