SPECIFICATION Spec
CONSTANTS
  Schemas <- Sch2
  MaxRecs = 40
  WriteNs = {1, 2, 5, 9}
  ReadNs = {1, 2, 7}
  BlockSizes = {0, 4, 16, 64}
  DataMod = 13
  MaxOps = 30
  KeepHist = TRUE
CONSTRAINT Bound
ACTION_CONSTRAINT EmitFull
CHECK_DEADLOCK FALSE
