SPECIFICATION TraceSpec
CONSTANTS
  Dims = {}
  NComps = {1}
  Layouts = {}
  Coords = {0}
  Counts = {1}
  Strides = {1}
  DataMod = 17
  MaxOps = 1
  KeepHist = FALSE
INVARIANTS TrackL ReadsPix
POSTCONDITION Verdict
CHECK_DEADLOCK FALSE
