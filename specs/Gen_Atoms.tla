---------------------------- MODULE Gen_Atoms ----------------------------
EXTENDS Atoms, Json, CSV, IOUtils
EmitAll  == CSVWrite("%1$s", <<ToJson([spec |-> "Atoms", steps |-> hist'])>>, IOEnv.GEN_OUT)
\* the wrap generator starts behind the Burn step (both steps are in the emitted behaviour) and stays around the wrap
PreReg(i) == [op |-> "Register", args |-> [obj |-> 101 + 3 * i], out |-> [ret |-> i]]      \* RegObj(1) at counter i
WrapInit == \E k \in 0..3 :
            /\ live = [i \in 0..(k - 1) |-> 101 + 3 * i] /\ next = TailId /\ cache = [i \in 1..4 |-> Empty] /\ inited = TRUE
            /\ wrapped = FALSE /\ burnt = TRUE /\ out = [ret |-> 0]
            /\ hist = << [op |-> "InitGroup", args |-> [a |-> 0], out |-> [ret |-> 0]] >>
                      \o [i \in 1..k |-> PreReg(i - 1)]
                      \o << [op |-> "Burn", args |-> [from |-> k, space |-> IdSpace], out |-> [ret |-> 0]] >>
WrapIds  == {TailId, TailId + 1, 0, 1, 2, 3}
WrapNext == \/ \E o \in Objs : Register(RegObj(o))
            \/ \E id \in WrapIds : Lookup(id) \/ Remove(id)
            \/ \E id \in WrapIds, o \in {1} : Search(100 + id * 3 + o) \/ Search(150 + id * 3 + o)
WrapSpec == WrapInit /\ [][WrapNext]_vars
EmitFull == (Len(hist') = MaxOps) => EmitAll
=============================================================================
