---------------------------- MODULE Gen_Atoms ----------------------------
EXTENDS Atoms, Json, CSV, IOUtils
EmitAll  == CSVWrite("%1$s", <<ToJson([spec |-> "Atoms", steps |-> hist'])>>, IOEnv.GEN_OUT)
EmitFull == (Len(hist') = MaxOps) => EmitAll
=============================================================================
