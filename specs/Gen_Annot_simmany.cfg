SPECIFICATION Spec
CONSTANTS
  Targets = {"t1", "t2"}
  LabLens = {3}
  DescLens = {4}
  MaxAnns = 60
  DataMod = 4
  MaxOps = 70
  KeepHist = TRUE
ACTION_CONSTRAINT EmitFull
CHECK_DEADLOCK FALSE
