SPECIFICATION Spec
CONSTANTS
  SdsWriters = {"DFSD", "SD", "NC"}
  RasWriters = {"DFR8", "DF24", "GR"}
  Shapes <- ShapesMC
  Types = {"i16", "f32"}
  RasDims <- RDimsMC
  ScaleSets <- ScalesT
  MaxObjs = 4
  MaxOps = 100
  Mix = TRUE
  KeepHist = FALSE
VIEW view
INVARIANTS SeedsDistinct
PROPERTIES Stable
CHECK_DEADLOCK FALSE
