SPECIFICATION Spec
CONSTANTS
  SdsWriters = {"DFSD", "SD", "NC"}
  RasWriters = {"DFR8", "DF24", "GR"}
  Shapes <- ShapesMC
  Types = {"i16", "f32"}
  RasDims <- RDimsMC
  ScaleSets <- ScalesT
  Grows = {1, 2}
  MaxObjs = 4
  MaxOps = 100
  Mix = TRUE
  KeepHist = FALSE
VIEW view
CONSTRAINT GrowBound
INVARIANTS SeedsDistinct
PROPERTIES Stable
CHECK_DEADLOCK FALSE
