SPECIFICATION Spec
CONSTANTS
  Objs = {"gr"}
  Names = {"a"}
  Types = {"i16"}
  Counts = {1, 2, 3000}
  DimNames = {"x"}
  ScaleTypes = {"i16"}
  MaxAttrs = 1
  MaxAdd = 0
  DataMod = 1
  MaxOps = 6
  KeepHist = TRUE
CONSTRAINT Bound
ACTION_CONSTRAINT EmitAudited
CHECK_DEADLOCK FALSE
