------------------------------ MODULE ReadOnly ------------------------------
(***************************************************************************)
(* Read-only access (property C14).                                        *)
(*                                                                         *)
(* A file (with the external files it references) is prepared, opened for  *)
(* reading through every interface at once, and an arbitrary program of    *)
(* API calls runs against the read-only handles.  Calls are classified:    *)
(*   Queries  : may return anything; must not change a byte                *)
(*   Mutators : would have to write data or create a stored object; must   *)
(*              return the failure value, and must not change a byte       *)
(* `intact` says that every file of the working directory is byte-for-byte *)
(* what it was when the session began (and that no file appeared or        *)
(* disappeared); the driver recomputes it after every call.                *)
(* A write-mode open/close without any request must leave every stored     *)
(* object readable with identical content (the bytes may change).          *)
(***************************************************************************)
EXTENDS Naturals, Integers, Sequences, FiniteSets, TLC

CONSTANTS FileKinds, MaxOps, KeepHist,
          Skip       \* mutators left out of the generated programs (so that long random programs are not cut short
                     \* at a call with a known finding; the single-call and pair generators use Skip = {})
FAIL == -1

\* ---- the call alphabet (the driver holds, read-only: a file id, an SD id with one dataset and a
\*      dimension selected, a GR id with one image and its palette selected, a Vdata and a Vgroup attached
\*      "r", an AN id with one annotation selected, and a read access element) ----
Queries ==
    {"DumpAll", "Hfindscan", "Hread", "Hinquire", "Hnewref", "Hsync", "Hcache", "Hgetfileversion",
     "SDfileinfo", "SDreaddata", "SDreadchunk", "SDreadattr", "SDgetdimscale", "SDgetdatainfo", "SDgetcompinfo",
     "SDgetchunkinfo", "SDsetfillmode", "SDsetchunkcache", "SDgetcal", "SDgetrange", "SDgetfillvalue", "SDgetdatastrs",
     "GRfileinfo", "GRreadimage", "GRreadlut", "GRgetattr", "GRreqimageil", "GRgetdatainfo",
     "VSread", "VSinquire", "VSgetdatainfo", "VSfindattr", "Vgettagrefs", "Vlone", "VSlone", "Vgetattr",
     "ANfileinfo", "ANreadann", "ANannlist"}
Mutators ==
    {"Hputelement_new", "Hputelement_existing", "Hstartwrite_new", "Hstartwrite_existing", "Hstartaccess_write",
     "Hwrite_on_read_aid", "Hdeldd", "Hdupdd", "HLcreate_new", "HLcreate_existing", "HXcreate_new", "HXcreate_existing",
     "HCcreate_new", "Htrunc_on_read_aid", "HLconvert_on_read_aid",
     "Vattach_new", "Vattach_existing_w", "Vsetname", "Vsetclass", "Vinsert", "Vaddtagref", "Vdeletetagref", "Vdelete", "Vsetattr",
     "VSattach_new", "VSattach_existing_w", "VSwrite", "VSsetname", "VSsetclass", "VSfdefine", "VSsetattr", "VSdelete",
     "VHstoredata", "VHmakegroup",
     "SDcreate", "SDwritedata", "SDwritechunk", "SDsetattr_file", "SDsetattr_sds", "SDsetattr_dim", "SDsetdimname", "SDsetdimscale",
     "SDsetdimstrs", "SDsetdatastrs", "SDsetcal", "SDsetrange", "SDsetfillvalue", "SDsetcompress", "SDsetchunk",
     "SDsetnbitdataset", "SDsetexternalfile",
     "GRcreate", "GRwriteimage", "GRsetattr_file", "GRsetattr_ri", "GRwritelut", "GRsetcompress", "GRsetchunk", "GRsetexternalfile",
     "ANcreate", "ANcreatef", "ANwriteann",
     \* the attribute setters once more, on attributes that are already in the file (a replacement, not an addition)
     "Vsetattr_existing", "VSsetattr_existing", "SDsetattr_file_existing", "SDsetattr_sds_existing", "SDsetattr_dim_existing",
     "GRsetattr_file_existing", "GRsetattr_ri_existing",
     "SDwritedata_empty"}                  \* a write to a data set that holds no data yet

VARIABLES st,       \* "none" | "closed" | "ro"
          kind,     \* which file was prepared
          intact,   \* the bytes on disk are those of the prepared file
          out, hist
vars == <<st, kind, intact, out, hist>>
view == <<st, kind, intact>>

Log(op, args, o) == /\ out' = o
                    /\ hist' = IF KeepHist THEN Append(hist, [op |-> op, args |-> args, out |-> o])
                                           ELSE <<[op |-> op, args |-> args, out |-> o]>>

Init == st = "none" /\ kind = "" /\ intact = TRUE /\ out = [ret |-> 0] /\ hist = <<>>

Prep(f) == /\ st = "none" /\ st' = "closed" /\ kind' = f /\ intact' = TRUE
           /\ Log("Prep", [file |-> f], [ret |-> 0])
OpenRO == /\ st = "closed" /\ st' = "ro"
          /\ Log("OpenRO", [a |-> 0], [ret |-> 0, intact |-> TRUE])
          /\ UNCHANGED <<kind, intact>>
Query(q) == /\ st = "ro" /\ q \in Queries
            /\ Log("Query", [call |-> q], [intact |-> TRUE])
            /\ UNCHANGED <<st, kind, intact>>
Mutate(m) == /\ st = "ro" /\ m \in Mutators
             /\ Log("Mutate", [call |-> m], [ret |-> FAIL, intact |-> TRUE])
             /\ UNCHANGED <<st, kind, intact>>
CloseRO == /\ st = "ro" /\ st' = "closed"
           /\ Log("CloseRO", [a |-> 0], [ret |-> 0, intact |-> TRUE])
           /\ UNCHANGED <<kind, intact>>
\* open for writing through every interface, request nothing, close: same = the API-level content of every
\* object equals what it was before
RwCycle == /\ st = "closed"
           /\ Log("RwCycle", [a |-> 0], [ret |-> 0, same |-> TRUE])
           /\ UNCHANGED <<st, kind, intact>>

Next == \/ \E f \in FileKinds : Prep(f)
        \/ OpenRO \/ CloseRO \/ RwCycle
        \/ \E q \in Queries : Query(q)
        \/ \E m \in Mutators \ Skip : Mutate(m)
Spec == Init /\ [][Next]_vars

NeverChanged == intact
Bound == Len(hist) < MaxOps
=============================================================================
