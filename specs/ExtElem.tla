------------------------------- MODULE ExtElem -------------------------------
(***************************************************************************)
(* External data elements (hextelt.c): an element of the HDF file whose    *)
(* bytes live in another file, at an offset, and the rules by which that    *)
(* other file is FOUND.  The directory knobs -- HXsetcreatedir (where a new  *)
(* external file is put), HXsetdir (where existing ones are looked for, a    *)
(* '|'-separated list) -- must decide only WHICH file is used, never what an *)
(* application reads from it (C04), and every byte written through the       *)
(* element must be the byte read back from the file that the rules name      *)
(* (C01).  The file system is part of the state: three directories ("c" is   *)
(* the working directory, "a" and "b" sub-directories), two file names, and   *)
(* the environment may move, remove or plant files between calls.            *)
(*                                                                         *)
(* The rules, as hextelt.c:HXIbuildfilename implements them:                 *)
(*  creating:  an absolute name is used as it is; a relative one goes to the  *)
(*             HXsetcreatedir directory if one is set, else to the working    *)
(*             directory; an existing file of that name is reused             *)
(*  locating:  an absolute name that exists is used; if it does not and a     *)
(*             search list is set, its last component is searched for; a      *)
(*             relative name is searched in the HXsetdir list in order, then  *)
(*             in the working directory; no match: the access fails           *)
(* Every Read / Overwrite is one Hstartread|Hstartwrite .. Hendaccess, so no  *)
(* external file stays open between actions (the library re-resolves an open  *)
(* file only for the first element used after HXsetdir; not modelled).        *)
(***************************************************************************)
EXTENDS Naturals, Integers, Sequences, FiniteSets, TLC

CONSTANTS Forms,      \* subset of {"rel", "abs"}: how the external file is named at creation
          Offs,       \* offsets of the element's bytes in the external file
          Lens,       \* payload lengths
          MaxOps, KeepHist

FAIL == -1
Dirs == {"c", "a", "b"}
Names == {"x", "y"}
Elems == {1, 2}
Files == Dirs \X Names
SearchLists == {<<>>, <<"a">>, <<"b">>, <<"a", "b">>, <<"b", "a">>}

VARIABLES st,         \* "init" | "open"
          createdir,  \* "none" | "a" | "b"
          search,     \* sequence of directories (HXsetdir)
          present,    \* set of files that exist
          fs,         \* [Files -> byte sequence] (meaningful for present files)
          elems,      \* [Elems -> [kind: "none"|"plain"|"ext", ...]]
          truth,      \* ghost: [Elems -> bytes last written through the API]
          home,       \* ghost: [Elems -> file the element's bytes were last written to, or <<>>]
          whole,      \* ghost: [Elems -> all bytes of the element were written to home[e] through the API]
          tainted,    \* ghost: files planted, moved or removed by the environment
          hnd,        \* the one long-lived access handle: <<>> or [e |-> element, f |-> file it has open, or <<>>]
          dirchg,     \* the library's process-wide "search list changed" flag (hextelt.c: extdir_changed)
          wc, out, hist
vars == <<st, createdir, search, present, fs, elems, truth, home, whole, tainted, hnd, dirchg, wc, out, hist>>
view == <<st, createdir, search, present, fs, elems, home, whole, tainted, hnd, dirchg, wc % 2>>

Log(op, args, o) == /\ out' = o
                    /\ hist' = IF KeepHist THEN Append(hist, [op |-> op, args |-> args, out |-> o])
                                           ELSE <<[op |-> op, args |-> args, out |-> o]>>

Payload(k, n) == [i \in 1..n |-> ((k * 41 + i * 7) % 250) + 1]
Max(a, b) == IF a > b THEN a ELSE b
\* bytes d written at offset off of a file holding s (a hole reads as zeros)
WriteAt(s, off, d) == [i \in 1..Max(Len(s), off + Len(d)) |->
                          IF i > off /\ i <= off + Len(d) THEN d[i - off] ELSE IF i <= Len(s) THEN s[i] ELSE 0]
Cont(f) == IF f \in present THEN fs[f] ELSE <<>>

\* ghost bookkeeping: after bytes of file f were written through the API, every external element whose bytes live
\* in f holds what the API wrote there last (through whichever element)
Retruth(els, hm, nfs, f, old) ==
    [o \in Elems |-> IF els[o].kind = "ext" /\ hm[o] = f /\ Len(nfs[f]) >= els[o].off + els[o].len
                     THEN SubSeq(nfs[f], els[o].off + 1, els[o].off + els[o].len) ELSE old[o]]

NoElem == [kind |-> "none"]
Init == /\ st = "init" /\ createdir = "none" /\ search = <<>> /\ present = {} /\ fs = [f \in Files |-> <<>>]
        /\ elems = [e \in Elems |-> NoElem] /\ truth = [e \in Elems |-> <<>>] /\ home = [e \in Elems |-> <<>>]
        /\ whole = [e \in Elems |-> FALSE]
        /\ tainted = {} /\ hnd = <<>> /\ dirchg = FALSE /\ wc = 0 /\ out = [ret |-> 0] /\ hist = <<>>

\* ---- the rules ----
CreateDirOf(form) == IF form = "abs" THEN "a" ELSE IF createdir # "none" THEN createdir ELSE "c"
\* (parameterised by the state so that the generator can evaluate them on the successor state)
FirstInG(pres, srch, n) == LET I == {i \in 1..Len(srch) : <<srch[i], n>> \in pres} IN
                           IF I = {} THEN "none" ELSE srch[CHOOSE i \in I : \A j \in I : i <= j]
ResolveG(pres, srch, n, form) ==
    IF form = "abs" /\ <<"a", n>> \in pres THEN "a"
    ELSE IF form = "abs" /\ srch = <<>> THEN "none"
    ELSE IF FirstInG(pres, srch, n) # "none" THEN FirstInG(pres, srch, n)
    ELSE IF <<"c", n>> \in pres THEN "c" ELSE "none"
Resolve(n, form) == ResolveG(present, search, n, form)

\* what a read of element e returns (FAIL: no file, or the file is too short)
ReadValG(els, pres, fsx, srch, e) ==
    LET el == els[e] IN
    IF el.kind = "plain" THEN el.data
    ELSE LET d == ResolveG(pres, srch, el.name, el.form) IN
         IF d = "none" THEN <<FAIL>>
         ELSE LET s == fsx[<<d, el.name>>] IN
              IF Len(s) >= el.off + el.len THEN SubSeq(s, el.off + 1, el.off + el.len) ELSE <<FAIL>>
ReadVal(e) == ReadValG(elems, present, fs, search, e)
ReadOut(v) == IF v = <<FAIL>> THEN [ret |-> FAIL] ELSE [ret |-> Len(v), data |-> v]

\* ---- actions ----
Setup == /\ st = "init" /\ st' = "open"
         /\ Log("Setup", [a |-> 0], [ret |-> 0])
         /\ UNCHANGED <<createdir, search, present, fs, elems, truth, home, whole, tainted, hnd, dirchg, wc>>

SetCreateDir(d) ==
    /\ st = "open" /\ d \in {"none", "a", "b"} /\ d # createdir
    /\ createdir' = d
    /\ Log("SetCreateDir", [dir |-> d], [ret |-> 0])
    /\ UNCHANGED <<st, search, present, fs, elems, truth, home, whole, tainted, hnd, dirchg, wc>>

SetSearch(s) ==
    /\ st = "open" /\ s \in SearchLists /\ s # search
    /\ search' = s
    /\ Log("SetSearch", [dirs |-> s], [ret |-> 0])
    /\ dirchg' = TRUE
    /\ UNCHANGED <<st, createdir, present, fs, elems, truth, home, whole, tainted, hnd, wc>>

PutPlain(e, n) ==
    /\ st = "open" /\ hnd = <<>> /\ elems[e].kind = "none"
    /\ LET d == Payload(wc + 1, n) IN
       /\ elems' = [elems EXCEPT ![e] = [kind |-> "plain", data |-> d]]
       /\ truth' = [truth EXCEPT ![e] = d]
       /\ Log("PutPlain", [e |-> e, data |-> d], [ret |-> n])
    /\ wc' = wc + 1
    /\ UNCHANGED <<st, createdir, search, present, fs, home, whole, tainted, hnd, dirchg>>

\* HXcreate on a new tag/ref, then the payload is written through the returned handle
Create(e, nm, form, off, n) ==
    /\ st = "open" /\ hnd = <<>> /\ elems[e].kind = "none"
    /\ LET d == Payload(wc + 1, n)  f == <<CreateDirOf(form), nm>> IN
       /\ present' = present \cup {f}
       /\ fs' = [fs EXCEPT ![f] = WriteAt(Cont(f), off, d)]
       /\ elems' = [elems EXCEPT ![e] = [kind |-> "ext", name |-> nm, form |-> form, off |-> off, len |-> n]]
       /\ home' = [home EXCEPT ![e] = f]
       /\ whole' = [whole EXCEPT ![e] = TRUE]
       /\ truth' = Retruth(elems', home', fs', f, truth)
       /\ Log("Create", [e |-> e, name |-> nm, form |-> form, off |-> off, data |-> d], [ret |-> n])
    /\ wc' = wc + 1
    /\ dirchg' = FALSE
    /\ UNCHANGED <<st, createdir, search, tainted, hnd>>

\* HXcreate on an element that already holds data: the data moves to the external file
Promote(e, nm, form, off) ==
    /\ st = "open" /\ hnd = <<>> /\ elems[e].kind = "plain"
    /\ LET d == elems[e].data  f == <<CreateDirOf(form), nm>> IN
       /\ present' = present \cup {f}
       /\ fs' = [fs EXCEPT ![f] = WriteAt(Cont(f), off, d)]
       /\ elems' = [elems EXCEPT ![e] = [kind |-> "ext", name |-> nm, form |-> form, off |-> off, len |-> Len(d)]]
       /\ home' = [home EXCEPT ![e] = f]
       /\ whole' = [whole EXCEPT ![e] = TRUE]
       /\ truth' = Retruth(elems', home', fs', f, truth)
       /\ Log("Promote", [e |-> e, name |-> nm, form |-> form, off |-> off], [ret |-> 0])
    /\ dirchg' = FALSE
    /\ UNCHANGED <<st, createdir, search, tainted, hnd, wc>>

Read(e) ==
    /\ st = "open" /\ hnd = <<>> /\ elems[e].kind # "none"
    /\ LET v == ReadVal(e) IN
       Log("Read", [e |-> e], ReadOut(v))
    /\ dirchg' = IF elems[e].kind = "ext" /\ Resolve(elems[e].name, elems[e].form) # "none" THEN FALSE ELSE dirchg
    /\ UNCHANGED <<st, createdir, search, present, fs, elems, truth, home, whole, tainted, hnd, wc>>

\* Hstartwrite; Hseek(pos); Hwrite(n bytes) inside the element; Hendaccess
Overwrite(e, pos, n) ==
    /\ st = "open" /\ hnd = <<>> /\ elems[e].kind = "ext" /\ pos + n <= elems[e].len
    /\ LET el == elems[e]  d == Payload(wc + 1, n)  dir == Resolve(el.name, el.form) IN
       IF dir = "none"
       THEN /\ Log("Overwrite", [e |-> e, pos |-> pos, data |-> d], [ret |-> FAIL])
            /\ UNCHANGED <<fs, truth, home, whole>>
       ELSE LET f == <<dir, el.name>> IN
            /\ fs' = [fs EXCEPT ![f] = WriteAt(fs[f], el.off + pos, d)]
            /\ home' = [home EXCEPT ![e] = f]
            /\ whole' = [whole EXCEPT ![e] = IF f = home[e] THEN whole[e] ELSE (pos = 0 /\ n = el.len)]
            /\ truth' = Retruth(elems, home', fs', f, truth)
            /\ Log("Overwrite", [e |-> e, pos |-> pos, data |-> d], [ret |-> n])
    /\ wc' = wc + 1
    /\ dirchg' = IF Resolve(elems[e].name, elems[e].form) # "none" THEN FALSE ELSE dirchg
    /\ UNCHANGED <<st, createdir, search, present, elems, tainted, hnd>>

\* the same through a SECOND access handle while a first one, opened for reading and read to the end, is still attached
\* (Hstartread; Hread; Hstartwrite; Hseek; Hwrite; Hendaccess; Hendaccess): the external file has been opened read-only by
\* the first handle when the write arrives.  One step of the model: nothing of the environment changes in between, so
\* both handles use the file the rules name now; rd = what the first handle read.
RWOverwrite(e, pos, n) ==
    /\ st = "open" /\ hnd = <<>> /\ elems[e].kind = "ext" /\ pos + n <= elems[e].len
    \* (the library re-opens a stream that was opened read-only by the STORED name, without the search list: where that
    \*  is another place than the rules name, the write is refused -- visibly; generated only where both agree)
    /\ LET dr == Resolve(elems[e].name, elems[e].form) IN
         dr = "none" \/ (elems[e].form = "abs" /\ dr = "a") \/ (elems[e].form = "rel" /\ dr = "c")
    /\ LET el == elems[e]  d == Payload(wc + 1, n)  dir == Resolve(el.name, el.form) IN
       IF dir = "none"
       THEN /\ Log("RWOverwrite", [e |-> e, pos |-> pos, data |-> d], [ret |-> FAIL, rd |-> ReadOut(ReadVal(e))])
            /\ UNCHANGED <<fs, truth, home, whole>>
       ELSE LET f == <<dir, el.name>> IN
            /\ fs' = [fs EXCEPT ![f] = WriteAt(fs[f], el.off + pos, d)]
            /\ home' = [home EXCEPT ![e] = f]
            /\ whole' = [whole EXCEPT ![e] = IF f = home[e] THEN whole[e] ELSE (pos = 0 /\ n = el.len)]
            /\ truth' = Retruth(elems, home', fs', f, truth)
            /\ Log("RWOverwrite", [e |-> e, pos |-> pos, data |-> d], [ret |-> n, rd |-> ReadOut(ReadVal(e))])
    /\ wc' = wc + 1
    /\ dirchg' = IF Resolve(elems[e].name, elems[e].form) # "none" THEN FALSE ELSE dirchg
    /\ UNCHANGED <<st, createdir, search, present, elems, tainted, hnd>>

\* ---- one long-lived access handle (Hstartaccess .. Hendaccess spanning several calls) ----
\* The external file is opened at the first transfer and kept open; a transfer re-locates it only if the search list
\* was changed (HXsetdir) since a file was last located by ANY element (the flag is the process's, not the handle's).
Attach(e) ==
    /\ st = "open" /\ hnd = <<>> /\ elems[e].kind = "ext"
    /\ hnd' = [e |-> e, f |-> <<>>]
    /\ Log("Attach", [e |-> e], [ret |-> 0])
    /\ UNCHANGED <<st, createdir, search, present, fs, elems, truth, home, whole, tainted, dirchg, wc>>

\* the file a transfer through the handle uses: the open one, or -- if none is open or the list changed -- the rules' choice
HFile == IF hnd.f # <<>> /\ ~dirchg THEN hnd.f
         ELSE LET el == elems[hnd.e]  d == Resolve(el.name, el.form) IN IF d = "none" THEN <<>> ELSE <<d, el.name>>

\* Hseek(0); Hread(whole element)
HRead ==
    /\ st = "open" /\ hnd # <<>>
    /\ LET el == elems[hnd.e]  f == HFile IN
       /\ hnd' = [hnd EXCEPT !.f = f]
       /\ dirchg' = IF f = <<>> THEN dirchg ELSE FALSE
       /\ Log("HRead", [a |-> 0], IF f # <<>> /\ Len(fs[f]) >= el.off + el.len
                                   THEN ReadOut(SubSeq(fs[f], el.off + 1, el.off + el.len)) ELSE [ret |-> FAIL])
    /\ UNCHANGED <<st, createdir, search, present, fs, elems, truth, home, whole, tainted, wc>>

\* Hseek(pos); Hwrite(n bytes) inside the element
HWrite(pos, n) ==
    /\ st = "open" /\ hnd # <<>> /\ pos + n <= elems[hnd.e].len
    /\ LET e == hnd.e  el == elems[e]  d == Payload(wc + 1, n)  f == HFile IN
       /\ hnd' = [hnd EXCEPT !.f = f]
       /\ dirchg' = IF f = <<>> THEN dirchg ELSE FALSE
       /\ IF f = <<>>
          THEN /\ Log("HWrite", [pos |-> pos, data |-> d], [ret |-> FAIL])
               /\ UNCHANGED <<fs, truth, home, whole>>
          ELSE /\ fs' = [fs EXCEPT ![f] = WriteAt(fs[f], el.off + pos, d)]
               /\ home' = [home EXCEPT ![e] = f]
               /\ whole' = [whole EXCEPT ![e] = IF f = home[e] THEN whole[e] ELSE (pos = 0 /\ n = el.len)]
               /\ truth' = Retruth(elems, home', fs', f, truth)
               /\ Log("HWrite", [pos |-> pos, data |-> d], [ret |-> n])
    /\ wc' = wc + 1
    /\ UNCHANGED <<st, createdir, search, present, elems, tainted>>

Detach ==
    /\ st = "open" /\ hnd # <<>>
    /\ hnd' = <<>>
    /\ Log("Detach", [a |-> 0], [ret |-> 0])
    /\ UNCHANGED <<st, createdir, search, present, fs, elems, truth, home, whole, tainted, dirchg, wc>>

\* ---- the environment ----
Move(nm, from, to) ==
    /\ st = "open" /\ hnd = <<>> /\ <<from, nm>> \in present /\ <<to, nm>> \notin present /\ from # to
    /\ present' = (present \ {<<from, nm>>}) \cup {<<to, nm>>}
    /\ fs' = [fs EXCEPT ![<<to, nm>>] = fs[<<from, nm>>], ![<<from, nm>>] = <<>>]
    /\ tainted' = tainted \cup {<<from, nm>>, <<to, nm>>}
    /\ Log("Move", [name |-> nm, from |-> from, to |-> to], [ret |-> 0])
    /\ UNCHANGED <<st, createdir, search, elems, truth, home, whole, hnd, dirchg, wc>>

Plant(nm, d, n) ==
    /\ st = "open" /\ hnd = <<>> /\ <<d, nm>> \notin present
    /\ present' = present \cup {<<d, nm>>}
    /\ fs' = [fs EXCEPT ![<<d, nm>>] = Payload(wc + 1, n)]
    /\ tainted' = tainted \cup {<<d, nm>>}
    /\ Log("Plant", [name |-> nm, dir |-> d, data |-> Payload(wc + 1, n)], [ret |-> 0])
    /\ wc' = wc + 1
    /\ UNCHANGED <<st, createdir, search, elems, truth, home, whole, hnd, dirchg>>

Remove(nm, d) ==
    /\ st = "open" /\ hnd = <<>> /\ <<d, nm>> \in present
    /\ present' = present \ {<<d, nm>>}
    /\ fs' = [fs EXCEPT ![<<d, nm>>] = <<>>]
    /\ tainted' = tainted \cup {<<d, nm>>}
    /\ Log("Remove", [name |-> nm, dir |-> d], [ret |-> 0])
    /\ UNCHANGED <<st, createdir, search, elems, truth, home, whole, hnd, dirchg, wc>>

\* Hclose; Hopen(RDWR): the directory settings are the process's, they stay
Reopen ==
    /\ st = "open" /\ hnd = <<>>
    /\ Log("Reopen", [a |-> 0], [ret |-> 0])
    /\ UNCHANGED <<st, createdir, search, present, fs, elems, truth, home, whole, tainted, hnd, dirchg, wc>>

\* every external file, byte by byte (the audit of a generated behaviour; not part of Next)
FileSeq == << <<"c", "x">>, <<"c", "y">>, <<"a", "x">>, <<"a", "y">>, <<"b", "x">>, <<"b", "y">> >>
FilesOut(pres, fsx) == LET S == SelectSeq(FileSeq, LAMBDA f : f \in pres) IN
                       [i \in 1..Len(S) |-> [dir |-> S[i][1], name |-> S[i][2], data |-> fsx[S[i]]]]
Dump == /\ st = "open" /\ hnd = <<>>
        /\ Log("Dump", [a |-> 0], [files |-> FilesOut(present, fs)])
        /\ UNCHANGED <<st, createdir, search, present, fs, elems, truth, home, whole, tainted, hnd, dirchg, wc>>

Next ==
    \/ Setup
    \/ \E d \in {"none", "a", "b"} : SetCreateDir(d)
    \/ \E s \in SearchLists : SetSearch(s)
    \/ \E e \in Elems, n \in Lens : PutPlain(e, n)
    \/ \E e \in Elems, nm \in Names, fm \in Forms, off \in Offs, n \in Lens : Create(e, nm, fm, off, n)
    \/ \E e \in Elems, nm \in Names, fm \in Forms, off \in Offs : Promote(e, nm, fm, off)
    \/ \E e \in Elems : Read(e)
    \/ \E e \in Elems, pos \in 0..2, n \in 1..2 : Overwrite(e, pos, n)
    \/ \E e \in Elems, pos \in 0..2, n \in 1..2 : RWOverwrite(e, pos, n)
    \/ \E nm \in Names, d1 \in Dirs, d2 \in Dirs : Move(nm, d1, d2)
    \/ \E nm \in Names, d \in Dirs, n \in {2, 9} : Plant(nm, d, n)
    \/ \E nm \in Names, d \in Dirs : Remove(nm, d)
    \/ Reopen
    \/ \E e \in Elems : Attach(e)
    \/ HRead
    \/ \E pos \in 0..1, n \in 1..2 : HWrite(pos, n)
    \/ Detach

Spec == Init /\ [][Next]_vars
Bound == Len(hist) <= MaxOps

\* ---- what the property says, on the model ----
TypeOK == /\ st \in {"init", "open"} /\ createdir \in {"none", "a", "b"} /\ search \in SearchLists
          /\ present \subseteq Files

\* two external elements use the same bytes of one file
Overlap(e1, e2) == /\ elems[e1].kind = "ext" /\ elems[e2].kind = "ext" /\ home[e1] = home[e2]
                   /\ elems[e1].off < elems[e2].off + elems[e2].len /\ elems[e2].off < elems[e1].off + elems[e1].len

\* C01/C04: whichever knobs are set, if the rules name the file the element's bytes were last written to, and
\* nobody else touched those bytes, a read returns exactly what was written through the element
KnobsNeverChangeData ==
    \A e \in Elems :
        (/\ elems[e].kind = "ext"
         /\ whole[e]
         /\ home[e] \notin tainted
         /\ Resolve(elems[e].name, elems[e].form) = home[e][1])
        => ReadVal(e) = truth[e]

\* a plain element is never affected by the directory knobs or the environment
PlainUntouched == \A e \in Elems : elems[e].kind = "plain" => ReadVal(e) = truth[e]

\* the rules never name a file that does not exist
ResolveExists == \A e \in Elems : elems[e].kind = "ext" =>
                    LET d == Resolve(elems[e].name, elems[e].form) IN d = "none" \/ <<d, elems[e].name>> \in present
=============================================================================
