------------------------------- MODULE Bitio -------------------------------
(***************************************************************************)
(* Bit-granular element I/O (hbitio.c): an element as a BIT sequence.      *)
(*   bits : sequence of 0/1 (whole bytes once the handle has been released *)
(*          -- the last partial byte is padded with the flush bit)         *)
(*   bp   : bit position of the handle                                     *)
(* A field of width w (1..32) is written / read most significant bit first.*)
(***************************************************************************)
EXTENDS Naturals, Integers, Sequences, FiniteSets, TLC

CONSTANTS Widths, SeekBits, MaxBits, MaxOps, KeepHist,
          MixedWrites   \* TRUE: also generate writes after a seek/read on the write handle (known-finding sweep)
FAIL == -1
VARIABLES st,      \* "init" | "w" (write handle) | "r" (read handle) | "closed"
          bits,    \* cells 0 / 1 / X (a pad bit: its value is not stated by the property)
          bp, moved, wc, out, hist
vars == <<st, bits, bp, moved, wc, out, hist>>
view == <<st, bits, bp, moved, wc % 2>>
X == 2

Log(op, args, o) == /\ out' = o
                    /\ hist' = IF KeepHist THEN Append(hist, [op |-> op, args |-> args, out |-> o])
                                           ELSE <<[op |-> op, args |-> args, out |-> o]>>

\* the w-bit field of the k-th write: a recognisable pattern
FieldBits(k, w) == [i \in 1..w |-> ((k * 5 + i * 3 + (i \div 3)) % 2)]
RECURSIVE ValOf(_)
ValOf(bs) == IF bs = <<>> THEN 0 ELSE 2 * ValOf(SubSeq(bs, 1, Len(bs) - 1)) + bs[Len(bs)]
\* for widths up to 32 the value is carried as two 16-bit halves (TLC integers are 32-bit signed)
Hi(bs) == IF Len(bs) > 16 THEN ValOf(SubSeq(bs, 1, Len(bs) - 16)) ELSE 0
Lo(bs) == IF Len(bs) > 16 THEN ValOf(SubSeq(bs, Len(bs) - 15, Len(bs))) ELSE ValOf(bs)

Init == st = "init" /\ bits = <<>> /\ bp = 0 /\ moved = FALSE /\ wc = 0 /\ out = [ret |-> 0] /\ hist = <<>>

\* Hopen(create); Hstartbitwrite(tag, ref, 0); Hbitappendable
Create == /\ st = "init" /\ st' = "w"
          /\ Log("Create", [a |-> 0], [ret |-> 0])
          /\ UNCHANGED <<bits, bp, moved, wc>>

\* Hbitwrite(id, w, value): the field replaces / extends the bit sequence at bp
WriteBits(w) ==
    /\ st = "w" /\ bp + w <= MaxBits
    \* the main sweep writes sequentially; writing again after the handle has been repositioned or read
    \* from is generated only in the known-finding sweep
    /\ MixedWrites \/ (~moved /\ bp = Len(bits))
    /\ LET f == FieldBits(wc + 1, w)
           L2 == IF bp + w > Len(bits) THEN bp + w ELSE Len(bits) IN
       /\ bits' = [i \in 1..L2 |-> IF i > bp /\ i <= bp + w THEN f[i - bp] ELSE bits[i]]
       /\ Log("WriteBits", [w |-> w, hi |-> Hi(f), lo |-> Lo(f)], [ret |-> w])
    /\ bp' = bp + w /\ wc' = wc + 1
    /\ UNCHANGED <<st, moved>>

\* Hbitread(id, w, &value)
ReadBits(w) ==
    /\ st \in {"w", "r"} /\ bp + w <= Len(bits)
    /\ \A i \in (bp + 1)..(bp + w) : bits[i] # X
    /\ LET f == SubSeq(bits, bp + 1, bp + w) IN
       Log("ReadBits", [w |-> w], [ret |-> w, hi |-> Hi(f), lo |-> Lo(f)])
    /\ bp' = bp + w /\ moved' = TRUE
    /\ UNCHANGED <<st, bits, wc>>

\* Hbitseek(id, byte, bit): anywhere inside what has been written (whole bytes)
Seek(b) ==
    /\ st \in {"w", "r"} /\ b >= 0 /\ b <= Len(bits)
    /\ (b \div 8) * 8 <= Len(bits)
    /\ bp' = b /\ moved' = TRUE
    /\ Log("Seek", [byte |-> b \div 8, bit |-> b % 8], [ret |-> 0])
    /\ UNCHANGED <<st, bits, wc>>

\* Hendbitaccess(id, flushbit): the last partial byte is completed with the flush bit
Pad(bs, fb) == LET r == Len(bs) % 8 IN IF r = 0 THEN bs ELSE bs \o [i \in 1..(8 - r) |-> X]
End(fb) ==
    /\ st \in {"w", "r"} /\ st' = "closed"
    /\ (st = "w") => (MixedWrites \/ ~moved \/ TRUE)
    /\ bits' = IF st = "w" THEN Pad(bits, fb) ELSE bits
    /\ Log("End", [flush |-> fb], [ret |-> 0, nbytes |-> Len(bits') \div 8])
    /\ UNCHANGED <<bp, moved, wc>>

\* [Hclose; Hopen;] Hstartbitread
Start(reopen) ==
    /\ st = "closed" /\ st' = "r" /\ bp' = 0 /\ moved' = FALSE
    /\ Log("Start", [reopen |-> reopen], [ret |-> 0])
    /\ UNCHANGED <<bits, wc>>

Next == \/ Create \/ \E w \in Widths : WriteBits(w) \/ ReadBits(w)
        \/ \E b \in SeekBits : Seek(b)
        \/ \E fb \in {0, 1} : End(fb)
        \/ \E ro \in BOOLEAN : Start(ro)
Spec == Init /\ [][Next]_vars

ReadsBits == (hist # <<>> /\ hist[Len(hist)].op = "ReadBits") =>
               LET e == hist[Len(hist)]  f == SubSeq(bits, bp - e.args.w + 1, bp) IN e.out.hi = Hi(f) /\ e.out.lo = Lo(f)
WholeBytesWhenClosed == (st = "closed") => Len(bits) % 8 = 0
Bound == Len(hist) < MaxOps
=============================================================================
