SPECIFICATION Spec
CONSTANTS
  Keys = {1}
  Aids = {"A1", "A2"}
  MaxLen = 6
  WriteLens = {1, 3}
  SeekOffs = {0, 2, 5}
  ReadLens = {0, 2}
  BlkCfgs <- BlkGen
  NddsSet = {4}
  MaxOps = 8
  DataMod = 15
  SharedGrow = TRUE
  KeepHist = TRUE
VIEW view
CONSTRAINT Bound
ACTION_CONSTRAINT EmitAudited
CHECK_DEADLOCK FALSE
