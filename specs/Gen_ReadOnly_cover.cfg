SPECIFICATION Spec
CONSTANTS
  FileKinds = {"mixed", "rich"}
  MaxOps = 100
  Skip = {}
  KeepHist = TRUE
VIEW view
CONSTRAINT Bound
ACTION_CONSTRAINT EmitAudited
CHECK_DEADLOCK FALSE
