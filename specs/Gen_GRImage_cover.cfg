SPECIFICATION Spec
CONSTANTS
  Dims <- DimsGen
  NComps = {1, 3}
  Layouts <- LNone
  Coords <- CoordsGen
  Counts = {1, 2, 3}
  Strides = {1, 2}
  DataMod = 1
  MaxOps = 4
  KeepHist = TRUE
VIEW view
CONSTRAINT Bound
ACTION_CONSTRAINT EmitAudited
CHECK_DEADLOCK FALSE
