SPECIFICATION Spec
CONSTANTS
  Files = {"f1"}
  HNames = {"h1", "h2", "h3"}
  MaxOps = 7
  KeepHist = TRUE
  GenMode = TRUE
VIEW view
CONSTRAINT Bound
ACTION_CONSTRAINT EmitAll
CHECK_DEADLOCK FALSE
