SPECIFICATION Spec
CONSTANTS
  Forms = {"rel", "abs"}
  Offs = {0, 2}
  Lens = {3}
  MaxOps = 100
  KeepHist = FALSE
VIEW view
CONSTRAINT Thorough
INVARIANTS TypeOK KnobsNeverChangeData PlainUntouched ResolveExists
CHECK_DEADLOCK FALSE
