--------------------------- MODULE Trace_HFormat ---------------------------
EXTENDS HFormat, TraceBase
VARIABLE l
TReset == nviews' = nviews
Good(ev) ==
    LET a == ev.args  o == ev.obs IN
       \/ ev.op = "Reset"    /\ TReset
       \/ ev.op = "View"     /\ View(a.size, a.blocks, a.dds, o.api, o.rd, o.rerrs)
       \/ ev.op = "DataInfo" /\ DataInfo(a.cap, o.ret, o.got, o.extents)
TraceInit == FInit /\ l = 1 /\ TLCSet(1, 1)
TraceNext ==
    /\ l <= Len(TraceLog)
    /\ IF ENABLED Good(TraceLog[l])
       THEN Good(TraceLog[l]) /\ l' = l + 1
       ELSE Reject(l) /\ l' = NextReset(l) /\ UNCHANGED nviews
TraceSpec == TraceInit /\ [][TraceNext]_<<nviews, l>>
TrackL == Track(l)
=============================================================================
