SPECIFICATION GenSpec
CONSTANTS
  Sizes = {1, 2, 4, 8}
  Flavours = {"std", "le", "native"}
  Ns = {1, 2, 3, 5}
  Strides = {0, 1, 2, 3, 4, 5, 8, 9, 12, 16, 17}
  MaxOps = 2
  KeepHist = TRUE
CONSTRAINT Bound
ACTION_CONSTRAINT EmitAll
CHECK_DEADLOCK FALSE
