---------------------------- MODULE Trace_SDArray ----------------------------
EXTENDS SDArray, TraceBase
VARIABLE l
TReset == /\ st' = "init" /\ shape' = <<>> /\ ext' = 0 /\ cells' = <<>> /\ fillset' = FALSE /\ fillmode' = TRUE /\ written' = FALSE
          /\ layout' = <<>> /\ wc' = 0 /\ out' = [ret |-> 0] /\ hist' = <<>>
\* observation matching: a cell the specification leaves open (Zc) matches anything
SeqOK(e, x) == Len(e) = Len(x) /\ \A i \in 1..Len(e) : e[i] = Zc \/ e[i] = x[i]
CellsOK(o, obs) == \A f \in DOMAIN o : f \in DOMAIN obs /\ (IF f = "data" THEN SeqOK(o[f], obs[f]) ELSE o[f] = obs[f])
\* the payload index of a recorded write is bound from its first value
KOf(a) == IF \E k \in 0..16 : a.data[1] = ValK(k, 1) THEN CHOOSE k \in 0..16 : a.data[1] = ValK(k, 1) ELSE 0
DataOK(a) == a.data = [n \in 1..Len(a.data) |-> ValK(KOf(a), n)] \/ a.data = [n \in 1..Len(a.data) |-> 7]
Good(ev) ==
    LET a == ev.args  o == ev.obs IN
       \/ ev.op = "Reset" /\ TReset
       \/ /\ ev.op # "Reset"
          /\ \/ ev.op = "Create" /\ Create(a.shape, a.layout, a.fillset, a.fillmode)
             \/ ev.op = "Write"  /\ DataOK(a) /\ WriteK(a.start, a.stride, a.count, KOf(a))
             \/ ev.op = "Read"   /\ Read(a.start, a.stride, a.count)
             \/ ev.op = "WriteChunk" /\ DataOK(a) /\ WriteChunk(a.origin, KOf(a))
             \/ ev.op = "ReadChunk"  /\ ReadChunk(a.origin)
             \/ ev.op = "Info"   /\ Info
             \/ ev.op = "Reopen" /\ Reopen
          /\ CellsOK(out', o)
TraceInit == Init /\ l = 1 /\ TLCSet(1, 1)
TraceNext ==
    /\ l <= Len(TraceLog)
    /\ IF ENABLED Good(TraceLog[l])
       THEN Good(TraceLog[l]) /\ l' = l + 1
       ELSE Reject(l) /\ l' = NextReset(l) /\ UNCHANGED vars
TraceSpec == TraceInit /\ [][TraceNext]_<<vars, l>>
TrackL == Track(l)
=============================================================================
