---------------------------- MODULE Gen_ReadOnly ----------------------------
EXTENDS ReadOnly, Json, CSV, IOUtils
Ev(o, a, x) == [op |-> o, args |-> a, out |-> x]
Audit == (IF st' = "ro" THEN <<Ev("CloseRO", [a |-> 0], [ret |-> 0, intact |-> TRUE])>> ELSE <<>>)
         \o <<Ev("RwCycle", [a |-> 0], [ret |-> 0, same |-> TRUE]), Ev("OpenRO", [a |-> 0], [ret |-> 0, intact |-> TRUE]),
              Ev("Query", [call |-> "DumpAll"], [intact |-> TRUE]), Ev("CloseRO", [a |-> 0], [ret |-> 0, intact |-> TRUE])>>
EmitAudited == (st' # "none") => CSVWrite("%1$s", <<ToJson([spec |-> "ReadOnly", steps |-> hist' \o Audit])>>, IOEnv.GEN_OUT)
BoundGen == Len(hist) <= MaxOps
EmitFull == (Len(hist') = MaxOps) => EmitAudited
=============================================================================
