SPECIFICATION TraceSpec
CONSTANTS
  SdsWriters = {}
  RasWriters = {}
  Shapes = {}
  Types = {}
  RasDims = {}
  ScaleSets = {}
  Grows = {1, 2, 3}
  MaxObjs = 1000
  MaxOps = 1
  Mix = TRUE
  KeepHist = FALSE
INVARIANTS TrackL SeedsDistinct
PROPERTIES Stable
POSTCONDITION Verdict
CHECK_DEADLOCK FALSE
