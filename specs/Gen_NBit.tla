---------------------------- MODULE Gen_NBit ----------------------------
EXTENDS NBit, Json, CSV, IOUtils
ParamsAll == {<<s, n>> : s \in {0, 1, 3, 6, 7, 8, 11, 14, 15, 16, 23, 24, 30, 31}, n \in {1, 2, 3, 4, 7, 8, 9, 12, 15, 16, 17, 24, 31, 32}}
ParamsQuick == {<<s, n>> : s \in {0, 3, 7, 8, 15, 23, 31}, n \in {1, 4, 8, 9, 16, 32}}
Ev(o, a, x) == [op |-> o, args |-> a, out |-> x]
Audit == <<Ev("Reopen", [a |-> 0], [ret |-> 0]),
           Ev("Read", [start |-> 0, count |-> 1], [ret |-> 0, data |-> Enc(<<Proj(vals'[1], sb', bl', se', fo')>>)]),
           Ev("Read", [start |-> 0, count |-> NVals], [ret |-> 0, data |-> Enc([k \in 1..NVals |-> Proj(vals'[k], sb', bl', se', fo')])])>>
EmitAudited == (st' = "open" /\ vals' # <<>>) => CSVWrite("%1$s", <<ToJson([spec |-> "NBit", steps |-> hist' \o Audit])>>, IOEnv.GEN_OUT)
=============================================================================
