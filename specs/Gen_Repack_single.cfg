SPECIFICATION Spec
CONSTANTS
  FileKinds = {"plain", "types", "groups", "mixed"}
  TSels = {"", "*", "small", "cmp,img", "chk,img3,unl"}
  TTypes = {"", "RLE", "HUFF 1", "GZIP 6", "NONE"}
  CSels = {"", "*", "cmp,img", "chk,img3,unl"}
  CShapes = {"", "5x6", "20x30", "NONE"}
  Thresholds <- ThrSet
  MaxOps = 2
  KeepHist = TRUE
ACTION_CONSTRAINT EmitFull
CHECK_DEADLOCK FALSE
