SPECIFICATION Spec
CONSTANTS
  Widths = {1, 2, 3, 5, 7, 8, 9, 12, 15, 16, 17, 24, 31, 32}
  SeekBits = {0, 1, 3, 7, 8, 9, 15, 16, 17, 31, 32, 33, 63, 64, 65, 100, 128}
  MaxBits = 400
  MaxOps = 30
  MixedWrites = FALSE
  KeepHist = TRUE
ACTION_CONSTRAINT EmitFull
CHECK_DEADLOCK FALSE
