---------------------------- MODULE Gen_Interop ----------------------------
EXTENDS Interop, Json, CSV, IOUtils
ShapesA == {<<4>>, <<2, 3>>, <<2, 2, 2>>}
ShapesB == {<<5>>, <<3, 2>>, <<2, 1, 3>>, <<1>>}
ShapesNone == {}
ScalesAll == {<<0>>, <<1>>, <<0, 0>>, <<0, 1>>, <<1, 0>>, <<1, 1>>, <<0, 0, 0>>, <<0, 1, 1>>, <<1, 0, 1>>}
ScalesNo == {<<0>>, <<0, 0>>, <<0, 0, 0>>}
RDimsA == {<<4, 3>>}
RDimsB == {<<4, 3>>, <<5, 2>>, <<130, 2>>}
RDimsNone == {}
Ev(o, a, x) == [op |-> o, args |-> a, out |-> x]
SdsItemsFor(r) == [i \in 1..Len(sds') |-> [shape |-> sds'[i].shape, type |-> sds'[i].type, k |-> sds'[i].k, scales |-> ScalesSeen(r, sds'[i])]]
NcVis == SelectSeq(sds', LAMBDA e : ~e.unl)
NcItems  == [i \in 1..Len(NcVis) |-> [shape |-> NcVis[i].shape, size |-> SizeOf[NcVis[i].type], float |-> IsFloat(NcVis[i].type), k |-> NcVis[i].k]]
RasItems(r) == LET vis == SelectSeq(ras', LAMBDA e : VisibleTo(r, e)) IN
               [i \in 1..Len(vis) |-> [dims |-> vis[i].dims, ncomp |-> vis[i].ncomp, k |-> vis[i].k, pal |-> vis[i].pal]]
SdW == SelectSeq(sds', LAMBDA e : e.writer \in {"SD", "NC"})
GrW == SelectSeq(ras', LAMBDA e : e.writer = "GR")
Audit == <<Ev("ListSds", [api |-> "SD"], [items |-> SdsItemsFor("SD")]), Ev("ListSds", [api |-> "DFSD"], [items |-> SdsItemsFor("DFSD")]), Ev("ListSdsNc", [a |-> 0], [items |-> NcItems]),
           Ev("ListRas", [api |-> "GR"], [items |-> RasItems("GR")]), Ev("ListRas", [api |-> "DFR8"], [items |-> RasItems("DFR8")]),
           Ev("ListRas", [api |-> "DF24"], [items |-> RasItems("DF24")]),
           Ev("VViews", [a |-> 0], [vars |-> [i \in 1..Len(SdW) |-> SdW[i].k], images |-> [i \in 1..Len(GrW) |-> GrW[i].k]])>>
EmitAudited == (st' # "init") => CSVWrite("%1$s", <<ToJson([spec |-> "Interop", steps |-> hist' \o Audit])>>, IOEnv.GEN_OUT)
EmitFull == (Len(hist') = MaxOps) => EmitAudited
=============================================================================
