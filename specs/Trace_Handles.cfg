SPECIFICATION TraceSpec
CONSTANTS
  Files = {"f1", "f2"}
  HNames = {"h1"}
  MaxOps = 1
  KeepHist = FALSE
  GenMode = FALSE
INVARIANTS TrackL NoAlias ParentsLive
POSTCONDITION Verdict
CHECK_DEADLOCK FALSE
