---------------------------- MODULE Trace_Bulk ----------------------------
EXTENDS Bulk, TraceBase
VARIABLE l
TReset == /\ st' = "init" /\ out' = [ret |-> 0] /\ hist' = <<>>
Good(ev) ==
    LET a == ev.args  o == ev.obs IN
       \/ ev.op = "Reset" /\ TReset
       \/ /\ ev.op # "Reset"
          /\ \/ ev.op = "BulkVS" /\ Log("BulkVS", a, [match |-> TRUE]) /\ UNCHANGED st
             \/ ev.op = "BulkSD" /\ Log("BulkSD", a, [match |-> TRUE]) /\ UNCHANGED st
             \/ ev.op = "BulkHL" /\ Log("BulkHL", a, [match |-> TRUE]) /\ UNCHANGED st
             \/ ev.op = "BulkBits" /\ Log("BulkBits", a, [match |-> TRUE]) /\ UNCHANGED st
             \/ ev.op = "BulkComp" /\ Log("BulkComp", a, [match |-> TRUE]) /\ UNCHANGED st
             \/ ev.op = "BulkNBit" /\ Log("BulkNBit", a, [match |-> TRUE]) /\ UNCHANGED st
          /\ ObsOK(out', o)
TraceInit == Init /\ l = 1 /\ TLCSet(1, 1)
TraceNext ==
    /\ l <= Len(TraceLog)
    /\ IF ENABLED Good(TraceLog[l])
       THEN Good(TraceLog[l]) /\ l' = l + 1
       ELSE Reject(l) /\ l' = NextReset(l) /\ UNCHANGED vars
TraceSpec == TraceInit /\ [][TraceNext]_<<vars, l>>
TrackL == Track(l)
=============================================================================
