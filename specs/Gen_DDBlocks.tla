---------------------------- MODULE Gen_DDBlocks ----------------------------
(* behaviour generator for DDBlocks: the behaviours are written in HDir's vocabulary (spec "HDir": same calls, same  *)
(* expected observations, judged by Trace_HDir), one per transition of the block-level state graph at which the     *)
(* blocks matter: a block is chained, or a flush / close happens while the chain has more than one block.           *)
EXTENDS DDBlocks, Json, CSV, IOUtils

Ev(o, a, x) == [op |-> o, args |-> a, out |-> x]
TagSeq == SetToSeq(UserTags)
Audit(m, c) ==
    <<Ev("Number", [tag |-> Wild], [ret |-> Count(m, Wild)]),
      Ev("Walk", [tag |-> Wild, ref |-> Wild, dir |-> 0], [list |-> Listing(m, Wild, Wild)]),
      Ev("Walk", [tag |-> Wild, ref |-> Wild, dir |-> 1], [list |-> Listing(m, Wild, Wild)]),
      Ev("Reopen", [cache |-> c], [ret |-> OK, list |-> Listing(m, Wild, Wild)]),
      Ev("Number", [tag |-> Wild], [ret |-> Count(m, Wild)]),
      Ev("NewRef", [a |-> 0], [ret |-> "any", fresh |-> TRUE]),
      Ev("Walk", [tag |-> Wild, ref |-> Wild, dir |-> 1], [list |-> Listing(m, Wild, Wild)])>>
LastOp == hist'[Len(hist')].op
\* keys are interchangeable at the level of the blocks: a new element takes the smallest reference not in use
Canon == (hist' # <<>> /\ LastOp = "Put" /\ Keys(mem') # Keys(mem)) =>
            LET r == hist'[Len(hist')].args.ref IN \A q \in Refs : (q < r) => <<hist'[Len(hist')].args.tag, q>> \in Keys(mem)
AnyDirty == \E b \in 1..Len(mb) : mb[b].dirty
Matters == \/ Len(mb') > Len(mb) /\ Len(mb) >= 1                                    \* a block is chained
           \/ LastOp \in {"Sync", "SetCache", "Reopen"} /\ Len(mb) >= 2 /\ AnyDirty  \* a flush with something to flush
           \/ LastOp = "Reopen" /\ Len(mb') > Len(mb)                                \* the version descriptor needs a block
EmitMatters == (st' = "open" /\ hist' # <<>> /\ Matters) =>
    CSVWrite("%1$s", <<ToJson([spec |-> "HDir", steps |-> hist' \o Audit(mem', cache')])>>, IOEnv.GEN_OUT)
EmitFull == (Len(hist') = MaxOps) =>
    CSVWrite("%1$s", <<ToJson([spec |-> "HDir", steps |-> hist' \o Audit(mem', cache')])>>, IOEnv.GEN_OUT)
=============================================================================
