#!/usr/bin/env python3
"""writes the Gen_Attrs_*.cfg files (one small alphabet per object kind: the objects are independent, so the
transition cover is taken per kind instead of over their product)"""
base = '''SPECIFICATION Spec
CONSTANTS
  Objs = {%(objs)s}
  Names = {%(names)s}
  Types = {%(types)s}
  Counts = {%(counts)s}
  DimNames = {%(dn)s}
  ScaleTypes = {%(st)s}
  MaxAttrs = %(ma)d
  MaxAdd = %(add)d
  DataMod = %(dm)d
  MaxOps = %(ops)d
  KeepHist = TRUE
%(view)s%(bound)sACTION_CONSTRAINT %(emit)s
CHECK_DEADLOCK FALSE
'''
def q(xs): return ", ".join('"%s"' % x for x in xs)
def cfg(name, objs, names, types, counts, dn=("x",), st=("i16",), ma=2, add=0, dm=1, ops=100, mode="cover"):
    open("Gen_Attrs_%s.cfg" % name, "w").write(base % dict(
        objs=q(objs), names=q(names), types=q(types), counts=", ".join(map(str, counts)), dn=q(dn), st=q(st), ma=ma, add=add,
        dm=dm, ops=ops, view="VIEW view\n" if mode == "cover" else "", bound="" if mode == "sim" else "CONSTRAINT Bound\n",
        emit="EmitFull" if mode == "sim" else "EmitAudited"))
ALLT = ["i8", "u8", "i16", "u16", "i32", "u32", "f32", "f64", "c8", "uc8"]
for o in ("sd", "gr", "ri", "vg", "s2"):
    cfg("cover_" + o, [o], ["a", "ab", "L1"], ["i16", "c8", "f64"], [1, 2, 3000])
cfg("cover_sdx", ["sd"], ["a", "X1", "X2"], ["c8"], [2], ma=3)
cfg("cover_vd", ["vd", "vdf1"], ["a", "ab"], ["i16", "c8"], [1, 3000])
cfg("cover_s1", ["s1"], ["a", "long_name", "valid_range"], ["c8", "i16"], [2, 3], ma=7)
cfg("cover_dimsa", ["d10", "d20"], ["a"], ["c8"], [2], dn=("x", "y"), st=("i16", "f64"), add=1)
cfg("cover_dimsb", ["d10", "d21"], ["a"], ["c8"], [2], dn=("x", "y"), st=("i16",), add=1)
for o in ("sd", "ri", "vdf0", "vg", "d10"):
    cfg("cover_types_" + o, [o], ["a"], ALLT, [1, 7, 8191, 8192, 16383, 32767, 65535, 65536], ma=1)
# every history of <= 5 calls after Setup on one object (what has been flushed when matters, the model's state does not show it)
for o in ("sd", "gr", "ri", "vd", "vg", "d10"):
    cfg("hist_" + o, [o], ["a"], ["i16"], [1, 2, 3000], ma=1, ops=6, mode="hist")
cfg("hist_dims", ["d10", "d20"], [], [], [], dn=("x",), st=("i16", "i8"), ma=2, ops=5, mode="hist")
cfg("sim", ["sd", "s1", "s2", "d10", "d20", "d21", "gr", "ri", "vd", "vdf0", "vdf1", "vg"], ["a", "ab", "L1", "L2"],
    ["i8", "i16", "u32", "f64", "c8"], [1, 3, 700, 3000], dn=("x", "y"), st=("i16", "f32"), ma=5, add=3, dm=4, ops=14, mode="sim")
cfg("sim_sd", ["sd", "s1", "d10", "d20", "d21"], ["a", "long_name"], ["i16", "c8"], [2, 3], dn=("x", "y"), st=("i16", "f32", "i8"),
    ma=8, add=3, dm=4, ops=16, mode="sim")
