SPECIFICATION Spec
CONSTANTS
  Shapes <- ShapesTypes
  Layouts <- LTypes
  Starts <- StartsTypes
  Counts = {1, 2}
  Strides = {1, 2}
  MaxExt = 3
  DataMod = 1
  MaxOps = 5
  KeepHist = TRUE
VIEW view
CONSTRAINT Bound
ACTION_CONSTRAINT EmitAudited
CHECK_DEADLOCK FALSE
