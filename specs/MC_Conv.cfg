SPECIFICATION Spec
CONSTANTS
  Sizes = {1, 2, 4, 8}
  Flavours = {"std", "le", "native"}
  Ns = {0, 1, 2, 3}
  Strides = {0, 1, 2, 3, 4, 5, 8, 9, 12}
  MaxOps = 1
  KeepHist = FALSE
INVARIANTS Involution InPlaceSame GatherSame FileOrder
CONSTRAINT Bound
CHECK_DEADLOCK FALSE
