------------------------------- MODULE Repack -------------------------------
(***************************************************************************)
(* hrepack preserves all content while changing only layout (C18).         *)
(*                                                                         *)
(* An input file is built (several kinds; each holds the ROSTER of named   *)
(* datasets and images below besides datasets of all number types and      *)
(* ranks, Vdatas, nested Vgroups, attributes, palettes, annotations), then *)
(* repacked again and again, each output being the next input.  After      *)
(* every run                                                               *)
(*   same   : the API-level content view of the output (names, hierarchy,  *)
(*            dimensions, types, attributes, palettes, annotations, data   *)
(*            values; independent of references, order and layout) equals  *)
(*            that of the ORIGINAL file                                    *)
(*   layout : every roster object has the layout the options ask for,      *)
(*            where applicable, and keeps its layout otherwise             *)
(***************************************************************************)
EXTENDS Naturals, Integers, Sequences, FiniteSets, TLC

CONSTANTS FileKinds, TSels, TTypes, CSels, CShapes, Thresholds, MaxOps, KeepHist
FAIL == -1
Roster == {"big2d", "small", "unl", "empty", "chk", "cmp", "img", "img3"}
Bytes  == [big2d |-> 2400, small |-> 4, unl |-> 2000, empty |-> 0, chk |-> 2400, cmp |-> 1200, img |-> 1200, img3 |-> 1500]
InitLayout == [o \in Roster |-> [comp |-> IF o = "cmp" THEN "gzip" ELSE "none", chunked |-> (o = "chk")]]
DefaultThreshold == 1024
\* in the file kinds "fixed" and "big" the dataset "unl" has a fixed first dimension (so that chains of runs can
\* be followed to their end: compressing a dataset with an unlimited dimension changes it -- known finding)
FixedKinds == {"fixed", "big"}
\* object lists: "*" or names of objects at the root of the file
Names(sel) == CASE sel = "*" -> Roster
                [] sel = "" -> {}
                [] sel = "small" -> {"small"}
                [] sel = "cmp,img" -> {"cmp", "img"}
                [] sel = "chk,img3,unl" -> {"chk", "img3", "unl"}
CompOf(tt) == CASE tt = "RLE" -> "rle" [] tt = "HUFF 1" -> "huff" [] tt = "GZIP 6" -> "gzip" [] tt = "GZIP 1" -> "gzip" [] tt = "NONE" -> "none"

TSelsAll   == {"", "*", "small", "cmp,img", "chk,img3,unl"}
TTypesAll  == {"", "RLE", "HUFF 1", "GZIP 6", "GZIP 1", "NONE"}
CSelsAll   == {"", "*", "cmp,img", "chk,img3,unl"}
CShapesAll == {"", "5x6", "20x30", "NONE"}

VARIABLES st, kind, lay, known, out, hist
vars == <<st, kind, lay, known, out, hist>>
view == <<st, kind, lay, known>>
Log(op, args, o) == /\ out' = o
                    /\ hist' = IF KeepHist THEN Append(hist, [op |-> op, args |-> args, out |-> o])
                                           ELSE <<[op |-> op, args |-> args, out |-> o]>>

Init == st = "init" /\ kind = "" /\ lay = InitLayout /\ known = TRUE /\ out = [ret |-> 0] /\ hist = <<>>
Build(f) == /\ st = "init" /\ st' = "built" /\ kind' = f /\ lay' = InitLayout /\ known' = TRUE
            /\ Log("Build", [file |-> f, roster |-> <<"big2d", "small", "unl", "empty", "chk", "cmp", "img", "img3">>], [ret |-> 0, layout |-> InitLayout])

\* -t tsel:tt  -c csel:cs  -m m   (m = -1: not given) ; viaFile: the same options in an option file (-f)
Thr(m) == IF m < 0 THEN DefaultThreshold ELSE m
\* The layout an object gets is stated for the command lines whose rule is unambiguous (the option tables of
\* hrepack_utils.c/hrepack_sds.c/hrepack_gr.c distinguish four cases of '*' and named lists); for the others
\* only the content is judged (layout = "any").
\*   no option            : every object keeps its layout
\*   -t *:X               : X for every object with data of at least the threshold size (chunked objects: any size);
\*                          smaller unchunked objects are stored uncompressed; chunking unchanged
\*   -t *:X -c *:S        : chunked (shape S) and compressed X (NONE: uncompressed), any size
\*   -t *:NONE -c *:NONE  : neither
\* an object without data keeps its layout; a dataset with an unlimited dimension is never chunked unless it is
\* compressed in the same run (it is then stored with a fixed dimension -- known finding)
Predicted(tsel, csel, cs) == \/ (tsel = "" /\ csel = "")
                             \/ (tsel = "*" /\ csel = "")
                             \/ (tsel = "*" /\ csel = "*")
Unl(o) == o = "unl" /\ kind \notin FixedKinds
\* (a dataset stored unchunked and smaller than the threshold is written uncompressed, whatever it was)
Small(o, m) == o \notin {"img", "img3"} /\ Bytes[o] < Thr(m)
NewComp(o, tsel, tt, csel, cs, m) ==
    IF o = "empty" THEN lay[o].comp
    ELSE IF tsel = "" THEN (IF ~lay[o].chunked /\ Small(o, m) THEN "none" ELSE lay[o].comp)
    ELSE IF csel = "*" /\ cs # "NONE" /\ (~Unl(o) \/ CompOf(tt) # "none") THEN CompOf(tt)
    ELSE IF csel = "" /\ lay[o].chunked THEN CompOf(tt)
    ELSE IF ~Small(o, m) THEN CompOf(tt) ELSE "none"
NewChunk(o, tsel, tt, csel, cs) ==
    IF csel = "" \/ o = "empty" THEN lay[o].chunked
    ELSE IF cs = "NONE" THEN FALSE
    ELSE IF Unl(o) THEN (tsel = "*" /\ CompOf(tt) # "none")
    ELSE TRUE
Repack(tsel, tt, csel, cs, m, viaFile) ==
    /\ st = "built"
    /\ (~KeepHist) \/ Len(hist) < MaxOps
    \* ("*" in one option cannot be combined with an object list in the other: hrepack refuses the command line)
    /\ ~(tsel = "*" /\ csel \notin {"", "*"}) /\ ~(csel = "*" /\ tsel \notin {"", "*"})
    /\ (tsel = "") = (tt = "")
    /\ (csel = "") = (cs = "")
    /\ LET newlay == [o \in Roster |-> [comp |-> NewComp(o, tsel, tt, csel, cs, m), chunked |-> NewChunk(o, tsel, tt, csel, cs)]] IN
       /\ lay' = IF Predicted(tsel, csel, cs) /\ known THEN newlay ELSE lay
       /\ known' = (Predicted(tsel, csel, cs) /\ known)
       /\ Log("Repack", [t |-> IF tsel = "" THEN "" ELSE tsel \o ":" \o tt, c |-> IF csel = "" THEN "" ELSE csel \o ":" \o cs, m |-> m, via_file |-> viaFile,
                         roster |-> IF Predicted(tsel, csel, cs) /\ known THEN <<"big2d", "small", "unl", "empty", "chk", "cmp", "img", "img3">> ELSE <<>>],
              IF Predicted(tsel, csel, cs) /\ known THEN [ret |-> 0, same |-> TRUE, layout |-> newlay] ELSE [ret |-> 0, same |-> TRUE])
    /\ UNCHANGED <<st, kind>>

Next == \/ \E f \in FileKinds : Build(f)
        \/ \E tsel \in TSels, tt \in TTypes, csel \in CSels, cs \in CShapes, m \in Thresholds, vf \in BOOLEAN : Repack(tsel, tt, csel, cs, m, vf)
Spec == Init /\ [][Next]_vars

Bound == Len(hist) < MaxOps
TypeOK == \A o \in Roster : lay[o].comp \in {"none", "rle", "huff", "gzip"}
=============================================================================
