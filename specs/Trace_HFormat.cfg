SPECIFICATION TraceSpec
INVARIANTS TrackL
POSTCONDITION Verdict
CHECK_DEADLOCK FALSE
