SPECIFICATION Spec
CONSTANTS
  Keys = {1, 2}
  Aids = {"A1", "A2"}
  MaxLen = 3
  WriteLens = {1, 2}
  SeekOffs = {0, 2}
  ReadLens = {0, 1}
  BlkCfgs <- BlkC
  NddsSet = {4}
  MaxOps = 6
  DataMod = 1
  SharedGrow = TRUE
  KeepHist = FALSE
VIEW view
CONSTRAINT Bound
INVARIANTS TypeOK PosnSane ReadsLastWritten
PROPERTIES WriteLocal ReopenKeeps
CHECK_DEADLOCK FALSE
