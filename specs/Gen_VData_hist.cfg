SPECIFICATION Spec
CONSTANTS
  Schemas <- Sch2
  MaxRecs = 3
  WriteNs = {2}
  ReadNs = {3}
  BlockSizes = {0}
  DataMod = 13
  MaxOps = 5
  KeepHist = TRUE
CONSTRAINT Bound
ACTION_CONSTRAINT EmitAudited
CHECK_DEADLOCK FALSE
