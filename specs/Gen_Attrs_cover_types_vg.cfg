SPECIFICATION Spec
CONSTANTS
  Objs = {"vg"}
  Names = {"a"}
  Types = {"i8", "u8", "i16", "u16", "i32", "u32", "f32", "f64", "c8", "uc8"}
  Counts = {1, 7, 8191, 8192, 16383, 32767, 65535, 65536}
  DimNames = {"x"}
  ScaleTypes = {"i16"}
  MaxAttrs = 1
  MaxAdd = 0
  DataMod = 1
  MaxOps = 100
  KeepHist = TRUE
VIEW view
CONSTRAINT Bound
ACTION_CONSTRAINT EmitAudited
CHECK_DEADLOCK FALSE
