--------------------------- MODULE Trace_HDiskLog ---------------------------
EXTENDS HDiskLog, TraceBase
VARIABLE l
TReset == phase' = "idle" /\ endAtOpen' = 0 /\ clause2' = FALSE /\ nw' = 0
Good(ev) ==
    LET a == ev.args  o == ev.obs IN
       \/ ev.op = "Reset"      /\ TReset
       \/ ev.op = "Open"       /\ Open(a.end, a.clause2)
       \/ ev.op = "Write"      /\ Write(a.off, a.len)
       \/ ev.op = "FlushBegin" /\ FlushBegin
       \/ ev.op = "Cut"        /\ Cut(a.k, o.opens, o.intact, o.wellformed)
       \/ ev.op = "Close"      /\ Close
TraceInit == LInit /\ l = 1 /\ TLCSet(1, 1)
TraceNext ==
    /\ l <= Len(TraceLog)
    /\ IF ENABLED Good(TraceLog[l])
       THEN Good(TraceLog[l]) /\ l' = l + 1
       ELSE Reject(l) /\ l' = NextReset(l) /\ UNCHANGED lvars
TraceSpec == TraceInit /\ [][TraceNext]_<<lvars, l>>
TrackL == Track(l)
=============================================================================
