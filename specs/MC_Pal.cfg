SPECIFICATION Spec
CONSTANTS
  WRefs = {3}
  MaxPals = 3
  MaxOps = 100
  KeepHist = FALSE
VIEW view
CONSTRAINT Small
INVARIANTS Aliased ReadsLastWritten
PROPERTIES OverwriteKeepsCount
CHECK_DEADLOCK FALSE
