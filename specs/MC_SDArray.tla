---------------------------- MODULE MC_SDArray ----------------------------
EXTENDS SDArray
ShapesMC == {<<2>>, <<0, 2>>, <<2, 2>>}
LayoutsMC == {<<"contig">>}
ShapesChunkMC == {<<2, 3>>}
LayoutsChunkMC == {<<"chunk", 1, 2, 1>>, <<"chunk", 2, 2, 1>>, <<"contig">>}
StartsMC == {-1, 0, 1}
StartsTypes == {0, 1}
StartsGen == {-1, 0, 1, 2, 3}
=============================================================================
