---------------------------- MODULE TraceBase ----------------------------
(* Common part of every Trace_* specification.                                                     *)
(*                                                                                                 *)
(* The log (IOEnv.TRACE, NDJSON) holds many executions, each introduced by a {"op":"Reset"} line.  *)
(* The extending module defines                                                                    *)
(*    TReset       : the action that re-establishes the initial state                              *)
(*    Good(ev)     : the disjunction "event ev is explained by one of the specification's actions" *)
(* TraceStep consumes one line per step.  When no action explains the line, the rejection is       *)
(* printed (TRACE_REJECTED_AT <line>) and the rest of that execution is skipped, so that one pass  *)
(* judges every execution of the log.  Acceptance of the whole log = register 1 passed the end     *)
(* and no rejection was printed.                                                                   *)
EXTENDS Naturals, Sequences, TLC, Json, IOUtils

TraceLog == ndJsonDeserialize(IOEnv.TRACE)

NextReset(i) == CHOOSE j \in (i + 1)..(Len(TraceLog) + 1) :
                    /\ (j = Len(TraceLog) + 1 \/ TraceLog[j].op = "Reset")
                    /\ \A k \in (i + 1)..(j - 1) : TraceLog[k].op # "Reset"

\* every field the specification states must be present in the observation with the same value
\* (an observation {"skip": ..} asks only whether the call is enabled: used by bin/shrink.py to discard candidates
\*  that are not behaviours of the specification)
ObsOK(o, obs) == "skip" \in DOMAIN obs \/ \A f \in DOMAIN o : f \in DOMAIN obs /\ o[f] = obs[f]

Reject(i) == PrintT("TRACE_REJECTED_AT " \o ToString(i))
Track(i)  == TLCSet(1, IF TLCGet(1) > i THEN TLCGet(1) ELSE i)
Verdict   == IF TLCGet(1) > Len(TraceLog) THEN PrintT("TRACE_COMPLETE") ELSE PrintT("TRACE_STUCK_AT " \o ToString(TLCGet(1)))
=============================================================================
