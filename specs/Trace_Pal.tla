---------------------------- MODULE Trace_Pal ----------------------------
EXTENDS Pal, TraceBase
VARIABLE l
TReset == /\ exists' = FALSE /\ dds' = <<>> /\ pal' = <<>> /\ lastfile' = FALSE
          /\ refset' = 0 /\ readref' = 0 /\ writeref' = 0 /\ lastref' = 0
          /\ wc' = 0 /\ out' = [ret |-> 0] /\ hist' = <<>>
Good(ev) ==
    LET a == ev.args  o == ev.obs IN
       \/ ev.op = "Reset" /\ TReset
       \/ /\ ev.op # "Reset"
          /\ \/ ev.op = "Put"      /\ a.seed = wc + 1 /\ Put(a.ow, a.mode)
             \/ ev.op = "Get"      /\ Get
             \/ ev.op = "ReadRef"  /\ ReadRef(a.ref)
             \/ ev.op = "WriteRef" /\ writeref' = a.ref /\ Log("WriteRef", [ref |-> a.ref], [ret |-> 0])
                                   /\ UNCHANGED <<exists, dds, pal, lastfile, refset, readref, lastref, wc>>
             \/ ev.op = "Restart"  /\ Restart
             \/ ev.op = "Count"    /\ Count
          /\ ObsOK(out', o)
TraceInit == Init /\ l = 1 /\ TLCSet(1, 1)
TraceNext ==
    /\ l <= Len(TraceLog)
    /\ IF ENABLED Good(TraceLog[l])
       THEN Good(TraceLog[l]) /\ l' = l + 1
       ELSE Reject(l) /\ l' = NextReset(l) /\ UNCHANGED vars
TraceSpec == TraceInit /\ [][TraceNext]_<<vars, l>>
TrackL == Track(l)
=============================================================================
