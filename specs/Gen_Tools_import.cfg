SPECIFICATION Spec
CONSTANTS
  FileKinds = {}
  Targets <- NoneSet
  DiffOpts = {}
  DumpObjs <- NoneSet
  ImportCases <- AllImports
  MaxOps = 2
  KeepHist = TRUE
CONSTRAINT Bound
ACTION_CONSTRAINT EmitAudited
CHECK_DEADLOCK FALSE
