SPECIFICATION Spec
CONSTANTS
  OldObjs = {o1, o2, o3}
  NewObjs = {n1, n2, n3, n4, n5}
  Slots = 2
  WriteAtCreate = FALSE
INVARIANTS CrashSafe Durable AppendOnly
CHECK_DEADLOCK FALSE
