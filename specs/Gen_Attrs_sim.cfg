SPECIFICATION Spec
CONSTANTS
  Objs = {"sd", "s1", "s2", "d10", "d20", "d21", "gr", "ri", "vd", "vdf0", "vdf1", "vg"}
  Names = {"a", "ab", "L1", "L2"}
  Types = {"i8", "i16", "u32", "f64", "c8"}
  Counts = {1, 3, 700, 3000}
  DimNames = {"x", "y"}
  ScaleTypes = {"i16", "f32"}
  MaxAttrs = 5
  MaxAdd = 3
  DataMod = 4
  MaxOps = 14
  KeepHist = TRUE
ACTION_CONSTRAINT EmitFull
CHECK_DEADLOCK FALSE
