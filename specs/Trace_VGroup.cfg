SPECIFICATION TraceSpec
CONSTANTS
  MaxG = 9
  NumD = 4
  Raws = {"R1", "R2", "R3"}
  Names = {}
  MaxMem = 100000
  MaxOps = 1
  KeepHist = FALSE
INVARIANTS TrackL LoneOK
PROPERTIES DelOne InsertNoDup
POSTCONDITION Verdict
CHECK_DEADLOCK FALSE
