SPECIFICATION Spec
CONSTANTS
  Targets = {"t1", "t2"}
  LabLens = {1, 5}
  DescLens = {5, 300}
  MaxAnns = 3
  DataMod = 1
  MaxOps = 100
  KeepHist = TRUE
VIEW view
CONSTRAINT Bound
ACTION_CONSTRAINT EmitAudited
CHECK_DEADLOCK FALSE
