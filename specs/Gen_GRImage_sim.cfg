SPECIFICATION Spec
CONSTANTS
  Dims <- DimsSim
  NComps = {1, 2, 3, 4}
  Layouts <- LAll
  Coords <- CoordsSim
  Counts = {1, 2, 3}
  Strides = {1, 2}
  DataMod = 7
  MaxOps = 12
  KeepHist = TRUE
ACTION_CONSTRAINT EmitFull
CHECK_DEADLOCK FALSE
