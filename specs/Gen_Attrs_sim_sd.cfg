SPECIFICATION Spec
CONSTANTS
  Objs = {"sd", "s1", "d10", "d20", "d21"}
  Names = {"a", "long_name"}
  Types = {"i16", "c8"}
  Counts = {2, 3}
  DimNames = {"x", "y"}
  ScaleTypes = {"i16", "f32", "i8"}
  MaxAttrs = 8
  MaxAdd = 3
  DataMod = 4
  MaxOps = 16
  KeepHist = TRUE
ACTION_CONSTRAINT EmitFull
CHECK_DEADLOCK FALSE
