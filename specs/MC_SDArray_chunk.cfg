SPECIFICATION Spec
CONSTANTS
  Shapes <- ShapesChunkMC
  Layouts <- LayoutsChunkMC
  Starts <- StartsTypes
  Counts = {1, 2}
  Strides = {1, 2}
  MaxExt = 3
  DataMod = 1
  MaxOps = 100
  KeepHist = FALSE
VIEW view
INVARIANTS ReadsCells
PROPERTIES RefusedLocal ExtentMonotone
CHECK_DEADLOCK FALSE
