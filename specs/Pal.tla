------------------------------- MODULE Pal -------------------------------
(***************************************************************************)
(* The single-file palette interface (hdf/src/dfp.c): a file holds a list   *)
(* of 768-byte palettes, each stored under the tag IP8 and -- as an alias of  *)
(* the same bytes -- under the tag LUT with the same reference number.        *)
(* Writing: DFPputpal (new palette, or overwrite of the one last written or   *)
(* read), DFPaddpal, DFPwriteref (reference number of the next one).          *)
(* Reading: DFPgetpal walks the palettes in descriptor order; DFPreadref      *)
(* picks the next one; DFPnpals counts distinct palettes; DFPlastref;         *)
(* DFPrestart forgets the position.  The interface keeps its position in      *)
(* process-wide variables (last file, read reference, set reference, write    *)
(* reference, last reference); they are part of the state here.               *)
(*                                                                         *)
(* Property C09 asks that a palette read back is the palette written; this    *)
(* module says WHICH palette each call addresses.                            *)
(***************************************************************************)
EXTENDS Naturals, Integers, Sequences, FiniteSets, TLC

CONSTANTS WRefs,      \* reference numbers handed to DFPwriteref
          MaxPals, MaxOps, KeepHist

FAIL == -1
VARIABLES exists,     \* the file exists
          dds,        \* descriptors in directory order: sequence of <<tag, ref>>, tag "IP8" | "LUT"
          pal,        \* [ref -> seed of the palette stored under it] (function over the refs in use)
          lastfile,   \* the interface's "last file" is this file
          refset, readref, writeref, lastref,
          wc, out, hist
vars == <<exists, dds, pal, lastfile, refset, readref, writeref, lastref, wc, out, hist>>
view == <<exists, dds, pal, lastfile, refset, readref, writeref, lastref, wc>>

Log(op, args, o) == /\ out' = o
                    /\ hist' = IF KeepHist THEN Append(hist, [op |-> op, args |-> args, out |-> o])
                                           ELSE <<[op |-> op, args |-> args, out |-> o]>>

Init == /\ exists = FALSE /\ dds = <<>> /\ pal = <<>> /\ lastfile = FALSE
        /\ refset = 0 /\ readref = 0 /\ writeref = 0 /\ lastref = 0
        /\ wc = 0 /\ out = [ret |-> 0] /\ hist = <<>>

Refs(d) == {d[i][2] : i \in 1..Len(d)}
Has(d, t, r) == \E i \in 1..Len(d) : d[i] = <<t, r>>
PosOf(d, t, r) == CHOOSE i \in 1..Len(d) : d[i] = <<t, r>>
\* lowest reference number not used by a palette (Htagnewref on the IP8 tag)
NewRef(d) == CHOOSE r \in 1..(Len(d) + 1) : ~Has(d, "IP8", r) /\ \A q \in 1..(r - 1) : Has(d, "IP8", q)
\* first descriptor with tag t after position p (0: from the start); 0 if none
NextOf(d, t, p) == LET I == {i \in (p + 1)..Len(d) : d[i][1] = t} IN
                   IF I = {} THEN 0 ELSE CHOOSE i \in I : \A j \in I : i <= j

\* opening the file for the interface: another file than last time (or a creation) forgets the read position
OpenResets(create) == ~lastfile \/ create

\* DFPputpal(file, palette, overwrite, mode): mode "w" creates the file anew
Put(ow, mode) ==
    /\ mode \in {"a", "w"}
    /\ (mode = "a") => exists
    /\ ow => (lastfile /\ lastref # 0)          \* (otherwise the call is refused; not generated)
    /\ LET create == (mode = "w")
           d0 == IF create THEN <<>> ELSE dds
           p0 == IF create THEN <<>> ELSE pal
           r  == IF ow THEN lastref ELSE IF writeref # 0 THEN writeref ELSE NewRef(d0)
           d1 == IF Has(d0, "IP8", r) THEN d0 ELSE Append(d0, <<"IP8", r>>)
           d2 == IF Has(d1, "LUT", r) THEN d1 ELSE Append(d1, <<"LUT", r>>)
       IN /\ Cardinality(Refs(d2)) <= MaxPals
          /\ dds' = d2
          /\ pal' = [q \in Refs(d2) |-> IF q = r THEN wc + 1 ELSE p0[q]]
          /\ lastref' = r
          /\ refset' = IF OpenResets(create) THEN 0 ELSE refset
          /\ readref' = IF OpenResets(create) THEN 0 ELSE readref
          /\ Log("Put", [ow |-> ow, mode |-> mode, seed |-> wc + 1], [ret |-> 0, lastref |-> r])
    /\ exists' = TRUE /\ lastfile' = TRUE /\ writeref' = 0 /\ wc' = wc + 1

\* DFPgetpal: the palette named by DFPreadref, else the one after the last one read, else the first
Get ==
    /\ exists
    /\ LET rs == IF lastfile THEN refset ELSE 0
           rr == IF lastfile THEN readref ELSE 0
           start(r) == IF Has(dds, "IP8", r) THEN PosOf(dds, "IP8", r) ELSE IF Has(dds, "LUT", r) THEN PosOf(dds, "LUT", r) ELSE 0
           tgt == IF rs # 0 THEN start(rs)
                  ELSE IF rr # 0
                       THEN IF start(rr) = 0 THEN 0
                            ELSE IF NextOf(dds, "IP8", start(rr)) # 0 THEN NextOf(dds, "IP8", start(rr))
                                 ELSE NextOf(dds, "LUT", start(rr))
                       ELSE IF NextOf(dds, "IP8", 0) # 0 THEN NextOf(dds, "IP8", 0) ELSE NextOf(dds, "LUT", 0)
       IN /\ refset' = 0
          /\ IF tgt = 0
             THEN /\ Log("Get", [a |-> 0], [ret |-> FAIL])
                  /\ readref' = rr /\ UNCHANGED lastref
             ELSE /\ Log("Get", [a |-> 0], [ret |-> 0, seed |-> pal[dds[tgt][2]], lastref |-> dds[tgt][2]])
                  /\ readref' = dds[tgt][2] /\ lastref' = dds[tgt][2]
    /\ lastfile' = TRUE
    /\ UNCHANGED <<exists, dds, pal, writeref, wc>>

\* DFPreadref(file, ref)
ReadRef(r) ==
    /\ exists
    /\ LET ok == Has(dds, "IP8", r) \/ Has(dds, "LUT", r) IN
       /\ Log("ReadRef", [ref |-> r], [ret |-> IF ok THEN 0 ELSE FAIL])
       /\ refset' = IF ok THEN r ELSE IF lastfile THEN refset ELSE 0
    /\ readref' = IF lastfile THEN readref ELSE 0
    /\ lastfile' = TRUE
    /\ UNCHANGED <<exists, dds, pal, writeref, lastref, wc>>

WriteRef(r) ==
    /\ r \in WRefs /\ writeref' = r
    /\ Log("WriteRef", [ref |-> r], [ret |-> 0])
    /\ UNCHANGED <<exists, dds, pal, lastfile, refset, readref, lastref, wc>>

Restart ==
    /\ lastfile' = FALSE
    /\ Log("Restart", [a |-> 0], [ret |-> 0])
    /\ UNCHANGED <<exists, dds, pal, refset, readref, writeref, lastref, wc>>

\* DFPnpals: distinct palettes (a palette and its alias count once); DFPlastref
Count ==
    /\ exists
    /\ Log("Count", [a |-> 0], [n |-> Cardinality(Refs(dds)), lastref |-> lastref])
    /\ refset' = (IF lastfile THEN refset ELSE 0)
    /\ readref' = (IF lastfile THEN readref ELSE 0)
    /\ lastfile' = TRUE
    /\ UNCHANGED <<exists, dds, pal, writeref, lastref, wc>>

Next ==
    \/ \E ow \in BOOLEAN, m \in {"a", "w"} : Put(ow, m)
    \/ Get
    \/ \E r \in 1..(MaxPals + 1) : ReadRef(r)
    \/ \E r \in WRefs : WriteRef(r)
    \/ Restart \/ Count
Spec == Init /\ [][Next]_vars
Bound == Len(hist) <= MaxOps

\* ---- checked on the model ----
\* every palette has both descriptors, and they name the same bytes
Aliased == \A r \in Refs(dds) : Has(dds, "IP8", r) /\ Has(dds, "LUT", r) /\ r \in DOMAIN pal
\* a successful read returns the palette most recently written under the reference number it reports
ReadsLastWritten ==
    (hist # <<>> /\ hist[Len(hist)].op = "Get" /\ hist[Len(hist)].out.ret = 0) =>
        LET o == hist[Len(hist)].out IN o.lastref \in DOMAIN pal /\ pal[o.lastref] = o.seed
\* an overwrite never changes the number of palettes
OverwriteKeepsCount ==
    [][(\E m \in {"a"} : Put(TRUE, m)) => Cardinality(Refs(dds')) = Cardinality(Refs(dds))]_vars
=============================================================================
