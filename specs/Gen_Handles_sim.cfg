SPECIFICATION Spec
CONSTANTS
  Files = {"f1", "f2"}
  HNames = {"h1", "h2", "h3", "h4", "h5", "h6", "h7", "h8", "h9"}
  MaxOps = 30
  KeepHist = TRUE
  GenMode = TRUE
ACTION_CONSTRAINT EmitFull
CHECK_DEADLOCK FALSE
