---------------------------- MODULE Gen_SDArray ----------------------------
EXTENDS SDArray, Json, CSV, IOUtils
ShapesSmall == {<<3>>, <<0>>, <<2, 3>>, <<0, 2>>}
ShapesSim == {<<5>>, <<0>>, <<3, 4>>, <<0, 3>>, <<2, 3, 2>>, <<0, 2, 2>>}
ShapesTypes == {<<3>>, <<0>>}
StartsSmall == {-1, 0, 1, 2}
StartsMC == {-1, 0, 1}
StartsTypes == {0, 1}
StartsSim == {0, 1, 2, 3}
StartsSim3 == {0, 1, 2}
ShapesHist == {<<2>>, <<0, 2>>}
StartsHist == {0, 1}
LHist == {<<"contig">>, <<"chunk", 1, 1>>, <<"comp", "deflate">>, <<"blk", 8>>}
LContig == {<<"contig">>}
\* number types x flavours ride in the layout descriptor
LTypes == {<<"contig", "nt", t, f>> : t \in {"int8", "uint8", "char8", "int16", "uint16", "int32", "uint32", "float32", "float64"}, f \in {"std", "le", "native"}}
\* storage configurations for the 2x3 and 3-element datasets: every chunk shape, cache sizes, coders, external, n-bit
LChunk2 == {<<"chunk", a, b, k>> : a \in 1..2, b \in 1..3, k \in {1, 3}}
LChunk1 == {<<"chunk", a, k>> : a \in 1..3, k \in {1, 2}}
LComp == {<<"comp", cd>> : cd \in {"none", "rle", "skphuff", "deflate"}}
LChunkComp2 == {<<"chunkcomp", cd, a, b, 2>> : cd \in {"rle", "skphuff", "deflate"}, a \in {1, 2}, b \in {2, 3}}
LOther == {<<"contig">>, <<"ext", 0>>, <<"ext", 7>>, <<"nbit", 12, "nt", "int16", "std">>, <<"blk", 8>>, <<"blk", 16>>}
LAll == LChunk2 \cup LChunk1 \cup LComp \cup LChunkComp2 \cup LOther
ShapesLay == {<<3>>, <<2, 3>>, <<0, 2>>}
Ev(o, a, x) == [op |-> o, args |-> a, out |-> x]
Ones(r) == [d \in 1..r |-> 1]
Zeros(r) == [d \in 1..r |-> 0]
FullSel == Sel(Zeros(Len(shape')), Ones(Len(shape')), [d \in 1..Len(shape') |-> IF d = 1 /\ shape'[1] = 0 THEN ext' ELSE shape'[d]])
\* epilogue: reopen and read the whole array back
AllKnown == \A x \in DOMAIN cells' : cells'[x] # Zc
Audit == <<Ev("Reopen", [a |-> 0], [ret |-> 0, dims |-> [d \in 1..Len(shape') |-> IF d = 1 /\ shape'[1] = 0 THEN ext' ELSE shape'[d]]])>>
         \o (IF (shape'[1] = 0 /\ ext' = 0) \/ ~AllKnown THEN <<>> ELSE
             <<Ev("Read", [start |-> Zeros(Len(shape')), stride |-> Ones(Len(shape')),
                           count |-> [d \in 1..Len(shape') |-> IF d = 1 /\ shape'[1] = 0 THEN ext' ELSE shape'[d]]],
                  [ret |-> 0, data |-> [n \in 1..Len(FullSel) |-> cells'[FullSel[n]]]])>>)
EmitAudited == (st' = "open") => CSVWrite("%1$s", <<ToJson([spec |-> "SDArray", steps |-> hist' \o Audit])>>, IOEnv.GEN_OUT)
EmitFull == (Len(hist') = MaxOps) => EmitAudited
=============================================================================
