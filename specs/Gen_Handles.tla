---------------------------- MODULE Gen_Handles ----------------------------
EXTENDS Handles, Json, CSV, IOUtils
EmitAll  == CSVWrite("%1$s", <<ToJson([spec |-> "Handles", steps |-> hist'])>>, IOEnv.GEN_OUT)
EmitFull == (Len(hist') = MaxOps) => EmitAll
view == hs
=============================================================================
