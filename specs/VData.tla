------------------------------- MODULE VData -------------------------------
(***************************************************************************)
(* A Vdata as a table of records (vio.c, vrw.c, vsfld.c, vg.c).            *)
(* schema : sequence of fields [size (bytes of the number type), order]    *)
(* recs   : sequence of records; a record is a sequence (per field) of     *)
(*          sequences (order components) of values                         *)
(* The user buffer of VSwrite/VSread is modelled as the sequence of values *)
(* in buffer order, for both buffer interlaces:                            *)
(*   FULL_INTERLACE : record by record, the selected fields in order       *)
(*   NO_INTERLACE   : field by field, all records of a field together      *)
(* The driver encodes/decodes that value sequence with the fields' number  *)
(* types; byte layout inside a value is C06's business.                    *)
(***************************************************************************)
EXTENDS Naturals, Integers, Sequences, FiniteSets, SequencesExt, TLC

CONSTANTS Schemas,     \* set of schemas: sequences of <<size, order>>
          MaxRecs, WriteNs, ReadNs, BlockSizes,
          DataMod, MaxOps, KeepHist

FAIL == -1
FULL == 0
NOIL == 1

VARIABLES st,        \* "init" | "closed" (vdata exists, detached) | "attached"
          schema, recs, pos,
          mode,      \* "r" | "w"
          rsel,      \* read selection: sequence of field indices (VSsetfields); <<>> = no read list yet
          fil,       \* the vdata's own (file) interlace
          wc, out, hist
vars == <<st, schema, recs, pos, mode, rsel, fil, wc, out, hist>>
view == <<st, schema, recs, pos, mode, rsel, fil, wc % DataMod>>

Log(op, args, o) == /\ out' = o
                    /\ hist' = IF KeepHist THEN Append(hist, [op |-> op, args |-> args, out |-> o])
                                           ELSE <<[op |-> op, args |-> args, out |-> o]>>

NF == Len(schema)
AllFields == [i \in 1..NF |-> i]
RecSize == LET RECURSIVE S(_) S(i) == IF i = 0 THEN 0 ELSE schema[i][1] * schema[i][2] + S(i - 1) IN S(NF)
SelSize(sel) == LET RECURSIVE S(_) S(i) == IF i = 0 THEN 0 ELSE schema[sel[i]][1] * schema[sel[i]][2] + S(i - 1) IN S(Len(sel))

\* the value written by the wc-th write call into record r (absolute index), field f, component c
Val(c0, r, f, c) == (((c0 % DataMod) * 7 + r * 5 + f * 3 + c) % 100) + 1
NewRec(c0, r) == [f \in 1..NF |-> [c \in 1..schema[f][2] |-> Val(c0, r, f, c)]]

\* flatten helper
RECURSIVE Flat(_)
Flat(ss) == IF ss = <<>> THEN <<>> ELSE Head(ss) \o Flat(Tail(ss))

\* the user buffer (value sequence) holding records rs restricted to the fields sel, in interlace il
Buffer(rs, sel, il) ==
    IF il = FULL THEN Flat([i \in 1..Len(rs) |-> Flat([j \in 1..Len(sel) |-> rs[i][sel[j]]])])
                 ELSE Flat([j \in 1..Len(sel) |-> Flat([i \in 1..Len(rs) |-> rs[i][sel[j]]])])

Init == /\ st = "init" /\ schema = <<>> /\ recs = <<>> /\ pos = 0 /\ mode = "w" /\ rsel = <<>> /\ fil = FULL
        /\ wc = 0 /\ out = [ret |-> 0] /\ hist = <<>>

\* Hopen(create) ; VSattach(-1,"w") ; VSfdefine* ; VSsetfields(all) ; VSsetinterlace ; [VSsetblocksize/numblocks]
Create(sc, il, bs) ==
    /\ st = "init"
    /\ st' = "attached" /\ schema' = sc /\ mode' = "w" /\ fil' = il
    /\ rsel' = <<>>            \* the VSsetfields of the creating attachment defines the WRITE list only
    /\ Log("Create", [schema |-> sc, il |-> il, bs |-> bs], [ret |-> 0])
    /\ UNCHANGED <<recs, pos, wc>>

\* VSwrite(vs, buf, n, bil): n whole records at the current position
Write(n, bil) ==
    /\ st = "attached" /\ mode = "w" /\ n >= 1
    /\ pos + n <= MaxRecs
    \* a vdata stored with NO_INTERLACE is only well defined when written in one call
    /\ (fil = NOIL) => (recs = <<>> /\ pos = 0)
    /\ LET new == [i \in 1..n |-> NewRec(wc + 1, pos + i)]
           L2  == IF pos + n > Len(recs) THEN pos + n ELSE Len(recs) IN
       /\ recs' = [i \in 1..L2 |-> IF i > pos /\ i <= pos + n THEN new[i - pos] ELSE recs[i]]
       /\ Log("Write", [n |-> n, bil |-> bil, buf |-> Buffer(new, AllFields, bil)], [ret |-> n, nrec |-> L2])
    /\ pos' = pos + n /\ wc' = wc + 1
    /\ UNCHANGED <<st, schema, mode, rsel, fil>>

\* VSseek(vs, r)
Seek(r) ==
    /\ st = "attached" /\ r >= 0 /\ r <= Len(recs)
    /\ recs # <<>>
    /\ (mode = "r") => r < Len(recs)
    /\ pos' = r
    /\ Log("Seek", [r |-> r], [ret |-> r])
    /\ UNCHANGED <<st, schema, recs, mode, rsel, fil, wc>>

\* VSsetfields(vs, list) on a vdata that has its schema: selects (and orders) the fields VSread returns
SetFields(sel) ==
    /\ st = "attached" /\ recs # <<>> /\ Len(sel) >= 1
    /\ \A i \in 1..Len(sel) : sel[i] \in 1..NF
    /\ \A i, j \in 1..Len(sel) : i # j => sel[i] # sel[j]
    /\ rsel' = sel                     \* (once data exists, VSsetfields selects what VSread returns, in either mode)
    /\ Log("SetFields", [sel |-> sel], [ret |-> 0, size |-> SelSize(sel)])
    /\ UNCHANGED <<st, schema, recs, pos, mode, fil, wc>>

\* VSread(vs, buf, n, bil): n records of the selected fields from the current position
Read(n, bil) ==
    /\ st = "attached" /\ n >= 1 /\ pos + n <= Len(recs)
    /\ rsel # <<>>                                \* VSsetfields must have named the fields to read
    /\ (fil = NOIL) => (pos = 0 /\ n = Len(recs))  \* NO_INTERLACE storage: whole-table transfers only
    /\ LET rs == SubSeq(recs, pos + 1, pos + n) IN
       Log("Read", [n |-> n, bil |-> bil, sel |-> rsel], [ret |-> n, buf |-> Buffer(rs, rsel, bil)])
    /\ pos' = pos + n
    /\ UNCHANGED <<st, schema, recs, mode, rsel, fil, wc>>

\* VSinquire / VSelts / VSsizeof(all fields) / VFnfields
Inquire ==
    /\ st = "attached"
    \* (agree: the per-field queries -- index by name, name/type/order/size by index, existence -- describe the same schema)
    /\ Log("Inquire", [a |-> 0], [nrec |-> Len(recs), il |-> fil, nfields |-> NF, recsize |-> RecSize, agree |-> TRUE])
    /\ UNCHANGED <<st, schema, recs, pos, mode, rsel, fil, wc>>

\* VSfpack round trip over the current schema (pure helper): pack the fields of n records into record
\* buffers and unpack them again; the packed buffer must be the FULL_INTERLACE buffer
Fpack(n, sel) ==
    /\ st = "attached" /\ n >= 1 /\ schema # <<>> /\ Len(sel) >= 1
    /\ \A i \in 1..Len(sel) : sel[i] \in 1..NF
    /\ \A i, j \in 1..Len(sel) : i # j => sel[i] # sel[j]
    /\ LET rs == [i \in 1..n |-> NewRec(wc + 3, i)] IN
       \* sel = the fields present in the record buffer, in that order (fields_in_buf; all fields = NULL)
       Log("Fpack", [n |-> n, sel |-> sel, fields |-> Buffer(rs, sel, NOIL)], [ret |-> 0, packed |-> Buffer(rs, sel, FULL)])
    /\ UNCHANGED <<st, schema, recs, pos, mode, rsel, fil, wc>>

\* VSsetinterlace on the attached vdata: the storage interlace can only be chosen while the table is empty
\* (and through a write attachment); afterwards the call is refused and nothing changes
SetIl(il) ==
    /\ st = "attached" /\ il \in {FULL, NOIL}
    /\ IF recs = <<>> /\ mode = "w"
       THEN /\ fil' = il /\ Log("SetIl", [il |-> il], [ret |-> 0])
       ELSE /\ UNCHANGED fil /\ Log("SetIl", [il |-> il], [ret |-> FAIL])
    /\ UNCHANGED <<st, schema, recs, pos, mode, rsel, wc>>

\* an unrelated element written after the vdata's data: the next append promotes it to linked blocks
Bump ==
    /\ st = "attached"
    /\ Log("Bump", [a |-> 0], [ret |-> 0])
    /\ UNCHANGED <<st, schema, recs, pos, mode, rsel, fil, wc>>

\* VSdetach
Detach ==
    /\ st = "attached" /\ st' = "closed"
    /\ recs # <<>>                  \* (an empty vdata is not stored)
    /\ Log("Detach", [a |-> 0], [ret |-> 0])
    /\ UNCHANGED <<schema, recs, pos, mode, rsel, fil, wc>>

\* VSattach(ref, m) [after an optional Hclose/Hopen]: position 0, all fields selected
Attach(m, reopen) ==
    /\ st = "closed" /\ st' = "attached"
    /\ mode' = m /\ pos' = 0 /\ rsel' = AllFields
    /\ Log("Attach", [mode |-> m, reopen |-> reopen], [ret |-> 0, nrec |-> Len(recs), nfields |-> NF, recsize |-> RecSize])
    /\ UNCHANGED <<schema, recs, fil, wc>>

Perms(n) == {s \in UNION {[1..k -> 1..n] : k \in 1..n} : \A i, j \in DOMAIN s : i # j => s[i] # s[j]}

Next ==
    \/ \E sc \in Schemas, il \in {FULL, NOIL}, bs \in BlockSizes : Create(sc, il, bs)
    \/ \E n \in WriteNs, bil \in {FULL, NOIL} : Write(n, bil)
    \/ \E r \in 0..MaxRecs : Seek(r)
    \/ \E sel \in Perms(NF) : SetFields(sel)
    \/ \E n \in ReadNs, bil \in {FULL, NOIL} : Read(n, bil)
    \/ \E n \in {2}, sel \in Perms(NF) : Fpack(n, sel)
    \/ Inquire \/ Bump \/ Detach
    \/ \E il \in {FULL, NOIL} : SetIl(il)
    \/ \E m \in {"r", "w"}, ro \in BOOLEAN : Attach(m, ro)
Spec == Init /\ [][Next]_vars

---------------------------------------------------------------------------
\* the two buffer layouts carry the same values: each is a permutation of the other, of the expected length
BufferLen == (hist # <<>> /\ hist[Len(hist)].op = "Read") =>
               LET e == hist[Len(hist)] IN Len(e.out.buf) * 1 = Len(Buffer(SubSeq(recs, pos - e.args.n + 1, pos), e.args.sel, FULL))
\* a read returns exactly the stored field values of the range (action invariant on the last call)
ReadsStored == (hist # <<>> /\ hist[Len(hist)].op = "Read") =>
               LET e == hist[Len(hist)] IN e.out.buf = Buffer(SubSeq(recs, pos - e.args.n + 1, pos), e.args.sel, e.args.bil)
\* a write changes exactly the records [pos, pos+n)
WriteLocal == [][(hist' # hist /\ hist' # <<>> /\ hist'[Len(hist')].op = "Write") =>
                   \A i \in 1..Len(recs) : (i <= pos \/ i > pos') => recs'[i] = recs[i]]_vars
PosOK == pos >= 0 /\ pos <= Len(recs)
Bound == Len(hist) < MaxOps /\ Len(recs) <= MaxRecs
=============================================================================
