SPECIFICATION Spec
CONSTANTS
  Widths = {1, 3, 8}
  SeekBits = {0, 1, 8, 9}
  MaxBits = 12
  MaxOps = 100
  MixedWrites = FALSE
  KeepHist = FALSE
VIEW view
INVARIANTS ReadsBits WholeBytesWhenClosed
CHECK_DEADLOCK FALSE
