SPECIFICATION TraceSpec
CONSTANTS
  MaxIds = 1000000
  MaxOps = 1
  IdSpace = 12
  Objs = {1, 2, 3}
  SkipLive = TRUE
  NeedBurn = FALSE
  MustBurn = FALSE
  KeepHist = FALSE
INVARIANTS TrackL CacheCoherent NoDupCache LookupAbstract FreshIds
POSTCONDITION Verdict
CHECK_DEADLOCK FALSE
