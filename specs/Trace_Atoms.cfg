SPECIFICATION TraceSpec
CONSTANTS
  MaxIds = 1000000
  MaxOps = 1
  KeepHist = FALSE
INVARIANTS TrackL CacheCoherent NoDupCache LookupAbstract FreshIds
POSTCONDITION Verdict
CHECK_DEADLOCK FALSE
