---------------------------- MODULE Gen_Comp ----------------------------
EXTENDS Comp, Json, CSV, IOUtils
CodersAll == {<<"none", 0>>, <<"rle", 0>>, <<"skphuff", 1>>, <<"skphuff", 2>>, <<"skphuff", 3>>, <<"skphuff", 4>>, <<"skphuff", 5>>, <<"skphuff", 7>>, <<"skphuff", 8>>, <<"deflate", 0>>, <<"deflate", 1>>, <<"deflate", 6>>, <<"deflate", 9>>}
ChunksSmall == {<<"run", 1>>, <<"run", 3>>, <<"alt", 4>>, <<"ctr", 5>>}
ChunksBig == {<<"run", 1>>, <<"run", 2>>, <<"run", 3>>, <<"run", 126>>, <<"run", 127>>, <<"run", 128>>, <<"run", 129>>, <<"run", 130>>, <<"run", 131>>,
              <<"alt", 2>>, <<"alt", 127>>, <<"alt", 128>>, <<"alt", 129>>, <<"ctr", 1>>, <<"ctr", 4>>, <<"ctr", 127>>, <<"ctr", 128>>, <<"ctr", 200>>}
Ev(o, a, x) == [op |-> o, args |-> a, out |-> x]
\* epilogue: release, reopen the file, read the whole stream back (and once more after a backward seek)
Audit == (IF st' = "open" THEN <<Ev("EndAccess", [a |-> 0], [ret |-> 0])>> ELSE <<>>)
         \o <<Ev("Start", [w |-> FALSE, reopen |-> TRUE], [ret |-> 0, len |-> Len(content'), orig |-> Len(content')]),
              Ev("Read", [n |-> 0], [ret |-> Len(content'), data |-> content', posn |-> Len(content')]),
              Ev("Seek", [off |-> 0], [ret |-> 0, posn |-> 0]),
              Ev("Read", [n |-> 0], [ret |-> Len(content'), data |-> content', posn |-> Len(content')])>>
EmitAudited == (st' # "init" /\ phase' = "seq" /\ content' # <<>>) =>
    CSVWrite("%1$s", <<ToJson([spec |-> "Comp", steps |-> hist' \o Audit])>>, IOEnv.GEN_OUT)
EmitFull == (Len(hist') = MaxOps) => EmitAudited
=============================================================================
