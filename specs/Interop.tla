------------------------------ MODULE Interop ------------------------------
(***************************************************************************)
(* All interfaces agree on the content of the same objects (property C15). *)
(*                                                                         *)
(* One file; objects are written through one programming interface and     *)
(* listed through every interface able to address them.  An object's       *)
(* content is (shape, number type, seed): the driver expands the seed with *)
(* a fixed formula and recovers it from what a reader returns, so a        *)
(* reader's listing is the set of recognised objects, ordered by seed      *)
(* (every object of a behaviour has its own seed).                         *)
(*                                                                         *)
(*   datasets : written by DFSD (single-file SDS), SD, NC (netCDF-style);  *)
(*              read by all three.  The NC reader reports the type class   *)
(*              (element size, float or not), the others the number type.  *)
(*   rasters  : written by DFR8 (8-bit, optional RLE, optional palette),   *)
(*              DF24 (24-bit, 3 interlaces), GR (1 or 3 components of      *)
(*              uint8, optional RLE/deflate); read by GR (everything) and  *)
(*              by DFR8 / DF24 (the images of their own kind written by    *)
(*              the legacy writers: GR-written raster groups carry         *)
(*              new-style descriptors the legacy readers do not address).  *)
(*   palettes : written with a DFR8 image or by GRwritelut; read by        *)
(*              GRreadlut and DFR8getimage.                                *)
(*   low-level views: every dataset written by SD/NC has a Vgroup of class *)
(*              Var0.0 with its name, every image written by GR one of     *)
(*              class RI0.0.                                               *)
(***************************************************************************)
EXTENDS Naturals, Integers, Sequences, FiniteSets, TLC, SequencesExt

CONSTANTS SdsWriters, RasWriters, Shapes, Types, RasDims, ScaleSets, MaxObjs, MaxOps, KeepHist,
          Grows,  \* how many records a later session may append to a dataset with an unlimited dimension

          Mix     \* FALSE: generated files stay clear of the combinations with known findings (see Clear...), so that
                  \* everything else is explored to the end; TRUE: anything goes
FAIL == -1
NcTypes  == {"i8", "c8", "i16", "i32", "f32", "f64"}      \* what the netCDF-style calls can define
SizeOf   == [i8 |-> 1, u8 |-> 1, c8 |-> 1, uc8 |-> 1, i16 |-> 2, u16 |-> 2, i32 |-> 4, u32 |-> 4, f32 |-> 4, f64 |-> 8,
             li16 |-> 2, lu32 |-> 4, lf32 |-> 4, lf64 |-> 8]    \* l.. = little-endian flavour of the type
IsFloat(t) == t \in {"f32", "f64", "lf32", "lf64"}

VARIABLES st, sds, ras, nk, out, hist
vars == <<st, sds, ras, nk, out, hist>>
view == <<st, sds, ras, nk>>
Log(op, args, o) == /\ out' = o
                    /\ hist' = IF KeepHist THEN Append(hist, [op |-> op, args |-> args, out |-> o])
                                           ELSE <<[op |-> op, args |-> args, out |-> o]>>

Init == st = "init" /\ sds = <<>> /\ ras = <<>> /\ nk = 0 /\ out = [ret |-> 0] /\ hist = <<>>
Setup == /\ st = "init" /\ st' = "ready" /\ Log("Setup", [a |-> 0], [ret |-> 0]) /\ UNCHANGED <<sds, ras, nk>>

\* ---- datasets ----
\* ("DFSDS": the single-file interface writing the dataset in two hyperslabs: DFSDstartslab / DFSDwriteslab x 2 / DFSDendslab)
Family(w) == IF w \in {"DFSD", "DFSDS"} THEN "old" ELSE "new"
\* known findings: a dataset added by DFSD to a file with SD structure is invisible to SD/NC; SD cannot add a
\* dataset to a file written by DFSD
ClearSds(w) == \A i \in 1..Len(sds) : Family(sds[i].writer) = Family(w)
\* sc : which dimensions get a scale (a sequence of 0/1 as long as the shape; scale values have the dataset's type,
\*      seed = the dataset's seed); unl : written through SD with an unlimited first dimension (shape[1] records)
WriteSds(w, shape, ty, sc, unl) ==
    /\ st = "ready" /\ nk < MaxObjs
    /\ Len(sc) = Len(shape)
    /\ (w \in {"NC", "DFSDS"}) => (\A i \in 1..Len(sc) : sc[i] = 0)
    /\ unl => (w = "SD" /\ sc[1] = 0)
    /\ Mix \/ ClearSds(w)
    \* (the netCDF-style calls of this library can only create a file, not extend one: NC writes first)
    /\ (w = "NC") => (ty \in NcTypes /\ sds = <<>> /\ ras = <<>>)
    /\ sds' = Append(sds, [writer |-> w, shape |-> shape, type |-> ty, k |-> nk + 1, scales |-> sc, unl |-> unl])
    /\ nk' = nk + 1
    /\ Log("WriteSds", [api |-> w, shape |-> shape, type |-> ty, k |-> nk + 1, scales |-> sc, unl |-> unl], [ret |-> 0])
    /\ UNCHANGED <<st, ras>>
\* records appended to dataset i (unlimited first dimension, written through SD) in a LATER session that does nothing
\* else: the file is opened for writing, n more records are written behind the existing ones, the file is closed
GrowSds(i, n) ==
    /\ st = "ready" /\ i \in 1..Len(sds) /\ sds[i].unl /\ n >= 1
    /\ sds' = [sds EXCEPT ![i].shape = [@ EXCEPT ![1] = @ + n]]
    /\ Log("GrowSds", [k |-> sds[i].k, type |-> sds[i].type, shape |-> sds[i].shape, n |-> n], [ret |-> 0])
    /\ UNCHANGED <<st, ras, nk>>
ScalesSeen(r, e) == IF r = "DFSD" /\ e.writer \notin {"DFSD", "DFSDS"} THEN [i \in 1..Len(e.scales) |-> 0] ELSE e.scales
\* listing through SD or DFSD: shape, number type, seed, scales
ListSds(r) ==
    /\ st = "ready" /\ r \in {"SD", "DFSD"}
    \* (dimension scales set through SD are stored as coordinate variables: DFSD does not present them as scales)
    /\ Log("ListSds", [api |-> r], [items |-> [i \in 1..Len(sds) |-> [shape |-> sds[i].shape, type |-> sds[i].type, k |-> sds[i].k, scales |-> ScalesSeen(r, sds[i])]]])
    /\ UNCHANGED <<st, sds, ras, nk>>
\* listing through the netCDF-style calls: shape, element size, float or not, seed
ListSdsNc ==
    /\ st = "ready"
    \* (the netCDF-style calls present ONE record count for all datasets with an unlimited dimension -- their data model --
    \*  so those datasets are left out of this listing)
    /\ LET vis == SelectSeq(sds, LAMBDA e : ~e.unl) IN
       Log("ListSdsNc", [a |-> 0], [items |-> [i \in 1..Len(vis) |-> [shape |-> vis[i].shape, size |-> SizeOf[vis[i].type], float |-> IsFloat(vis[i].type), k |-> vis[i].k]]])
    /\ UNCHANGED <<st, sds, ras, nk>>
\* names of the Var0.0 Vgroups of the datasets written through SD or NC (need = they must all be there)
NamesOf(s) == [i \in 1..Len(s) |-> s[i].k]
SdWritten == SelectSeq(sds, LAMBDA e : e.writer \in {"SD", "NC"})

\* ---- rasters ----
\* opts: <<compression, palette seed or 0, interlace>>
\* known finding: GR returns legacy 24-bit images stored line/plane interlaced unconverted
ClearRas(w, il) == (w = "DF24") => il = 0
WriteRas(w, dims, ncomp, comp, pal, il) ==
    /\ st = "ready" /\ nk < MaxObjs
    /\ Mix \/ ClearRas(w, il)
    /\ (w = "DFR8") => (ncomp = 1 /\ comp \in {"none", "rle"} /\ il = 0)
    /\ (w = "DF24") => (ncomp = 3 /\ comp = "none" /\ pal = 0)
    /\ (w = "GR") => (ncomp = 1 \/ pal = 0)
    /\ (ncomp = 1) => il = 0
    /\ ras' = Append(ras, [writer |-> w, dims |-> dims, ncomp |-> ncomp, k |-> nk + 1, pal |-> IF pal = 0 THEN 0 ELSE nk + 2])
    /\ nk' = nk + 2
    /\ Log("WriteRas", [api |-> w, dims |-> dims, ncomp |-> ncomp, comp |-> comp, pal |-> IF pal = 0 THEN 0 ELSE nk + 2, il |-> il, k |-> nk + 1], [ret |-> 0])
    /\ UNCHANGED <<st, sds>>
VisibleTo(r, e) == CASE r = "GR" -> TRUE
                     [] r = "DFR8" -> e.writer = "DFR8"
                     [] r = "DF24" -> e.writer = "DF24"
\* listing through GR, DFR8 or DF24: dimensions, components, pixel values in pixel interlace (seed), palette seed
ListRas(r) ==
    /\ st = "ready" /\ r \in {"GR", "DFR8", "DF24"}
    /\ LET vis == SelectSeq(ras, LAMBDA e : VisibleTo(r, e)) IN
       Log("ListRas", [api |-> r], [items |-> [i \in 1..Len(vis) |-> [dims |-> vis[i].dims, ncomp |-> vis[i].ncomp, k |-> vis[i].k, pal |-> vis[i].pal]]])
    /\ UNCHANGED <<st, sds, ras, nk>>
GrWritten == SelectSeq(ras, LAMBDA e : e.writer = "GR")
\* the Vgroup views: seeds of the datasets / images whose Vgroup (class Var0.0 / RI0.0, named like the object) was found
VViews ==
    /\ st = "ready"
    /\ Log("VViews", [a |-> 0], [vars |-> NamesOf(SdWritten), images |-> NamesOf(GrWritten)])
    /\ UNCHANGED <<st, sds, ras, nk>>

\* a checked-in file in the older storage conventions: the datasets it holds are reported with the same shape,
\* type and values by DFSD and SD, the raster images by DFR8/DF24 and GR (agree = TRUE; the driver compares)
Legacy(f) ==
    /\ st = "init"
    /\ Log("Legacy", [file |-> f], [agree |-> TRUE])
    /\ UNCHANGED <<st, sds, ras, nk>>

Next == \/ Setup \/ ListSdsNc \/ VViews
        \/ \E w \in SdsWriters, sh \in Shapes, ty \in Types, sc \in ScaleSets, unl \in BOOLEAN : WriteSds(w, sh, ty, sc, unl)
        \/ \E r \in {"SD", "DFSD"} : ListSds(r)
        \/ \E i \in 1..Len(sds), n \in Grows : GrowSds(i, n)
        \/ \E w \in RasWriters, d \in RasDims, nc \in {1, 3}, cp \in {"none", "rle", "deflate"}, pal \in {0, 1}, il \in {0, 1, 2} :
              WriteRas(w, d, nc, cp, pal, il)
        \/ \E r \in {"GR", "DFR8", "DF24"} : ListRas(r)
Spec == Init /\ [][Next]_vars

\* objects are never dropped, reordered or changed by later writes through another interface
\* (a dataset with an unlimited dimension may gain records; nothing else of it changes)
Same(e, f) == \/ e = f
              \/ /\ e.unl /\ f = [e EXCEPT !.shape = f.shape] /\ Len(f.shape) = Len(e.shape)
                 /\ f.shape[1] >= e.shape[1] /\ \A d \in 2..Len(e.shape) : f.shape[d] = e.shape[d]
Stable == [][st' # "init" => /\ Len(sds') >= Len(sds) /\ \A i \in 1..Len(sds) : Same(sds[i], sds'[i])
                             /\ Len(ras') >= Len(ras) /\ SubSeq(ras', 1, Len(ras)) = ras]_vars
SeedsDistinct == \A i, j \in 1..Len(sds) : i # j => sds[i].k # sds[j].k
Bound == Len(hist) < MaxOps
GrowBound == \A i \in 1..Len(sds) : sds[i].shape[1] <= 6
=============================================================================
