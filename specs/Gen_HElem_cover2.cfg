SPECIFICATION Spec
CONSTANTS
  Keys = {1, 2}
  Aids = {"A1", "A2"}
  MaxLen = 6
  WriteLens = {1, 3}
  SeekOffs = {0, 2, 5}
  ReadLens = {0, 2}
  BlkCfgs <- BlkGen2
  NddsSet = {5, 16}
  MaxOps = 5
  DataMod = 15
  SharedGrow = FALSE
  KeepHist = TRUE
VIEW view
CONSTRAINT Bound
ACTION_CONSTRAINT EmitAudited
CHECK_DEADLOCK FALSE
