SPECIFICATION Spec
CONSTANTS
  Objs = {"s1"}
  Names = {"a", "long_name", "valid_range"}
  Types = {"c8", "i16"}
  Counts = {2, 3}
  DimNames = {"x"}
  ScaleTypes = {"i16"}
  MaxAttrs = 7
  MaxAdd = 0
  DataMod = 1
  MaxOps = 100
  KeepHist = TRUE
VIEW view
CONSTRAINT Bound
ACTION_CONSTRAINT EmitAudited
CHECK_DEADLOCK FALSE
