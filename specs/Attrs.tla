------------------------------- MODULE Attrs -------------------------------
(***************************************************************************)
(* Attributes of every attributable object (mfsd.c/attr.c, mfgr.c,         *)
(* vattr.c): per object an ORDERED list of <<name, type, count, values>>.  *)
(* Re-setting an existing name replaces the value in place (index and all  *)
(* other attributes untouched) -- or, where the interface forbids changing *)
(* type or count, fails and leaves the old value:                          *)
(*     SD (file, dataset, dimension) : any change allowed                  *)
(*     GR (file, image)              : same type required, count may change*)
(*     Vdata, Vdata field, Vgroup    : same type and same count required   *)
(* Predefined SD metadata (valid range, fill value, data strings,          *)
(* calibration) are attributes with fixed names, visible through both      *)
(* their own getters and the attribute calls.                              *)
(***************************************************************************)
EXTENDS Naturals, Integers, Sequences, FiniteSets, TLC

CONSTANTS Objs,        \* subset of {"sd","sds1","sds2","dim","gr","ri","vd","vdf","vg"}
          Names, Types, Counts, MaxAttrs, DataMod, MaxOps, KeepHist
FAIL == -1

VARIABLES st, attrs, wc, out, hist
vars == <<st, attrs, wc, out, hist>>
view == <<st, attrs, wc % DataMod>>

Log(op, args, o) == /\ out' = o
                    /\ hist' = IF KeepHist THEN Append(hist, [op |-> op, args |-> args, out |-> o])
                                           ELSE <<[op |-> op, args |-> args, out |-> o]>>

Iface(o) == IF o \in {"sd", "sds1", "sds2", "dim"} THEN "SD" ELSE IF o \in {"gr", "ri"} THEN "GR" ELSE "V"
ValK(k, n) == ((k * 13 + n * 7) % 100) + 1
Vals(k, c) == [n \in 1..c |-> ValK(k, n)]
IndexOf(o, nm) == IF \E i \in 1..Len(attrs[o]) : attrs[o][i].name = nm
                  THEN CHOOSE i \in 1..Len(attrs[o]) : attrs[o][i].name = nm ELSE 0

Init == st = "init" /\ attrs = [o \in Objs |-> <<>>] /\ wc = 0 /\ out = [ret |-> 0] /\ hist = <<>>

\* create the file with one object of every kind
Setup == /\ st = "init" /\ st' = "open"
         /\ Log("Setup", [objs |-> Objs], [ret |-> 0])
         /\ UNCHANGED <<attrs, wc>>

\* SDsetattr / GRsetattr / VSsetattr / Vsetattr
MayReplace(o, old, ty, c) == CASE Iface(o) = "SD" -> TRUE
                               [] Iface(o) = "GR" -> old.type = ty
                               [] OTHER -> old.type = ty /\ old.count = c
Set(o, nm, ty, c, k) ==
    /\ st = "open" /\ o \in Objs
    /\ LET i == IndexOf(o, nm)  new == [name |-> nm, type |-> ty, count |-> c, vals |-> Vals(k, c)] IN
       IF i = 0
       THEN /\ Len(attrs[o]) < MaxAttrs
            /\ attrs' = [attrs EXCEPT ![o] = Append(@, new)]
            /\ Log("Set", [obj |-> o, name |-> nm, type |-> ty, vals |-> Vals(k, c)], [ret |-> 0])
       ELSE IF MayReplace(o, attrs[o][i], ty, c)
            THEN /\ attrs' = [attrs EXCEPT ![o][i] = new]
                 /\ Log("Set", [obj |-> o, name |-> nm, type |-> ty, vals |-> Vals(k, c)], [ret |-> 0])
            ELSE /\ Log("Set", [obj |-> o, name |-> nm, type |-> ty, vals |-> Vals(k, c)], [ret |-> FAIL])
                 /\ UNCHANGED attrs
    /\ wc' = wc + 1 /\ UNCHANGED st

\* SDfindattr / GRfindattr / VSfindattr / Vfindattr
Find(o, nm) ==
    /\ st = "open" /\ o \in Objs
    /\ Log("Find", [obj |-> o, name |-> nm], [index |-> IndexOf(o, nm) - 1])
    /\ UNCHANGED <<st, attrs, wc>>

\* number of attributes + for every index: info (name, type, count) and values
Dump(o) ==
    /\ st = "open" /\ o \in Objs
    /\ Log("Dump", [obj |-> o], [n |-> Len(attrs[o]), attrs |-> attrs[o]])
    /\ UNCHANGED <<st, attrs, wc>>

\* ---- predefined SD metadata on a dataset: each is an attribute with a fixed name ----
\* SDsetrange(max, min): attribute "valid_range" of the dataset's type (int16), count 2 = <<min, max>>
SetRange(o, k) ==
    /\ st = "open" /\ o \in Objs \cap {"sds1", "sds2"}
    /\ LET i == IndexOf(o, "valid_range")  new == [name |-> "valid_range", type |-> "i16", count |-> 2, vals |-> <<ValK(k, 1), ValK(k, 1) + 5>>] IN
       /\ (i = 0) => Len(attrs[o]) < MaxAttrs
       /\ attrs' = [attrs EXCEPT ![o] = IF i = 0 THEN Append(@, new) ELSE [@ EXCEPT ![i] = new]]
       /\ Log("SetRange", [obj |-> o, min |-> ValK(k, 1), max |-> ValK(k, 1) + 5], [ret |-> 0])
    /\ wc' = wc + 1 /\ UNCHANGED st
GetRange(o) ==
    /\ st = "open" /\ o \in Objs \cap {"sds1", "sds2"}
    /\ LET i == IndexOf(o, "valid_range") IN
       Log("GetRange", [obj |-> o], IF i = 0 THEN [ret |-> FAIL] ELSE [ret |-> 0, min |-> attrs[o][i].vals[1], max |-> attrs[o][i].vals[2]])
    /\ UNCHANGED <<st, attrs, wc>>
\* SDsetdatastrs(label, unit, NULL, NULL): attributes "long_name" and "units" (char, length of the string)
SetStrs(o, k) ==
    /\ st = "open" /\ o \in Objs \cap {"sds1", "sds2"}
    /\ LET upd(as, nm, v) == LET i == IF \E j \in 1..Len(as) : as[j].name = nm THEN CHOOSE j \in 1..Len(as) : as[j].name = nm ELSE 0
                                 new == [name |-> nm, type |-> "c8", count |-> Len(v), vals |-> v] IN
                             IF i = 0 THEN Append(as, new) ELSE [as EXCEPT ![i] = new]
           lab == Vals(k, 3)  unit == Vals(k + 1, 2) IN
       /\ Len(attrs[o]) + 2 <= MaxAttrs
       /\ attrs' = [attrs EXCEPT ![o] = upd(upd(@, "long_name", lab), "units", unit)]
       /\ Log("SetStrs", [obj |-> o, label |-> lab, unit |-> unit], [ret |-> 0])
    /\ wc' = wc + 1 /\ UNCHANGED st
GetStrs(o) ==
    /\ st = "open" /\ o \in Objs \cap {"sds1", "sds2"}
    /\ LET i == IndexOf(o, "long_name")  j == IndexOf(o, "units") IN
       Log("GetStrs", [obj |-> o], [label |-> IF i = 0 THEN <<>> ELSE attrs[o][i].vals, unit |-> IF j = 0 THEN <<>> ELSE attrs[o][j].vals])
    /\ UNCHANGED <<st, attrs, wc>>

\* close everything and reopen (mode: read-only or read-write)
Reopen(rw) ==
    /\ st = "open"
    /\ Log("Reopen", [rw |-> rw], [ret |-> 0])
    /\ UNCHANGED <<st, attrs, wc>>

Next == \/ Setup
        \/ \E o \in Objs, nm \in Names, ty \in Types, c \in Counts : Set(o, nm, ty, c, (wc + 1) % DataMod)
        \/ \E o \in Objs, nm \in Names \cup {"valid_range", "long_name", "nosuch"} : Find(o, nm)
        \/ \E o \in Objs : Dump(o) \/ SetRange(o, (wc + 1) % DataMod) \/ GetRange(o) \/ SetStrs(o, (wc + 1) % DataMod) \/ GetStrs(o)
        \/ \E rw \in BOOLEAN : Reopen(rw)
Spec == Init /\ [][Next]_vars

---------------------------------------------------------------------------
\* names are unique per object; re-setting keeps the index and every other attribute
UniqueNames == \A o \in Objs : \A i, j \in 1..Len(attrs[o]) : i # j => attrs[o][i].name # attrs[o][j].name
SetKeepsOthers == [][(hist' # hist /\ hist' # <<>> /\ hist'[Len(hist')].op = "Set") =>
                       LET e == hist'[Len(hist')] IN
                         /\ \A o \in Objs \ {e.args.obj} : attrs'[o] = attrs[o]
                         /\ \A i \in 1..Len(attrs[e.args.obj]) : attrs[e.args.obj][i].name # e.args.name => attrs'[e.args.obj][i] = attrs[e.args.obj][i]
                         /\ (e.out.ret = FAIL) => attrs' = attrs]_vars
Bound == Len(hist) < MaxOps
=============================================================================
