------------------------------- MODULE Attrs -------------------------------
(***************************************************************************)
(* Attributes and the predefined metadata built on them (property C10):    *)
(* mfsd.c / attr.c / cdf.c / dim.c, mfgr.c, vattr.c.                       *)
(*                                                                         *)
(* Every attributable object (SD file, dataset, dimension; GR file, raster *)
(* image; Vdata, Vdata field; Vgroup) carries an ORDERED list of           *)
(* <<name, type, count, value>>.  Re-setting an existing name replaces the *)
(* value in place (index and every other attribute untouched) -- or, where *)
(* the interface forbids changing type or count, fails and leaves the old  *)
(* value:                                                                  *)
(*     SD (file, dataset, dimension) : any change allowed                  *)
(*     GR (file, image)              : same type required, count may change*)
(*     Vdata, Vdata field, Vgroup    : same type and same count required   *)
(* A value is named by a small seed k: the driver expands (type, count, k) *)
(* with a fixed formula and recovers k from what the library returns, so   *)
(* counts up to the 65535-byte limit cost the model nothing.               *)
(*                                                                         *)
(* SD dimensions: a dataset's dimension SLOT refers to a dimension         *)
(* (initially its own); naming a slot like an existing dimension of the    *)
(* same size makes the slot SHARE that dimension (different size: refused).*)
(* Dimension attributes, strings and scales live on the dimension's        *)
(* coordinate variable, which is created by the first setter and is listed *)
(* among the file's datasets from then on.                                 *)
(*                                                                         *)
(* Predefined dataset metadata (valid range, fill value, data strings,     *)
(* calibration) are attributes with fixed names, visible through both      *)
(* their own getters and the generic attribute calls.                      *)
(***************************************************************************)
EXTENDS Naturals, Integers, Sequences, FiniteSets, TLC

CONSTANTS Objs,        \* subset of {"sd","s1","s2","d10","d20","d21","gr","ri","vd","vdf0","vdf1","vg"}
          Names, Types, Counts, DimNames, ScaleTypes,
          MaxAttrs, MaxAdd, DataMod, MaxOps, KeepHist
FAIL == -1
DimSlots == {"d10", "d20", "d21"}
DimSize  == [d10 |-> 3, d20 |-> 3, d21 |-> 2]
\* a dimension that was never named has a name of the library's choosing ("fakeDim<n>", renumbered when
\* the file is written): "?..." stands for any such name
DefName  == [d10 |-> "?d10", d20 |-> "?d20", d21 |-> "?d21"]
Sds      == {"s1", "s2"}
SizeOf   == [i8 |-> 1, u8 |-> 1, c8 |-> 1, uc8 |-> 1, i16 |-> 2, u16 |-> 2, i32 |-> 4, u32 |-> 4, f32 |-> 4, f64 |-> 8]
NoScale  == [type |-> "none", k |-> 0]

VARIABLES st,      \* "init" | "rw" | "ro"
          attrs,   \* object (dimension: its identity) -> sequence of [name, type, count, k]
          dimOf,   \* dimension slot -> dimension identity
          dname,   \* dimension identity -> name
          scale,   \* dimension identity -> [type, k] | NoScale
          svars,   \* the file's datasets in index order: [name, coord]
          nadd,    \* datasets added after setup
          wc, out, hist
vars == <<st, attrs, dimOf, dname, scale, svars, nadd, wc, out, hist>>
view == <<st, attrs, dimOf, dname, scale, svars, nadd, wc % DataMod>>

Log(op, args, o) == /\ out' = o
                    /\ hist' = IF KeepHist THEN Append(hist, [op |-> op, args |-> args, out |-> o])
                                           ELSE <<[op |-> op, args |-> args, out |-> o]>>

Iface(o) == IF o \in {"sd", "s1", "s2"} \cup DimSlots THEN "SD" ELSE IF o \in {"gr", "ri"} THEN "GR" ELSE "V"
\* the attribute list an object name designates
Key(o)   == IF o \in DimSlots THEN dimOf[o] ELSE o
AttrObjs == (Objs \ DimSlots) \cup DimSlots
IndexIn(as, nm) == IF \E i \in 1..Len(as) : as[i].name = nm THEN CHOOSE i \in 1..Len(as) : as[i].name = nm ELSE 0
IndexOf(o, nm)  == IndexIn(attrs[Key(o)], nm)
TooBig(ty, c)   == c > 65535 \/ c * SizeOf[ty] > 65535
HasCv(d)        == \E i \in 1..Len(svars) : svars[i].coord /\ svars[i].name = dname[d]
\* the coordinate variable of dimension identity d comes into being
WithCv(d)       == IF HasCv(d) THEN svars ELSE Append(svars, [name |-> dname[d], coord |-> TRUE])
TouchCv(o)      == IF o \in DimSlots THEN svars' = WithCv(dimOf[o]) ELSE UNCHANGED svars

Init == /\ st = "init" /\ attrs = [o \in AttrObjs |-> <<>>] /\ dimOf = [d \in DimSlots |-> d]
        /\ dname = DefName /\ scale = [d \in DimSlots |-> NoScale]
        /\ svars = <<[name |-> "s1", coord |-> FALSE], [name |-> "s2", coord |-> FALSE]>>
        /\ nadd = 0 /\ wc = 0 /\ out = [ret |-> 0] /\ hist = <<>>

\* create the file with one object of every kind: datasets s1[3], s2[3][2] (int16), one image, one Vdata
\* with two fields, one Vgroup
Setup == /\ st = "init" /\ st' = "rw"
         /\ Log("Setup", [a |-> 0], [ret |-> 0])
         /\ UNCHANGED <<attrs, dimOf, dname, scale, svars, nadd, wc>>

\* SDsetattr / GRsetattr / VSsetattr / Vsetattr
MayReplace(o, old, ty, c) == CASE Iface(o) = "SD" -> TRUE
                               [] Iface(o) = "GR" -> old.type = ty
                               [] OTHER -> old.type = ty /\ old.count = c
Set(o, nm, ty, c, k) ==
    /\ st = "rw" /\ o \in Objs
    /\ LET i == IndexOf(o, nm)  new == [name |-> nm, type |-> ty, count |-> c, k |-> k]
           args == [obj |-> o, name |-> nm, type |-> ty, count |-> c, k |-> k] IN
       IF TooBig(ty, c)
       THEN /\ Log("Set", args, [ret |-> FAIL]) /\ UNCHANGED <<attrs, svars>>
       ELSE IF i = 0
       THEN /\ Len(attrs[Key(o)]) < MaxAttrs
            /\ attrs' = [attrs EXCEPT ![Key(o)] = Append(@, new)]
            /\ TouchCv(o)
            /\ Log("Set", args, [ret |-> 0])
       ELSE IF MayReplace(o, attrs[Key(o)][i], ty, c)
            THEN /\ attrs' = [attrs EXCEPT ![Key(o)][i] = new]
                 /\ Log("Set", args, [ret |-> 0]) /\ UNCHANGED svars
            ELSE /\ Log("Set", args, [ret |-> FAIL])
                 /\ UNCHANGED <<attrs, svars>>
    /\ wc' = wc + 1 /\ UNCHANGED <<st, dimOf, dname, scale, nadd>>

\* SDfindattr / GRfindattr / VSfindattr / Vfindattr
Find(o, nm) ==
    /\ st \in {"rw", "ro"} /\ o \in Objs
    \* (asking a dimension WITHOUT coordinate variable creates one for the rest of the session only -- it is not
    \*  written unless something else changes the file; such queries are not generated)
    /\ (o \in DimSlots) => HasCv(dimOf[o])
    /\ UNCHANGED svars
    /\ Log("Find", [obj |-> o, name |-> nm], [index |-> IndexOf(o, nm) - 1])
    /\ UNCHANGED <<st, attrs, dimOf, dname, scale, nadd, wc>>

\* number of attributes and, for every index, name, type, count and value
Dump(o) ==
    /\ st \in {"rw", "ro"} /\ o \in Objs
    /\ Log("Dump", [obj |-> o], [n |-> Len(attrs[Key(o)]), attrs |-> attrs[Key(o)]])
    /\ UNCHANGED <<st, attrs, dimOf, dname, scale, svars, nadd, wc>>

\* ---- predefined dataset metadata: each is one or more attributes with fixed names ----
Upd(as, nm, ty, c, k) == LET i == IndexIn(as, nm)  new == [name |-> nm, type |-> ty, count |-> c, k |-> k] IN
                         IF i = 0 THEN Append(as, new) ELSE [as EXCEPT ![i] = new]
NewNames(as, nms) == Cardinality({n \in nms : IndexIn(as, n) = 0})
Kx(k, j) == (k + j) % 16     \* (the driver recovers seeds 0..15)

\* SDsetrange(max, min): "valid_range", the dataset's type, <<min, max>>
SetRange(o, k) ==
    /\ st = "rw" /\ o \in Objs \cap Sds
    /\ Len(attrs[o]) + NewNames(attrs[o], {"valid_range"}) <= MaxAttrs
    /\ attrs' = [attrs EXCEPT ![o] = Upd(@, "valid_range", "i16", 2, k)]
    /\ Log("SetRange", [obj |-> o, k |-> k], [ret |-> 0])
    /\ wc' = wc + 1 /\ UNCHANGED <<st, dimOf, dname, scale, svars, nadd>>
GetRange(o) ==
    /\ st \in {"rw", "ro"} /\ o \in Objs \cap Sds
    /\ LET i == IndexOf(o, "valid_range") IN
       /\ i # 0 => (attrs[o][i].type = "i16" /\ attrs[o][i].count = 2)      \* (the getter copies two values of the dataset's type)
       /\ Log("GetRange", [obj |-> o], IF i = 0 THEN [ret |-> FAIL] ELSE [ret |-> 0, k |-> attrs[o][i].k])
    /\ UNCHANGED <<st, attrs, dimOf, dname, scale, svars, nadd, wc>>
\* SDsetfillvalue: "_FillValue", the dataset's type, one value
SetFill(o, k) ==
    /\ st = "rw" /\ o \in Objs \cap Sds
    /\ Len(attrs[o]) + NewNames(attrs[o], {"_FillValue"}) <= MaxAttrs
    /\ attrs' = [attrs EXCEPT ![o] = Upd(@, "_FillValue", "i16", 1, k)]
    /\ Log("SetFill", [obj |-> o, k |-> k], [ret |-> 0])
    /\ wc' = wc + 1 /\ UNCHANGED <<st, dimOf, dname, scale, svars, nadd>>
GetFill(o) ==
    /\ st \in {"rw", "ro"} /\ o \in Objs \cap Sds
    /\ LET i == IndexOf(o, "_FillValue") IN
       /\ i # 0 => (attrs[o][i].type = "i16" /\ attrs[o][i].count = 1)
       /\ Log("GetFill", [obj |-> o], IF i = 0 THEN [ret |-> FAIL] ELSE [ret |-> 0, k |-> attrs[o][i].k])
    /\ UNCHANGED <<st, attrs, dimOf, dname, scale, svars, nadd, wc>>
\* SDsetdatastrs(label, unit, NULL, NULL): "long_name" (3 chars) and "units" (2 chars)
SetStrs(o, k) ==
    /\ st = "rw" /\ o \in Objs \cap Sds
    /\ Len(attrs[o]) + NewNames(attrs[o], {"long_name", "units"}) <= MaxAttrs
    /\ attrs' = [attrs EXCEPT ![o] = Upd(Upd(@, "long_name", "c8", 3, k), "units", "c8", 2, Kx(k, 1))]
    /\ Log("SetStrs", [obj |-> o, k |-> k], [ret |-> 0])
    /\ wc' = wc + 1 /\ UNCHANGED <<st, dimOf, dname, scale, svars, nadd>>
StrOf(as, nm) == LET i == IndexIn(as, nm) IN IF i = 0 THEN -2 ELSE IF as[i].type = "c8" THEN as[i].k ELSE -3
GetStrs(o) ==
    /\ st \in {"rw", "ro"} /\ o \in Objs \cap Sds
    \* (the getters copy the attribute's bytes as text: only judged while these are character attributes
    \*  of the lengths the setter stores)
    /\ \A nm \in {"long_name", "units"} : LET i == IndexOf(o, nm) IN i # 0 => (attrs[o][i].type = "c8" /\ attrs[o][i].count = IF nm = "units" THEN 2 ELSE 3)
    /\ Log("GetStrs", [obj |-> o], [label |-> StrOf(attrs[o], "long_name"), unit |-> StrOf(attrs[o], "units")])
    /\ UNCHANGED <<st, attrs, dimOf, dname, scale, svars, nadd, wc>>
\* SDsetcal: scale_factor, scale_factor_err, add_offset, add_offset_err (float64), calibrated_nt (int32)
CalNames == <<"scale_factor", "scale_factor_err", "add_offset", "add_offset_err", "calibrated_nt">>
SetCal(o, k) ==
    /\ st = "rw" /\ o \in Objs \cap Sds
    /\ Len(attrs[o]) + NewNames(attrs[o], {CalNames[j] : j \in 1..5}) <= MaxAttrs
    /\ attrs' = [attrs EXCEPT ![o] = Upd(Upd(Upd(Upd(Upd(@, CalNames[1], "f64", 1, k), CalNames[2], "f64", 1, Kx(k, 1)),
                                                 CalNames[3], "f64", 1, Kx(k, 2)), CalNames[4], "f64", 1, Kx(k, 3)), CalNames[5], "i32", 1, Kx(k, 4))]
    /\ Log("SetCal", [obj |-> o, k |-> k], [ret |-> 0])
    /\ wc' = wc + 1 /\ UNCHANGED <<st, dimOf, dname, scale, svars, nadd>>
GetCal(o) ==
    /\ st \in {"rw", "ro"} /\ o \in Objs \cap Sds
    /\ \A j \in 1..5 : LET i == IndexOf(o, CalNames[j]) IN i # 0 => (attrs[o][i].type = (IF j = 5 THEN "i32" ELSE "f64") /\ attrs[o][i].count = 1)
    /\ Log("GetCal", [obj |-> o],
           IF \E j \in 1..5 : IndexOf(o, CalNames[j]) = 0 THEN [ret |-> FAIL]
           ELSE [ret |-> 0, ks |-> [j \in 1..5 |-> attrs[o][IndexOf(o, CalNames[j])].k]])
    /\ UNCHANGED <<st, attrs, dimOf, dname, scale, svars, nadd, wc>>

\* ---- dimensions ----
\* SDsetdimname (only while the dimension has no coordinate variable: its attributes and scale are
\* found by name)
SetDimName(s, nm) ==
    /\ st = "rw" /\ s \in Objs \cap DimSlots
    /\ ~HasCv(dimOf[s])
    /\ LET d == dimOf[s]
           others == {e \in {dimOf[x] : x \in DimSlots} : e # d /\ dname[e] = nm} IN
       IF others = {}
       THEN /\ dname' = [dname EXCEPT ![d] = nm]
            /\ Log("SetDimName", [obj |-> s, name |-> nm], [ret |-> 0]) /\ UNCHANGED dimOf
       ELSE LET e == CHOOSE x \in others : TRUE IN
            IF DimSize[e] = DimSize[d]
            THEN /\ dimOf' = [dimOf EXCEPT ![s] = e]                     \* the slot now shares dimension e
                 /\ Log("SetDimName", [obj |-> s, name |-> nm], [ret |-> 0]) /\ UNCHANGED dname
            ELSE /\ Log("SetDimName", [obj |-> s, name |-> nm], [ret |-> FAIL]) /\ UNCHANGED <<dimOf, dname>>
    /\ UNCHANGED <<st, attrs, scale, svars, nadd, wc>>
\* SDdiminfo name and size
DimInfo(s) ==
    /\ st \in {"rw", "ro"} /\ s \in Objs \cap DimSlots
    /\ Log("DimInfo", [obj |-> s], [name |-> dname[dimOf[s]], size |-> DimSize[s], n |-> Len(attrs[dimOf[s]])])
    /\ UNCHANGED <<st, attrs, dimOf, dname, scale, svars, nadd, wc>>
\* SDsetdimscale(count = the dimension's size)
\* (the stored values of a fixed-size dimension occupy an element of fixed length: re-setting the scale
\*  with a WIDER type is refused and leaves the stored scale as it was)
SetDimScale(s, ty, k) ==
    /\ st = "rw" /\ s \in Objs \cap DimSlots
    /\ IF scale[dimOf[s]] # NoScale /\ SizeOf[ty] > SizeOf[scale[dimOf[s]].type]
       THEN /\ Log("SetDimScale", [obj |-> s, type |-> ty, k |-> k], [ret |-> FAIL])
            /\ UNCHANGED <<scale, svars>>
       ELSE /\ scale' = [scale EXCEPT ![dimOf[s]] = [type |-> ty, k |-> k]]
            /\ svars' = WithCv(dimOf[s])
            /\ Log("SetDimScale", [obj |-> s, type |-> ty, k |-> k], [ret |-> 0])
    /\ wc' = wc + 1 /\ UNCHANGED <<st, attrs, dimOf, dname, nadd>>
\* SDdiminfo type + SDgetdimscale (asked only once a scale has been stored)
GetDimScale(s) ==
    /\ st \in {"rw", "ro"} /\ s \in Objs \cap DimSlots
    /\ scale[dimOf[s]] # NoScale
    /\ Log("GetDimScale", [obj |-> s], [ret |-> 0, type |-> scale[dimOf[s]].type, k |-> scale[dimOf[s]].k])
    /\ UNCHANGED <<st, attrs, dimOf, dname, scale, svars, nadd, wc>>
\* SDsetdimstrs(label, unit, NULL)
SetDimStrs(s, k) ==
    /\ st = "rw" /\ s \in Objs \cap DimSlots
    /\ LET d == dimOf[s] IN
       /\ Len(attrs[d]) + NewNames(attrs[d], {"long_name", "units"}) <= MaxAttrs
       /\ attrs' = [attrs EXCEPT ![d] = Upd(Upd(@, "long_name", "c8", 3, k), "units", "c8", 2, Kx(k, 1))]
       /\ svars' = WithCv(d)
    /\ Log("SetDimStrs", [obj |-> s, k |-> k], [ret |-> 0])
    /\ wc' = wc + 1 /\ UNCHANGED <<st, dimOf, dname, scale, nadd>>
GetDimStrs(s) ==
    /\ st \in {"rw", "ro"} /\ s \in Objs \cap DimSlots
    /\ LET d == dimOf[s] IN
       /\ HasCv(d)
       /\ \A nm \in {"long_name", "units"} : LET i == IndexIn(attrs[d], nm) IN i # 0 => (attrs[d][i].type = "c8" /\ attrs[d][i].count = IF nm = "units" THEN 2 ELSE 3)
       /\ Log("GetDimStrs", [obj |-> s], [label |-> StrOf(attrs[d], "long_name"), unit |-> StrOf(attrs[d], "units")])
    /\ UNCHANGED <<st, attrs, dimOf, dname, scale, svars, nadd, wc>>

\* ---- datasets of the file: index <-> name <-> reference ----
\* a new dataset is created (later sessions rewrite all metadata at close)
AddDs ==
    /\ st = "rw" /\ nadd < MaxAdd
    /\ nadd' = nadd + 1
    /\ svars' = Append(svars, [name |-> IF nadd = 0 THEN "e1" ELSE IF nadd = 1 THEN "e2" ELSE "e3", coord |-> FALSE])
    /\ Log("AddDs", [n |-> nadd + 1], [ret |-> 0])
    /\ UNCHANGED <<st, attrs, dimOf, dname, scale, wc>>
\* SDfileinfo; per index SDselect/SDgetinfo/SDiscoordvar; SDnametoindex, SDidtoref, SDreftoindex must be
\* mutually consistent (the driver reports consistent = TRUE iff name -> first index with that name,
\* index -> ref -> index is the identity and refs are pairwise distinct)
Lookups ==
    /\ st \in {"rw", "ro"}
    /\ Log("Lookups", [a |-> 0], [vars |-> svars, consistent |-> TRUE])
    /\ UNCHANGED <<st, attrs, dimOf, dname, scale, svars, nadd, wc>>

\* close everything and reopen for reading (FALSE) or writing (TRUE)
Reopen(rw) ==
    /\ st \in {"rw", "ro"}
    /\ st' = IF rw THEN "rw" ELSE "ro"
    /\ Log("Reopen", [rw |-> rw], [ret |-> 0])
    /\ UNCHANGED <<attrs, dimOf, dname, scale, svars, nadd, wc>>

K == (wc + 1) % DataMod
Next == \/ Setup
        \/ \E o \in Objs, nm \in Names, ty \in Types, c \in Counts : Set(o, nm, ty, c, K)
        \/ \E o \in Objs, nm \in Names \cup {"valid_range", "long_name", "nosuch"} : Find(o, nm)
        \/ \E o \in Objs : \/ Dump(o) \/ SetRange(o, K) \/ GetRange(o) \/ SetFill(o, K) \/ GetFill(o)
                           \/ SetStrs(o, K) \/ GetStrs(o) \/ SetCal(o, K) \/ GetCal(o)
                           \/ DimInfo(o) \/ GetDimScale(o) \/ SetDimStrs(o, K) \/ GetDimStrs(o)
        \/ \E o \in Objs, nm \in DimNames : SetDimName(o, nm)
        \/ \E o \in Objs, ty \in ScaleTypes : SetDimScale(o, ty, K)
        \/ AddDs \/ Lookups
        \/ \E rw \in BOOLEAN : Reopen(rw)
Spec == Init /\ [][Next]_vars

---------------------------------------------------------------------------
\* names are unique per attribute list
UniqueNames == \A o \in DOMAIN attrs : \A i, j \in 1..Len(attrs[o]) : i # j => attrs[o][i].name # attrs[o][j].name
\* the listing of datasets has pairwise distinct names (so name -> index is a bijection in generated programs)
VarNamesDistinct == \A i, j \in 1..Len(svars) : i # j => svars[i].name # svars[j].name
\* a step changes at most one attribute list, never shortens or reorders one, and a refused call changes nothing
ListStable == [][st' # "init" => \A o \in DOMAIN attrs :
                   /\ Len(attrs'[o]) >= Len(attrs[o])
                   /\ \A i \in 1..Len(attrs[o]) : attrs'[o][i].name = attrs[o][i].name]_vars
RefusedChangesNothing == [][(hist' # hist /\ hist' # <<>> /\ "ret" \in DOMAIN hist'[Len(hist')].out /\ hist'[Len(hist')].out.ret = FAIL)
                              => (attrs' = attrs /\ dimOf' = dimOf /\ dname' = dname /\ scale' = scale)]_vars
\* nothing but a setter changes a value; closing and reopening changes nothing
OnlySettersChange == [][(hist' # hist /\ hist' # <<>> /\ hist'[Len(hist')].op \notin {"Set", "SetRange", "SetFill", "SetStrs", "SetCal", "SetDimStrs"})
                              => attrs' = attrs]_vars
Bound == Len(hist) < MaxOps
=============================================================================
