SPECIFICATION Spec
CONSTANTS
  Targets = {"t1", "t2", "t3"}
  LabLens = {1, 7, 300}
  DescLens = {1, 9, 300, 5000}
  MaxAnns = 12
  DataMod = 4
  MaxOps = 18
  KeepHist = TRUE
ACTION_CONSTRAINT EmitFull
CHECK_DEADLOCK FALSE
