SPECIFICATION Spec
CONSTANTS
  ReserveK = {}
  GapK = {}
  AppendK = {}
  MemberCounts = {}
  FieldCounts = {}
  Orders = {}
  Ranks = {}
  NameKinds = {"vsname", "vsclass", "field", "vgname", "vgclass", "grname", "grattr", "sdname", "dimname", "sdattr", "hxname", "extname"}
  NameLens = {1, 63, 64, 65, 127, 128, 129, 255, 256, 257, 1000, 1023, 1024, 1025, 4000, 65535, 65536, 70000}
  MaxOps = 3
  KeepHist = TRUE
VIEW view
CONSTRAINT Bound
ACTION_CONSTRAINT EmitAudited
CHECK_DEADLOCK FALSE
