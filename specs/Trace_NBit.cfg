SPECIFICATION TraceSpec
CONSTANTS
  Widths = {8}
  NVals = 4
  Params = {}
  Patterns = {0}
  MaxOps = 1
  KeepHist = FALSE
INVARIANTS TrackL Idempotent FieldKept
POSTCONDITION Verdict
CHECK_DEADLOCK FALSE
