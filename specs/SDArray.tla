------------------------------ MODULE SDArray ------------------------------
(***************************************************************************)
(* A scientific dataset as an n-dimensional array (mfsd.c, putget.c):      *)
(* hyperslab writes are assignments to, and reads selections from, one     *)
(* array in row-major order.  Ranks 1..3 are modelled explicitly.          *)
(*                                                                         *)
(*   shape  : sequence of dimension sizes (first may be UNLIMITED = 0)     *)
(*   ext    : current extent of the first dimension (records written)      *)
(*   cells  : coordinate tuple -> value | F (fill value) | Zc (unknown:    *)
(*            no-fill mode, or touched by a failed strided write)          *)
(*   layout : storage configuration of the dataset (contiguous, chunked    *)
(*            with a chunk shape, compressed, external, block size ...):   *)
(*            it is carried to the driver and NEVER influences an expected *)
(*            observation -- that is property C04                          *)
(***************************************************************************)
EXTENDS Naturals, Integers, Sequences, FiniteSets, TLC

CONSTANTS Shapes,      \* set of shapes (sequences; first element 0 = unlimited)
          Layouts,     \* set of layout descriptors (opaque to the model)
          Starts, Counts, Strides,   \* per-component candidate values of generated requests (incl. invalid ones)
          MaxExt,      \* bound on the unlimited extent
          DataMod, MaxOps, KeepHist

FAIL == -1
F    == -1000     \* "the dataset's fill value" (the driver substitutes the real one)
Zc   == -9        \* "not constrained"

VARIABLES st, shape, ext, cells, fillset, fillmode, written, layout, wc, out, hist
vars == <<st, shape, ext, cells, fillset, fillmode, written, layout, wc, out, hist>>
view == <<st, shape, ext, cells, fillset, fillmode, written, layout, wc % DataMod>>

Log(op, args, o) == /\ out' = o
                    /\ hist' = IF KeepHist THEN Append(hist, [op |-> op, args |-> args, out |-> o])
                                           ELSE <<[op |-> op, args |-> args, out |-> o]>>

Rank == Len(shape)
Unlim == shape # <<>> /\ shape[1] = 0
\* extent of dimension d as seen by reads
Ext(d) == IF d = 1 /\ Unlim THEN ext ELSE shape[d]

\* all coordinate tuples of a box with the given per-dimension extents, as a set
Box(e) == IF Len(e) = 1 THEN {<<i>> : i \in 0..(e[1] - 1)}
          ELSE IF Len(e) = 2 THEN {<<i, j>> : i \in 0..(e[1] - 1), j \in 0..(e[2] - 1)}
          ELSE {<<i, j, k>> : i \in 0..(e[1] - 1), j \in 0..(e[2] - 1), k \in 0..(e[3] - 1)}
CurExt == [d \in 1..Rank |-> Ext(d)]

\* the coordinates a request selects, in row-major (buffer) order
Coord(s, t, idx) == [d \in 1..Len(s) |-> s[d] + t[d] * idx[d]]
Sel(s, t, c) ==
    IF Len(s) = 1 THEN [i \in 1..c[1] |-> Coord(s, t, <<i - 1>>)]
    ELSE IF Len(s) = 2 THEN [n \in 1..(c[1] * c[2]) |-> Coord(s, t, <<(n - 1) \div c[2], (n - 1) % c[2]>>)]
    ELSE [n \in 1..(c[1] * c[2] * c[3]) |-> Coord(s, t, <<(n - 1) \div (c[2] * c[3]), ((n - 1) \div c[3]) % c[2], (n - 1) % c[3]>>)]

WellFormedReq(s, t, c) == \A d \in 1..Rank : s[d] >= 0 /\ c[d] >= 1 /\ t[d] >= 1
LastIdx(s, t, c, d) == s[d] + t[d] * (c[d] - 1)
\* a read must lie inside the current extent in every dimension
ReadOK(s, t, c) == WellFormedReq(s, t, c) /\ \A d \in 1..Rank : LastIdx(s, t, c, d) < Ext(d)
\* a write must lie inside the shape, except that it may extend the unlimited dimension
WriteOK(s, t, c) == WellFormedReq(s, t, c) /\ \A d \in 1..Rank : (d = 1 /\ Unlim) \/ LastIdx(s, t, c, d) < shape[d]

Max1(x) == IF x < 1 THEN 1 ELSE x
NData(c) == IF Len(c) = 1 THEN Max1(c[1]) ELSE IF Len(c) = 2 THEN Max1(c[1]) * Max1(c[2]) ELSE Max1(c[1]) * Max1(c[2]) * Max1(c[3])
\* ---- layout descriptors (opaque for expectations; they only restrict what is generated) ----
LKind(ly) == IF ly = <<>> THEN "contig" ELSE ly[1]
\* non-chunked compressed (and n-bit) datasets are written in full from their start (C05's precondition)
FullOnly(ly) == LKind(ly) \in {"comp", "nbit"}
\* chunked / compressed datasets have no unlimited dimension; a block size only matters for unlimited ones
LayoutFits(ly, sh) == /\ (LKind(ly) \in {"chunk", "chunkcomp", "comp", "nbit", "ext"}) => sh[1] # 0
                      /\ (LKind(ly) = "blk") => sh[1] = 0
                      /\ (LKind(ly) \in {"chunk", "chunkcomp"}) =>
                             Len(sh) = (IF LKind(ly) = "chunk" THEN Len(ly) - 2 ELSE Len(ly) - 3)
ChunkShape(ly) == IF LKind(ly) = "chunk" THEN SubSeq(ly, 2, Len(ly) - 1) ELSE SubSeq(ly, 3, Len(ly) - 1)
IsFull(s, t, c) == \A d \in 1..Rank : s[d] = 0 /\ t[d] = 1 /\ c[d] = shape[d]

Strided(t) == \E d \in 1..Len(t) : t[d] # 1
ValK(k, n) == ((k * 41 + n * 3) % 997) + 1
Val(c0, n) == ValK(c0 % DataMod, n)
Unwritten == IF fillmode THEN F ELSE Zc

Init == /\ st = "init" /\ shape = <<>> /\ ext = 0 /\ cells = <<>> /\ fillset = FALSE /\ fillmode = TRUE /\ written = FALSE
        /\ layout = <<>> /\ wc = 0 /\ out = [ret |-> 0] /\ hist = <<>>

\* SDstart(create); SDcreate(shape); [SDsetfillvalue]; [SDsetfillmode(NOFILL)]; layout calls
Create(sh, ly, fs, fm) ==
    /\ st = "init" /\ st' = "open"
    /\ LayoutFits(ly, sh)
    /\ (LKind(ly) = "nbit") => ~fm        \* (the fill value does not survive the n-bit projection: no-fill mode)
    /\ shape' = sh /\ layout' = ly /\ fillset' = fs /\ fillmode' = fm
    /\ ext' = 0 /\ written' = FALSE
    /\ cells' = [x \in Box([d \in 1..Len(sh) |-> IF d = 1 /\ sh[1] = 0 THEN 0 ELSE sh[d]]) |-> IF fm THEN F ELSE Zc]
    /\ Log("Create", [shape |-> sh, layout |-> ly, fillset |-> fs, fillmode |-> fm], [ret |-> 0])
    /\ UNCHANGED wc

\* SDsetfillvalue AFTER data has been written: only cells never written so far, and never touched by a
\* fill pass, could still change; the property only speaks of a value set before the first write
\* (not generated).

\* SDwritedata(start, stride, count, data); k selects the (distinguishable) payload of this call
WriteK(s, t, c, k) ==
    /\ st = "open" /\ Len(s) = Rank
    /\ FullOnly(layout) => IsFull(s, t, c)
    /\ IF WriteOK(s, t, c)
       THEN LET sel == Sel(s, t, c)
                newext == IF Unlim /\ LastIdx(s, t, c, 1) + 1 > ext THEN LastIdx(s, t, c, 1) + 1 ELSE ext
                dom == Box([d \in 1..Rank |-> IF d = 1 /\ Unlim THEN newext ELSE shape[d]])
                pos(x) == CHOOSE n \in 1..Len(sel) : sel[n] = x IN
            /\ newext <= MaxExt
            /\ cells' = [x \in dom |-> IF \E n \in 1..Len(sel) : sel[n] = x THEN ValK(k, pos(x))
                                       ELSE IF x \in DOMAIN cells THEN cells[x] ELSE Unwritten]
            /\ ext' = newext /\ written' = TRUE
            /\ Log("Write", [start |-> s, stride |-> t, count |-> c, data |-> [n \in 1..Len(sel) |-> ValK(k, n)]], [ret |-> 0])
       ELSE \* refused: no cell outside the requested region changes; the in-range cells the request reached
            \* before failing may or may not have been stored (they become unconstrained)
            /\ WellFormedReq(s, t, c) \/ ~Strided(t)
            \* (a refused request on an unlimited dataset may also have grown it: not generated, except
            \*  requests that are refused before any I/O because they are ill-formed)
            /\ Unlim => ~WellFormedReq(s, t, c)
            /\ cells' = IF WellFormedReq(s, t, c)
                        THEN [x \in DOMAIN cells |-> IF \E n \in 1..Len(Sel(s, t, c)) : Sel(s, t, c)[n] = x THEN Zc ELSE cells[x]]
                        ELSE cells
            /\ Log("Write", [start |-> s, stride |-> t, count |-> c, data |-> [n \in 1..NData(c) |-> 7]], [ret |-> FAIL])
            /\ UNCHANGED <<ext, written>>
    /\ wc' = wc + 1
    /\ UNCHANGED <<st, shape, fillset, fillmode, layout>>

Write(s, t, c) == WriteK(s, t, c, (wc + 1) % DataMod)

\* SDreaddata(start, stride, count)
Read(s, t, c) ==
    /\ st = "open" /\ Len(s) = Rank
    /\ IF ReadOK(s, t, c)
       THEN LET sel == Sel(s, t, c) IN
            \* cells whose content is not constrained (no-fill mode, reached by a refused write) may not even
            \* be in the file yet: reads of them are not generated
            /\ \A n \in 1..Len(sel) : cells[sel[n]] # Zc
            /\ Log("Read", [start |-> s, stride |-> t, count |-> c], [ret |-> 0, data |-> [n \in 1..Len(sel) |-> cells[sel[n]]]])
       ELSE /\ WellFormedReq(s, t, c) \/ TRUE
            /\ Log("Read", [start |-> s, stride |-> t, count |-> c], [ret |-> FAIL])
    /\ UNCHANGED <<st, shape, ext, cells, fillset, fillmode, written, layout, wc>>

\* ---- whole-chunk access (SDwritechunk / SDreadchunk) on chunked datasets ----
\* the cells of the chunk with chunk-coordinates o, in the chunk buffer's row-major order; cells of an edge
\* chunk that lie outside the dataset ("ghost" cells) are marked by a coordinate outside the extent
ChunkSel(o) == Sel([d \in 1..Rank |-> o[d] * ChunkShape(layout)[d]], [d \in 1..Rank |-> 1], ChunkShape(layout))
InData(x) == \A d \in 1..Rank : x[d] < shape[d]
ValidChunk(o) == \A d \in 1..Rank : o[d] >= 0 /\ o[d] * ChunkShape(layout)[d] < shape[d]
WriteChunk(o, k) ==
    /\ st = "open" /\ LKind(layout) \in {"chunk", "chunkcomp"} /\ Len(o) = Rank /\ ValidChunk(o)
    /\ LET sel == ChunkSel(o)  pos(x) == CHOOSE n \in 1..Len(sel) : sel[n] = x IN
       /\ cells' = [x \in DOMAIN cells |-> IF \E n \in 1..Len(sel) : sel[n] = x THEN ValK(k, pos(x)) ELSE cells[x]]
       /\ Log("WriteChunk", [origin |-> o, data |-> [n \in 1..Len(sel) |-> ValK(k, n)]], [ret |-> 0])
    /\ written' = TRUE /\ wc' = wc + 1
    /\ UNCHANGED <<st, shape, ext, fillset, fillmode, layout>>
ReadChunk(o) ==
    /\ st = "open" /\ LKind(layout) \in {"chunk", "chunkcomp"} /\ Len(o) = Rank /\ ValidChunk(o)
    /\ LET sel == ChunkSel(o) IN
       /\ \A n \in 1..Len(sel) : InData(sel[n]) => cells[sel[n]] # Zc
       /\ Log("ReadChunk", [origin |-> o], [ret |-> 0, data |-> [n \in 1..Len(sel) |-> IF InData(sel[n]) THEN cells[sel[n]] ELSE Zc]])
    /\ UNCHANGED <<st, shape, ext, cells, fillset, fillmode, written, layout, wc>>

\* SDgetinfo: rank, current dimension sizes
Info ==
    /\ st = "open"
    /\ Log("Info", [a |-> 0], [rank |-> Rank, dims |-> CurExt])
    /\ UNCHANGED <<st, shape, ext, cells, fillset, fillmode, written, layout, wc>>

\* SDendaccess; SDend; SDstart(RDWR); SDselect
Reopen ==
    /\ st = "open"
    /\ Log("Reopen", [a |-> 0], [ret |-> 0, dims |-> CurExt])
    /\ UNCHANGED <<st, shape, ext, cells, fillset, fillmode, written, layout, wc>>

Reqs(r) == [1..r -> Starts] \X [1..r -> Strides] \X [1..r -> Counts]
Next ==
    \/ \E sh \in Shapes, ly \in Layouts, fs \in BOOLEAN, fm \in BOOLEAN : Create(sh, ly, fs, fm)
    \/ \E q \in Reqs(Rank) : Write(q[1], q[2], q[3])
    \/ \E q \in Reqs(Rank) : Read(q[1], q[2], q[3])
    \/ \E o \in [1..Rank -> {0, 1, 2}] : WriteChunk(o, (wc + 1) % DataMod) \/ ReadChunk(o)
    \/ Info \/ Reopen
Spec == Init /\ [][Next]_vars

---------------------------------------------------------------------------
\* a read returns, in row-major order, the most recently written value of each selected cell
ReadsCells == (hist # <<>> /\ hist[Len(hist)].op = "Read" /\ hist[Len(hist)].out.ret = 0) =>
                LET e == hist[Len(hist)]  sel == Sel(e.args.start, e.args.stride, e.args.count) IN
                  /\ Len(e.out.data) = Len(sel)
                  /\ \A n \in 1..Len(sel) : e.out.data[n] = cells[sel[n]]
\* a refused request never modifies a cell outside the requested region
RefusedLocal == [][(hist' # hist /\ hist' # <<>> /\ hist'[Len(hist')].op = "Write" /\ hist'[Len(hist')].out.ret = FAIL) =>
                     LET e == hist'[Len(hist')] IN
                       /\ DOMAIN cells' = DOMAIN cells
                       /\ \A x \in DOMAIN cells : cells'[x] # cells[x] =>
                             (WellFormedReq(e.args.start, e.args.stride, e.args.count)
                              /\ \E n \in 1..Len(Sel(e.args.start, e.args.stride, e.args.count)) : Sel(e.args.start, e.args.stride, e.args.count)[n] = x)]_vars
\* the array only grows along the unlimited dimension
ExtentMonotone == [][ext' >= ext \/ st' = "init"]_vars
Bound == Len(hist) < MaxOps
=============================================================================
