SPECIFICATION TraceSpec
CONSTANTS
  ReserveK = {}
  GapK = {}
  AppendK = {}
  MemberCounts = {}
  FieldCounts = {}
  Orders = {}
  Ranks = {}
  NameKinds = {}
  NameLens = {}
  MaxOps = 1
  KeepHist = FALSE
INVARIANTS TrackL NoWrap
POSTCONDITION Verdict
CHECK_DEADLOCK FALSE
