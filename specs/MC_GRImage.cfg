SPECIFICATION Spec
CONSTANTS
  Dims <- DimsMC
  NComps = {1, 2}
  Layouts <- LayMC
  Coords <- CoordsMC
  Counts = {1, 2}
  Strides = {1, 2}
  DataMod = 1
  MaxOps = 100
  KeepHist = FALSE
VIEW view
INVARIANTS Bijective ReadsPix
CHECK_DEADLOCK FALSE
