SPECIFICATION TraceSpec
CONSTANTS
  Shapes = {}
  Layouts = {}
  Starts = {0}
  Counts = {1}
  Strides = {1}
  MaxExt = 100000
  DataMod = 7
  MaxOps = 1
  KeepHist = FALSE
INVARIANTS TrackL ReadsCells
PROPERTIES RefusedLocal ExtentMonotone
POSTCONDITION Verdict
CHECK_DEADLOCK FALSE
