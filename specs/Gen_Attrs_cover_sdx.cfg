SPECIFICATION Spec
CONSTANTS
  Objs = {"sd"}
  Names = {"a", "X1", "X2"}
  Types = {"c8"}
  Counts = {2}
  DimNames = {"x"}
  ScaleTypes = {"i16"}
  MaxAttrs = 3
  MaxAdd = 0
  DataMod = 1
  MaxOps = 100
  KeepHist = TRUE
VIEW view
CONSTRAINT Bound
ACTION_CONSTRAINT EmitAudited
CHECK_DEADLOCK FALSE
