---------------------------- MODULE Gen_Repack ----------------------------
EXTENDS Repack, Json, CSV, IOUtils
ThrSet == {-1, 0, 2000}
Ev(o, a, x) == [op |-> o, args |-> a, out |-> x]
\* epilogue: one more run that removes every layout again (idempotence in content: still the original content)
Plain == [o \in Roster |-> [comp |-> IF o = "empty" THEN lay'[o].comp ELSE "none", chunked |-> IF o = "empty" THEN lay'[o].chunked ELSE FALSE]]
Audit == <<Ev("Repack", [t |-> "*:NONE", c |-> "*:NONE", m |-> 0, via_file |-> FALSE, roster |-> IF known' THEN <<"big2d", "small", "unl", "empty", "chk", "cmp", "img", "img3">> ELSE <<>>],
              IF known' THEN [ret |-> 0, same |-> TRUE, layout |-> Plain] ELSE [ret |-> 0, same |-> TRUE])>>
EmitAudited == (st' # "init") => CSVWrite("%1$s", <<ToJson([spec |-> "Repack", steps |-> hist' \o Audit])>>, IOEnv.GEN_OUT)
EmitFull == (Len(hist') = MaxOps) => EmitAudited
BoundGen == Len(hist) <= MaxOps
=============================================================================
