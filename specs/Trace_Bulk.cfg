SPECIFICATION TraceSpec
CONSTANTS
  VsCases = {}
  SdCases = {}
  HlCases = {}
  BtCases = {}
  NbCases = {}
  CpCases = {}
  MaxOps = 1
  KeepHist = FALSE
INVARIANTS TrackL
POSTCONDITION Verdict
CHECK_DEADLOCK FALSE
