SPECIFICATION TraceSpec
CONSTANTS
  VsCases = {}
  SdCases = {}
  HlCases = {}
  BtCases = {}
  CpCases = {}
  MaxOps = 1
  KeepHist = FALSE
INVARIANTS TrackL
POSTCONDITION Verdict
CHECK_DEADLOCK FALSE
