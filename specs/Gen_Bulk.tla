---------------------------- MODULE Gen_Bulk ----------------------------
EXTENDS Bulk, Json, CSV, IOUtils
\* schema: "narrow" = int16, float32[2], char8[3] (13 bytes) ; "wide" = int32[10], float64[5], int16[6] (92 bytes)
VsAll == {[schema |-> s, nrec |-> n, pieces |-> p, il |-> il] :
              s \in {"narrow", "wide"}, n \in {1000, 76923, 76924, 90000, 160000}, p \in {1, 3}, il \in {0, 1}}
VsSet == {c \in VsAll : (c.schema = "narrow" \/ c.nrec \in {1000, 10869, 10870, 12000, 25000} \/ c.nrec = 76923) /\ (c.il = 0 \/ c.pieces = 1)}
VsWide == {[schema |-> "wide", nrec |-> n, pieces |-> p, il |-> il] : n \in {10869, 10870, 12000, 25000}, p \in {1, 3}, il \in {0}}
VsCasesAll == {c \in VsAll : c.schema = "narrow" /\ (c.il = 0 \/ c.pieces = 1)} \cup VsWide
SdCasesAll == {[type |-> t, shape |-> sh, row |-> r, rows |-> n, fill |-> f, layout |-> ly] :
                  t \in {"i8", "i32"}, sh \in {<<1100, 1000>>, <<300, 1000>>, <<2100000>>}, r \in {0, 250}, n \in {1, 40}, f \in BOOLEAN,
                  ly \in {"plain", "chunk", "linked64", "linked4096"}}
SdSet == {c \in SdCasesAll : /\ (c.type = "i8" => c.shape \in {<<1100, 1000>>, <<2100000>>}) /\ (c.type = "i32" => c.shape = <<300, 1000>>)
                            /\ (Len(c.shape) = 1 => (c.layout = "plain" /\ c.rows = 40))
                            /\ (c.layout \in {"linked64", "linked4096"} => (c.row = 0 /\ c.rows = 40 /\ Len(c.shape) = 2))
                            /\ (c.layout = "chunk" => Len(c.shape) = 2)}
HlSet == {[b |-> b, t |-> t, writes |-> w] : b \in {1, 16, 100}, t \in {1, 4, 16},
             w \in {<<<<0, 5000>>>>, <<<<0, 100>>, <<50, 4000>>>>, <<<<0, 2100>>, <<2000, 3000>>, <<100, 1700>>>>}}
\* patch = TRUE: before the write handle is released, some earlier fields are rewritten through bit seeks
BtSet == {[widths |-> w, blocks |-> b, bits |-> bo, patch |-> pt] : w \in {<<8>>, <<32>>, <<3, 5, 9, 32>>, <<1, 7, 13, 27>>, <<12>>, <<9, 24>>}, b \in {2, 3},
             bo \in {<<0, 3>>, <<1, 6, 7>>}, pt \in BOOLEAN}
CpSet == {[coder |-> cd, kind |-> k, n |-> n, pieces |-> p] :
             cd \in {<<"none", 0>>, <<"rle", 0>>, <<"skphuff", 1>>, <<"skphuff", 3>>, <<"deflate", 1>>, <<"deflate", 6>>},
             k \in {"ctr", "runs"}, n \in {4500, 9000, 20000}, p \in {1, 4}}
NbSet == {[w |-> t[1], signed |-> t[2], start |-> t[3], len |-> t[4], sext |-> t[5], fill |-> t[6], n |-> 4096] :
             t \in {<<16, FALSE, 11, 10, FALSE, 0>>, <<16, TRUE, 9, 7, TRUE, 0>>, <<32, TRUE, 20, 13, TRUE, 1>>, <<32, FALSE, 31, 32, FALSE, 0>>,
                    <<8, FALSE, 6, 5, FALSE, 1>>}}
NoCases == {}
Emit == CSVWrite("%1$s", <<ToJson([spec |-> "Bulk", steps |-> hist'])>>, IOEnv.GEN_OUT)
=============================================================================
