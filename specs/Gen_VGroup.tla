---------------------------- MODULE Gen_VGroup ----------------------------
EXTENDS VGroup, Json, CSV, IOUtils
NamesSmall == {<<64, "c">>, <<65, "c">>}
NamesGen == {<<1, "a">>, <<63, "c">>, <<64, "c">>, <<65, "c">>, <<300, "c">>}
RECURSIVE Flat(_)
Flat(ss) == IF ss = <<>> THEN <<>> ELSE Head(ss) \o Flat(Tail(ss))
Ev(o, a, x) == [op |-> o, args |-> a, out |-> x]
GSeq == GOrder(DOMAIN vgs')
AttSeq == SelectSeq(GSeq, LAMBDA g : vgs'[g].att # "")
\* epilogue: detach everything, reopen, re-attach every vgroup read-only and report it, then the file-level views
Audit ==
    [i \in 1..Len(AttSeq) |-> Ev("Detach", [g |-> AttSeq[i]], [ret |-> 0])]
    \o <<Ev("Reopen", [a |-> 0], [ret |-> 0])>>
    \o Flat([i \in 1..Len(GSeq) |-> LET g == GSeq[i] IN
          <<Ev("Attach", [g |-> g, mode |-> "r"], [ret |-> 0, n |-> Len(vgs'[g].mem)]),
            Ev("Info", [g |-> g], [name |-> vgs'[g].name, class |-> vgs'[g].class, mem |-> vgs'[g].mem, n |-> Len(vgs'[g].mem)]),
            Ev("Detach", [g |-> g], [ret |-> 0])>>])
    \o <<Ev("Lone", [a |-> 0], [vg |-> GOrder(DOMAIN vgs' \ UNION {SeqSet(vgs'[g].mem) : g \in DOMAIN vgs'}),
                               vs |-> DOrder(vds' \ UNION {SeqSet(vgs'[g].mem) : g \in DOMAIN vgs'})]),
         Ev("Iterate", [a |-> 0], [vg |-> GOrder(DOMAIN vgs'), vs |-> DOrder(vds')])>>
EmitAudited == (st' = "open") => CSVWrite("%1$s", <<ToJson([spec |-> "VGroup", steps |-> hist' \o Audit])>>, IOEnv.GEN_OUT)
EmitFull == (Len(hist') = MaxOps) => EmitAudited
=============================================================================
