SPECIFICATION Spec
CONSTANTS
  UserTags = {100, 101, 36864}
  Refs = {1, 2, 3, 65534, 65535}
  Lens = {1, 4, 9}
  MaxRef = 65535
  NddsSet = {4, 5, 6, 7, 16}
  MaxOps = 24
  AllocCand = {}
  GenMode = TRUE
  Observers = TRUE
  KeepHist = TRUE
ACTION_CONSTRAINT EmitFull
CHECK_DEADLOCK FALSE
