SPECIFICATION Spec
CONSTANTS
  MaxIds = 5
  MaxOps = 14
  KeepHist = TRUE
VIEW view
CONSTRAINT Bound
ACTION_CONSTRAINT EmitAll
CHECK_DEADLOCK FALSE
