SPECIFICATION Spec
CONSTANTS
  MaxIds = 5
  MaxOps = 14
  IdSpace = 12
  Objs = {1, 2, 3}
  SkipLive = TRUE
  NeedBurn = TRUE
  MustBurn = FALSE
  KeepHist = TRUE
VIEW view
CONSTRAINT Bound
ACTION_CONSTRAINT EmitAll
CHECK_DEADLOCK FALSE
