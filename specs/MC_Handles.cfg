SPECIFICATION Spec
CONSTANTS
  Files = {"f1"}
  HNames = {"h1", "h2", "h3"}
  MaxOps = 6
  KeepHist = FALSE
  GenMode = TRUE
CONSTRAINT Bound
INVARIANTS NoAlias ParentsLive
CHECK_DEADLOCK FALSE
