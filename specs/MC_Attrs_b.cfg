SPECIFICATION Spec
CONSTANTS
  Objs = {"ri", "dim"}
  Names = {"a", "ab"}
  Types = {"i16", "c8"}
  Counts = {1, 2}
  MaxAttrs = 2
  DataMod = 2
  MaxOps = 100
  KeepHist = FALSE
VIEW view
INVARIANTS UniqueNames
PROPERTIES SetKeepsOthers
CHECK_DEADLOCK FALSE
