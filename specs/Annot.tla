------------------------------- MODULE Annot -------------------------------
(***************************************************************************)
(* Annotations (property C11): mfan.c (multi-file interface, ANxxx) and    *)
(* dfan.c (single-file interface, DFANxxx).                                  *)
(*                                                                         *)
(* A file holds a list of annotations in order of creation; each is a file *)
(* label, file description, object label or object description; the object *)
(* kinds name their target (a tag/ref).  A text is named by its length and *)
(* a seed (the driver expands it: labels without NUL bytes, descriptions   *)
(* with).  An annotation keeps its identity (type, annotation ref) for     *)
(* life; rewriting changes its text only.                                  *)
(*                                                                         *)
(* The two interfaces are used in separate sessions on the same file:      *)
(*   "an" : Hopen + ANstart ... ANend + Hclose                             *)
(*   "df" : the file is closed; DFANxxx calls take the file name            *)
(***************************************************************************)
EXTENDS Naturals, Integers, Sequences, FiniteSets, TLC, SequencesExt

CONSTANTS Targets,      \* subset of {"t1","t2","t3"}: t1 = tag A ref 1, t2 = tag A ref 2, t3 = tag B ref 1
          LabLens, DescLens, MaxAnns, DataMod, MaxOps, KeepHist
FAIL == -1
Types  == {"fl", "fd", "ol", "od"}
IsLab(ty) == ty \in {"fl", "ol"}
IsObj(ty) == ty \in {"ol", "od"}

VARIABLES st,      \* "init" | "an" | "df"
          anns,    \* sequence of [type, target, len, k]
          wc, out, hist
vars == <<st, anns, wc, out, hist>>
view == <<st, anns, wc % DataMod>>

Log(op, args, o) == /\ out' = o
                    /\ hist' = IF KeepHist THEN Append(hist, [op |-> op, args |-> args, out |-> o])
                                           ELSE <<[op |-> op, args |-> args, out |-> o]>>

\* positions (in creation order) of the annotations of a type / of a type and target
Idx == [i \in 1..Len(anns) |-> i]
OfType(ty)       == SelectSeq(Idx, LAMBDA i : anns[i].type = ty)
OfTarget(ty, tg) == SelectSeq(Idx, LAMBDA i : anns[i].type = ty /\ anns[i].target = tg)
Texts(idx)       == [j \in 1..Len(idx) |-> [len |-> anns[idx[j]].len, k |-> anns[idx[j]].k]]
K == (wc + 1) % DataMod

Init == st = "init" /\ anns = <<>> /\ wc = 0 /\ out = [ret |-> 0] /\ hist = <<>>

\* create the file (with the target objects) and start an AN session
Setup == /\ st = "init" /\ st' = "an"
         /\ Log("Setup", [a |-> 0], [ret |-> 0])
         /\ UNCHANGED <<anns, wc>>

\* ---------------------------------------------------------------- multi-file interface
\* ANcreate / ANcreatef + ANwriteann + ANendaccess
Create(ty, tg, len, k) ==
    /\ st = "an" /\ Len(anns) < MaxAnns
    /\ (IsObj(ty) /\ tg \in Targets) \/ (~IsObj(ty) /\ tg = "none")
    /\ anns' = Append(anns, [type |-> ty, target |-> tg, len |-> len, k |-> k])
    /\ Log("Create", [type |-> ty, target |-> tg, len |-> len, k |-> k], [ret |-> 0])
    /\ wc' = wc + 1 /\ UNCHANGED st
\* the j-th created annotation of the type, found by its annotation tag/ref (ANtagref2id), is given
\* another text (ANwriteann + ANendaccess)
Rewrite(ty, j, len, k) ==
    /\ st = "an" /\ j \in 1..Len(OfType(ty))
    /\ anns' = [anns EXCEPT ![OfType(ty)[j]].len = len, ![OfType(ty)[j]].k = k]
    /\ Log("Rewrite", [type |-> ty, index |-> j - 1, len |-> len, k |-> k], [ret |-> 0])
    /\ wc' = wc + 1 /\ UNCHANGED st
\* ANfileinfo
FileInfo ==
    /\ st = "an"
    /\ Log("FileInfo", [a |-> 0], [fl |-> Len(OfType("fl")), fd |-> Len(OfType("fd")), ol |-> Len(OfType("ol")), od |-> Len(OfType("od"))])
    /\ UNCHANGED <<st, anns, wc>>
\* for every index of the type: ANselect, ANannlen, ANreadann, ANid2tagref/ANtagref2id/ANget_tagref.
\* Which index designates which annotation is the library's choice: the texts are reported in order of
\* creation (the driver knows every annotation's tag/ref from its creation).
\* same = TRUE iff the indices designate exactly the annotations created (each once, by the annotation
\* ref it was created with), the ids are pairwise distinct and id <-> tag/ref maps back and forth
ReadAll(ty) ==
    /\ st = "an"
    /\ Log("ReadAll", [type |-> ty], [texts |-> Texts(OfType(ty)), same |-> TRUE])
    /\ UNCHANGED <<st, anns, wc>>
\* ANnumann + ANannlist for an object: the ids listed, read one by one
AnnList(ty, tg) ==
    /\ st = "an" /\ IsObj(ty) /\ tg \in Targets
    /\ Log("AnnList", [type |-> ty, target |-> tg], [n |-> Len(OfTarget(ty, tg)), texts |-> Texts(OfTarget(ty, tg)), same |-> TRUE])
    /\ UNCHANGED <<st, anns, wc>>

\* ---------------------------------------------------------------- sessions
ToDF == /\ st = "an" /\ st' = "df" /\ Log("ToDF", [a |-> 0], [ret |-> 0]) /\ UNCHANGED <<anns, wc>>
ToAN == /\ st = "df" /\ st' = "an" /\ Log("ToAN", [a |-> 0], [ret |-> 0]) /\ UNCHANGED <<anns, wc>>

\* ---------------------------------------------------------------- single-file interface
\* DFANputlabel / DFANputdesc: the object's annotation of that kind is replaced, else one is added
\* (with several annotations of the kind on the object, which one is replaced is the library's choice:
\*  not generated)
DfPut(ty, tg, len, k) ==
    /\ st = "df" /\ IsObj(ty) /\ tg \in Targets
    /\ LET idx == OfTarget(ty, tg) IN
       /\ Len(idx) <= 1
       /\ IF idx = <<>>
          THEN /\ Len(anns) < MaxAnns
               /\ anns' = Append(anns, [type |-> ty, target |-> tg, len |-> len, k |-> k])
          ELSE anns' = [anns EXCEPT ![idx[1]].len = len, ![idx[1]].k = k]
    /\ Log("DfPut", [type |-> ty, target |-> tg, len |-> len, k |-> k], [ret |-> 0])
    /\ wc' = wc + 1 /\ UNCHANGED st
\* the single-file interface used on ANOTHER file in between (the interface keeps, per process, the name of the last file
\* and directories of that file's labels and descriptions): DFANputlabel / DFANputdesc for the same kind of target on a
\* second file, read back from there at once.  It must work there, and nothing of this file changes.
DfOther(ty, tg, len, k) ==
    /\ st = "df" /\ IsObj(ty) /\ tg \in Targets
    /\ Log("DfOther", [type |-> ty, target |-> tg, len |-> len, k |-> k], [ret |-> 0, back |-> TRUE])
    /\ wc' = wc + 1 /\ UNCHANGED <<st, anns>>
\* DFANaddfid / DFANaddfds: always a new file annotation
DfAddFile(ty, len, k) ==
    /\ st = "df" /\ ~IsObj(ty) /\ Len(anns) < MaxAnns
    /\ anns' = Append(anns, [type |-> ty, target |-> "none", len |-> len, k |-> k])
    /\ Log("DfAddFile", [type |-> ty, len |-> len, k |-> k], [ret |-> 0])
    /\ wc' = wc + 1 /\ UNCHANGED st
\* DFANgetlablen+DFANgetlabel / DFANgetdesclen+DFANgetdesc: ONE of the object's annotations of that kind
\* (cands: the driver reports the candidates it was given iff what it read is among them)
DfGet(ty, tg) ==
    /\ st = "df" /\ IsObj(ty) /\ tg \in Targets
    /\ LET idx == OfTarget(ty, tg) IN
       Log("DfGet", [type |-> ty, target |-> tg], IF idx = <<>> THEN [ret |-> FAIL] ELSE [ret |-> 0, cands |-> Texts(idx)])
    /\ UNCHANGED <<st, anns, wc>>
\* DFANgetfidlen/DFANgetfid (DFANgetfdslen/DFANgetfds) from the first to the last; reported sorted
TextLess(a, b) == a.len < b.len \/ (a.len = b.len /\ a.k < b.k)
DfFileAnns(ty) ==
    /\ st = "df" /\ ~IsObj(ty)
    /\ Log("DfFileAnns", [type |-> ty], [texts |-> SortSeq(Texts(OfType(ty)), TextLess)])
    /\ UNCHANGED <<st, anns, wc>>

Lens(ty) == IF IsLab(ty) THEN LabLens ELSE DescLens
Next == \/ Setup \/ FileInfo \/ ToDF \/ ToAN
        \/ \E ty \in Types, tg \in Targets \cup {"none"}, len \in LabLens \cup DescLens : len \in Lens(ty) /\ Create(ty, tg, len, K)
        \/ \E ty \in Types, j \in 1..MaxAnns, len \in LabLens \cup DescLens : len \in Lens(ty) /\ Rewrite(ty, j, len, K)
        \/ \E ty \in Types : ReadAll(ty) \/ DfFileAnns(ty)
        \/ \E ty \in Types, tg \in Targets : AnnList(ty, tg) \/ DfGet(ty, tg)
        \/ \E ty \in Types, tg \in Targets, len \in LabLens \cup DescLens : len \in Lens(ty) /\ DfPut(ty, tg, len, K)
        \/ \E ty \in Types, len \in LabLens \cup DescLens : len \in Lens(ty) /\ DfAddFile(ty, len, K)
        \/ \E ty \in Types, tg \in Targets, len \in LabLens \cup DescLens : len \in Lens(ty) /\ DfOther(ty, tg, len, K)
Spec == Init /\ [][Next]_vars

---------------------------------------------------------------------------
\* an annotation never changes type or target, annotations are never dropped or reordered
IdentityStable == [][st' # "init" => /\ Len(anns') >= Len(anns)
                                      /\ \A i \in 1..Len(anns) : anns'[i].type = anns[i].type /\ anns'[i].target = anns[i].target]_vars
\* a step changes the text of at most one annotation
OneAtATime == [][st' # "init" => Cardinality({i \in 1..Len(anns) : anns'[i] # anns[i]}) <= 1]_vars
TargetsWellFormed == \A i \in 1..Len(anns) : IsObj(anns[i].type) <=> anns[i].target # "none"
Bound == Len(hist) < MaxOps
=============================================================================
