SPECIFICATION Spec
CONSTANTS
  Keys = {1}
  Aids = {"A1"}
  MaxLen = 7
  WriteLens = {1, 3}
  SeekOffs = {0, 2, 5}
  ReadLens = {0, 2}
  BlkCfgs <- BlkOne
  NddsSet = {4}
  MaxOps = 7
  DataMod = 15
  SharedGrow = FALSE
  KeepHist = TRUE
CONSTRAINT Bound
ACTION_CONSTRAINT EmitAudited
CHECK_DEADLOCK FALSE
