---------------------------- MODULE Gen_Limits ----------------------------
EXTENDS Limits, Json, CSV, IOUtils
Ev(o, a, x) == [op |-> o, args |-> a, out |-> x]
Audit == <<Ev("Probe", [room |-> eofK' + slackK' + 400 <= CeilK], [healthy |-> TRUE, n |-> nres', members |-> nmem'])>>
EmitAudited == (st' # "init") => CSVWrite("%1$s", <<ToJson([spec |-> "Limits", steps |-> hist' \o Audit])>>, IOEnv.GEN_OUT)
EmitFull == (Len(hist') = MaxOps) => EmitAudited
=============================================================================
