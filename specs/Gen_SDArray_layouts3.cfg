SPECIFICATION Spec
CONSTANTS
  Shapes <- ShapesLay
  Layouts <- LAll
  Starts <- StartsTypes
  Counts = {1, 2, 3}
  Strides = {1, 2}
  MaxExt = 3
  DataMod = 1
  MaxOps = 3
  KeepHist = TRUE
VIEW view
CONSTRAINT Bound
ACTION_CONSTRAINT EmitAudited
CHECK_DEADLOCK FALSE
