SPECIFICATION Spec
CONSTANTS
  Widths = {8}
  NVals = 2
  Params <- ParamsMC
  Patterns = {0, 1, 2, 3, 4, 5, 6, 7}
  MaxOps = 100
  KeepHist = FALSE
VIEW view
INVARIANTS Idempotent FieldKept
CHECK_DEADLOCK FALSE
