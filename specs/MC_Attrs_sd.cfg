SPECIFICATION Spec
CONSTANTS
  Objs = {"d10", "d20", "d21"}
  Names = {"a"}
  Types = {"c8"}
  Counts = {2}
  DimNames = {"x", "y"}
  ScaleTypes = {"i16"}
  MaxAttrs = 2
  MaxAdd = 0
  DataMod = 2
  MaxOps = 100
  KeepHist = FALSE
VIEW view
INVARIANTS UniqueNames VarNamesDistinct
PROPERTIES ListStable RefusedChangesNothing OnlySettersChange
CHECK_DEADLOCK FALSE
