------------------------------- MODULE Limits -------------------------------
(***************************************************************************)
(* Format limits (property C20): a request that the format cannot          *)
(* represent fails, nothing wraps, and file and library stay usable.       *)
(*                                                                         *)
(* Every action is one request with a parameter chosen around a limit; the *)
(* outcome is decided by the limit alone.  Sizes are counted in KiB so     *)
(* that the 2^31-1 byte ceiling fits TLC's integers; requests are chosen   *)
(* so that no sum lands within 8 KiB of the ceiling (the file header and   *)
(* descriptor blocks are not modelled).                                    *)
(***************************************************************************)
EXTENDS Naturals, Integers, Sequences, FiniteSets, TLC

CONSTANTS ReserveK, AppendK, GapK, MemberCounts, FieldCounts, Orders, Ranks, NameKinds, NameLens, MaxOps, KeepHist
FAIL == -1
CeilK      == 2097152 - 8          \* 2^31 bytes in KiB, minus the margin
MaxMembers == 65535
MaxFields  == 256
MaxOrder   == 65535
MaxRecSize == 65535
MaxRank    == 32
\* what each interface can store of a name: longer names are truncated to at most this or refused ("cut")
NameLimit == [vsname |-> 64, vsclass |-> 64, field |-> 128, vgname |-> 65535, vgclass |-> 65535, grname |-> 65535,
              grattr |-> 128, sdname |-> 256, dimname |-> 256, sdattr |-> 64, extname |-> 1023, hxname |-> 1023]

VARIABLES st, eofK, slackK, nres, nmem, out, hist
vars == <<st, eofK, slackK, nres, nmem, out, hist>>
view == <<st, eofK, slackK, nres, nmem>>
Log(op, args, o) == /\ out' = o
                    /\ hist' = IF KeepHist THEN Append(hist, [op |-> op, args |-> args, out |-> o])
                                           ELSE <<[op |-> op, args |-> args, out |-> o]>>

Init == st = "init" /\ eofK = 0 /\ slackK = 0 /\ nres = 0 /\ nmem = 0 /\ out = [ret |-> 0] /\ hist = <<>>
Setup == /\ st = "init" /\ st' = "open" /\ Log("Setup", [a |-> 0], [ret |-> 0]) /\ UNCHANGED <<eofK, slackK, nres, nmem>>

\* Hstartwrite(new element, k KiB) + Hendaccess: space is reserved, never written.
\* sane = every reserved element still reports the offset and length it was granted, all offsets >= 0
\* eofK counts the reservations and appends; slackK bounds from above what the other requests of the behaviour
\* may have added to the file (records, member lists, headers).  A request is generated only when its outcome
\* does not depend on that: it fits even with all of the slack, or it does not fit even without any.
Determined(k) == (eofK + slackK + k <= CeilK) \/ (eofK + k > CeilK)
Reserve(k) ==
    /\ st = "open" /\ Determined(k)
    /\ IF eofK + slackK + k <= CeilK
       THEN /\ eofK' = eofK + k /\ nres' = nres + 1
            /\ Log("Reserve", [k |-> k], [ret |-> 0, sane |-> TRUE, n |-> nres + 1])
       ELSE /\ Log("Reserve", [k |-> k], [ret |-> FAIL, sane |-> TRUE, n |-> nres]) /\ UNCHANGED <<eofK, nres>>
    /\ UNCHANGED <<st, slackK, nmem>>
\* a new appendable element at the end of the file grows by k KiB of real data in one Hwrite
AppendBig(k) ==
    /\ st = "open" /\ Determined(k)
    /\ IF eofK + slackK + k <= CeilK
       THEN /\ eofK' = eofK + k /\ Log("AppendBig", [k |-> k], [ret |-> 0, sane |-> TRUE])
       ELSE /\ Log("AppendBig", [k |-> k], [ret |-> FAIL, sane |-> TRUE]) /\ UNCHANGED eofK
    /\ UNCHANGED <<st, slackK, nres, nmem>>
\* a new appendable element at the end of the file (1 byte), Hseek g KiB beyond its end (nothing is written: the gap
\* is sparse), then one Hwrite of k KiB there: the element grows to g + k KiB or the write is refused and the element
\* keeps its byte
SeekAppend(g, k) ==
    /\ st = "open" /\ Determined(g + k)
    /\ IF eofK + slackK + g + k <= CeilK
       THEN /\ eofK' = eofK + g + k /\ Log("SeekAppend", [g |-> g, k |-> k], [ret |-> 0, sane |-> TRUE])
       ELSE /\ Log("SeekAppend", [g |-> g, k |-> k], [ret |-> FAIL, sane |-> TRUE]) /\ UNCHANGED eofK
    /\ UNCHANGED <<st, slackK, nres, nmem>>
\* n x Vaddtagref on one vgroup
AddMembers(n) ==
    /\ st = "open"
    /\ LET ok == IF nmem + n <= MaxMembers THEN n ELSE MaxMembers - nmem IN
       /\ nmem' = nmem + ok
       /\ Log("AddMembers", [n |-> n], [added |-> ok, count |-> nmem + ok])
    /\ slackK' = slackK + 300            \* (a member list of up to 65535 entries is rewritten at every close)
    /\ UNCHANGED <<st, eofK, nres>>
\* a vdata with n one-byte fields: VSfdefine each, VSsetfields all
Fields(n) == /\ st = "open" /\ Log("Fields", [n |-> n], [ret |-> IF n <= MaxFields THEN 0 ELSE FAIL]) /\ slackK' = slackK + 8 /\ UNCHANGED <<st, eofK, nres, nmem>>
\* VSfdefine(field of element size sz, order o)
Order(sz, o) == /\ st = "open"
                /\ Log("Order", [size |-> sz, order |-> o], [ret |-> IF o >= 1 /\ o <= MaxOrder /\ sz * o <= MaxRecSize THEN 0 ELSE FAIL])
                /\ slackK' = slackK + 70
                /\ UNCHANGED <<st, eofK, nres, nmem>>
\* two one-byte fields of orders o1 and o2 (each allowed) selected together
RecSize(o1, o2) == /\ st = "open" /\ o1 <= MaxOrder /\ o2 <= MaxOrder
                   /\ Log("RecSize", [o1 |-> o1, o2 |-> o2], [ret |-> IF o1 + o2 <= MaxRecSize THEN 0 ELSE FAIL])
                   /\ slackK' = slackK + 70
                   /\ UNCHANGED <<st, eofK, nres, nmem>>
\* SDcreate with r dimensions
Rank(r) == /\ st = "open" /\ Log("Rank", [r |-> r], [ret |-> IF r <= MaxRank THEN 0 ELSE FAIL]) /\ UNCHANGED <<st, eofK, slackK, nres, nmem>>
\* give an object a name of len characters, close, reopen, read the name back:
\*   kept = the name comes back whole; cut = the call was refused, or a proper prefix comes back
SetName(kind, len) ==
    /\ st = "open"
    /\ Log("SetName", [kind |-> kind, len |-> len], [outcome |-> IF len <= NameLimit[kind] THEN "kept" ELSE "cut"])
    /\ slackK' = slackK + 4              \* (the session's file is closed and reopened around it)
    /\ UNCHANGED <<st, eofK, nres, nmem>>
\* the library and the file are still usable: close, reopen, every element granted so far reports its offset
\* and length, a small element / vdata / vgroup / dataset can be stored and read back (space permitting)
Probe == /\ st = "open" /\ Log("Probe", [room |-> eofK + slackK + 400 <= CeilK], [healthy |-> TRUE, n |-> nres, members |-> nmem])
         /\ slackK' = slackK + 4
         /\ UNCHANGED <<st, eofK, nres, nmem>>

Next == \/ Setup \/ Probe
        \/ \E k \in ReserveK : Reserve(k)
        \/ \E k \in AppendK : AppendBig(k)
        \/ \E g \in GapK, k \in AppendK : SeekAppend(g, k)
        \/ \E n \in MemberCounts : AddMembers(n)
        \/ \E n \in FieldCounts : Fields(n)
        \/ \E sz \in {1, 2, 4, 8}, o \in Orders : Order(sz, o)
        \/ \E o1 \in Orders, o2 \in Orders : RecSize(o1, o2)
        \/ \E r \in Ranks : Rank(r)
        \/ \E kd \in NameKinds, len \in NameLens : SetName(kd, len)
Spec == Init /\ [][Next]_vars

NoWrap == eofK <= CeilK /\ nmem <= MaxMembers
SlackBound == slackK <= 700      \* (state constraint of the bounded design check)
Bound == Len(hist) < MaxOps
=============================================================================
