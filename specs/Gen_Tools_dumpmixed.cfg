SPECIFICATION Spec
CONSTANTS
  FileKinds = {"mixed"}
  Targets <- NoneSet
  DiffOpts = {}
  DumpObjs <- MixedDumps
  ImportCases <- NoneSet
  MaxOps = 3
  KeepHist = TRUE
CONSTRAINT Bound
ACTION_CONSTRAINT EmitAudited
CHECK_DEADLOCK FALSE
