SPECIFICATION Spec
CONSTANTS
  Shapes <- ShapesLay
  Layouts <- LAll
  Starts <- StartsTypes
  Counts = {1, 2, 3}
  Strides = {1, 2}
  MaxExt = 5
  DataMod = 7
  MaxOps = 12
  KeepHist = TRUE
ACTION_CONSTRAINT EmitFull
CHECK_DEADLOCK FALSE
