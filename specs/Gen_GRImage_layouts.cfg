SPECIFICATION Spec
CONSTANTS
  Dims <- DimsGen
  NComps = {1, 2}
  Layouts <- LAll
  Coords <- CoordsSim
  Counts = {1, 2, 3}
  Strides = {1, 2}
  DataMod = 1
  MaxOps = 3
  KeepHist = TRUE
VIEW view
CONSTRAINT Bound
ACTION_CONSTRAINT EmitAudited
CHECK_DEADLOCK FALSE
