SPECIFICATION Spec
CONSTANTS
  UserTags = {100, 101}
  Refs = {1, 2}
  Lens = {1}
  MaxRef = 2
  NddsSet = {4}
  MaxOps = 7
  AllocCand = {0, 1, 2}
  GenMode = FALSE
  Observers = TRUE
  KeepHist = FALSE
VIEW view
INVARIANTS TypeOK WriteThrough AllocFresh WalkExact
PROPERTIES OthersUntouched ReopenStable
CHECK_DEADLOCK FALSE
