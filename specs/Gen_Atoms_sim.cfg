SPECIFICATION Spec
CONSTANTS
  MaxIds = 9
  MaxOps = 40
  KeepHist = TRUE
ACTION_CONSTRAINT EmitFull
CHECK_DEADLOCK FALSE
