SPECIFICATION Spec
CONSTANTS
  MaxIds = 9
  MaxOps = 40
  IdSpace = 12
  Objs = {1, 2, 3}
  SkipLive = TRUE
  NeedBurn = TRUE
  MustBurn = FALSE
  KeepHist = TRUE
ACTION_CONSTRAINT EmitFull
CHECK_DEADLOCK FALSE
