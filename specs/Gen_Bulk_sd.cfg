SPECIFICATION Spec
CONSTANTS
  VsCases <- NoCases
  SdCases <- SdSet
  HlCases <- NoCases
  BtCases <- NoCases
  NbCases <- NoCases
  CpCases <- NoCases
  MaxOps = 2
  KeepHist = TRUE
VIEW view
CONSTRAINT Bound
ACTION_CONSTRAINT Emit
CHECK_DEADLOCK FALSE
