---------------------------- MODULE Gen_Attrs ----------------------------
EXTENDS Attrs, Json, CSV, IOUtils, SequencesExt
Ev(o, a, x) == [op |-> o, args |-> a, out |-> x]
ObjSeq == SetToSeq(Objs)
DimSeq == SetToSeq(Objs \cap DimSlots)
\* epilogue: close, reopen (alternating read-only / read-write), report everything
DumpEv(o)  == Ev("Dump", [obj |-> o], [n |-> Len(attrs'[IF o \in DimSlots THEN dimOf'[o] ELSE o]), attrs |-> attrs'[IF o \in DimSlots THEN dimOf'[o] ELSE o]])
DimEv(s)   == <<Ev("DimInfo", [obj |-> s], [name |-> dname'[dimOf'[s]], size |-> DimSize[s], n |-> Len(attrs'[dimOf'[s]])])>>
              \o (IF scale'[dimOf'[s]] # NoScale THEN <<Ev("GetDimScale", [obj |-> s], [ret |-> 0, type |-> scale'[dimOf'[s]].type, k |-> scale'[dimOf'[s]].k])>> ELSE <<>>)
Audit == <<Ev("Reopen", [rw |-> (wc' % 2 = 0)], [ret |-> 0])>>
         \o [i \in 1..Len(ObjSeq) |-> DumpEv(ObjSeq[i])]
         \o FlattenSeq([i \in 1..Len(DimSeq) |-> DimEv(DimSeq[i])])
         \o <<Ev("Lookups", [a |-> 0], [vars |-> svars', consistent |-> TRUE])>>
EmitAudited == (st' # "init") => CSVWrite("%1$s", <<ToJson([spec |-> "Attrs", steps |-> hist' \o Audit])>>, IOEnv.GEN_OUT)
EmitFull == (Len(hist') = MaxOps) => EmitAudited
=============================================================================
