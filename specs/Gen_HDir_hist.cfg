SPECIFICATION Spec
CONSTANTS
  UserTags = {100, 101}
  Refs = {1, 2}
  Lens = {3}
  MaxRef = 65535
  NddsSet = {4}
  MaxOps = 5
  AllocCand = {}
  GenMode = TRUE
  Observers = FALSE
  KeepHist = TRUE
CONSTRAINT LenBound
ACTION_CONSTRAINT EmitAudited
CHECK_DEADLOCK FALSE
