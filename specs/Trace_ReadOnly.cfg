SPECIFICATION TraceSpec
CONSTANTS
  FileKinds = {"mixed", "rich"}
  MaxOps = 1
  Skip = {}
  KeepHist = FALSE
INVARIANTS TrackL NeverChanged
POSTCONDITION Verdict
CHECK_DEADLOCK FALSE
