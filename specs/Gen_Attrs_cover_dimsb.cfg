SPECIFICATION Spec
CONSTANTS
  Objs = {"d10", "d21"}
  Names = {"a"}
  Types = {"c8"}
  Counts = {2}
  DimNames = {"x", "y"}
  ScaleTypes = {"i16"}
  MaxAttrs = 2
  MaxAdd = 1
  DataMod = 1
  MaxOps = 100
  KeepHist = TRUE
VIEW view
CONSTRAINT Bound
ACTION_CONSTRAINT EmitAudited
CHECK_DEADLOCK FALSE
