------------------------------ MODULE HDiskLog ------------------------------
(* The observable side of HDisk: the ordered physical writes of one append-only session and what  *)
(* an independent process finds at every crash point (prefix of the write log).  This is what the *)
(* crash enumerator (harness/crashcut.py) records from the real library; Trace_HDiskLog validates *)
(* the records against these actions.  HDisk.tla is the design-level model of the same ordering.  *)
EXTENDS Naturals, Sequences, TLC

VARIABLES phase,       \* "idle" | "session" | "flush" | "closed"
          endAtOpen,   \* logical end of the file when the session started: max end of any stored object / DD block
          clause2,     \* this session only adds objects without replacing metadata (safe inside the flush too)
          nw           \* number of physical writes so far
lvars == <<phase, endAtOpen, clause2, nw>>

LInit == phase = "idle" /\ endAtOpen = 0 /\ clause2 = FALSE /\ nw = 0

Open(e, c2) == /\ phase' = "session" /\ endAtOpen' = e /\ clause2' = c2 /\ nw' = 0

\* a physical write.  Until the flush begins, the library writes only into space beyond every
\* previously stored object and descriptor block (C17, clause 1)
Write(off, len) ==
    /\ phase \in {"session", "flush"}
    /\ (phase = "session") => off >= endAtOpen
    /\ nw' = nw + 1
    /\ UNCHANGED <<phase, endAtOpen, clause2>>

FlushBegin == /\ phase = "session" /\ phase' = "flush" /\ UNCHANGED <<endAtOpen, clause2, nw>>

\* the file as it is on disk after the first k writes, reopened by an independent process
Cut(k, opens, intact, chainok) ==
    /\ phase \in {"session", "flush"}
    /\ k = nw
    /\ (phase = "session" \/ clause2) => (opens /\ intact /\ chainok)
    /\ UNCHANGED lvars

Close == /\ phase = "flush" /\ phase' = "closed" /\ UNCHANGED <<endAtOpen, clause2, nw>>
=============================================================================
