---------------------------- MODULE Trace_Tools ----------------------------
EXTENDS Tools, TraceBase
VARIABLE l
TReset == /\ st' = "init" /\ kind' = "" /\ mut' = "none" /\ out' = [ret |-> 0] /\ hist' = <<>>
Good(ev) ==
    LET a == ev.args  o == ev.obs IN
       \/ ev.op = "Reset" /\ TReset
       \/ /\ ev.op # "Reset"
          /\ \/ ev.op = "Build"  /\ Build(a.file)
             \/ ev.op = "Mutate" /\ Mutate(a.target)
             \/ ev.op = "HDiff"  /\ HDiff(a.x, a.y, a.opt)
             \/ ev.op = "Dump"   /\ Dump(a.obj)
             \/ ev.op = "Import" /\ Import(a.case)
          /\ ObsOK(out', o)
TraceInit == Init /\ l = 1 /\ TLCSet(1, 1)
TraceNext ==
    /\ l <= Len(TraceLog)
    /\ IF ENABLED Good(TraceLog[l])
       THEN Good(TraceLog[l]) /\ l' = l + 1
       ELSE Reject(l) /\ l' = NextReset(l) /\ UNCHANGED vars
TraceSpec == TraceInit /\ [][TraceNext]_<<vars, l>>
TrackL == Track(l)
=============================================================================
