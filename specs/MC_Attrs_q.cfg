SPECIFICATION Spec
CONSTANTS
  Objs = {"ri"}
  Names = {"a", "ab"}
  Types = {"i16", "c8"}
  Counts = {1, 2, 65535}
  DimNames = {"x"}
  ScaleTypes = {"i16"}
  MaxAttrs = 2
  MaxAdd = 1
  DataMod = 2
  MaxOps = 100
  KeepHist = FALSE
VIEW view
INVARIANTS UniqueNames VarNamesDistinct
PROPERTIES ListStable RefusedChangesNothing OnlySettersChange
CHECK_DEADLOCK FALSE
