SPECIFICATION Spec
CONSTANTS
  FileKinds = {"plain", "big"}
  Targets <- NoneSet
  DiffOpts = {}
  DumpObjs <- AllDumps
  ImportCases <- NoneSet
  MaxOps = 3
  KeepHist = TRUE
CONSTRAINT Bound
ACTION_CONSTRAINT EmitAudited
CHECK_DEADLOCK FALSE
