SPECIFICATION Spec
CONSTANTS
  FileKinds = {"mixed"}
  TSels = {"", "*", "small", "cmp,img"}
  TTypes = {"", "RLE", "GZIP 6", "NONE"}
  CSels = {"", "*", "chk,img3,unl"}
  CShapes = {"", "5x6", "NONE"}
  Thresholds <- ThrSet
  MaxOps = 100
  KeepHist = FALSE
VIEW view
INVARIANTS TypeOK
CHECK_DEADLOCK FALSE
