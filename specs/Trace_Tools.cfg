SPECIFICATION TraceSpec
CONSTANTS
  FileKinds = {}
  Targets = {}
  DiffOpts = {}
  DumpObjs = {}
  ImportCases = {}
  MaxOps = 1000
  KeepHist = FALSE
INVARIANTS TrackL
POSTCONDITION Verdict
CHECK_DEADLOCK FALSE
