SPECIFICATION Spec
CONSTANTS
  UserTags = {100}
  Refs = {1, 2, 3}
  Lens = {3}
  MaxRef = 65535
  NddsSet = {4}
  MaxOps = 6
  AllocCand = {}
  GenMode = TRUE
  Observers = FALSE
  KeepHist = TRUE
CONSTRAINT LenBound
ACTION_CONSTRAINT EmitAudited
CHECK_DEADLOCK FALSE
