---------------------------- MODULE MC_ExtElem ----------------------------
EXTENDS ExtElem
Thorough == wc <= 3 /\ Cardinality(present) <= 2 /\ Cardinality(tainted) <= 2
Quick == wc <= 2 /\ Cardinality(present) <= 2 /\ Cardinality(tainted) <= 1
=============================================================================
