---------------------------- MODULE MC_ExtElem ----------------------------
EXTENDS ExtElem
SmallWc == wc <= 4 /\ Cardinality(present) <= 3
SmallWcQ == wc <= 3 /\ Cardinality(present) <= 2
=============================================================================
