SPECIFICATION Spec
CONSTANTS
  ReserveK = {1048576, 1048476, 1047552, 524288, 100}
  GapK = {524288}
  AppendK = {64, 8}
  MemberCounts = {30000, 35535, 65535, 1}
  FieldCounts = {256, 257}
  Orders = {1, 32767, 32768, 65535, 65536}
  Ranks = {32, 33}
  NameKinds = {"vsname", "vsclass", "field", "vgname", "vgclass", "grname", "grattr", "sdname", "dimname", "sdattr", "hxname", "extname"}
  NameLens = {64, 65, 128, 129, 256, 257, 1024, 1025, 70000}
  MaxOps = 12
  KeepHist = TRUE
ACTION_CONSTRAINT EmitFull
CHECK_DEADLOCK FALSE
