---------------------------- MODULE Trace_Limits ----------------------------
EXTENDS Limits, TraceBase
VARIABLE l
TReset == /\ st' = "init" /\ eofK' = 0 /\ slackK' = 0 /\ nres' = 0 /\ nmem' = 0 /\ out' = [ret |-> 0] /\ hist' = <<>>
Good(ev) ==
    LET a == ev.args  o == ev.obs IN
       \/ ev.op = "Reset" /\ TReset
       \/ /\ ev.op # "Reset"
          /\ \/ ev.op = "Setup"      /\ Setup
             \/ ev.op = "Reserve"    /\ Reserve(a.k)
             \/ ev.op = "AppendBig"  /\ AppendBig(a.k)
             \/ ev.op = "SeekAppend" /\ SeekAppend(a.g, a.k)
             \/ ev.op = "AddMembers" /\ AddMembers(a.n)
             \/ ev.op = "Fields"     /\ Fields(a.n)
             \/ ev.op = "Order"      /\ Order(a.size, a.order)
             \/ ev.op = "RecSize"    /\ RecSize(a.o1, a.o2)
             \/ ev.op = "Rank"       /\ Rank(a.r)
             \/ ev.op = "SetName"    /\ SetName(a.kind, a.len)
             \/ ev.op = "Probe"      /\ Probe /\ a.room = (eofK + slackK + 400 <= CeilK)
          /\ ObsOK(out', o)
TraceInit == Init /\ l = 1 /\ TLCSet(1, 1)
TraceNext ==
    /\ l <= Len(TraceLog)
    /\ IF ENABLED Good(TraceLog[l])
       THEN Good(TraceLog[l]) /\ l' = l + 1
       ELSE Reject(l) /\ l' = NextReset(l) /\ UNCHANGED vars
TraceSpec == TraceInit /\ [][TraceNext]_<<vars, l>>
TrackL == Track(l)
=============================================================================
