---------------------------- MODULE Trace_Interop ----------------------------
EXTENDS Interop, TraceBase
VARIABLE l
TReset == /\ st' = "init" /\ sds' = <<>> /\ ras' = <<>> /\ nk' = 0 /\ out' = [ret |-> 0] /\ hist' = <<>>
Good(ev) ==
    LET a == ev.args  o == ev.obs IN
       \/ ev.op = "Reset" /\ TReset
       \/ /\ ev.op # "Reset"
          /\ \/ ev.op = "Setup"     /\ Setup
             \/ ev.op = "WriteSds"  /\ a.k = nk + 1 /\ WriteSds(a.api, a.shape, a.type, a.scales, a.unl)
             \/ ev.op = "ListSds"   /\ ListSds(a.api)
             \/ ev.op = "GrowSds"   /\ \E i \in 1..Len(sds) : sds[i].k = a.k /\ GrowSds(i, a.n)
             \/ ev.op = "ListSdsNc" /\ ListSdsNc
             \/ ev.op = "WriteRas"  /\ a.k = nk + 1 /\ WriteRas(a.api, a.dims, a.ncomp, a.comp, IF a.pal = 0 THEN 0 ELSE 1, a.il)
             \/ ev.op = "ListRas"   /\ ListRas(a.api)
             \/ ev.op = "VViews"    /\ VViews
             \/ ev.op = "Legacy"    /\ Legacy(a.file)
          /\ ObsOK(out', o)
TraceInit == Init /\ l = 1 /\ TLCSet(1, 1)
TraceNext ==
    /\ l <= Len(TraceLog)
    /\ IF ENABLED Good(TraceLog[l])
       THEN Good(TraceLog[l]) /\ l' = l + 1
       ELSE Reject(l) /\ l' = NextReset(l) /\ UNCHANGED vars
TraceSpec == TraceInit /\ [][TraceNext]_<<vars, l>>
TrackL == Track(l)
=============================================================================
