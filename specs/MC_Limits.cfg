SPECIFICATION Spec
CONSTANTS
  ReserveK = {1048572, 1048576, 900000}
  GapK = {1048576, 2097000}
  AppendK = {524288}
  MemberCounts = {30000, 65535, 35535}
  FieldCounts = {256, 257}
  Orders = {1, 32767, 32768, 65535, 65536}
  Ranks = {32, 33}
  NameKinds = {"vsname", "sdattr"}
  NameLens = {64, 65}
  MaxOps = 100
  KeepHist = FALSE
VIEW view
CONSTRAINT SlackBound
INVARIANTS NoWrap
CHECK_DEADLOCK FALSE
