---------------------------- MODULE Trace_Conv ----------------------------
EXTENDS Conv, TraceBase
VARIABLE l
TReset == out' = [ret |-> 0] /\ hist' = <<>>
Good(ev) ==
    LET a == ev.args  o == ev.obs IN
       \/ ev.op = "Reset" /\ TReset
       \/ /\ ev.op # "Reset"
          /\ \/ ev.op = "Conv2" /\ a.src = SrcBuf(Len(a.src)) /\ a.dst = DstBuf(Len(a.dst)) /\ Conv2(a.dir, a.flavour, a.size, a.n, a.ss, a.ds)
             \/ ev.op = "Conv1" /\ a.buf = SrcBuf(Len(a.buf)) /\ Conv1(a.dir, a.flavour, a.size, a.n, a.st)
             \/ ev.op = "Conv1g" /\ a.buf = SrcBuf(Len(a.buf)) /\ Conv1g(a.dir, a.flavour, a.size, a.n, a.ss, a.ds)
             \/ ev.op = "Sweep" /\ Sweep(a.dir, a.flavour, a.size, a.mode, a.block)
          /\ ObsOK(out', o)
TraceInit == Init /\ l = 1 /\ TLCSet(1, 1)
TraceNext ==
    /\ l <= Len(TraceLog)
    /\ IF ENABLED Good(TraceLog[l])
       THEN Good(TraceLog[l]) /\ l' = l + 1
       ELSE Reject(l) /\ l' = NextReset(l) /\ UNCHANGED vars
TraceSpec == TraceInit /\ [][TraceNext]_<<vars, l>>
TrackL == Track(l)
=============================================================================
