SPECIFICATION Spec
CONSTANTS
  UserTags = {100, 36864}
  Refs = {1, 2, 65535}
  Lens = {2, 5}
  MaxRef = 65535
  NddsSet = {4, 5}
  MaxOps = 5
  AllocCand = {}
  GenMode = TRUE
  Observers = TRUE
  KeepHist = TRUE
VIEW view
CONSTRAINT LenBound
ACTION_CONSTRAINT EmitAll
CHECK_DEADLOCK FALSE
