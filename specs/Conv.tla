------------------------------- MODULE Conv -------------------------------
(***************************************************************************)
(* Number-type conversion between memory and file representation           *)
(* (dfconv.c, dfkswap.c, dfknat.c) as byte permutations.                   *)
(*                                                                         *)
(* A value of size s is written as the tuple of its bytes from most to     *)
(* least significant.  On this (little-endian) host the MEMORY image of a  *)
(* value is that tuple reversed; the FILE image is                         *)
(*     standard flavour : most significant byte first (big-endian)         *)
(*     little-endian    : least significant byte first                     *)
(*     native           : the host's order                                 *)
(* DFKconvert(src, dst, type, n, direction, sstride, dstride) moves n      *)
(* elements; stride 0 = contiguous.  Bytes outside the n destination       *)
(* elements are never touched; source == destination (in place) is         *)
(* allowed.                                                                *)
(***************************************************************************)
EXTENDS Naturals, Integers, Sequences, FiniteSets, TLC

CONSTANTS Sizes, Flavours, Ns, Strides, MaxOps, KeepHist

VARIABLES out, hist
vars == <<out, hist>>
Log(op, args, o) == /\ out' = o
                    /\ hist' = IF KeepHist THEN Append(hist, [op |-> op, args |-> args, out |-> o])
                                           ELSE <<[op |-> op, args |-> args, out |-> o]>>

Rev(s) == [i \in 1..Len(s) |-> s[Len(s) + 1 - i]]
\* position (1-based, within an element) in the SOURCE of the byte that lands at position j of the destination
\* element, when converting memory -> file; the same permutation applies file -> memory (each is an involution)
Swaps(fl) == fl = "std"          \* on a little-endian host only the standard (big-endian) flavour swaps
PermIdx(fl, s, j) == IF Swaps(fl) THEN s + 1 - j ELSE j
ConvElem(fl, e) == [j \in 1..Len(e) |-> e[PermIdx(fl, Len(e), j)]]

Eff(st, s) == IF st = 0 THEN s ELSE st
\* destination buffer after converting n elements of size s from src (stride ss) into dst (stride ds)
Convert(fl, s, n, ss, ds, src, dst) ==
    [p \in 1..Len(dst) |->
        LET k == (p - 1) \div Eff(ds, s)
            j == ((p - 1) % Eff(ds, s)) + 1 IN
        IF k < n /\ j <= s THEN src[k * Eff(ss, s) + PermIdx(fl, s, j)] ELSE dst[p]]

\* a position-coded source buffer: every byte distinguishable
SrcBuf(len) == [p \in 1..len |-> p]
DstBuf(len) == [p \in 1..len |-> 200 + (p % 50)]
Span(n, s, st) == IF n = 0 THEN 0 ELSE (n - 1) * Eff(st, s) + s

Init == out = [ret |-> 0] /\ hist = <<>>

\* DFKconvert between two buffers
Conv2(dir, fl, s, n, ss, ds) ==
    /\ (ss = 0 \/ ss >= s) /\ (ds = 0 \/ ds >= s)
    /\ (ss = 0) <=> (ds = 0)          \* "0 = contiguous" is only meaningful when given for both strides
    /\ n >= 1
    /\ LET src == SrcBuf(Span(n, s, ss) + 2)
           dst == DstBuf(Span(n, s, ds) + 2) IN
       Log("Conv2", [dir |-> dir, flavour |-> fl, size |-> s, n |-> n, ss |-> ss, ds |-> ds, src |-> src, dst |-> dst],
           [ret |-> 0, dst |-> Convert(fl, s, n, ss, ds, src, dst)])

\* DFKconvert in place (source == destination, equal strides)
Conv1(dir, fl, s, n, st) ==
    /\ (st = 0 \/ st >= s) /\ n >= 1
    /\ LET buf == SrcBuf(Span(n, s, st) + 2) IN
       Log("Conv1", [dir |-> dir, flavour |-> fl, size |-> s, n |-> n, st |-> st, buf |-> buf],
           [ret |-> 0, buf |-> Convert(fl, s, n, st, st, buf, buf)])

\* DFKconvert in place with a source stride LARGER than the destination stride (elements gathered toward the front of
\* their own buffer): element k is read at k*ss before anything is written at or beyond it, so the result is the one
\* of a conversion between two buffers, laid over the original bytes
Conv1g(dir, fl, s, n, ss, ds) ==
    /\ ds >= s /\ ss > ds /\ n >= 1
    /\ LET buf == SrcBuf(Span(n, s, ss) + 2) IN
       Log("Conv1g", [dir |-> dir, flavour |-> fl, size |-> s, n |-> n, ss |-> ss, ds |-> ds, buf |-> buf],
           [ret |-> 0, buf |-> Convert(fl, s, n, ss, ds, buf, buf)])

\* every bit pattern of a range of values goes through the same byte permutation: the driver converts
\* the whole range [lo16*65536, (hi16+1)*65536) (16-bit types: all 65536 values; 8-bit: all 256) in `mode`
\* and reports the permutation it observed on a position-coded probe and whether every value obeyed it
Sweep(dir, fl, s, mode, blk) ==
    /\ Log("Sweep", [dir |-> dir, flavour |-> fl, size |-> s, mode |-> mode, block |-> blk],
           [perm |-> [j \in 1..s |-> PermIdx(fl, s, j)], uniform |-> TRUE, roundtrip |-> TRUE])

Next == \/ \E dir \in {"out", "in"}, fl \in Flavours, s \in Sizes, n \in Ns, ss \in Strides, ds \in Strides : Conv2(dir, fl, s, n, ss, ds)
        \/ \E dir \in {"out", "in"}, fl \in Flavours, s \in Sizes, n \in Ns, st \in Strides : Conv1(dir, fl, s, n, st)
        \/ \E dir \in {"out", "in"}, fl \in Flavours, s \in Sizes, n \in Ns, ss \in Strides, ds \in Strides : Conv1g(dir, fl, s, n, ss, ds)
        \/ \E dir \in {"out", "in"}, fl \in Flavours, s \in Sizes, mode \in {"contig", "strided", "inplace"} : Sweep(dir, fl, s, mode, 0)
Spec == Init /\ [][Next]_vars

---------------------------------------------------------------------------
(* algebra checked by TLC over all sizes / flavours / counts / strides of the configuration *)
\* the two directions are mutually inverse on every element
Involution == \A fl \in Flavours, s \in Sizes : \A j \in 1..s : PermIdx(fl, s, PermIdx(fl, s, j)) = j
\* in place = between buffers (on the element bytes), and bytes between strided elements are untouched
InPlaceSame == \A fl \in Flavours, s \in Sizes, n \in Ns, st \in Strides : (st = 0 \/ st >= s) =>
                 LET buf == SrcBuf(Span(n, s, st) + 2)
                     a == Convert(fl, s, n, st, st, buf, buf)
                     b == Convert(fl, s, n, st, 0, buf, DstBuf(n * s + 2)) IN
                   /\ \A k \in 0..(n - 1), j \in 1..s : a[k * Eff(st, s) + j] = b[k * s + j]
                   /\ \A p \in 1..Len(buf) : ((p - 1) % Eff(st, s) >= s \/ (p - 1) \div Eff(st, s) >= n) => a[p] = buf[p]
\* gathering in place = converting between two buffers (element bytes), the rest of the buffer keeps its bytes
GatherSame == \A fl \in Flavours, s \in Sizes, n \in Ns, ss \in Strides, ds \in Strides : (ds >= s /\ ss > ds) =>
                 LET buf == SrcBuf(Span(n, s, ss) + 2)
                     a == Convert(fl, s, n, ss, ds, buf, buf)
                     b == Convert(fl, s, n, ss, 0, buf, DstBuf(n * s + 2)) IN
                   /\ \A k \in 0..(n - 1), j \in 1..s : a[k * ds + j] = b[k * s + j]
                   /\ \A p \in 1..Len(buf) : ((p - 1) % ds >= s \/ (p - 1) \div ds >= n) => a[p] = buf[p]
\* the file image has the byte order the flavour designates: memory (host, little-endian) image reversed
\* for the standard flavour, unchanged for little-endian and native
FileOrder == \A s \in Sizes : LET v == [i \in 1..s |-> i]
                                    mem == Rev(v) IN
                /\ ConvElem("std", mem) = v /\ ConvElem("le", mem) = Rev(v) /\ ConvElem("native", mem) = mem
Bound == Len(hist) < MaxOps
=============================================================================
