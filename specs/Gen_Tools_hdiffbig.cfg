SPECIFICATION Spec
CONSTANTS
  FileKinds = {"big"}
  Targets <- HugeTargets
  DiffOpts = {"", "-d"}
  DumpObjs <- NoneSet
  ImportCases <- NoneSet
  MaxOps = 4
  KeepHist = TRUE
CONSTRAINT Bound
ACTION_CONSTRAINT EmitAudited
CHECK_DEADLOCK FALSE
