SPECIFICATION Spec
CONSTANTS
  VsCases <- NoCases
  SdCases <- NoCases
  HlCases <- NoCases
  BtCases <- NoCases
  NbCases <- NoCases
  CpCases <- CpSet
  MaxOps = 2
  KeepHist = TRUE
VIEW view
CONSTRAINT Bound
ACTION_CONSTRAINT Emit
CHECK_DEADLOCK FALSE
