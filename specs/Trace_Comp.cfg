SPECIFICATION TraceSpec
CONSTANTS
  Coders = {}
  Chunks = {}
  SeekOffs = {0}
  ReadNs = {0}
  MaxLen = 1000000
  MaxOps = 1
  MixedRW = TRUE
  KeepHist = FALSE
INVARIANTS TrackL ReadsStream PosnOK
POSTCONDITION Verdict
CHECK_DEADLOCK FALSE
