SPECIFICATION Spec
CONSTANTS
  Targets = {"t1"}
  LabLens = {5}
  DescLens = {5, 300}
  MaxAnns = 4
  DataMod = 1
  MaxOps = 6
  KeepHist = TRUE
CONSTRAINT Bound
ACTION_CONSTRAINT EmitAudited
CHECK_DEADLOCK FALSE
