SPECIFICATION Spec
CONSTANTS
  ReserveK = {}
  GapK = {}
  AppendK = {}
  MemberCounts = {30000, 35535, 65535, 1}
  FieldCounts = {1, 255, 256, 257, 300}
  Orders = {1, 2, 16383, 16384, 32767, 32768, 65535, 65536}
  Ranks = {1, 31, 32, 33, 40}
  NameKinds = {}
  NameLens = {}
  MaxOps = 4
  KeepHist = TRUE
VIEW view
CONSTRAINT Bound
ACTION_CONSTRAINT EmitAudited
CHECK_DEADLOCK FALSE
