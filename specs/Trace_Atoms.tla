---------------------------- MODULE Trace_Atoms ----------------------------
EXTENDS Atoms, TraceBase
VARIABLE l
TReset == /\ live' = <<>> /\ next' = 0 /\ cache' = [i \in 1..4 |-> Empty] /\ inited' = FALSE /\ wrapped' = FALSE /\ burnt' = FALSE
          /\ out' = [ret |-> 0] /\ hist' = <<>>
Good(ev) ==
    LET a == ev.args  o == ev.obs IN
       \/ ev.op = "Reset" /\ TReset
       \/ /\ ev.op # "Reset"
          /\ \/ ev.op = "InitGroup" /\ InitGroup
             \/ ev.op = "Register"  /\ Register(a.obj)
             \/ ev.op = "Lookup"    /\ Lookup(a.id)
             \/ ev.op = "Remove"    /\ Remove(a.id)
             \/ ev.op = "Destroy"   /\ Destroy
             \/ ev.op = "Search"    /\ Search(a.obj)
             \/ ev.op = "Burn"      /\ Burn /\ a.from = next
          /\ ObsOK(out', o)
TraceInit == Init /\ l = 1 /\ TLCSet(1, 1)
TraceNext ==
    /\ l <= Len(TraceLog)
    /\ IF ENABLED Good(TraceLog[l])
       THEN Good(TraceLog[l]) /\ l' = l + 1
       ELSE Reject(l) /\ l' = NextReset(l) /\ UNCHANGED vars
TraceSpec == TraceInit /\ [][TraceNext]_<<vars, l>>
TrackL == Track(l)
=============================================================================
