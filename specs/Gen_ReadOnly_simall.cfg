SPECIFICATION Spec
CONSTANTS
  FileKinds = {"mixed", "rich"}
  MaxOps = 30
  Skip = {}
  KeepHist = TRUE
ACTION_CONSTRAINT EmitFull
CHECK_DEADLOCK FALSE
