------------------------------- MODULE Comp -------------------------------
(***************************************************************************)
(* A compressed data element (hcomp.c + crle.c / cskphuff.c / cdeflate.c / *)
(* cnone.c) as a byte stream behind a coder.  The coder itself is a black  *)
(* box here (any lossless bijection); what is specified is the STREAM      *)
(* PROTOCOL the property states: the element is written sequentially, or   *)
(* rewritten in full from its start; reads may seek anywhere, forward or   *)
(* backward, between and after the writes; everything survives reopening.  *)
(*   content : the bytes the element holds                                 *)
(*   posn    : position of the access handle                               *)
(*   phase   : "seq" | "rew" (a rewrite from offset 0 is in progress: the   *)
(*             old content is being replaced; no reads until it is covered)*)
(***************************************************************************)
EXTENDS Naturals, Integers, Sequences, FiniteSets, TLC

CONSTANTS Coders,      \* set of <<name, parameter>>
          Chunks,      \* set of payload descriptors <<kind, length>>: kind "run" | "alt" | "ctr"
          SeekOffs, ReadNs, MaxLen, MaxOps, KeepHist,
          MixedRW      \* TRUE: also generate writes through a handle that has already been read from / repositioned

FAIL == -1
VARIABLES st,       \* "init" | "open" (handle attached) | "closed"
          coder, content, posn, phase, newc, wmode, moved, wc, out, hist
vars == <<st, coder, content, posn, phase, newc, wmode, moved, wc, out, hist>>
view == <<st, coder, content, posn, phase, newc, wmode, moved, wc % 3>>

Log(op, args, o) == /\ out' = o
                    /\ hist' = IF KeepHist THEN Append(hist, [op |-> op, args |-> args, out |-> o])
                                           ELSE <<[op |-> op, args |-> args, out |-> o]>>

\* payload of the k-th write: a run of one byte, an alternation of two, or a counter (incompressible)
Payload(ch, k) == LET b == ((k * 37) % 200) + 1 IN
    IF ch[1] = "run" THEN [i \in 1..ch[2] |-> b]
    ELSE IF ch[1] = "alt" THEN [i \in 1..ch[2] |-> IF i % 2 = 1 THEN b ELSE b + 1]
    ELSE [i \in 1..ch[2] |-> ((b + i * 7) % 251) + 1]

Init == /\ st = "init" /\ coder = <<>> /\ content = <<>> /\ posn = 0 /\ phase = "seq" /\ newc = <<>> /\ wmode = FALSE /\ moved = FALSE
        /\ wc = 0 /\ out = [ret |-> 0] /\ hist = <<>>

\* Hopen(create); HCcreate(tag, ref, STDIO model, coder, parameter): empty element, read/write handle
Create(cd) ==
    /\ st = "init" /\ st' = "open" /\ coder' = cd /\ wmode' = TRUE
    /\ Log("Create", [coder |-> cd], [ret |-> 0])
    /\ UNCHANGED <<content, posn, phase, newc, moved, wc>>

\* Hwrite at the end of the stream: sequential writing
\* (through a handle that has only been written to; see WriteMoved for the other case)
Write(ch) ==
    /\ st = "open" /\ wmode /\ posn = Len(content) /\ ~moved
    /\ LET d == Payload(ch, wc + 1) IN
       /\ Len(content) + Len(d) <= MaxLen
       /\ content' = content \o d
       /\ Log("Write", [data |-> d], [ret |-> Len(d), posn |-> posn + Len(d), len |-> Len(content) + Len(d)])
       /\ posn' = posn + Len(d)
    /\ wc' = wc + 1
    /\ UNCHANGED <<st, coder, wmode, phase, newc, moved>>

\* appending through a handle that has been read from or repositioned: a coder may refuse it (FAIL, nothing
\* changes) -- but if it accepts, the stream must be extended exactly as by Write
WriteMoved(ch, ok) ==
    /\ MixedRW /\ st = "open" /\ wmode /\ posn = Len(content) /\ moved
    /\ LET d == Payload(ch, wc + 1) IN
       /\ Len(content) + Len(d) <= MaxLen
       /\ IF ok THEN /\ content' = content \o d /\ posn' = posn + Len(d)
                      /\ Log("Write", [data |-> d], [ret |-> Len(d), posn |-> posn + Len(d), len |-> Len(content) + Len(d)])
                 ELSE /\ UNCHANGED <<content, posn>>
                      /\ Log("Write", [data |-> d], [ret |-> FAIL, posn |-> posn, len |-> Len(content)])
    /\ wc' = wc + 1
    /\ UNCHANGED <<st, coder, wmode, phase, newc, moved>>

\* Hwrite at offset 0 of ONE buffer at least as long as the element: rewriting it in full from its start
Rewrite(ch) ==
    /\ st = "open" /\ wmode /\ posn = 0 /\ content # <<>>
    /\ MixedRW \/ ~moved        \* main sweep: through a fresh handle (nothing read, no seek); otherwise known-finding sweep
    /\ LET d == Payload(ch, wc + 1) IN
       /\ Len(d) >= Len(content) /\ Len(d) <= MaxLen
       /\ content' = d
       /\ Log("Write", [data |-> d], [ret |-> Len(d), posn |-> Len(d), len |-> Len(d)])
       /\ posn' = Len(d)
    /\ wc' = wc + 1
    /\ UNCHANGED <<st, coder, wmode, phase, newc, moved>>

\* Hseek(off): read positioning, anywhere inside the element or at its end
Seek(off) ==
    /\ st = "open" /\ phase = "seq" /\ off >= 0 /\ off <= Len(content)
    /\ posn' = off /\ moved' = TRUE
    /\ Log("Seek", [off |-> off], [ret |-> 0, posn |-> off])
    /\ UNCHANGED <<st, coder, content, phase, newc, wmode, wc>>

\* Hread(n): n = 0 reads to the end; a read crossing the end of a compressed element fails
Read(n) ==
    /\ st = "open" /\ phase = "seq" /\ n >= 0
    /\ LET m == IF n = 0 THEN Len(content) - posn ELSE n IN
       IF posn + m <= Len(content) /\ m >= 0
       THEN /\ posn' = posn + m
            /\ Log("Read", [n |-> n], [ret |-> m, data |-> SubSeq(content, posn + 1, posn + m), posn |-> posn + m])
       ELSE /\ Log("Read", [n |-> n], [ret |-> FAIL, posn |-> posn])
            /\ UNCHANGED posn
    /\ moved' = TRUE
    /\ UNCHANGED <<st, coder, content, phase, newc, wmode, wc>>

\* Hendaccess
EndAccess ==
    /\ st = "open" /\ phase = "seq" /\ st' = "closed"
    /\ Log("EndAccess", [a |-> 0], [ret |-> 0])
    /\ UNCHANGED <<coder, content, posn, phase, newc, wmode, moved, wc>>

\* [Hclose; Hopen;] Hstartread / Hstartaccess(RDWR): position 0; reported sizes = what is stored
Start(w, reopen) ==
    /\ st = "closed" /\ st' = "open" /\ posn' = 0 /\ wmode' = w /\ moved' = FALSE
    /\ Log("Start", [w |-> w, reopen |-> reopen], [ret |-> 0, len |-> Len(content), orig |-> Len(content)])
    /\ UNCHANGED <<coder, content, phase, newc, wc>>

Next == \/ \E cd \in Coders : Create(cd)
        \/ \E ch \in Chunks : Write(ch)
        \/ \E ch \in Chunks : Rewrite(ch)
        \/ \E ch \in Chunks : WriteMoved(ch, TRUE)
        \/ EndAccess
        \/ \E o \in SeekOffs : Seek(o)
        \/ \E n \in ReadNs : Read(n)
        \/ \E w \in BOOLEAN, ro \in BOOLEAN : Start(w, ro)
Spec == Init /\ [][Next]_vars

---------------------------------------------------------------------------
\* a successful read returns exactly the bytes of the stream at that position
ReadsStream == (hist # <<>> /\ hist[Len(hist)].op = "Read" /\ hist[Len(hist)].out.ret # FAIL) =>
                 LET e == hist[Len(hist)] IN e.out.data = SubSeq(content, posn - e.out.ret + 1, posn)
PosnOK == posn >= 0 /\ (phase = "seq" => posn <= Len(content))
\* sequential writing only ever extends the stream; a completed rewrite replaces it entirely
Bound == Len(hist) < MaxOps
=============================================================================
