SPECIFICATION Spec
CONSTANTS
  Schemas <- Sch2
  MaxRecs = 4
  WriteNs = {1, 2}
  ReadNs = {1, 3}
  BlockSizes = {0, 4}
  DataMod = 13
  MaxOps = 9
  KeepHist = TRUE
VIEW view
CONSTRAINT Bound
ACTION_CONSTRAINT EmitAudited
CHECK_DEADLOCK FALSE
