---------------------------- MODULE Trace_ReadOnly ----------------------------
EXTENDS ReadOnly, TraceBase
VARIABLE l
TReset == /\ st' = "none" /\ kind' = "" /\ intact' = TRUE /\ out' = [ret |-> 0] /\ hist' = <<>>
Good(ev) ==
    LET a == ev.args  o == ev.obs IN
       \/ ev.op = "Reset" /\ TReset
       \/ /\ ev.op # "Reset"
          /\ \/ ev.op = "Prep"    /\ Prep(a.file)
             \/ ev.op = "OpenRO"  /\ OpenRO
             \/ ev.op = "Query"   /\ Query(a.call)
             \/ ev.op = "Mutate"  /\ Mutate(a.call)
             \/ ev.op = "CloseRO" /\ CloseRO
             \/ ev.op = "RwCycle" /\ RwCycle
          /\ ObsOK(out', o)
TraceInit == Init /\ l = 1 /\ TLCSet(1, 1)
TraceNext ==
    /\ l <= Len(TraceLog)
    /\ IF ENABLED Good(TraceLog[l])
       THEN Good(TraceLog[l]) /\ l' = l + 1
       ELSE Reject(l) /\ l' = NextReset(l) /\ UNCHANGED vars
TraceSpec == TraceInit /\ [][TraceNext]_<<vars, l>>
TrackL == Track(l)
=============================================================================
