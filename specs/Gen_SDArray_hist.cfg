SPECIFICATION Spec
CONSTANTS
  Shapes <- ShapesHist
  Layouts <- LHist
  Starts <- StartsHist
  Counts = {1, 2}
  Strides = {1}
  MaxExt = 4
  DataMod = 1
  MaxOps = 4
  KeepHist = TRUE
CONSTRAINT Bound
ACTION_CONSTRAINT EmitAudited
CHECK_DEADLOCK FALSE
