SPECIFICATION Spec
CONSTANTS
  Coders <- CodersMC
  Chunks <- ChunksMC
  SeekOffs = {0, 1, 3}
  ReadNs = {0, 1, 2}
  MaxLen = 5
  MaxOps = 100
  MixedRW = FALSE
  KeepHist = FALSE
VIEW view
INVARIANTS ReadsStream PosnOK
CHECK_DEADLOCK FALSE
