SPECIFICATION Spec
CONSTANTS
  MaxG = 2
  NumD = 1
  Raws = {"R1"}
  Names <- NamesSmall
  MaxMem = 2
  MaxOps = 6
  KeepHist = TRUE
CONSTRAINT Bound
ACTION_CONSTRAINT EmitAudited
CHECK_DEADLOCK FALSE
