SPECIFICATION Spec
CONSTANTS
  Objs = {"vg"}
  Names = {"a", "ab", "L1"}
  Types = {"i16", "c8", "f64"}
  Counts = {1, 2, 3000}
  DimNames = {"x"}
  ScaleTypes = {"i16"}
  MaxAttrs = 2
  MaxAdd = 0
  DataMod = 1
  MaxOps = 100
  KeepHist = TRUE
VIEW view
CONSTRAINT Bound
ACTION_CONSTRAINT EmitAudited
CHECK_DEADLOCK FALSE
