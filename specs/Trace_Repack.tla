---------------------------- MODULE Trace_Repack ----------------------------
EXTENDS Repack, TraceBase
VARIABLE l
TReset == /\ st' = "init" /\ kind' = "" /\ lay' = InitLayout /\ known' = TRUE /\ out' = [ret |-> 0] /\ hist' = <<>>
Good(ev) ==
    LET a == ev.args  o == ev.obs IN
       \/ ev.op = "Reset" /\ TReset
       \/ /\ ev.op # "Reset"
          /\ \/ ev.op = "Build" /\ Build(a.file)
             \/ ev.op = "Repack" /\ \E tsel \in TSelsAll, tt \in TTypesAll, csel \in CSelsAll, cs \in CShapesAll :
                                       /\ a.t = (IF tsel = "" THEN "" ELSE tsel \o ":" \o tt)
                                       /\ a.c = (IF csel = "" THEN "" ELSE csel \o ":" \o cs)
                                       /\ Repack(tsel, tt, csel, cs, a.m, a.via_file)
          /\ ObsOK(out', o)
TraceInit == Init /\ l = 1 /\ TLCSet(1, 1)
TraceNext ==
    /\ l <= Len(TraceLog)
    /\ IF ENABLED Good(TraceLog[l])
       THEN Good(TraceLog[l]) /\ l' = l + 1
       ELSE Reject(l) /\ l' = NextReset(l) /\ UNCHANGED vars
TraceSpec == TraceInit /\ [][TraceNext]_<<vars, l>>
TrackL == Track(l)
=============================================================================
