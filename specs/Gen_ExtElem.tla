---------------------------- MODULE Gen_ExtElem ----------------------------
EXTENDS ExtElem, Json, CSV, IOUtils
Ev(o, a, x) == [op |-> o, args |-> a, out |-> x]
ElemSeq == <<1, 2>>
\* epilogue: reopen, read every element (the rules applied to the final state), list every external file byte by byte
AuditReads == LET S == SelectSeq(ElemSeq, LAMBDA e : elems'[e].kind # "none") IN
              [i \in 1..Len(S) |-> Ev("Read", [e |-> S[i]], ReadOut(ReadValG(elems', present', fs', search', S[i])))]
AuditFiles == FilesOut(present', fs')
Audit == (IF hnd' # <<>> THEN <<Ev("Detach", [a |-> 0], [ret |-> 0])>> ELSE <<>>) \o <<Ev("Reopen", [a |-> 0], [ret |-> 0])>> \o AuditReads \o <<Ev("Dump", [a |-> 0], [files |-> AuditFiles])>>
EmitAudited == (st' = "open" /\ \E e \in Elems : elems'[e].kind # "none") =>
    CSVWrite("%1$s", <<ToJson([spec |-> "ExtElem", steps |-> hist' \o Audit])>>, IOEnv.GEN_OUT)
EmitFull == (Len(hist') = MaxOps) => EmitAudited
BoundGen == Len(hist) <= MaxOps
CoverBound == wc <= 2 /\ Cardinality(present) <= 2 /\ Cardinality(tainted) <= 1
gview == <<st, createdir, search, present, fs, elems, hnd, dirchg>>
=============================================================================
