SPECIFICATION TraceSpec
CONSTANTS
  Widths = {1}
  SeekBits = {0}
  MaxBits = 1000000
  MaxOps = 1
  MixedWrites = TRUE
  KeepHist = FALSE
INVARIANTS TrackL ReadsBits WholeBytesWhenClosed
POSTCONDITION Verdict
CHECK_DEADLOCK FALSE
