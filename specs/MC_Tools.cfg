SPECIFICATION Spec
CONSTANTS
  FileKinds = {"mixed", "big"}
  Targets <- AllTargets
  DiffOpts = {"", "-d", "-D", "-g", "-s"}
  DumpObjs <- AllDumps
  ImportCases <- AllImports
  MaxOps = 100
  KeepHist = FALSE
VIEW view
CHECK_DEADLOCK FALSE
