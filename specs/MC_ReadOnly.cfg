SPECIFICATION Spec
CONSTANTS
  FileKinds = {"mixed", "rich"}
  MaxOps = 100
  Skip = {}
  KeepHist = FALSE
VIEW view
INVARIANTS NeverChanged
CHECK_DEADLOCK FALSE
