---------------------------- MODULE Gen_HElem ----------------------------
(* behaviour generator for HElem (see Gen_HDir for the scheme) *)
EXTENDS HElem, Json, CSV, IOUtils, SequencesExt
BlkGen == {<<2, 1>>, <<3, 2>>, <<4, 4>>}
BlkOne == {<<2, 2>>}
BlkGen3 == {<<1, 1>>, <<2, 2>>, <<3, 1>>, <<4, 4>>, <<7, 2>>, <<16, 3>>}
BlkGen2 == {<<1, 1>>, <<3, 1>>, <<5, 3>>}

Ev(o, a, x) == [op |-> o, args |-> a, out |-> x]
\* epilogue: release every handle, reopen, read every element back in full
KeySeq == SetToSeq(DOMAIN elems')
AidSeq == SetToSeq(DOMAIN aids')
Settled(s) == [i \in 1..Len(s) |-> ShowCell(Settle(s[i]))]
CanAudit == \A a \in DOMAIN aids' : ~aids'[a].new
Audit ==
    [i \in 1..Len(AidSeq) |-> Ev("EndAccess", [aid |-> AidSeq[i]], [ret |-> OK])]
    \o <<Ev("Reopen", [cache |-> cfg'.cache],
            [ret |-> OK, lens |-> [k \in 1..cfg'.nkeys |-> IF k \in DOMAIN elems' THEN Len(stores'[elems'[k].store]) ELSE FAIL]])>>
    \o [i \in 1..Len(KeySeq) |-> LET s == stores'[elems'[KeySeq[i]].store] IN
            IF Len(s) > 0 THEN Ev("Get", [key |-> KeySeq[i]], [ret |-> Len(s), data |-> Settled(s)])
                          ELSE Ev("Bump", [a |-> 0], [ret |-> OK])]

EmitAll  == CSVWrite("%1$s", <<ToJson([spec |-> "HElem", steps |-> hist'])>>, IOEnv.GEN_OUT)
EmitAudited == (st' = "open" /\ CanAudit) =>
    CSVWrite("%1$s", <<ToJson([spec |-> "HElem", steps |-> hist' \o Audit])>>, IOEnv.GEN_OUT)
EmitFull == (Len(hist') = MaxOps) => EmitAudited
=============================================================================
