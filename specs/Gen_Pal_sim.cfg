SPECIFICATION Spec
CONSTANTS
  WRefs = {2, 5, 7}
  MaxPals = 6
  MaxOps = 16
  KeepHist = TRUE
ACTION_CONSTRAINT EmitFull
CHECK_DEADLOCK FALSE
