SPECIFICATION Spec
CONSTANTS
  SdsWriters = {"DFSD", "DFSDS", "SD", "NC"}
  RasWriters = {"DFR8", "DF24", "GR"}
  Shapes <- ShapesB
  Types = {"i8", "u16", "i32", "f32", "f64", "c8", "li16", "lf64"}
  RasDims <- RDimsB
  ScaleSets <- ScalesAll
  Grows = {1, 3}
  MaxObjs = 13
  MaxOps = 10
  Mix = FALSE
  KeepHist = TRUE
ACTION_CONSTRAINT EmitFull
CHECK_DEADLOCK FALSE
