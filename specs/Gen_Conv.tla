---------------------------- MODULE Gen_Conv ----------------------------
EXTENDS Conv, Json, CSV, IOUtils
\* single calls only: nothing is enabled after the first call
GenSpec == Init /\ [][hist = <<>> /\ Next]_vars
EmitAll == CSVWrite("%1$s", <<ToJson([spec |-> "Conv", steps |-> hist'])>>, IOEnv.GEN_OUT)
=============================================================================
