SPECIFICATION Spec
CONSTANTS
  Objs = {"s1"}
  Names = {"a", "ab"}
  Types = {"i16", "c8"}
  Counts = {2}
  DimNames = {"x"}
  ScaleTypes = {"i16"}
  MaxAttrs = 6
  MaxAdd = 1
  DataMod = 2
  MaxOps = 100
  KeepHist = FALSE
VIEW view
INVARIANTS UniqueNames VarNamesDistinct
PROPERTIES ListStable RefusedChangesNothing OnlySettersChange
CHECK_DEADLOCK FALSE
