SPECIFICATION TraceSpec
CONSTANTS
  WRefs = {}
  MaxPals = 1000
  MaxOps = 1
  KeepHist = FALSE
INVARIANTS TrackL Aliased
POSTCONDITION Verdict
CHECK_DEADLOCK FALSE
