SPECIFICATION Spec
CONSTANTS
  FileKinds = {"mixed", "big"}
  Targets <- AllTargets
  DiffOpts = {"", "-d", "-D", "-g", "-s"}
  DumpObjs <- NoneSet
  ImportCases <- NoneSet
  MaxOps = 4
  KeepHist = TRUE
CONSTRAINT Bound
ACTION_CONSTRAINT EmitAudited
CHECK_DEADLOCK FALSE
