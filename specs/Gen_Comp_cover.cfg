SPECIFICATION Spec
CONSTANTS
  Coders <- CodersAll
  Chunks <- ChunksSmall
  SeekOffs = {0, 1, 2, 4, 7}
  ReadNs = {0, 1, 3}
  MaxLen = 12
  MaxOps = 8
  MixedRW = FALSE
  KeepHist = TRUE
VIEW view
CONSTRAINT Bound
ACTION_CONSTRAINT EmitAudited
CHECK_DEADLOCK FALSE
