---------------------------- MODULE Trace_GRImage ----------------------------
EXTENDS GRImage, TraceBase
VARIABLE l
TReset == /\ st' = "init" /\ W' = 0 /\ H' = 0 /\ NC' = 0 /\ il' = 0 /\ ril' = 0 /\ pix' = <<>> /\ lut' = <<>> /\ layout' = <<>> /\ touched' = FALSE
          /\ wc' = 0 /\ out' = [ret |-> 0] /\ hist' = <<>>
KOf(a) == IF \E k \in 0..16 : a.data[1] = ValK(k, 1) THEN CHOOSE k \in 0..16 : a.data[1] = ValK(k, 1) ELSE 0
DataOK(a) == a.data = [n \in 1..Len(a.data) |-> ValK(KOf(a), n)] \/ a.data = [n \in 1..Len(a.data) |-> 7]
Good(ev) ==
    LET a == ev.args  o == ev.obs IN
       \/ ev.op = "Reset" /\ TReset
       \/ /\ ev.op # "Reset"
          /\ \/ ev.op = "Create"   /\ Create(<<a.w, a.h>>, a.ncomp, a.il, a.fillset, a.layout)
             \/ ev.op = "Write"    /\ DataOK(a) /\ Write(a.x, a.y, a.cw, a.ch, KOf(a))
             \/ ev.op = "ReqIl"    /\ ReqIl(a.il)
             \/ ev.op = "Read"     /\ Read(a.x, a.y, a.sx, a.sy, a.cw, a.ch)
             \/ ev.op = "WriteLut" /\ WriteLut(a.k)
             \/ ev.op = "ReadLut"  /\ ReadLut
             \/ ev.op = "Info"     /\ Info
             \/ ev.op = "Reopen"   /\ Reopen
          /\ ObsOK(out', o)
TraceInit == Init /\ l = 1 /\ TLCSet(1, 1)
TraceNext ==
    /\ l <= Len(TraceLog)
    /\ IF ENABLED Good(TraceLog[l])
       THEN Good(TraceLog[l]) /\ l' = l + 1
       ELSE Reject(l) /\ l' = NextReset(l) /\ UNCHANGED vars
TraceSpec == TraceInit /\ [][TraceNext]_<<vars, l>>
TrackL == Track(l)
=============================================================================
