---------------------------- MODULE Trace_NBit ----------------------------
EXTENDS NBit, TraceBase
VARIABLE l
TReset == /\ st' = "init" /\ W' = 8 /\ sgn' = FALSE /\ sb' = 0 /\ bl' = 1 /\ se' = FALSE /\ fo' = 0 /\ vals' = <<>>
          /\ out' = [ret |-> 0] /\ hist' = <<>>
PatOf(a) == IF \E p \in 0..8 : Enc([k \in 1..Len(a.data) |-> Pat(p, k, W, sb, bl)]) = a.data
            THEN CHOOSE p \in 0..8 : Enc([k \in 1..Len(a.data) |-> Pat(p, k, W, sb, bl)]) = a.data ELSE 99
Good(ev) ==
    LET a == ev.args  o == ev.obs IN
       \/ ev.op = "Reset" /\ TReset
       \/ /\ ev.op # "Reset"
          /\ \/ ev.op = "Create" /\ Create(a.w, a.signed, a.start, a.len, a.sext, a.fill)
             \/ ev.op = "Write"  /\ PatOf(a) # 99 /\ Write(PatOf(a))
             \/ ev.op = "Read"   /\ Read(a.start, a.count)
             \/ ev.op = "Reopen" /\ Reopen
          /\ ObsOK(out', o)
TraceInit == Init /\ l = 1 /\ TLCSet(1, 1)
TraceNext ==
    /\ l <= Len(TraceLog)
    /\ IF ENABLED Good(TraceLog[l])
       THEN Good(TraceLog[l]) /\ l' = l + 1
       ELSE Reject(l) /\ l' = NextReset(l) /\ UNCHANGED vars
TraceSpec == TraceInit /\ [][TraceNext]_<<vars, l>>
TrackL == Track(l)
=============================================================================
