------------------------------- MODULE HElem -------------------------------
(***************************************************************************)
(* Data elements of one HDF4 file as growable byte arrays, at the grain of *)
(* the public H-level element calls (hfile.c, hblocks.c, hextelt.c).       *)
(*                                                                         *)
(* The abstract state deliberately knows nothing about WHERE the bytes are *)
(* stored: property C01 says that contiguous, silently promoted, created-  *)
(* linked and external elements behave identically.  The storage variants  *)
(* are *configurations* of a behaviour (kind of element created, block     *)
(* sizes, descriptor-block size, interposed elements that force silent     *)
(* promotion); the expected observations do not depend on them, except for *)
(* the two documented API differences modelled below (a special element    *)
(* accepts seeks/writes past its end on any access handle; truncation is   *)
(* only available for contiguous elements).                                *)
(*                                                                         *)
(* Cells:  0..255 data,  G gap skipped over by seeking (reads as 0 once  *)
(* the file has been closed and reopened; unreadable before),  U           *)
(* reserved-never-written (unreadable before reopen), V the same after     *)
(* a reopen (readable, value unconstrained).                               *)
(***************************************************************************)
EXTENDS Naturals, Integers, Sequences, FiniteSets, TLC

CONSTANTS Keys,        \* element names (the driver maps k to tag 200, ref k)
          Aids,        \* access-handle names
          MaxLen,      \* bound on element length (state constraint of the generator)
          WriteLens,   \* lengths of generated writes
          SeekOffs,    \* offsets of generated seeks (from start)
          ReadLens,    \* lengths of generated reads (0 = to the end)
          BlkCfgs,     \* set of <<block length, blocks per table>> for created-linked elements
          NddsSet,     \* descriptor-block sizes
          MaxOps,
          DataMod,     \* number of distinguishable write payloads (small when model checking)
          SharedGrow,  \* TRUE: also generate growth of a contiguous element while OTHER handles are attached to it
          KeepHist

VARIABLES st,      \* "init" | "open"
          elems,   \* key -> [store, kind, grown]   kind \in {"plain","linked","ext"}
          stores,  \* store id -> sequence of cells (aliases created by Hdupdd share a store)
          aids,    \* aid -> [key, posn, w, app, new]   (only attached aids are in the domain)
          wc,      \* write counter: makes every written byte distinguishable
          cfg,     \* [ndds, cache]
          out, hist

vars == <<st, elems, stores, aids, wc, cfg, out, hist>>
view == <<st, elems, stores, aids, cfg>>

OK   == 0
FAIL == -1
\* special cells (integers, so that cells stay comparable): see the header
G == -1
U == -2
V == -3
Z == -9      \* in an expected observation: "this byte is not constrained"
ANY == -8    \* in an expected observation: "this value is the implementation's choice"

Log(op, args, o) == /\ out' = o
                    /\ hist' = IF KeepHist THEN Append(hist, [op |-> op, args |-> args, out |-> o])
                                           ELSE <<[op |-> op, args |-> args, out |-> o]>>

Bytes(k)  == stores[elems[k].store]
LenOf(k)  == Len(Bytes(k))
Shared(k) == Cardinality({x \in DOMAIN elems : elems[x].store = elems[k].store}) > 1
Special(k) == elems[k].kind # "plain"
AidsOn(k) == {a \in DOMAIN aids : aids[a].key = k}
FreshStore == CHOOSE m \in 1..(Cardinality(DOMAIN stores) + 1) : m \notin DOMAIN stores /\ \A x \in 1..(m - 1) : x \in DOMAIN stores

Fn1(f, k, v) == [x \in DOMAIN f \cup {k} |-> IF x = k THEN v ELSE f[x]]
FnDel(f, k)  == [x \in DOMAIN f \ {k} |-> f[x]]

\* the data of the wc-th write: distinguishable, never 0
Data(c, n) == [i \in 1..n |-> (((c % DataMod) * 16 + i) % 250) + 1]

\* store contents after writing d at position p (0-based); cells skipped over become gaps
WriteAt(s, p, d) ==
    LET n == Len(d)  newlen == IF p + n > Len(s) THEN p + n ELSE Len(s) IN
    [i \in 1..newlen |-> IF i > p /\ i <= p + n THEN d[i - p]
                         ELSE IF i <= Len(s) THEN s[i] ELSE G]

\* what the aid-level calls report after the call
Rep(a, r, as, ss) == [ret |-> r, posn |-> as[a].posn, len |-> Len(ss[elems[as[a].key].store])]

\* observation matching: every field the specification states must be observed with the same value;
\* in a byte sequence the cell Z matches any byte
SeqOK(e, x) == /\ Len(e) = Len(x) /\ \A i \in 1..Len(e) : e[i] = Z \/ e[i] = x[i]
CellsOK(o, obs) == \A f \in DOMAIN o : /\ f \in DOMAIN obs
                                       /\ IF f = "data" THEN SeqOK(o[f], obs[f]) ELSE o[f] = obs[f]

---------------------------------------------------------------------------
Init == /\ st = "init" /\ elems = <<>> /\ stores = <<>> /\ aids = <<>> /\ wc = 0
        /\ cfg = [ndds |-> 0, cache |-> FALSE, nkeys |-> 0] /\ out = [ret |-> OK] /\ hist = <<>>

Create(nd, c, nk) ==
    /\ st = "init"
    /\ st' = "open" /\ cfg' = [ndds |-> nd, cache |-> c, nkeys |-> nk]
    /\ Log("Create", [ndds |-> nd, cache |-> c, nkeys |-> nk], [ret |-> OK])
    /\ UNCHANGED <<elems, stores, aids, wc>>

\* Hstartwrite(tag, ref, n) on a NEW key: reserves n never-written bytes; the element can then only
\* be written inside [0, n) through this handle
StartWriteNew(a, k, n) ==
    /\ st = "open" /\ a \notin DOMAIN aids /\ k \notin DOMAIN elems
    /\ LET sid == FreshStore IN
       /\ stores' = Fn1(stores, sid, [i \in 1..n |-> U])
       /\ elems' = Fn1(elems, k, [store |-> sid, kind |-> "plain", grown |-> FALSE])
    /\ aids' = Fn1(aids, a, [key |-> k, posn |-> 0, w |-> TRUE, app |-> FALSE, new |-> FALSE])
    /\ Log("StartWrite", [aid |-> a, key |-> k, n |-> n], [ret |-> OK, posn |-> 0, len |-> n])
    /\ UNCHANGED <<st, wc, cfg>>

\* Hstartaccess(tag, ref, DFACC_RDWR [| DFACC_APPENDABLE]) on a NEW key: the element has no length
\* until the first write, which also makes it appendable
StartAccessNew(a, k, ap) ==
    /\ st = "open" /\ a \notin DOMAIN aids /\ k \notin DOMAIN elems
    /\ LET sid == FreshStore IN
       /\ stores' = Fn1(stores, sid, <<>>)
       /\ elems' = Fn1(elems, k, [store |-> sid, kind |-> "plain", grown |-> FALSE])
    /\ aids' = Fn1(aids, a, [key |-> k, posn |-> 0, w |-> TRUE, app |-> ap, new |-> TRUE])
    /\ Log("StartAccess", [aid |-> a, key |-> k, w |-> TRUE, app |-> ap], [ret |-> OK, posn |-> 0])
    /\ UNCHANGED <<st, wc, cfg>>

\* Hstartwrite / Hstartaccess / Hstartread on an EXISTING key: positioned at 0, contents untouched
StartExisting(a, k, w, ap) ==
    /\ st = "open" /\ a \notin DOMAIN aids /\ k \in DOMAIN elems
    /\ (ap => w)                                 \* Hstartread has no appendable variant
    /\ \A b \in AidsOn(k) : ~aids[b].new          \* (a second handle on a length-less element: not modelled)
    /\ aids' = Fn1(aids, a, [key |-> k, posn |-> 0, w |-> w, app |-> ap, new |-> FALSE])
    /\ Log("StartAccess", [aid |-> a, key |-> k, w |-> w, app |-> ap], [ret |-> OK, posn |-> 0, len |-> LenOf(k)])
    /\ UNCHANGED <<st, elems, stores, wc, cfg>>

\* Hstartread on a key that does not exist
StartMissing(a, k) ==
    /\ st = "open" /\ a \notin DOMAIN aids /\ k \notin DOMAIN elems
    /\ Log("StartRead", [aid |-> a, key |-> k], [ret |-> FAIL])
    /\ UNCHANGED <<st, elems, stores, aids, wc, cfg>>

\* HLcreate(tag, ref, blk, nblk) on a NEW key: an empty linked-block element
CreateLinked(a, k, bc) ==
    /\ st = "open" /\ a \notin DOMAIN aids /\ k \notin DOMAIN elems
    /\ LET sid == FreshStore IN
       /\ stores' = Fn1(stores, sid, <<>>)
       /\ elems' = Fn1(elems, k, [store |-> sid, kind |-> "linked", grown |-> FALSE])
    /\ aids' = Fn1(aids, a, [key |-> k, posn |-> 0, w |-> TRUE, app |-> FALSE, new |-> FALSE])
    /\ Log("CreateLinked", [aid |-> a, key |-> k, blk |-> bc[1], nblk |-> bc[2]], [ret |-> OK, posn |-> 0, len |-> 0])
    /\ UNCHANGED <<st, wc, cfg>>

\* HXcreate(tag, ref, file, 0, 0) on a NEW key: an empty external element
CreateExt(a, k) ==
    /\ st = "open" /\ a \notin DOMAIN aids /\ k \notin DOMAIN elems
    /\ LET sid == FreshStore IN
       /\ stores' = Fn1(stores, sid, <<>>)
       /\ elems' = Fn1(elems, k, [store |-> sid, kind |-> "ext", grown |-> FALSE])
    /\ aids' = Fn1(aids, a, [key |-> k, posn |-> 0, w |-> TRUE, app |-> FALSE, new |-> FALSE])
    /\ Log("CreateExt", [aid |-> a, key |-> k], [ret |-> OK, posn |-> 0, len |-> 0])
    /\ UNCHANGED <<st, wc, cfg>>

\* HLconvert(aid, blk, nblk): an existing contiguous element becomes a linked-block element, same bytes
Convert(a, bc) ==
    /\ st = "open" /\ a \in DOMAIN aids
    /\ LET k == aids[a].key IN
       /\ elems[k].kind = "plain" /\ ~aids[a].new /\ aids[a].w /\ ~Shared(k)
       /\ ~elems[k].grown                      \* (already promoted or not: the answer would depend on the layout)
       /\ SharedGrow \/ AidsOn(k) = {a}        \* other handles on a converted element: see Promotion note
       /\ elems' = [elems EXCEPT ![k].kind = "linked"]
       /\ Log("Convert", [aid |-> a, blk |-> bc[1], nblk |-> bc[2]], Rep(a, OK, aids, stores))
    /\ UNCHANGED <<st, stores, aids, wc, cfg>>

\* Happendable(aid)
Appendable(a) ==
    /\ st = "open" /\ a \in DOMAIN aids /\ aids[a].w
    /\ aids' = [aids EXCEPT ![a].app = TRUE]
    /\ Log("Appendable", [aid |-> a], [ret |-> OK])
    /\ UNCHANGED <<st, elems, stores, wc, cfg>>

\* Promotion note.  Growing a contiguous element that is not at the end of the file silently turns it
\* into a linked-block element.  Whether that happened is not part of the abstract state (it depends
\* on the file layout); `grown` records that it MAY have happened.  The two API differences between
\* contiguous and special elements (seek / write past the end on a non-appendable handle) are
\* therefore only generated when the answer does not depend on it:
Definite(a) == LET k == aids[a].key IN Special(k) \/ aids[a].app \/ ~elems[k].grown
PastEndOK(a) == LET k == aids[a].key IN Special(k) \/ aids[a].app

\* Hwrite(aid, n, data)
Write(a, n) ==
    /\ st = "open" /\ a \in DOMAIN aids /\ n >= 1
    /\ LET k == aids[a].key  p == aids[a].posn  d == Data(wc + 1, n) IN
       /\ Definite(a)
       /\ IF ~aids[a].w
          THEN /\ Log("Write", [aid |-> a, data |-> d], [ret |-> FAIL])
               /\ UNCHANGED <<elems, stores, aids>>
          ELSE IF aids[a].new
          THEN \* first write to a length-less element: sets the length, makes the handle appendable
               /\ stores' = [stores EXCEPT ![elems[k].store] = d]
               /\ aids' = [aids EXCEPT ![a].posn = n, ![a].new = FALSE, ![a].app = TRUE]
               /\ UNCHANGED elems
               /\ Log("Write", [aid |-> a, data |-> d], Rep(a, n, aids', stores'))
          ELSE IF p + n > LenOf(k) /\ ~PastEndOK(a)
               THEN /\ Log("Write", [aid |-> a, data |-> d], [ret |-> FAIL])
                    /\ UNCHANGED <<elems, stores, aids>>
               ELSE /\ (p + n > LenOf(k)) => ~Shared(k)       \* aliases are not grown (generator rule)
                    /\ (p + n > LenOf(k) /\ ~Special(k)) => (SharedGrow \/ AidsOn(k) = {a})
                    /\ stores' = [stores EXCEPT ![elems[k].store] = WriteAt(@, p, d)]
                    /\ aids' = [aids EXCEPT ![a].posn = p + n]
                    /\ elems' = IF p + n > LenOf(k) /\ ~Special(k) THEN [elems EXCEPT ![k].grown = TRUE] ELSE elems
                    /\ Log("Write", [aid |-> a, data |-> d], Rep(a, n, aids', stores'))
    /\ wc' = wc + 1
    /\ UNCHANGED <<st, cfg>>

\* Hseek(aid, off, DF_START).  On an appendable handle a seek to or past the end of a contiguous
\* element that is not last in the file already promotes it (so it counts as "may have been promoted").
MayPromote(a, off) == LET k == aids[a].key IN ~Special(k) /\ aids[a].app /\ off >= LenOf(k) /\ off # aids[a].posn
Seek(a, off) ==
    /\ st = "open" /\ a \in DOMAIN aids /\ ~aids[a].new /\ off >= 0
    /\ LET k == aids[a].key IN
       /\ Definite(a) \/ off <= LenOf(k)
       /\ MayPromote(a, off) => (~Shared(k) /\ (SharedGrow \/ AidsOn(k) = {a}))
       /\ IF off > LenOf(k) /\ ~PastEndOK(a) /\ off # aids[a].posn
          THEN /\ Log("Seek", [aid |-> a, off |-> off], [ret |-> FAIL, posn |-> aids[a].posn])
               /\ UNCHANGED <<aids, elems>>
          ELSE /\ aids' = [aids EXCEPT ![a].posn = off]
               /\ elems' = IF MayPromote(a, off) THEN [elems EXCEPT ![k].grown = TRUE] ELSE elems
               /\ Log("Seek", [aid |-> a, off |-> off], [ret |-> OK, posn |-> off])
    /\ UNCHANGED <<st, stores, wc, cfg>>

\* Hread(aid, n, buf): n = 0 or a read crossing the end is clamped to the end
Readable(c) == c \notin {G, U}
ShowCell(c) == IF c = V THEN Z ELSE c
Read(a, n) ==
    /\ st = "open" /\ a \in DOMAIN aids /\ ~aids[a].new /\ n >= 0
    /\ LET k == aids[a].key  p == aids[a].posn  L == LenOf(k)
           m == IF p >= L THEN 0 ELSE IF n = 0 \/ p + n > L THEN L - p ELSE n IN
       /\ p <= L                        \* positioned past the end: ReadPast
       /\ \A i \in (p + 1)..(p + m) : Readable(Bytes(k)[i])
       /\ aids' = [aids EXCEPT ![a].posn = p + m]
       /\ Log("Read", [aid |-> a, n |-> n],
              [ret |-> m, data |-> [i \in 1..m |-> ShowCell(Bytes(k)[p + i])], posn |-> p + m, len |-> L])
    /\ UNCHANGED <<st, elems, stores, wc, cfg>>

\* Hread on a handle positioned beyond the end (possible on special elements, whose seek has no
\* upper bound): nothing is transferred and the position stays; whether the call reports 0 bytes or
\* FAIL is not stated by the property (r is bound from the trace)
ReadPast(a, n, r) ==
    /\ st = "open" /\ a \in DOMAIN aids /\ ~aids[a].new /\ n >= 0
    /\ LET k == aids[a].key IN Special(k) /\ aids[a].posn > LenOf(k)
    /\ r \in {ANY, 0, FAIL}
    /\ Log("ReadPast", [aid |-> a, n |-> n], [ret |-> r, posn |-> aids[a].posn])
    /\ UNCHANGED <<st, elems, stores, aids, wc, cfg>>

\* Htrunc(aid, n): only shortens, only contiguous elements; a special element refuses
Trunc(a, n) ==
    /\ st = "open" /\ a \in DOMAIN aids /\ ~aids[a].new /\ aids[a].w
    /\ LET k == aids[a].key IN
       /\ Special(k) \/ ~elems[k].grown
       /\ ~Shared(k)
       /\ \A b \in AidsOn(k) \ {a} : aids[b].posn <= n       \* other handles stay inside the element
       /\ IF ~Special(k) /\ n < LenOf(k)
          THEN /\ stores' = [stores EXCEPT ![elems[k].store] = SubSeq(@, 1, n)]
               /\ aids' = [aids EXCEPT ![a].posn = IF @ > n THEN n ELSE @]
               /\ Log("Trunc", [aid |-> a, n |-> n], Rep(a, n, aids', stores'))
          ELSE /\ Log("Trunc", [aid |-> a, n |-> n], Rep(a, FAIL, aids, stores))
               /\ UNCHANGED <<stores, aids>>
    /\ UNCHANGED <<st, elems, wc, cfg>>

\* Hendaccess(aid)
EndAccess(a) ==
    /\ st = "open" /\ a \in DOMAIN aids
    /\ ~aids[a].new       \* (a length-less element that is never written: not modelled)
    /\ LET k == aids[a].key IN
       /\ aids' = FnDel(aids, a)
       /\ Log("EndAccess", [aid |-> a], [ret |-> OK])
    /\ UNCHANGED <<st, elems, stores, wc, cfg>>

\* Hdupdd(newkey <- key): an alias; contiguous sources only, no handle attached
Dup(k2, k) ==
    /\ st = "open" /\ k \in DOMAIN elems /\ k2 \notin DOMAIN elems
    /\ elems[k].kind = "plain" /\ ~elems[k].grown /\ AidsOn(k) = {} /\ LenOf(k) > 0
    /\ elems' = Fn1(elems, k2, elems[k])
    /\ Log("Dup", [key |-> k2, okey |-> k], [ret |-> OK, len |-> LenOf(k)])
    /\ UNCHANGED <<st, stores, aids, wc, cfg>>

\* Hdeldd(key): no handle attached
Del(k) ==
    /\ st = "open" /\ k \in DOMAIN elems /\ AidsOn(k) = {}
    /\ elems' = FnDel(elems, k)
    /\ stores' = [s \in {elems'[x].store : x \in DOMAIN elems'} |-> stores[s]]
    /\ Log("Del", [key |-> k], [ret |-> OK])
    /\ UNCHANGED <<st, aids, wc, cfg>>

\* an unrelated element is written after everything else: whatever was last in the file no longer is
Bump ==
    /\ st = "open"
    /\ Log("Bump", [a |-> 0], [ret |-> OK])
    /\ UNCHANGED <<st, elems, stores, aids, wc, cfg>>

\* Hlength + Hgetelement(key): the whole element through the one-shot call
Get(k) ==
    /\ st = "open" /\ k \in DOMAIN elems /\ LenOf(k) > 0
    /\ \A b \in AidsOn(k) : ~aids[b].new
    /\ \A i \in 1..LenOf(k) : Readable(Bytes(k)[i])
    /\ Log("Get", [key |-> k], [ret |-> LenOf(k), data |-> [i \in 1..LenOf(k) |-> ShowCell(Bytes(k)[i])]])
    /\ UNCHANGED <<st, elems, stores, aids, wc, cfg>>

\* Hclose with handles attached must fail and leave everything usable
CloseBusy ==
    /\ st = "open" /\ DOMAIN aids # {}
    /\ Log("CloseBusy", [a |-> 0], [ret |-> FAIL])
    /\ UNCHANGED <<st, elems, stores, aids, wc, cfg>>

\* Hclose; Hopen(RDWR): gaps are zeros from now on, reserved bytes are readable
Settle(c) == IF c = G THEN 0 ELSE IF c = U THEN V ELSE c
Reopen(c) ==
    /\ st = "open" /\ DOMAIN aids = {}
    /\ stores' = [s \in DOMAIN stores |-> [i \in 1..Len(stores[s]) |-> Settle(stores[s][i])]]
    /\ cfg' = [cfg EXCEPT !.cache = c]
    /\ Log("Reopen", [cache |-> c],
           [ret |-> OK, lens |-> [k \in 1..cfg.nkeys |-> IF k \in DOMAIN elems THEN LenOf(k) ELSE FAIL]])
    /\ UNCHANGED <<st, elems, aids, wc>>

Next ==
    \/ \E nd \in NddsSet, c \in BOOLEAN : Create(nd, c, Cardinality(Keys))
    \/ \E a \in Aids, k \in Keys, n \in WriteLens : StartWriteNew(a, k, n)
    \/ \E a \in Aids, k \in Keys, ap \in BOOLEAN : StartAccessNew(a, k, ap)
    \/ \E a \in Aids, k \in Keys, w \in BOOLEAN, ap \in BOOLEAN : StartExisting(a, k, w, ap)
    \/ \E a \in Aids, k \in Keys : StartMissing(a, k)
    \/ \E a \in Aids, k \in Keys, bc \in BlkCfgs : CreateLinked(a, k, bc)
    \/ \E a \in Aids, k \in Keys : CreateExt(a, k)
    \/ \E a \in Aids, bc \in BlkCfgs : Convert(a, bc)
    \/ \E a \in Aids : Appendable(a)
    \/ \E a \in Aids, n \in WriteLens : Write(a, n)
    \/ \E a \in Aids, o \in SeekOffs : Seek(a, o)
    \/ \E a \in Aids, n \in ReadLens : Read(a, n)
    \/ \E a \in Aids, n \in ReadLens : ReadPast(a, n, ANY)
    \/ \E a \in Aids, n \in SeekOffs : Trunc(a, n)
    \/ \E a \in Aids : EndAccess(a)
    \/ \E k \in Keys, k2 \in Keys : Dup(k2, k)
    \/ \E k \in Keys : Del(k)
    \/ \E k \in Keys : Get(k)
    \/ Bump
    \/ CloseBusy
    \/ \E c \in BOOLEAN : Reopen(c)

Spec == Init /\ [][Next]_vars

---------------------------------------------------------------------------
TypeOK == /\ st \in {"init", "open"}
          /\ \A k \in DOMAIN elems : elems[k].store \in DOMAIN stores /\ elems[k].kind \in {"plain", "linked", "ext"}
          /\ \A a \in DOMAIN aids : aids[a].key \in DOMAIN elems \/ TRUE

\* positions reported are never negative; a contiguous, non-appendable handle never sits past the end
PosnSane == \A a \in DOMAIN aids : aids[a].posn >= 0

\* a read returns exactly the last written bytes (action property on the history's last call):
\* the data of a Read equals the store contents at that range
ReadsLastWritten ==
    (hist # <<>> /\ hist[Len(hist)].op = "Read") =>
      LET e == hist[Len(hist)]  a == e.args.aid IN
        (a \in DOMAIN aids) =>
           LET k == aids[a].key  p == aids[a].posn IN
             /\ e.out.ret = Len(e.out.data)
             /\ \A i \in 1..e.out.ret : LET c == Bytes(k)[p - e.out.ret + i] IN e.out.data[i] = ShowCell(c)

\* a write never changes bytes outside [posn, posn+n) and never shrinks the element
WriteLocal ==
    [][\A s \in DOMAIN stores \cap DOMAIN stores' :
         (hist' # hist /\ hist' # <<>> /\ hist'[Len(hist')].op = "Write") =>
            /\ Len(stores'[s]) >= Len(stores[s])
            /\ LET e == hist'[Len(hist')] IN
               (e.out.ret # FAIL) =>
                 \A i \in 1..Len(stores[s]) :
                    (stores'[s][i] # stores[s][i]) =>
                        /\ i > e.out.posn - e.out.ret /\ i <= e.out.posn]_vars

\* lengths never change across a reopen; only gap/reserved cells change their status
ReopenKeeps ==
    [][(hist' # hist /\ hist' # <<>> /\ hist'[Len(hist')].op = "Reopen") =>
         \A s \in DOMAIN stores : /\ Len(stores'[s]) = Len(stores[s])
                                  /\ \A i \in 1..Len(stores[s]) : stores[s][i] \in 0..255 => stores'[s][i] = stores[s][i]]_vars

Bound == /\ Len(hist) < MaxOps
         /\ \A s \in DOMAIN stores : Len(stores[s]) <= MaxLen
=============================================================================
