SPECIFICATION Spec
CONSTANTS
  ReserveK = {1048576, 1048476, 1047552}
  GapK = {1048576, 2097000, 1047552}
  AppendK = {64}
  MemberCounts = {}
  FieldCounts = {}
  Orders = {}
  Ranks = {}
  NameKinds = {}
  NameLens = {}
  MaxOps = 7
  KeepHist = TRUE
VIEW view
CONSTRAINT Bound
ACTION_CONSTRAINT EmitAudited
CHECK_DEADLOCK FALSE
