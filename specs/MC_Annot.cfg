SPECIFICATION Spec
CONSTANTS
  Targets = {"t1", "t2"}
  LabLens = {1, 5}
  DescLens = {5}
  MaxAnns = 3
  DataMod = 2
  MaxOps = 100
  KeepHist = FALSE
VIEW view
INVARIANTS TargetsWellFormed
PROPERTIES IdentityStable OneAtATime
CHECK_DEADLOCK FALSE
