SPECIFICATION Spec
CONSTANTS
  Forms = {"rel", "abs"}
  Offs = {0, 2, 5}
  Lens = {1, 3, 4}
  MaxOps = 14
  KeepHist = TRUE
ACTION_CONSTRAINT EmitFull
CHECK_DEADLOCK FALSE
