---------------------------- MODULE Trace_HElem ----------------------------
(* Trace validation of recorded executions against HElem (see Trace_HDir / TraceBase) *)
EXTENDS HElem, TraceBase
BlkC == {<<2, 1>>}

VARIABLE l

TReset == /\ st' = "init" /\ elems' = <<>> /\ stores' = <<>> /\ aids' = <<>> /\ wc' = 0
          /\ cfg' = [ndds |-> 0, cache |-> FALSE, nkeys |-> 0] /\ out' = [ret |-> OK] /\ hist' = <<>>

\* the payload of a recorded write is whatever the driver wrote: bind the write counter from it
WcOf(d) == CHOOSE c \in 0..(DataMod - 1) : Data(c + 1, Len(d)) = d

Good(ev) ==
    LET a == ev.args  o == ev.obs IN
       \/ ev.op = "Reset" /\ TReset
       \/ /\ ev.op # "Reset"
          /\ \/ ev.op = "Create"       /\ Create(a.ndds, a.cache, a.nkeys)
             \/ ev.op = "StartWrite"   /\ StartWriteNew(a.aid, a.key, a.n)
             \/ ev.op = "StartAccess"  /\ (StartAccessNew(a.aid, a.key, a.app) \/ StartExisting(a.aid, a.key, a.w, a.app))
             \/ ev.op = "StartRead"    /\ StartMissing(a.aid, a.key)
             \/ ev.op = "CreateLinked" /\ CreateLinked(a.aid, a.key, <<a.blk, a.nblk>>)
             \/ ev.op = "CreateExt"    /\ CreateExt(a.aid, a.key)
             \/ ev.op = "Convert"      /\ Convert(a.aid, <<a.blk, a.nblk>>)
             \/ ev.op = "Appendable"   /\ Appendable(a.aid)
             \/ ev.op = "Write"        /\ wc = WcOf(a.data) /\ Write(a.aid, Len(a.data))
             \/ ev.op = "Seek"         /\ Seek(a.aid, a.off)
             \/ ev.op = "Read"         /\ Read(a.aid, a.n)
             \/ ev.op = "ReadPast"     /\ ReadPast(a.aid, a.n, o.ret)
             \/ ev.op = "Trunc"        /\ Trunc(a.aid, a.n)
             \/ ev.op = "EndAccess"    /\ EndAccess(a.aid)
             \/ ev.op = "Dup"          /\ Dup(a.key, a.okey)
             \/ ev.op = "Del"          /\ Del(a.key)
             \/ ev.op = "Bump"         /\ Bump
             \/ ev.op = "Get"          /\ Get(a.key)
             \/ ev.op = "CloseBusy"    /\ CloseBusy
             \/ ev.op = "Reopen"       /\ Reopen(a.cache)
          /\ CellsOK(out', o)

TraceInit == Init /\ l = 1 /\ TLCSet(1, 1)
TraceNext ==
    /\ l <= Len(TraceLog)
    /\ IF ENABLED Good(TraceLog[l])
       THEN Good(TraceLog[l]) /\ l' = l + 1
       ELSE Reject(l) /\ l' = NextReset(l) /\ UNCHANGED vars
TraceSpec == TraceInit /\ [][TraceNext]_<<vars, l>>
TrackL == Track(l)
=============================================================================
