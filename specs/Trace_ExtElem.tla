---------------------------- MODULE Trace_ExtElem ----------------------------
EXTENDS ExtElem, TraceBase
VARIABLE l
TReset == /\ st' = "init" /\ createdir' = "none" /\ search' = <<>> /\ present' = {} /\ fs' = [f \in Files |-> <<>>]
          /\ elems' = [e \in Elems |-> NoElem] /\ truth' = [e \in Elems |-> <<>>] /\ home' = [e \in Elems |-> <<>>]
          /\ whole' = [e \in Elems |-> FALSE] /\ tainted' = {} /\ hnd' = <<>> /\ dirchg' = FALSE /\ wc' = 0 /\ out' = [ret |-> 0] /\ hist' = <<>>
\* the recorded payload is the one the write counter determines
DataOK(d) == d = Payload(wc + 1, Len(d))
Good(ev) ==
    LET a == ev.args  o == ev.obs IN
       \/ ev.op = "Reset" /\ TReset
       \/ /\ ev.op # "Reset"
          /\ \/ ev.op = "Setup"        /\ Setup
             \/ ev.op = "SetCreateDir" /\ SetCreateDir(a.dir)
             \/ ev.op = "SetSearch"    /\ SetSearch(a.dirs)
             \/ ev.op = "PutPlain"     /\ DataOK(a.data) /\ PutPlain(a.e, Len(a.data))
             \/ ev.op = "Create"       /\ DataOK(a.data) /\ Create(a.e, a.name, a.form, a.off, Len(a.data))
             \/ ev.op = "Promote"      /\ Promote(a.e, a.name, a.form, a.off)
             \/ ev.op = "Read"         /\ Read(a.e)
             \/ ev.op = "Overwrite"    /\ DataOK(a.data) /\ Overwrite(a.e, a.pos, Len(a.data))
             \/ ev.op = "RWOverwrite"  /\ DataOK(a.data) /\ RWOverwrite(a.e, a.pos, Len(a.data))
             \/ ev.op = "Move"         /\ Move(a.name, a.from, a.to)
             \/ ev.op = "Plant"        /\ DataOK(a.data) /\ Plant(a.name, a.dir, Len(a.data))
             \/ ev.op = "Remove"       /\ Remove(a.name, a.dir)
             \/ ev.op = "Reopen"       /\ Reopen
             \/ ev.op = "Dump"         /\ Dump
             \/ ev.op = "Attach"       /\ Attach(a.e)
             \/ ev.op = "HRead"        /\ HRead
             \/ ev.op = "HWrite"       /\ DataOK(a.data) /\ HWrite(a.pos, Len(a.data))
             \/ ev.op = "Detach"       /\ Detach
          /\ ObsOK(out', o)
TraceInit == Init /\ l = 1 /\ TLCSet(1, 1)
TraceNext ==
    /\ l <= Len(TraceLog)
    /\ IF ENABLED Good(TraceLog[l])
       THEN Good(TraceLog[l]) /\ l' = l + 1
       ELSE Reject(l) /\ l' = NextReset(l) /\ UNCHANGED vars
TraceSpec == TraceInit /\ [][TraceNext]_<<vars, l>>
TrackL == Track(l)
=============================================================================
