SPECIFICATION Spec
CONSTANTS
  Widths = {1, 3, 8, 9}
  SeekBits = {0, 1, 5, 8, 11, 16}
  MaxBits = 24
  MaxOps = 8
  MixedWrites = TRUE
  KeepHist = TRUE
VIEW view
CONSTRAINT Bound
ACTION_CONSTRAINT EmitAudited
CHECK_DEADLOCK FALSE
