------------------------------- MODULE HDir -------------------------------
(***************************************************************************)
(* The tag/ref directory of one HDF4 file (hfiledd.c / hfile.c) as a       *)
(* persistent map, at the grain of the public H-level calls.               *)
(*                                                                         *)
(* One action per public call; the linearisation point of this sequential  *)
(* library is the call's return.  Every action records in `out` what the   *)
(* call must return/report (only what property C12 states) and appends     *)
(* <<op, args, out>> to `hist`, so the very same module is                 *)
(*   - model-checked (MC_HDir.cfg, hist/out hidden by a VIEW),             *)
(*   - used as behaviour generator (Gen_HDir.cfg: transition cover +       *)
(*     -simulate), and                                                     *)
(*   - reused action by action by Trace_HDir.tla to validate executions    *)
(*     recorded from the real library.                                     *)
(*                                                                         *)
(* mem  : the directory as the open file reports it                        *)
(* disk : the directory an independent process would find in the file      *)
(*        (what survives a close/reopen)                                   *)
(* Keys are <<base tag, ref>>: a special element (stored tag has the       *)
(* special bit) is found under its base tag.                               *)
(***************************************************************************)
EXTENDS Naturals, Integers, Sequences, FiniteSets, SequencesExt, FiniteSetsExt, TLC

CONSTANTS UserTags,      \* base tags the generator creates elements under
          Refs,          \* refs used by explicit create/dup/delete (subset of 1..MaxRef)
          Lens,          \* payload lengths used by Put
          MaxRef,        \* 65535 in the format
          NddsSet,       \* descriptor-block sizes to open the file with
          MaxOps,        \* bound on history length (state constraint)
          AllocCand,     \* values considered as allocator answers when model checking
          GenMode,       \* TRUE: generator (allocator answers are the implementation's choice: "any")
          KeepHist,      \* FALSE: keep only the last call in hist (trace validation of long runs)
          Observers      \* FALSE: Next contains only the state-changing calls (history enumeration)

Wild == 0                 \* DFTAG_WILDCARD / DFREF_WILDCARD

VARIABLES st,      \* "init" | "open"
          mem,     \* function: key -> [len, kind]   kind \in {"plain","ext","internal"}
          disk,    \* same shape: what is persisted
          cache,   \* DD caching on?
          ndds,    \* descriptor-block size the file was created with
          out,     \* expected observation of the last call
          hist     \* history of <<op,args,out>> records

vars == <<st, mem, disk, cache, ndds, out, hist>>
view == <<st, mem, disk, cache, ndds>>

Keys(m)      == DOMAIN m
KeyTag(k)    == k[1]
KeyRef(k)    == k[2]
AllKeys      == (UserTags \X Refs)
UsedRefs(m)      == {KeyRef(k) : k \in Keys(m)}
UsedRefsOf(m, t) == {KeyRef(k) : k \in {x \in Keys(m) : KeyTag(x) = t}}

Put1(m, k, v) == [x \in Keys(m) \cup {k} |-> IF x = k THEN v ELSE m[x]]
Del1(m, k)    == [x \in Keys(m) \ {k} |-> m[x]]

\* listing of the directory restricted by a (tag, ref) pattern, as a sorted sequence of
\* <<tag, ref, len>>: what a complete Hfind walk (either direction) must enumerate, each once
Matches(k, t, r) == (t = Wild \/ KeyTag(k) = t) /\ (r = Wild \/ KeyRef(k) = r)
Triple(m, k)     == <<KeyTag(k), KeyRef(k), m[k].len>>
TripleLess(a, b) == \/ a[1] < b[1]
                    \/ a[1] = b[1] /\ a[2] < b[2]
Listing(m, t, r) == SetToSortSeq({Triple(m, k) : k \in {x \in Keys(m) : Matches(x, t, r)}}, TripleLess)
Count(m, t)      == Cardinality({k \in Keys(m) : t = Wild \/ KeyTag(k) = t})

Log(op, args, o) == /\ out' = o
                    /\ hist' = IF KeepHist THEN Append(hist, [op |-> op, args |-> args, out |-> o])
                                           ELSE <<[op |-> op, args |-> args, out |-> o]>>

OK   == 0
FAIL == -1

---------------------------------------------------------------------------
Init == /\ st = "init" /\ mem = <<>> /\ disk = <<>> /\ cache = FALSE /\ ndds = 0
        /\ out = [ret |-> OK] /\ hist = <<>>

\* Hopen(path, DFACC_CREATE, nd) [+ Hcache(fid, c)].  The library-owned version descriptor (tag 30,
\* written lazily at the first close after an element access) is not part of this map: the driver
\* leaves it out of listings and counts; its well-formedness is the independent reader's business (C02).
Create(nd, c) ==
    /\ st = "init"
    /\ st' = "open" /\ ndds' = nd /\ cache' = c
    /\ mem' = <<>>
    /\ disk' = disk
    /\ Log("Create", [ndds |-> nd, cache |-> c], [ret |-> OK])

\* every directory change goes to disk at once with caching off, at the next flush otherwise
Persist(m) == IF cache THEN disk' = disk ELSE disk' = m

\* Hputelement(tag, ref, data[n])
Put(t, r, n) ==
    /\ st = "open"
    /\ LET k == <<t, r>> IN
       IF k \notin Keys(mem)
       THEN /\ mem' = Put1(mem, k, [len |-> n, kind |-> "plain"])
            /\ Persist(mem')
            /\ Log("Put", [tag |-> t, ref |-> r, n |-> n], [ret |-> n, len |-> n])
       ELSE \* existing element: the data is overwritten in place; a plain element cannot grow this way
            IF n <= mem[k].len
            THEN /\ mem' = mem /\ disk' = disk
                 /\ Log("Put", [tag |-> t, ref |-> r, n |-> n], [ret |-> n, len |-> mem[k].len])
            ELSE /\ mem[k].kind = "plain"
                 /\ mem' = mem /\ disk' = disk
                 /\ Log("Put", [tag |-> t, ref |-> r, n |-> n], [ret |-> FAIL, len |-> mem[k].len])
    /\ UNCHANGED <<st, cache, ndds>>

\* HXcreate(tag, ref, extfile, 0, 0) + Hwrite(n) + Hendaccess on a NEW key: a special element
\* (stored under tag|special, found under the base tag) with no auxiliary descriptors.
PutExt(t, r, n) ==
    /\ st = "open"
    /\ <<t, r>> \notin Keys(mem)
    /\ IF t >= 32768          \* extended tags (bit 15 set) have no special variant: the call is refused, nothing changes
       THEN /\ Log("PutExt", [tag |-> t, ref |-> r, n |-> n], [ret |-> FAIL, len |-> FAIL])
            /\ UNCHANGED <<mem, disk>>
       ELSE /\ mem' = Put1(mem, <<t, r>>, [len |-> n, kind |-> "ext"])
            /\ Persist(mem')
            /\ Log("PutExt", [tag |-> t, ref |-> r, n |-> n], [ret |-> n, len |-> n])
    /\ UNCHANGED <<st, cache, ndds>>

\* Hdeldd(tag, ref)
Del(t, r) ==
    /\ st = "open"
    /\ LET k == <<t, r>> IN
       IF k \in Keys(mem)
       THEN /\ mem' = Del1(mem, k) /\ Persist(mem')
            /\ Log("Del", [tag |-> t, ref |-> r], [ret |-> OK])
       ELSE /\ mem' = mem /\ disk' = disk
            /\ Log("Del", [tag |-> t, ref |-> r], [ret |-> FAIL])
    /\ UNCHANGED <<st, cache, ndds>>

\* Hdupdd(newtag, newref, oldtag, oldref): documented to FAIL when the new pair is in use
Dup(t, r, ot, or) ==
    /\ st = "open"
    \* duplicating the descriptor of a *special* element aliases its description record, not its
    \* data: that is outside what the property describes, so it is not part of the model
    /\ (<<ot, or>> \in Keys(mem) => mem[<<ot, or>>].kind = "plain")
    /\ LET k == <<t, r>>  ok == <<ot, or>> IN
       IF ok \in Keys(mem) /\ k \notin Keys(mem)
       THEN /\ mem' = Put1(mem, k, mem[ok]) /\ Persist(mem')
            /\ Log("Dup", [tag |-> t, ref |-> r, otag |-> ot, oref |-> or], [ret |-> OK])
       ELSE /\ mem' = mem /\ disk' = disk
            /\ Log("Dup", [tag |-> t, ref |-> r, otag |-> ot, oref |-> or], [ret |-> FAIL])
    /\ UNCHANGED <<st, cache, ndds>>

\* a run of Hdupdd(t, r <- ot, or) for every r in lo..hi (ref-space scenarios; one trace event)
FillDup(t, lo, hi, ot, or) ==
    /\ st = "open"
    /\ <<ot, or>> \in Keys(mem)
    /\ \A r \in lo..hi : <<t, r>> \notin Keys(mem)
    /\ mem' = [x \in Keys(mem) \cup {<<t, r>> : r \in lo..hi} |-> IF x \in Keys(mem) THEN mem[x] ELSE mem[<<ot, or>>]]
    /\ Persist(mem')
    /\ Log("FillDup", [tag |-> t, lo |-> lo, hi |-> hi, otag |-> ot, oref |-> or], [ret |-> OK])
    /\ UNCHANGED <<st, cache, ndds>>

\* Hnewref: the result is the library's choice; the property only demands that it is unused
\* file-wide, and 0 only when no ref is free.
NewRefOK(m, x) == IF UsedRefs(m) = 1..MaxRef THEN x = 0 ELSE x \in (1..MaxRef) \ UsedRefs(m)
NewRef(x) ==
    /\ st = "open" /\ ~GenMode
    /\ NewRefOK(mem, x)
    /\ Log("NewRef", [a |-> 0], [ret |-> x])
    /\ UNCHANGED <<st, mem, disk, cache, ndds>>

TagNewRefOK(m, t, x) == IF UsedRefsOf(m, t) = 1..MaxRef THEN x = 0 ELSE x \in (1..MaxRef) \ UsedRefsOf(m, t)
TagNewRef(t, x) ==
    /\ st = "open" /\ ~GenMode
    /\ TagNewRefOK(mem, t, x)
    /\ Log("TagNewRef", [tag |-> t], [ret |-> x])
    /\ UNCHANGED <<st, mem, disk, cache, ndds>>

\* generator variants: the script only says "call the allocator"; the answer is bound from the trace
GenNewRef == /\ st = "open" /\ GenMode /\ Log("NewRef", [a |-> 0], [ret |-> "any", fresh |-> TRUE])
             /\ UNCHANGED <<st, mem, disk, cache, ndds>>
GenTagNewRef(t) == /\ st = "open" /\ GenMode /\ Log("TagNewRef", [tag |-> t], [ret |-> "any", fresh |-> TRUE])
                   /\ UNCHANGED <<st, mem, disk, cache, ndds>>

\* Hnumber(tag | wildcard)
Number(t) ==
    /\ st = "open" /\ Observers
    /\ Log("Number", [tag |-> t], [ret |-> Count(mem, t)])
    /\ UNCHANGED <<st, mem, disk, cache, ndds>>

\* a complete Hfind walk with the pattern (t, r) in direction d, lengths through Hlength
Walk(t, r, d) ==
    /\ st = "open" /\ Observers /\ (t = Wild \/ r = Wild)
    \* (forward walks are made a second time through an access handle: Hstartread on the pattern, then
    \*  Hnextread(pattern, DF_CURRENT) until it fails -- the same descriptors, with the lengths Hinquire reports)
    /\ Log("Walk", [tag |-> t, ref |-> r, dir |-> d],
           IF d = 0 THEN [list |-> Listing(mem, t, r), nlist |-> Listing(mem, t, r)] ELSE [list |-> Listing(mem, t, r)])
    /\ UNCHANGED <<st, mem, disk, cache, ndds>>

\* Hexist + Hlength
Probe(t, r) ==
    /\ st = "open" /\ Observers
    /\ LET k == <<t, r>> IN
       Log("Probe", [tag |-> t, ref |-> r],
           IF k \in Keys(mem) THEN [ret |-> OK, len |-> mem[k].len] ELSE [ret |-> FAIL, len |-> FAIL])
    /\ UNCHANGED <<st, mem, disk, cache, ndds>>

\* Hcache(fid, on): switching caching off flushes
SetCache(c) ==
    /\ st = "open"
    /\ cache' = c
    /\ disk' = IF c THEN disk ELSE mem
    /\ Log("SetCache", [on |-> c], [ret |-> OK])
    /\ UNCHANGED <<st, mem, ndds>>

\* Hsync
Sync ==
    /\ st = "open"
    /\ disk' = mem
    /\ Log("Sync", [a |-> 0], [ret |-> OK])
    /\ UNCHANGED <<st, mem, cache, ndds>>

\* Hclose; Hopen(DFACC_RDWR): the directory is rebuilt from the file. Caching reverts to the default.
Reopen(c) ==
    /\ st = "open"
    /\ disk' = mem          \* close flushes
    /\ mem' = disk'         \* open loads
    /\ cache' = c
    /\ Log("Reopen", [cache |-> c], [ret |-> OK, list |-> Listing(mem, Wild, Wild)])
    /\ UNCHANGED <<st, ndds>>

TagPat == UserTags \cup {Wild}
RefPat == Refs \cup {Wild}

Next ==
    \/ \E nd \in NddsSet, c \in BOOLEAN : Create(nd, c)
    \/ \E t \in UserTags, r \in Refs, n \in Lens : Put(t, r, n)
    \/ \E t \in UserTags, r \in Refs, n \in Lens : PutExt(t, r, n)
    \/ \E t \in UserTags, r \in Refs : Del(t, r)
    \/ \E t \in UserTags, r \in Refs, ot \in UserTags, or \in Refs : Dup(t, r, ot, or)
    \* the allocators change library state (the high-water mark), so they count as state-changing
    \/ \E x \in AllocCand : NewRef(x)
    \/ \E t \in UserTags, x \in AllocCand : TagNewRef(t, x)
    \/ GenNewRef
    \/ \E t \in UserTags : GenTagNewRef(t)
    \/ \E c \in BOOLEAN : SetCache(c)
    \/ \E c \in BOOLEAN : Reopen(c)
    \/ Sync
    \* observers (switched off by Observers = FALSE when enumerating histories of state changes)
    \/ \E t \in UserTags, r \in Refs : Probe(t, r)
    \/ \E t \in TagPat : Number(t)
    \* walks are *wildcard* searches: an exact (tag, ref) probe is Probe
    \/ \E t \in TagPat, r \in RefPat, d \in {0, 1} : Walk(t, r, d)

Spec == Init /\ [][Next]_vars

---------------------------------------------------------------------------
(* Properties of the design (checked by TLC on the bounded model) *)

TypeOK == /\ st \in {"init", "open"}
          /\ \A k \in Keys(mem) : mem[k].len \in Nat /\ mem[k].kind \in {"plain", "ext", "internal"}
          /\ cache \in BOOLEAN

\* with write-through (caching off) the file always holds the directory
WriteThrough == (st = "open" /\ ~cache) => disk = mem

\* a reference handed out by an allocator call is not in use (action property on the last call)
AllocFresh ==
    (hist # <<>>) =>
      LET e == hist[Len(hist)] IN
        /\ (e.op = "NewRef" /\ e.out.ret # 0) => e.out.ret \notin UsedRefs(mem)
        /\ (e.op = "NewRef" /\ e.out.ret = 0) => UsedRefs(mem) = 1..MaxRef
        /\ (e.op = "TagNewRef" /\ e.out.ret # 0) => e.out.ret \notin UsedRefsOf(mem, e.args.tag)

\* a walk enumerates each live entry exactly once
WalkExact ==
    (hist # <<>> /\ hist[Len(hist)].op = "Walk") =>
      LET e == hist[Len(hist)] IN
        /\ Len(e.out.list) = Cardinality({k \in Keys(mem) : Matches(k, e.args.tag, e.args.ref)})
        /\ \A i, j \in 1..Len(e.out.list) : i # j => e.out.list[i] # e.out.list[j]

\* deleting or duplicating one entry affects no other (action property)
OthersUntouched ==
    [][\A k \in Keys(mem) \cap Keys(mem') :
         (hist' # hist /\ hist' # <<>> /\ hist'[Len(hist')].op \in {"Del", "Dup", "Put", "PutExt"}
          /\ k # <<hist'[Len(hist')].args.tag, hist'[Len(hist')].args.ref>>) => mem'[k] = mem[k]]_vars

\* reopening never changes the reported directory
ReopenStable == [][(hist' # hist /\ hist' # <<>> /\ hist'[Len(hist')].op = "Reopen") => mem' = mem]_vars

Bound == Len(hist) < MaxOps
=============================================================================
