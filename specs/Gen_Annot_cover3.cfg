SPECIFICATION Spec
CONSTANTS
  Targets = {"t1", "t2", "t3"}
  LabLens = {1, 300}
  DescLens = {1, 70000}
  MaxAnns = 2
  DataMod = 1
  MaxOps = 100
  KeepHist = TRUE
VIEW view
CONSTRAINT Bound
ACTION_CONSTRAINT EmitAudited
CHECK_DEADLOCK FALSE
