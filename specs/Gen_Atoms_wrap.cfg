\* behaviours that run the id counter through the end of the id space: a Burn step first, then registrations,
\* removals and lookups around the wrap (the library's id space is 2^28: the driver does the Burn with 2^28-3 real pairs)
SPECIFICATION WrapSpec
CONSTANTS
  MaxIds = 11
  MaxOps = 26
  IdSpace = 12
  Objs = {1, 2, 3}
  SkipLive = TRUE
  NeedBurn = TRUE
  MustBurn = TRUE
  KeepHist = TRUE
ACTION_CONSTRAINT EmitFull
CHECK_DEADLOCK FALSE
