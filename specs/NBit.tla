------------------------------- MODULE NBit -------------------------------
(***************************************************************************)
(* The n-bit coder's documented projection (cnbit.c, through              *)
(* SDsetnbitdataset): of every value only the bit field                    *)
(* [start_bit - bit_len + 1 .. start_bit] (bit 0 = least significant) is   *)
(* stored; on reading, the bits above the field are copies of the field's  *)
(* top bit when sign extension is on, and every other background bit is    *)
(* the fill bit (0 or 1).  Values are bit sequences, most significant      *)
(* first, so that 32-bit types need no wide integers.                      *)
(***************************************************************************)
EXTENDS Naturals, Integers, Sequences, FiniteSets, TLC

CONSTANTS Widths,     \* {8, 16, 32}
          NVals,      \* elements in the dataset
          Params,     \* set of <<start_bit, bit_len>> generated (filtered by width)
          Patterns,   \* pattern numbers
          MaxOps, KeepHist

VARIABLES st, W, sgn, sb, bl, se, fo, vals, out, hist
vars == <<st, W, sgn, sb, bl, se, fo, vals, out, hist>>
view == <<st, W, sgn, sb, bl, se, fo, vals>>

Log(op, args, o) == /\ out' = o
                    /\ hist' = IF KeepHist THEN Append(hist, [op |-> op, args |-> args, out |-> o])
                                           ELSE <<[op |-> op, args |-> args, out |-> o]>>

\* bit b (0 = least significant) of a W-bit value v given as a sequence, most significant first
Bit(v, b) == v[Len(v) - b]
\* the documented projection
Proj(v, s, n, sx, f) == [i \in 1..Len(v) |-> LET b == Len(v) - i IN
                          IF b <= s /\ b >= s - n + 1 THEN Bit(v, b)
                          ELSE IF b > s /\ sx THEN Bit(v, s)
                          ELSE f]
\* test patterns of width w (p = pattern number, k = element index)
Pat(p, k, w, s, n) == [i \in 1..w |-> LET b == w - i IN
    CASE p = 0 -> 0
      [] p = 1 -> 1
      [] p = 2 -> (b + k) % 2
      [] p = 3 -> IF b = s THEN 1 ELSE 0
      [] p = 4 -> IF b = s - n + 1 THEN 1 ELSE 0
      [] p = 5 -> IF b <= s /\ b >= s - n + 1 THEN 1 ELSE 0
      [] p = 6 -> IF b <= s /\ b >= s - n + 1 THEN 0 ELSE 1
      [] OTHER -> ((b * 7 + k * 3 + p) \div 3) % 2]
RECURSIVE ValOf(_)
ValOf(bs) == IF bs = <<>> THEN 0 ELSE 2 * ValOf(SubSeq(bs, 1, Len(bs) - 1)) + bs[Len(bs)]
Hi(bs) == IF Len(bs) > 16 THEN ValOf(SubSeq(bs, 1, Len(bs) - 16)) ELSE 0
Lo(bs) == IF Len(bs) > 16 THEN ValOf(SubSeq(bs, Len(bs) - 15, Len(bs))) ELSE ValOf(bs)
Enc(vs) == [i \in 1..Len(vs) |-> <<Hi(vs[i]), Lo(vs[i])>>]

Init == /\ st = "init" /\ W = 8 /\ sgn = FALSE /\ sb = 0 /\ bl = 1 /\ se = FALSE /\ fo = 0 /\ vals = <<>>
        /\ out = [ret |-> 0] /\ hist = <<>>

\* SDcreate(type of width w, signed or not); SDsetnbitdataset(start_bit, bit_len, sign_ext, fill_one)
Create(w, sg, s, n, sx, f) ==
    /\ st = "init" /\ st' = "open"
    /\ s < w /\ n >= 1 /\ n <= s + 1
    /\ W' = w /\ sgn' = sg /\ sb' = s /\ bl' = n /\ se' = sx /\ fo' = f /\ vals' = <<>>
    /\ Log("Create", [w |-> w, signed |-> sg, start |-> s, len |-> n, sext |-> sx, fill |-> f, n |-> NVals], [ret |-> 0])

\* SDwritedata of the whole dataset
Write(p) ==
    /\ st = "open"
    /\ vals' = [k \in 1..NVals |-> Pat(p, k, W, sb, bl)]
    /\ Log("Write", [data |-> Enc(vals')], [ret |-> 0])
    /\ UNCHANGED <<st, W, sgn, sb, bl, se, fo>>

\* SDreaddata(start, count): whole values; each is the projection of what was written
Read(s0, c) ==
    /\ st = "open" /\ vals # <<>> /\ c >= 1 /\ s0 + c <= NVals
    /\ Log("Read", [start |-> s0, count |-> c], [ret |-> 0, data |-> Enc([k \in 1..c |-> Proj(vals[s0 + k], sb, bl, se, IF fo = 1 THEN 1 ELSE 0)])])
    /\ UNCHANGED <<st, W, sgn, sb, bl, se, fo, vals>>

Reopen ==
    /\ st = "open" /\ vals # <<>>
    /\ Log("Reopen", [a |-> 0], [ret |-> 0])
    /\ UNCHANGED <<st, W, sgn, sb, bl, se, fo, vals>>

Next == \/ \E w \in Widths, sg \in BOOLEAN, q \in Params, sx \in BOOLEAN, f \in {0, 1} : Create(w, sg, q[1], q[2], sx, f)
        \/ \E p \in Patterns : Write(p)
        \/ \E s0 \in 0..(NVals - 1), c \in 1..NVals : Read(s0, c)
        \/ Reopen
Spec == Init /\ [][Next]_vars

\* the projection is idempotent: projecting what was read changes nothing
Idempotent == \A k \in 1..Len(vals) : LET p == Proj(vals[k], sb, bl, se, fo) IN Proj(p, sb, bl, se, fo) = p
\* the kept field is returned bit for bit
FieldKept == \A k \in 1..Len(vals) : \A b \in (sb - bl + 1)..sb : Bit(Proj(vals[k], sb, bl, se, fo), b) = Bit(vals[k], b)
Bound == Len(hist) < MaxOps
=============================================================================
