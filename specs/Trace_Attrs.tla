---------------------------- MODULE Trace_Attrs ----------------------------
EXTENDS Attrs, TraceBase
VARIABLE l
TReset == /\ st' = "init" /\ attrs' = [o \in AttrObjs |-> <<>>] /\ dimOf' = [d \in DimSlots |-> d]
          /\ dname' = DefName /\ scale' = [d \in DimSlots |-> NoScale]
          /\ svars' = <<[name |-> "s1", coord |-> FALSE], [name |-> "s2", coord |-> FALSE]>>
          /\ nadd' = 0 /\ wc' = 0 /\ out' = [ret |-> 0] /\ hist' = <<>>
\* names of the library's choosing: the specification says "?..." and the recorded name must look like one
Wild == {DefName[d] : d \in DimSlots}
IsFake(s) == s \in {"fakeDim0", "fakeDim1", "fakeDim2", "fakeDim3", "fakeDim4", "fakeDim5", "fakeDim6", "fakeDim7"}
NameOK(e, x) == IF e \in Wild THEN IsFake(x) ELSE e = x
VarsOK(e, x) == Len(e) = Len(x) /\ \A i \in 1..Len(e) : NameOK(e[i].name, x[i].name) /\ e[i].coord = x[i].coord
FieldOK(f, e, x) == CASE f = "name" -> NameOK(e, x)
                      [] f = "vars" -> VarsOK(e, x)
                      [] OTHER -> e = x
AObsOK(o, obs) == "skip" \in DOMAIN obs \/ \A f \in DOMAIN o : f \in DOMAIN obs /\ FieldOK(f, o[f], obs[f])
Good(ev) ==
    LET a == ev.args  o == ev.obs IN
       \/ ev.op = "Reset" /\ TReset
       \/ /\ ev.op # "Reset"
          /\ \/ ev.op = "Setup"       /\ Setup
             \/ ev.op = "Set"         /\ Set(a.obj, a.name, a.type, a.count, a.k)
             \/ ev.op = "Find"        /\ Find(a.obj, a.name)
             \/ ev.op = "Dump"        /\ Dump(a.obj)
             \/ ev.op = "SetRange"    /\ SetRange(a.obj, a.k)
             \/ ev.op = "GetRange"    /\ GetRange(a.obj)
             \/ ev.op = "SetFill"     /\ SetFill(a.obj, a.k)
             \/ ev.op = "GetFill"     /\ GetFill(a.obj)
             \/ ev.op = "SetStrs"     /\ SetStrs(a.obj, a.k)
             \/ ev.op = "GetStrs"     /\ GetStrs(a.obj)
             \/ ev.op = "SetCal"      /\ SetCal(a.obj, a.k)
             \/ ev.op = "GetCal"      /\ GetCal(a.obj)
             \/ ev.op = "SetDimName"  /\ SetDimName(a.obj, a.name)
             \/ ev.op = "DimInfo"     /\ DimInfo(a.obj)
             \/ ev.op = "SetDimScale" /\ SetDimScale(a.obj, a.type, a.k)
             \/ ev.op = "GetDimScale" /\ GetDimScale(a.obj)
             \/ ev.op = "SetDimStrs"  /\ SetDimStrs(a.obj, a.k)
             \/ ev.op = "GetDimStrs"  /\ GetDimStrs(a.obj)
             \/ ev.op = "AddDs"       /\ AddDs
             \/ ev.op = "Lookups"     /\ Lookups
             \/ ev.op = "Reopen"      /\ Reopen(a.rw)
          /\ AObsOK(out', o)
TraceInit == Init /\ l = 1 /\ TLCSet(1, 1)
TraceNext ==
    /\ l <= Len(TraceLog)
    /\ IF ENABLED Good(TraceLog[l])
       THEN Good(TraceLog[l]) /\ l' = l + 1
       ELSE Reject(l) /\ l' = NextReset(l) /\ UNCHANGED vars
TraceSpec == TraceInit /\ [][TraceNext]_<<vars, l>>
TrackL == Track(l)
=============================================================================
