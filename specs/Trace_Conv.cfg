SPECIFICATION TraceSpec
CONSTANTS
  Sizes = {1}
  Flavours = {"std"}
  Ns = {1}
  Strides = {0}
  MaxOps = 1
  KeepHist = FALSE
INVARIANTS TrackL
POSTCONDITION Verdict
CHECK_DEADLOCK FALSE
