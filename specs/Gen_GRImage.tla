---------------------------- MODULE Gen_GRImage ----------------------------
EXTENDS GRImage, Json, CSV, IOUtils
DimsGen == {<<2, 2>>, <<3, 2>>}
DimsSim == {<<3, 2>>, <<2, 3>>, <<4, 3>>}
CoordsGen == {-1, 0, 1, 2}
CoordsSim == {0, 1, 2}
DimsHist == {<<2, 2>>}
CoordsHist == {0}
LNone == {<<>>}
LAll == {<<>>, <<"comp", "rle">>, <<"comp", "deflate">>, <<"comp", "skphuff">>, <<"chunk", 1, 1>>, <<"chunk", 2, 1>>, <<"chunk", 2, 2, 1>>, <<"chunk", 3, 2>>,
         <<"chunkcomp", "rle", 2, 1>>, <<"chunkcomp", "deflate", 2, 2>>, <<"nt", "int16">>, <<"nt", "int32">>, <<"nt", "float32">>,
         <<"chunk", 2, 1, "nt", "int16">>, <<"comp", "deflate", "nt", "float32">>}
Ev(o, a, x) == [op |-> o, args |-> a, out |-> x]
FullN == W' * H' * NC'
Audit == IF ~touched' THEN <<>> ELSE <<Ev("Reopen", [a |-> 0], [ret |-> 0, ncomp |-> NC', il |-> 0, w |-> W', h |-> H'])>>
         \o (IF touched' THEN
             <<Ev("Read", [x |-> 0, y |-> 0, sx |-> 1, sy |-> 1, cw |-> W', ch |-> H'],
                  [ret |-> 0, data |-> [i \in 1..FullN |-> pix'[Target(0, i, 0, 0, 1, 1, W', H', NC')]]])>> ELSE <<>>)
         \o (IF lut' # <<>> THEN <<Ev("ReadLut", [a |-> 0], [ret |-> 0, k |-> lut'[1], ncomp |-> 3, nentries |-> 256])>> ELSE <<>>)
EmitAudited == (st' = "open") => CSVWrite("%1$s", <<ToJson([spec |-> "GRImage", steps |-> hist' \o Audit])>>, IOEnv.GEN_OUT)
EmitFull == (Len(hist') = MaxOps) => EmitAudited
=============================================================================
