---------------------------- MODULE MC_HDir ----------------------------
EXTENDS HDir
\* exhaustive configuration: MaxRef scaled to 3 so that "no reference free" is reachable
=============================================================================
