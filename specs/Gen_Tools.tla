---------------------------- MODULE Gen_Tools ----------------------------
EXTENDS Tools, Json, CSV, IOUtils
Ev(o, a, x) == [op |-> o, args |-> a, out |-> x]
AllTargets == {"sds:big2d:first", "sds:big2d:last", "sds:small:first", "sds:unl:last", "sds:chk:mid", "sds:cmp:mid", "sds:chkcmp:last",
               "sds:t_int8:mid", "sds:t_uint8:big", "sds:t_int16:wrap", "sds:t_uint16:mid", "sds:t_int32:mid", "sds:t_uint32:mid",
               "sds:t_float32:mid", "sds:t_float64:last", "sds:t_float32:ulp", "sds:t_float64:ulp", "sds:t_char8:mid", "sds:huge:first", "sds:huge:mid", "sds:huge:last",
               "vdata:table1:first", "vdata:table1:last", "vdata:table2:mid",
               "gr:img:first", "gr:img:last", "gr:img3:comp0", "gr:img3:comp1", "gr:img3:comp2",
               "sdattr:big2d:units", "gattr:title", "added:sds",
               "sdattr:big2d:cal:2", "sdattr:big2d:steps:4", "sdattr:big2d:cal:0hi", "gattr:levels:4", "gattr:levels:0hi", "gattr:origin:1", "gattr:origin:2hi"}
HugeTargets == {"sds:huge:first", "sds:huge:mid", "sds:huge:last", "vdata:table1:first", "sds:big2d:first", "gr:img3:comp1"}
AllDumps == {"sds:big2d", "sds:small", "sds:unl", "sds:chk", "sds:cmp", "gr:img", "gr:img3"}
MixedDumps == {"sds:t_int8", "sds:t_uint8", "sds:t_int16", "sds:t_uint16", "sds:t_int32", "sds:t_uint32", "sds:t_float32", "sds:t_float64", "sds:chkcmp",
               "vd:table1", "vd:table2"}
BigDumps == {"vd:bigtable", "sds:huge"}
AllImports == {"MULTI:FP32+FP64", "MULTI:FP64+FP32", "MULTI:FP32+IN32+FP64", "TEXT:FP32:2", "TEXT:FP32:3", "TEXT:FP64:2", "TEXT:FP64:3", "TEXT:INT32:2", "TEXT:INT32:3", "TEXT:INT16:2", "TEXT:INT16:3",
               "BIN:FP32:2", "BIN:FP32:3", "BIN:FP64:2", "BIN:FP64:3", "BIN:FP64:2:n", "BIN:FP64:3:n", "BIN:IN32:2", "BIN:IN32:3",
               "BIN:IN16:2", "BIN:IN16:3", "BIN:IN08:2", "BIN:IN08:3"}
NoneSet == {}
\* after a mutation: both orders, with every option
DiffAudit == IF mut' = "none" THEN <<>> ELSE
             <<Ev("HDiff", [x |-> "A", y |-> "B", opt |-> ""], [rc |-> 1]), Ev("HDiff", [x |-> "B", y |-> "A", opt |-> ""], [rc |-> 1]),
               Ev("HDiff", [x |-> "B", y |-> "B", opt |-> ""], [rc |-> 0])>>
EmitAudited == (st' # "init" \/ hist' # <<>>) => CSVWrite("%1$s", <<ToJson([spec |-> "Tools", steps |-> hist' \o DiffAudit])>>, IOEnv.GEN_OUT)
EmitFull == (Len(hist') = MaxOps) => EmitAudited
=============================================================================
