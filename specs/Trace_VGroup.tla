---------------------------- MODULE Trace_VGroup ----------------------------
EXTENDS VGroup, TraceBase
VARIABLE l
TReset == st' = "init" /\ vgs' = <<>> /\ vds' = {} /\ ng' = 0 /\ out' = [ret |-> 0] /\ hist' = <<>>
Good(ev) ==
    LET a == ev.args  o == ev.obs IN
       \/ ev.op = "Reset" /\ TReset
       \/ /\ ev.op # "Reset"
          /\ \/ ev.op = "Setup"    /\ Setup(a.nd)
             \/ ev.op = "New"      /\ New
             \/ ev.op = "SetName"  /\ SetName(a.g, a.name)
             \/ ev.op = "SetClass" /\ SetClass(a.g, a.name)
             \/ ev.op = "Add"      /\ Add(a.g, a.m)
             \/ ev.op = "Insert"   /\ Insert(a.g, a.m)
             \/ ev.op = "DelRef"   /\ DelRef(a.g, a.m)
             \/ ev.op = "Detach"   /\ Detach(a.g)
             \/ ev.op = "Attach"   /\ Attach(a.g, a.mode)
             \/ ev.op = "DeleteG"  /\ DeleteG(a.g)
             \/ ev.op = "DeleteD"  /\ DeleteD(a.d)
             \/ ev.op = "Info"     /\ Info(a.g)
             \/ ev.op = "Inq"      /\ Inq(a.g, a.m)
             \/ ev.op = "Lone"     /\ Lone
             \/ ev.op = "Iterate"  /\ Iterate
             \/ ev.op = "Find"     /\ Find(a.name)
             \/ ev.op = "Reopen"   /\ Reopen
             \/ ev.op = "Peek"     /\ Peek
             \/ ev.op = "Reattach" /\ Reattach(a.g, a.mode)
          /\ ObsOK(out', o)
TraceInit == Init /\ l = 1 /\ TLCSet(1, 1)
TraceNext ==
    /\ l <= Len(TraceLog)
    /\ IF ENABLED Good(TraceLog[l])
       THEN Good(TraceLog[l]) /\ l' = l + 1
       ELSE Reject(l) /\ l' = NextReset(l) /\ UNCHANGED vars
TraceSpec == TraceInit /\ [][TraceNext]_<<vars, l>>
TrackL == Track(l)
=============================================================================
