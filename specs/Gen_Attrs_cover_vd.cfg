SPECIFICATION Spec
CONSTANTS
  Objs = {"vd", "vdf1"}
  Names = {"a", "ab"}
  Types = {"i16", "c8"}
  Counts = {1, 3000}
  DimNames = {"x"}
  ScaleTypes = {"i16"}
  MaxAttrs = 2
  MaxAdd = 0
  DataMod = 1
  MaxOps = 100
  KeepHist = TRUE
VIEW view
CONSTRAINT Bound
ACTION_CONSTRAINT EmitAudited
CHECK_DEADLOCK FALSE
