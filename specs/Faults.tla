------------------------------- MODULE Faults -------------------------------
(* One run of a workload program with a fault injected into the k-th underlying stdio call       *)
(* (property C16).  The workload is a sequence of API calls; each either reports failure or not. *)
(*   delivered : a fault has been delivered to the library                                       *)
(*   reported  : some API call so far returned its failure value                                 *)
(* At the end of the run (all handles released, file closed):                                    *)
(*   no crash / hang / invalid memory access, and                                                *)
(*   delivered => reported \/ the files (and the data returned by reads) equal the fault-free run *)
EXTENDS Naturals, TLC

VARIABLES phase, delivered, reported, verdict
fvars == <<phase, delivered, reported, verdict>>

FInit == phase = "idle" /\ delivered = FALSE /\ reported = FALSE /\ verdict = "none"

\* sticky: FALSE (the k-th stdio call fails), TRUE (every call from the k-th on fails), "kind" (every later call of
\* the same stdio function fails: a full disk, an unreadable medium)
Inject(k, sticky, short) ==
    /\ phase' = "running" /\ delivered' = FALSE /\ reported' = FALSE /\ verdict' = "none"

\* an API call of the workload returns; `failed` = it returned its failure value; `hit` = the fault
\* was delivered while it ran
Call(name, failed, hit) ==
    /\ phase = "running"
    /\ delivered' = (delivered \/ hit)
    /\ reported' = (reported \/ failed)
    /\ UNCHANGED <<phase, verdict>>

\* the run is over
Visible(d, r, identical) == d => (r \/ identical)
End(crashed, hung, d, r, identical) ==
    /\ phase = "running"
    /\ ~crashed /\ ~hung                         \* never crashes, hangs or touches invalid memory
    /\ (crashed \/ (d = delivered /\ r = reported)) \* the bookkeeping of the recorder agrees with the calls
    /\ Visible(d, r, identical)                   \* failures are visible, or nothing was lost
    /\ phase' = "idle" /\ verdict' = "ok" /\ UNCHANGED <<delivered, reported>>
=============================================================================
