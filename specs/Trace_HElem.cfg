SPECIFICATION TraceSpec
CONSTANTS
  Keys = {1, 2}
  Aids = {"A1", "A2"}
  MaxLen = 100000
  WriteLens = {1}
  SeekOffs = {0}
  ReadLens = {0}
  BlkCfgs <- BlkC
  NddsSet = {4}
  MaxOps = 1
  DataMod = 15
  SharedGrow = TRUE
  KeepHist = FALSE
INVARIANTS TrackL TypeOK PosnSane ReadsLastWritten
PROPERTIES WriteLocal ReopenKeeps
POSTCONDITION Verdict
CHECK_DEADLOCK FALSE
