SPECIFICATION Spec
CONSTANTS
  SdsWriters = {}
  RasWriters = {"DFR8", "DF24", "GR"}
  Shapes <- ShapesNone
  Types = {}
  RasDims <- RDimsA
  ScaleSets <- ScalesAll
  Grows = {}
  MaxObjs = 8
  MaxOps = 5
  Mix = FALSE
  KeepHist = TRUE
CONSTRAINT Bound
ACTION_CONSTRAINT EmitAudited
CHECK_DEADLOCK FALSE
