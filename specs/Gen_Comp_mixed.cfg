SPECIFICATION Spec
CONSTANTS
  Coders <- CodersAll
  Chunks <- ChunksBig
  SeekOffs = {0, 1, 2, 5, 64, 126, 127, 128, 129, 130, 200, 255, 256, 257, 300}
  ReadNs = {0, 1, 2, 3, 64, 127, 128, 129, 131}
  MaxLen = 900
  MaxOps = 24
  MixedRW = TRUE
  KeepHist = TRUE
ACTION_CONSTRAINT EmitFull
CHECK_DEADLOCK FALSE
