#!/usr/bin/env python3
"""C03 -- SDS hyperslab reads and writes behave as an n-dimensional array (specs/SDArray.tla)."""
import os, sys
sys.path.insert(0, os.path.dirname(os.path.abspath(__file__)))
from common import *


def nofill_unlimited(sig, r, beh):
    """KNOWN FINDING pattern: unlimited dataset in SD_NOFILL mode: after a close/reopen the record count is
    derived from the bytes physically written, so records after a skipped/partly written record are lost"""
    steps = beh["steps"]
    c = steps[0].get("args", {}) if steps and steps[0]["op"] == "Create" else {}
    if c.get("shape") and c["shape"][0] == 0 and c.get("fillmode") is False:
        if r["status"] == "mismatch":
            i = r["mismatch"]["step"]
        elif "rejected_at" in r:
            i = r["rejected_at"]
        else:
            return None
        if any(s["op"] == "Reopen" for s in steps[:i + 1]):
            return {"pattern": "nofill-unlimited-records-lost-after-reopen"}
    return None


def external_unwritten(sig, r, beh):
    """KNOWN FINDING pattern (C04): dataset moved to an external file before it is completely written:
    cells never written are not pre-filled with the fill value (they read as zeros, or the read fails
    because the external file ends before them)"""
    steps = beh["steps"]
    c = steps[0].get("args", {}) if steps and steps[0]["op"] == "Create" else {}
    ly = c.get("layout") or ["contig"]
    if ly[0] != "ext" or not c.get("fillmode"):
        return None
    if r["status"] == "mismatch" and r["mismatch"]["op"] in ("Read",):
        exp = r["mismatch"]["exp"]
        full = steps[r["mismatch"]["step"]].get("out", {})
        if -1000 in (full.get("data") or []):
            return {"pattern": "external-dataset-unwritten-cells-not-filled"}
    if "rejected_at" in r:
        i = r["rejected_at"]
        if 0 <= i < len(steps) and steps[i]["op"] == "Read" and -1000 in (steps[i].get("out", {}).get("data") or []):
            return {"pattern": "external-dataset-unwritten-cells-not-filled"}
    return None


def comp_rewrite_after_read(sig, r, beh):
    """KNOWN FINDING pattern (C04/C05): a non-chunked compressed dataset is rewritten in full through a dataset id
    that has been read from since it was selected"""
    steps = beh["steps"]
    c = steps[0].get("args", {}) if steps and steps[0]["op"] == "Create" else {}
    ly = c.get("layout") or ["contig"]
    if ly[0] not in ("comp", "nbit"):
        return None
    read_seen = False
    for s in steps:
        if s["op"] == "Read":
            read_seen = True
        elif s["op"] == "Reopen":
            read_seen = False
        elif s["op"] == "Write" and read_seen:
            return {"pattern": "compressed-sds-rewritten-after-read"}
    return None


def both(sig, r, beh):
    return nofill_unlimited(sig, r, beh) or external_unwritten(sig, r, beh) or comp_rewrite_after_read(sig, r, beh)


def check(tier, replay, prop="C03"):
    rep = vlib.Report(prop, tier, "model_checking")
    model_flow(prop, tier, replay, spec="Bulk.tla", mods="ops_bulk", trace=("Trace_Bulk.tla", "Trace_Bulk.cfg"), mc=[],
               gens=[("bulk: datasets of 1.1-2.1 MB (fill-chunk loop), first write far from the front, fill on/off; plain, chunked, linked blocks of 64/4096 bytes written in one call", "Gen_Bulk.tla", "Gen_Bulk_sd.cfg", "cover", {})],
               mutators={"BulkVS", "BulkSD", "BulkHL"}, rep=rep, finish=False, part="bulk", tv_quick=1000, drive_timeout=600,
               assumptions=["bulk part (specs/Bulk.tla): parameter sets around the internal staging thresholds; values by formula, every cell read back is compared by the driver"])
    return model_flow(
        prop, tier, replay, rep=rep, spec="SDArray.tla", mods="ops_h,ops_sd", trace=("Trace_SDArray.tla", "Trace_SDArray.cfg"),
        mc=[("MC_SDArray.tla", "MC_SDArray.cfg")],
        gens=[("one behaviour per transition: every (start,stride,count) incl. invalid, ranks 1-2, fixed and unlimited, int32", "Gen_SDArray.tla", "Gen_SDArray_cover.cfg", "cover", {"sample": 30000}),
              ("one behaviour per transition x 9 number types x 3 flavours", "Gen_SDArray.tla", "Gen_SDArray_types.cfg", "cover", {"sample": 20000}),
              ("every history of <= 3 calls after creation (rank 1-2, fixed/unlimited, contiguous / chunked / deflate / 8-byte linked blocks, reopen in between)", "Gen_SDArray.tla", "Gen_SDArray_hist.cfg", "cover", {"sample": 4000}),
              ("simulate depth 16: ranks 1-3, dims <= 5, strides 1-3, all types", "Gen_SDArray.tla", "Gen_SDArray_sim.cfg", "sim", {"num_quick": 60, "num": 1500, "depth": 17, "sample": 4000, "timeout": 4000})],
        mutators={"Create", "Write", "Reopen"}, need_actions=["Info", "Reopen"],
        sig_fn=nofill_unlimited, tv_quick=10000,
        assumptions=["requests with a zero count are not generated (the library treats them as empty and succeeds)",
                     "cells left unconstrained (no-fill mode, cells reached by a refused request) are never read back",
                     "refused requests on unlimited datasets are only generated when refused before any I/O (negative start)",
                     "ranks 1..3 (rank 0 and the 32-dimension limit are C20's business); fill value set before the first write or not at all"])


if __name__ == "__main__":
    vlib.main_wrapper(check)
