#!/usr/bin/env python3
"""C06 -- number-type conversion is exact, byte-order-correct and mode-independent (specs/Conv.tla).

The specification defines conversion as a byte permutation per (size, flavour) and the effect of
DFKconvert on buffers (strides, in place, bytes between elements untouched); TLC checks the algebra
(involution, in-place = between buffers, file order per flavour).  TLC generates every single call over
sizes x flavours x directions x counts x strides (position-coded buffers; all number types of a size are
run); value-independence is established by sweeps: every bit pattern of the 8- and 16-bit types, and the
32-bit space in blocks of 2^20 values (quick: 24 blocks; thorough: the whole 2^32 space for the swapping
flavour in all three modes), 64-bit structured patterns (exponent/mantissa boundaries, NaN payloads,
denormals) -- each sweep observes the permutation on a probe and requires every value to obey it and
to round-trip; the sweep records are validated against the specification by TLC."""
import os, sys, random
sys.path.insert(0, os.path.dirname(os.path.abspath(__file__)))
from common import *


def sweeps(tier):
    def f():
        rnd = random.Random(vlib.seed())
        B = []
        blocks32 = list(range(4096)) if tier == "thorough" else sorted(set([0, 1, 2047, 2048, 4095] + [rnd.randrange(4096) for _ in range(19)]))
        for blk in blocks32:
            for mode in ("contig", "strided", "inplace"):
                for d in ("out", "in"):
                    if tier != "thorough" and (blk + len(mode) + len(d)) % 3:
                        continue
                    B.append({"spec": "Conv", "steps": [{"op": "Sweep", "args": {"dir": d, "flavour": "std", "size": 4, "mode": mode, "block": blk}}]})
        for fl in ("le", "native"):
            for blk in blocks32[:64 if tier == "thorough" else 6]:
                for mode in ("contig", "strided", "inplace"):
                    B.append({"spec": "Conv", "steps": [{"op": "Sweep", "args": {"dir": "out", "flavour": fl, "size": 4, "mode": mode, "block": blk}}]})
        for blk in range(64 if tier == "thorough" else 4):
            for fl in ("std", "le", "native"):
                for mode in ("contig", "strided", "inplace"):
                    B.append({"spec": "Conv", "steps": [{"op": "Sweep", "args": {"dir": "out", "flavour": fl, "size": 8, "mode": mode, "block": blk}}]})
        return {"value sweeps (2^20 32-bit values per block; structured 64-bit patterns)": B}
    return f


def check(tier, replay):
    return model_flow(
        "C06", tier, replay, spec="Conv.tla", mods="ops_h,ops_conv", trace=("Trace_Conv.tla", "Trace_Conv.cfg"),
        mc=[("Conv.tla", "MC_Conv.cfg")],
        gens=[("every single DFKconvert call: sizes x flavours x directions x counts x strides (+ full 8/16-bit sweeps)", "Gen_Conv.tla", "Gen_Conv_cover.cfg", "cover", {})],
        mutators={"Conv1", "Conv1g", "Conv2", "Sweep"}, need_actions=["Conv2", "Conv1", "Conv1g", "Sweep"],
        extra_behs=sweeps(tier), compare=False, tv_quick=100000, drive_timeout=300,
        assumptions=["little-endian host (the permutation table of the specification is the one for this host)",
                     "a zero stride means 'contiguous' only when given for both source and destination; counts >= 1",
                     "file-level agreement across APIs under each flavour is exercised by C03 (flavours) and C15"])


if __name__ == "__main__":
    vlib.main_wrapper(check)
