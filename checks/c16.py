#!/usr/bin/env python3
"""C16 -- I/O failures are reported, never silently swallowed, never corrupt memory.

harness/faultenum.py fails the k-th stdio call of each workload for EVERY k (single / sticky, hard /
short count), each run in a forked child under ASan; TLC (Trace_Faults over specs/Faults.tla) judges
every run: no crash/hang, and a delivered fault is either reported by some API call or leaves files
and read results identical to the fault-free run."""
import os, sys, json, subprocess, time
sys.path.insert(0, os.path.dirname(os.path.abspath(__file__)))
from common import *

PROP = "C16"


def check(tier, replay):
    rep = vlib.Report(PROP, tier, "fault_enumeration")
    work = vlib.Work(PROP)
    lib, tb = vlib.build_lib(work)
    outp = work.path("fi.json")
    env = dict(os.environ, LD_PRELOAD=vlib.asan_so(), ASAN_OPTIONS="detect_leaks=0:abort_on_error=0:exitcode=86:allocator_may_return_null=1",
               TMPDIR=work.sub("scratch"))
    cmd = [sys.executable, os.path.join(vlib.VERIF, "harness", "faultenum.py"), "--lib", lib, "--out", outp, "--tier", tier]
    want = None
    if replay:
        want = json.load(open(replay))["replay"]
        cmd += ["--only", want["workload"]]
    t = time.time()
    p = subprocess.run(cmd, capture_output=True, text=True, env=env, timeout=6000)
    if not os.path.exists(outp):
        raise InfraError("faultenum failed: " + (p.stdout + p.stderr)[-2000:])
    tenum = time.time() - t
    runs = json.load(open(outp))
    results, info = [], {}
    rid = 0
    per = {}
    for w in runs:
        if "error" in w:
            raise InfraError("fault enumeration of %s: %s" % (w["workload"], w["error"][:1500]))
        per[w["workload"]] = {"stdio_calls": w["ncalls"], "runs": len(w["runs"])}
        for r in w["runs"]:
            if want and not (r["k"] == want["k"] and r["sticky"] == want["sticky"] and r["short"] == want["short"]):
                continue
            results.append({"id": rid, "trace": r["events"]})
            info[rid] = (w["workload"], r)
            rid += 1
    acc, rej = vlib.tlc_validate(work, "Trace_Faults.tla", "Trace_Faults.cfg", results, timeout=3000)
    for x in rej:
        wl, r = info[x["id"]]
        if "crash" in r:
            sig = {"outcome": "crash", "error": r["crash"]["error"], "site": r["crash"]["site"]}
        else:
            end = r["events"][-1]["obs"]
            if end["delivered"] and not end["reported"] and not end["identical"]:
                sig = {"outcome": "silent", "workload": wl, "during": (r.get("during") or ["?"])[0], "io": r.get("io")}
            else:
                sig = {"outcome": "inconsistent-record", "workload": wl}
        rep.violation(sig, {"workload": wl, "k": r["k"], "sticky": r["sticky"], "short": r["short"],
                            "stderr": r.get("stderr", "")[:800], "during": r.get("during")})
        if replay:
            print(json.dumps({"sig": sig, "stderr": r.get("stderr", "")[:1200]})[:2500])
    nruns = len(results)
    rep.cov.update({
        "evaluations": nruns, "distinct_nontrivial": nruns,
        "rule": "one evaluation = one run of a workload with the k-th stdio call failing (all k of the fault-free run; single and sticky; "
                "hard failure and short count); runs are distinct by (workload,k,sticky,short) and all non-trivial (a fault is delivered)",
        "workloads": per, "traces_validated_against_impl": acc,
        "samples": [results[0]["trace"][:6] if results else [], results[len(results) // 2]["trace"][:6] if results else []],
        "exhaustive": tier == "thorough",
        "timing_s": {"build": round(tb, 1), "enumerate": round(tenum, 1)},
    })
    rep.assumptions += ["a failing fclose/fflush discards the buffered bytes (as ENOSPC at close does); ftell is not faulted",
                        "'identical' = every file of the scratch directory byte-identical to the fault-free run AND every buffer returned by a read call identical",
                        "quick tier: every k of every workload, single and sticky hard failures; short counts only for the seven core workloads; thorough: short counts for all"]
    return rep.finish()


if __name__ == "__main__":
    vlib.main_wrapper(check)
