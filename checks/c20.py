#!/usr/bin/env python3
"""C20 -- format limits are enforced cleanly: no wrap-around, no over-long objects (specs/Limits.tla)."""
import os, sys
sys.path.insert(0, os.path.dirname(os.path.abspath(__file__)))
from common import *


def check(tier, replay):
    return model_flow(
        "C20", tier, replay, spec="Limits.tla", mods="ops_lim", trace=("Trace_Limits.tla", "Trace_Limits.cfg"),
        mc=[("Limits.tla", "MC_Limits.cfg")],
        gens=[("one behaviour per transition: reservations of ~1 GiB (never written) and 64 KiB appends around the 2^31-1 byte ceiling", "Gen_Limits.tla", "Gen_Limits_cover_space.cfg", "cover", {"sample": 500}),
              ("vgroup members to 65535 and beyond, 1..300 fields, field orders x sizes around 65535, record sizes, ranks 1..40; every pair of requests", "Gen_Limits.tla", "Gen_Limits_cover_counts.cfg", "cover", {"sample": 300}),
              ("names of 1..70000 characters for 12 kinds of name (vdata, class, field, vgroup, image, attributes, dataset, dimension, external files)", "Gen_Limits.tla", "Gen_Limits_cover_names.cfg", "cover", {}),
              ("simulate depth 12 over everything", "Gen_Limits.tla", "Gen_Limits_sim.cfg", "sim", {"num_quick": 150, "num": 3000, "depth": 12})],
        mutators={"Reserve", "AppendBig", "SeekAppend", "AddMembers", "Fields", "Order", "RecSize", "Rank", "SetName"},
        need_actions=["Setup", "Probe"],
        tv_quick=3000, drive_timeout=300,
        assumptions=["sizes are counted in KiB; generated requests never sum to within 8 KiB of 2^31 bytes (file header and descriptor blocks are not modelled)",
                     "reserved elements are never written (sparse files); the 64 KiB appends write real data",
                     "a name longer than what its interface stores may be refused or come back as a proper prefix ('cut'); within the limit it comes back whole ('kept'); readers use the length inquiry where one exists",
                     "the library does not limit the number of open files (40 opened): not modelled as a limit",
                     "the 65535-references-per-tag limit is C12's subject (HDir reference-space scenarios)"])


if __name__ == "__main__":
    vlib.main_wrapper(check)
