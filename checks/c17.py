#!/usr/bin/env python3
"""C17 -- a crash while adding objects never damages what was already in the file.

 1. design: TLC checks specs/HDisk.tla (write ordering of an append-only session with DD caching on;
    every state is a crash point): CrashSafe / Durable / AppendOnly.  The same model with the ORIGINAL
    HTInew_dd_block ordering (WriteAtCreate = FALSE) must VIOLATE CrashSafe (the check is not vacuous).
 2. enumeration on the code: harness/crashcut.py records the physical writes of each append-only
    workload and materialises EVERY prefix; each image is reopened by the real library (ASan) and by the
    independent reader and every previously stored object compared.
 3. TLC (Trace_HDiskLog) judges the recorded log: writes before the flush lie beyond the logical end at
    open; every cut (inside the flush too for metadata-preserving workloads) opens with old objects intact."""
import os, sys, json, subprocess, time
sys.path.insert(0, os.path.dirname(os.path.abspath(__file__)))
from common import *

PROP = "C17"


def check(tier, replay):
    rep = vlib.Report(PROP, tier, "fault_enumeration")
    work = vlib.Work(PROP)
    lib, tb = vlib.build_lib(work)
    only = ""
    if replay:
        only = json.load(open(replay))["replay"]["workload"]
    # 1. design
    mc = vlib.tlc_check(work, "HDisk.tla", "MC_HDisk.cfg", workers=4, timeout=600)
    rc, out = vlib.run_tlc(work, "HDisk.tla", "MC_HDisk_orig.cfg", workers=4, timeout=600)
    if "Invariant CrashSafe is violated" not in out:
        raise InfraError("HDisk with the original ordering no longer violates CrashSafe: the model lost its teeth")
    # 2. enumeration
    outp = work.path("cc.json")
    env = dict(os.environ, LD_PRELOAD=vlib.asan_so(), ASAN_OPTIONS="detect_leaks=0:abort_on_error=0:exitcode=86", TMPDIR=work.sub("scratch"))
    cmd = [sys.executable, os.path.join(vlib.VERIF, "harness", "crashcut.py"), "--lib", lib, "--out", outp, "--tier", tier]
    if only:
        cmd += ["--only", only]
    t = time.time()
    p = subprocess.run(cmd, capture_output=True, text=True, env=env, timeout=3000)
    if not os.path.exists(outp):
        raise InfraError("crashcut failed: " + (p.stdout + p.stderr)[-2000:])
    runs = json.load(open(outp))
    tenum = time.time() - t
    results = []
    ncuts = nwrites = 0
    for i, r in enumerate(runs):
        if "error" in r:
            if "died" in r["error"]:
                rep.violation({"kind": "crash-in-session", "workload": r["workload"]}, {"workload": r["workload"]})
                continue
            raise InfraError("crashcut harness error in %s: %s %s" % (r["workload"], r["error"], r.get("tb", "")[-800:]))
        tr = [e for e in r["events"] if e["op"] != "Reset"]
        results.append({"id": i, "trace": tr, "workload": r["workload"], "bad_cuts": r["bad_cuts"]})
        ncuts += sum(1 for e in tr if e["op"] == "Cut")
        nwrites += r["nwrites"]
    acc, rej = vlib.tlc_validate(work, "Trace_HDiskLog.tla", "Trace_HDiskLog.cfg", results, shards=min(16, len(results) or 1))
    for r in rej:
        ev = r["trace"][r["rejected_at"]] if 0 <= r["rejected_at"] < len(r["trace"]) else {}
        inflush = any(e["op"] == "FlushBegin" for e in r["trace"][:r["rejected_at"]])
        sig = {"kind": "rejected", "workload": r["workload"], "op": ev.get("op"), "in_flush": inflush}
        if ev.get("op") == "Cut":
            sig["obs"] = ev.get("obs")
        rep.violation(sig, {"workload": r["workload"], "event": ev, "bad_cuts": r["bad_cuts"][:5]})
    if replay:
        for r in results:
            print(json.dumps({"workload": r["workload"], "bad_cuts": r["bad_cuts"][:10]})[:2000])
    rep.cov.update({
        "evaluations": ncuts, "distinct_nontrivial": ncuts,
        "rule": "one evaluation = one crash image (prefix of the ordered physical-write log of an append-only session), "
                "reopened by the library and the independent reader; all prefixes of every workload are enumerated; "
                "every image is distinct (different prefix) and non-trivial (compared object by object with the pre-session dump)",
        "workloads": {r["workload"]: {"writes": sum(1 for e in r["trace"] if e["op"] == "Write"),
                                      "cuts": sum(1 for e in r["trace"] if e["op"] == "Cut")} for r in results},
        "physical_writes": nwrites, "traces_validated_against_impl": acc,
        "states": mc["stats"]["distinct_states"], "transitions": mc["stats"]["states_generated"],
        "samples": [r["trace"][:8] for r in results[:2]],
        "exhaustive": True,
        "design_model": "HDisk.tla: repaired ordering satisfies CrashSafe; original ordering violates it (checked on every run)",
        "timing_s": {"build": round(tb, 1), "enumerate": round(tenum, 1)},
    })
    rep.assumptions += ["each library-level fwrite is atomic and ordered (as the property states)",
                        "reader errors about objects of the interrupted session (SPECIAL/VH/VG/BOUNDS of new descriptors) are not counted; MAGIC/CHAIN/DUP are",
                        "clause 2 (safe inside the flush) is claimed for H elements, linked-block elements, new Vdatas/Vgroups; SDS/GR/AN sessions replace metadata at the flush (clause 1 only)"]
    return rep.finish()


if __name__ == "__main__":
    vlib.main_wrapper(check)
