#!/usr/bin/env python3
"""C11 -- annotations stay attached to their objects and keep their text (specs/Annot.tla)."""
import os, sys
sys.path.insert(0, os.path.dirname(os.path.abspath(__file__)))
from common import *


def check(tier, replay):
    return model_flow(
        "C11", tier, replay, spec="Annot.tla", mods="ops_an", trace=("Trace_Annot.tla", "Trace_Annot.cfg"),
        mc=[("Annot.tla", "MC_Annot.cfg")],
        gens=[("one behaviour per transition: <= 3 annotations of 4 kinds on 2 objects, create/rewrite (longer, shorter) through AN, put/add/get through DFAN, both session kinds", "Gen_Annot.tla", "Gen_Annot_cover.cfg", "cover", {"sample": 8000}),
              ("the same with 3 objects (two tags), texts of 1 / 300 / 70000 bytes", "Gen_Annot.tla", "Gen_Annot_cover3.cfg", "cover", {"sample": 4000}),
              ("every history of <= 5 calls after setup (one object)", "Gen_Annot.tla", "Gen_Annot_hist.cfg", "cover", {"sample": 6000}),
              ("simulate depth 18: <= 12 annotations, 3 objects", "Gen_Annot.tla", "Gen_Annot_sim.cfg", "sim", {"num_quick": 1500, "num": 30000, "depth": 18}),
              ("simulate depth 70: up to 60 annotations on 2 objects", "Gen_Annot.tla", "Gen_Annot_simmany.cfg", "sim", {"num_quick": 150, "num": 3000, "depth": 70})],
        mutators={"Create", "Rewrite", "DfPut", "DfOther", "DfAddFile", "ToDF", "ToAN"},
        need_actions=["Setup", "FileInfo", "ToDF", "ToAN"],
        tv_quick=6000, drive_timeout=120,
        assumptions=["texts are named by (length, seed); labels contain no NUL byte, descriptions contain every byte value",
                     "which index / list position designates which annotation is the library's choice: the driver identifies every annotation by the tag/ref it was created with and reports in order of creation; ANselect over all indices must designate each created annotation exactly once",
                     "the two interfaces are used in separate sessions on the file (DFANclear between them)",
                     "DFANputlabel/DFANputdesc on an object that already has several annotations of the kind is not generated; DFANgetlabel/DFANgetdesc must return one of them",
                     "annotation refs come from a fresh file without deletions"])


if __name__ == "__main__":
    vlib.main_wrapper(check)
