#!/usr/bin/env python3
"""C15 -- all interfaces agree on the content of the same objects (specs/Interop.tla)."""
import os, sys, glob
sys.path.insert(0, os.path.dirname(os.path.abspath(__file__)))
from common import *

REPO = os.environ.get("VERIF_REPO", "/repo")


def legacy_behs():
    files = []
    for pat in ("hdf/test/test_files/*", "hdf/util/testfiles/*", "hdf/util/testfiles/fp2hdf/*", "mfhdf/test/*.nc", "mfhdf/test/*.dat", "mfhdf/test/*.hdf",
                "mfhdf/hdp/testfiles/*.hdf", "mfhdf/hdiff/testfiles/*.hdf", "mfhdf/hdfimport/*.hdf", "HDF4Examples/C/*/testfiles/*.h*"):
        files += sorted(glob.glob(os.path.join(REPO, pat)))
    files = [f for f in files if os.path.isfile(f) and os.path.splitext(f)[1] in (".hdf", ".dat", ".nc", ".h4") and os.path.getsize(f) < 30000000]
    return {"checked-in files in the older storage conventions, old interfaces against new (%d files)" % len(files):
            [{"spec": "Interop", "steps": [{"op": "Legacy", "args": {"file": f}, "out": {"agree": True}}]} for f in files]}


def patterns(sig, r, beh):
    """KNOWN FINDING patterns"""
    steps = beh["steps"]
    m = r.get("mismatch") if r.get("status") == "mismatch" else None
    if not m:
        return None
    if m["op"] == "Legacy":
        why = (r["trace"][m["step"]]["obs"].get("why") or []) if r.get("trace") else []
        base = os.path.basename(steps[m["step"]]["args"]["file"])
        if why and all(w.startswith("DFR8/DF24 shows image") and ", 3, '" in w for w in why):
            return {"pattern": "gr-reads-legacy-interlaced-24bit-image-unconverted"}
        if why and all(w.startswith("DFSD shows") or w.startswith("SD shows") for w in why):
            return {"pattern": "legacy-file-dataset-disagreement", "file": base}
        return {"pattern": "legacy-file-disagreement", "file": base}
    at = steps[m["step"]]
    before = steps[:m["step"]]
    # ("DFSDS" = the DFSD interface writing by hyperslabs: the same writer family)
    sw = [("DFSD" if s["args"]["api"] == "DFSDS" else s["args"]["api"]) for s in before if s["op"] == "WriteSds"]
    rw = [(s["args"]["api"], s["args"]["il"]) for s in before if s["op"] == "WriteRas"]
    r8special = any(s["op"] == "WriteRas" and s["args"]["api"] == "DFR8" and (s["args"]["pal"] != 0 or s["args"]["comp"] == "rle") for s in before)
    # (a) a dataset added by DFSD to a file that has SD structure is invisible to SD / NC
    if m["op"] in ("ListSds", "ListSdsNc") and at["args"].get("api", "NC") in ("SD", "NC") and "DFSD" in sw and any(x in ("SD", "NC") for x in sw[:len(sw) - 1 - sw[::-1].index("DFSD")]):
        return {"pattern": "dfsd-dataset-added-to-sd-file-invisible-to-sd"}
    # (b) SD cannot add a dataset to a file written by DFSD (SDend fails)
    if m["op"] == "WriteSds" and at["args"]["api"] == "SD" and "DFSD" in sw and m["obs"].get("ret") == -1:
        return {"pattern": "sd-cannot-add-to-dfsd-file"}
    if m["op"] in ("ListSds", "ListSdsNc") and "DFSD" in sw and any(sw[i] == "SD" and "DFSD" in sw[:i] for i in range(len(sw))):
        return {"pattern": "sd-cannot-add-to-dfsd-file"}
    if m["op"] == "VViews" and "DFSD" in sw and "SD" in sw:
        return {"pattern": "sd-cannot-add-to-dfsd-file"}
    # (c) GR hands out legacy 24-bit images stored line/plane interlaced without converting them
    if m["op"] == "ListRas" and at["args"]["api"] == "GR" and any(w == "DF24" and il != 0 for (w, il) in rw):
        return {"pattern": "gr-reads-legacy-interlaced-24bit-image-unconverted"}
    return None


def check(tier, replay):
    return model_flow(
        "C15", tier, replay, spec="Interop.tla", mods="ops_io", trace=("Trace_Interop.tla", "Trace_Interop.cfg"),
        mc=[("MC_Interop.tla", "MC_Interop.cfg")],
        gens=[("every sequence of <= 2 dataset writes through DFSD / SD / NC (10 number types, ranks 1-3) with listings through all three in between", "Gen_Interop.tla", "Gen_Interop_pairs_sds.cfg", "cover", {"sample": 3000}),
              ("every sequence of <= 2 raster writes through DFR8 (plain/RLE, palette) / DF24 (3 interlaces) / GR (1 and 3 components, 3 interlaces, RLE/deflate, palette) with listings through all three", "Gen_Interop.tla", "Gen_Interop_pairs_ras.cfg", "cover", {"sample": 3000}),
              ("every sequence of <= 3 dataset writes within one writer family", "Gen_Interop.tla", "Gen_Interop_clear_sds.cfg", "cover", {"sample": 3000}),
              ("every sequence of <= 2 dataset writes through DFSD / SD with dimension scales on every subset of the dimensions and with an unlimited first dimension (SD)", "Gen_Interop.tla", "Gen_Interop_scales_sds.cfg", "cover", {"sample": 2500}),
              ("datasets with an unlimited dimension gaining 1 or 3 records in later sessions that do nothing else (SD), next to a second dataset, listed through SD and DFSD after every step", "Gen_Interop.tla", "Gen_Interop_grow_sds.cfg", "cover", {"sample": 2500}),
              ("every sequence of <= 3 raster writes clear of the combinations with known findings", "Gen_Interop.tla", "Gen_Interop_clear_ras.cfg", "cover", {"sample": 3000}),
              ("simulate depth 10 (clear combinations; rasters up to 130 pixels wide)", "Gen_Interop.tla", "Gen_Interop_sim.cfg", "sim", {"num_quick": 500, "num": 10000, "depth": 10}),
              ("simulate depth 10 (anything goes)", "Gen_Interop.tla", "Gen_Interop_simmix.cfg", "sim", {"num_quick": 300, "num": 5000, "depth": 10})],
        extra_behs=legacy_behs,
        mutators={"WriteSds", "WriteRas", "Legacy"}, need_actions=["Setup", "ListSdsNc", "VViews"],
        tv_quick=6000, sig_fn=patterns, drive_timeout=180,
        assumptions=["content = (shape, number type, seed); a reader's listing is the set of objects it shows whose values are the formula's, ordered by seed; what else a reader shows (dimension variables presented as datasets) is counted, not judged",
                     "the netCDF-style calls of this library can create a file but not extend one: NC writes first; the NC reader reports element size and float/integer, not the HDF number type",
                     "DFR8 / DF24 address the images of their kind written by the legacy writers; raster groups written by GR are not listed by them (specs/Interop.tla VisibleTo)",
                     "annotations: DFAN against AN is C11's subject (both directions, separate sessions)",
                     "JPEG and IMCOMP are excluded (lossy)"])


if __name__ == "__main__":
    vlib.main_wrapper(check)
