"""helpers shared by the per-property check scripts"""
import os, sys, json, random, hashlib
sys.path.insert(0, os.path.join(os.path.dirname(os.path.abspath(__file__)), "..", "lib"))
import vlib
from vlib import InfraError


def load_gen(behs):
    """generator lines are JSON strings (CSVWrite quotes them) or objects"""
    out = []
    for b in behs:
        if isinstance(b, str):
            b = json.loads(b)
        out.append(b)
    return out


def sample(behs, n, salt=0):
    if len(behs) <= n:
        return list(behs)
    rnd = random.Random(vlib.seed() * 1000003 + salt)
    return rnd.sample(behs, n)


def number(behs, start=0):
    for i, b in enumerate(behs):
        b["id"] = start + i
    return behs


def nontrivial(b, mutators):
    """a behaviour is non-trivial when it contains at least one state-changing call after the first
    and at least one compared observation"""
    ops = [s["op"] for s in b["steps"]]
    return any(o in mutators for o in ops[1:]) and any("out" in s for s in b["steps"])


def confirm(work, lib, beh, mods, validate=None):
    """re-run one failing behaviour in isolation; returns the new result"""
    b = dict(beh)
    r = vlib.drive(work, lib, [b], mods=mods, jobs=1, tag="confirm")[0]
    return r


def sig_of(res, beh=None):
    """signature of a failure, used for known-findings matching and de-duplication"""
    if res["status"] == "mismatch":
        m = res["mismatch"]
        prev = [e["op"] for e in res["trace"][:m["step"]]]
        return {"kind": "mismatch", "op": m["op"], "keys": m["keys"], "after": prev[-3:]}
    if res["status"] == "crash":
        st = res.get("stderr", "")
        import re
        m = re.search(r"ERROR: \w+: ([\w-]+)", st)
        f = re.search(r"#\d+ \S+ in (\w+) /repo/(\S+?):\d+", st)
        return {"kind": "crash", "error": m.group(1) if m else "signal %s" % res.get("signal"),
                "site": (f.group(1) if f else "?"), "op": (res.get("at_op") or {}).get("op")}
    if res["status"] == "timeout":
        return {"kind": "timeout", "op": (res.get("at_op") or {}).get("op")}
    if "rejected_at" in res:
        i = res["rejected_at"]
        ev = res["trace"][i] if 0 <= i < len(res["trace"]) else {}
        return {"kind": "rejected", "op": ev.get("op"), "after": [e["op"] for e in res["trace"][max(0, i - 3):i]]}
    return {"kind": res["status"]}


def model_flow(prop, tier, replay, *, spec, mods, trace, mc, gens, mutators, extra_behs=None, assumptions=(),
               need_actions=(), level="model_checking", samples_from=None, tv_quick=6000, drive_timeout=60,
               post=None, sig_fn=None, compare=True, rep=None, finish=True, part=None):
    """the common flow of a model-based check:
       mc    : list of (module, cfg) design checks
       gens  : list of (label, module, cfg, mode, opts) ; opts: num, depth, sample (quick-tier sample size),
               thorough_only, timeout
       trace : (module, cfg) of the trace specification
       extra_behs: function() -> {label: [behaviours]} generated outside TLC (judged by the trace spec)
       post  : function(rep, work, lib, behs, results) for property-specific extras"""
    rep = rep or vlib.Report(prop, tier, level)
    work = getattr(rep, "work", None) or vlib.Work(prop)
    rep.work = work
    quick = tier != "thorough"
    if getattr(rep, "lib", None):
        lib, tbuild = rep.lib, 0.0
    else:
        lib, tbuild = vlib.build_lib(work)
        rep.lib = lib
    if replay and part and json.load(open(replay))["replay"].get("spec") not in (None, spec.replace(".tla", "")):
        return 0
    if replay:
        d = json.load(open(replay))
        beh = d["replay"]
        if not compare:
            beh = {"id": beh.get("id", 0), "spec": beh["spec"], "steps": [{"op": s["op"], "args": s.get("args", {})} for s in beh["steps"]]}
        r = vlib.drive(work, lib, [beh], mods=mods, jobs=1)[0]
        rej = []
        if r["status"] == "ok":
            acc, rej = vlib.tlc_validate(work, trace[0], trace[1], [r], shards=1)
        bad = r["status"] != "ok" or rej
        print(json.dumps({"status": r["status"], "mismatch": r.get("mismatch"), "stderr": r.get("stderr"),
                          "trace_rejected_at": (rej[0].get("rejected_at") if rej else None)}, indent=1)[:3000])
        if bad:
            print("VIOLATION property=%s replay=%s" % (prop, replay))
        return 1 if bad else 0

    import time
    states = trans = 0
    mccov = {}
    for ent in mc:
        m, c = ent[0], ent[1]
        if len(ent) > 2 and ((ent[2] == "thorough" and quick) or (ent[2] == "quick" and not quick)):
            continue
        cfgname = c
        r = vlib.tlc_check(work, m, cfgname, timeout=3000)
        states += r["stats"]["distinct_states"]
        trans += r["stats"]["states_generated"]
        for k, v in r["coverage"].items():
            mccov[k] = mccov.get(k, 0) + v[1]
    missing = [a for a in need_actions if mccov.get(a, 0) == 0]
    if missing:
        raise InfraError("vacuous model: actions never taken in any design check: %s" % missing)
    glist = {}
    todo = []
    for g in gens:
        o = g[4] if len(g) > 4 else {}
        if o.get("thorough_only") and quick:
            continue
        if o.get("quick_only") and not quick:
            continue
        todo.append((len(todo), g, o))

    def gen_one(item):
        i, g, o = item
        return vlib.tlc_generate(work, g[1], g[2], work.path("gen_%d.ndjson" % i), mode=g[3],
                                 num=(o.get("num_quick", 1000) if quick else o.get("num", 20000)),
                                 depth=o.get("depth", 25), timeout=o.get("timeout", 2400), sd=vlib.seed() + i)
    from concurrent.futures import ThreadPoolExecutor
    with ThreadPoolExecutor(max_workers=6) as ex:
        outs = list(ex.map(gen_one, todo))
    # generator output stays unparsed (one JSON string per behaviour) until its chunk is processed: a thorough tier
    # holds 10^5..10^6 behaviours, and parsed behaviours + results + traces of all of them at once need tens of GB
    for (i, g, o), (b, st, _) in zip(todo, outs):
        label = g[0]
        if quick and o.get("sample") and len(b) > o["sample"]:
            b = sample(b, o["sample"], i)
            label += " (sample of %d)" % st["states_generated"]
        glist[label] = b
    if extra_behs:
        for k, v in extra_behs().items():
            glist[k] = v
    items = []
    for k, v in glist.items():
        items += v
    CH = len(items) if quick else 40000
    tot = {"n": 0, "res": 0, "ok": 0, "acc": 0}
    ntkeys = set()
    seen = set()
    samples = []
    tdrive = tval = 0.0
    behs, res = [], []
    for c0 in range(0, max(len(items), 1), max(CH, 1)):
        behs = number(load_gen(items[c0:c0 + CH]), c0)
        if not behs:
            break
        byid = {b["id"]: b for b in behs}
        t = time.time()
        dbehs = behs
        if not compare:    # values are the implementation's choice: the trace specification is the only judge
            dbehs = [{"id": b["id"], "spec": b["spec"], "steps": [{"op": s["op"], "args": s.get("args", {})} for s in b["steps"]]} for b in behs]
        res = vlib.drive(work, lib, dbehs, mods=mods, timeout=drive_timeout)
        del dbehs
        tdrive += time.time() - t
        bad = [r for r in res if r["status"] != "ok"]
        okres = [r for r in res if r["status"] == "ok"]
        if quick:
            # behaviours that carry no expected outputs (hand-written extras) are judged by the trace specification
            # alone: they are always validated; the others are sampled
            must = [r for r in okres if not any("out" in st for st in byid[r["id"]]["steps"])]
            mids = set(r["id"] for r in must)
            tv = must + sample([r for r in okres if r["id"] not in mids], tv_quick, 99)
        else:
            tv = okres
        t = time.time()
        acc, rej = vlib.tlc_validate(work, trace[0], trace[1], tv, timeout=3000)
        tval += time.time() - t
        for r in bad + rej:
            beh = byid[r["id"]]
            sig = sig_of(r)
            if sig_fn:
                sig = sig_fn(sig, r, beh) or sig
            key = json.dumps(sig, sort_keys=True)
            if key in seen:
                continue
            seen.add(key)
            r2 = confirm(work, lib, beh if compare else {"id": beh["id"], "spec": beh["spec"], "steps": [{"op": s["op"], "args": s.get("args", {})} for s in beh["steps"]]}, mods)
            again = r2["status"] != "ok"
            if not again and "rejected_at" in r:
                a, rj = vlib.tlc_validate(work, trace[0], trace[1], [r2], shards=1, tag="cf")
                again = bool(rj)
            if again:
                rep.violation(sig, beh)
        tot["n"] += len(behs)
        tot["res"] += len(res)
        tot["ok"] += len(okres)
        tot["acc"] += acc
        ntkeys.update(vlib.beh_key(b) for b in behs if nontrivial(b, mutators))
        if not samples:
            samples = [behs[0]["steps"][:6], behs[len(behs) // 2]["steps"][:10]]
        last = behs[-1]["steps"][:10]
        del tv, okres, bad, rej, byid
    nbehs, nres, nok, acc = tot["n"], tot["res"], tot["ok"], tot["acc"]
    nt = ntkeys
    cov = {
        "states": states, "transitions": trans, "traces_validated_against_impl": acc,
        "evaluations": nbehs, "distinct_nontrivial": len(nt),
        "behaviours_replayed": nres, "replay_ok": nok,
        "generators": {k: len(v) for k, v in glist.items()},
        "rule": "behaviours generated by TLC from specs/%s (transition cover / bounded-exhaustive histories with an audit epilogue / "
                "-simulate) and replayed on the library built from /repo under ASan; distinct = hash of the (op,args) sequence; "
                "non-trivial = at least one state-changing call after the first and one compared observation" % spec,
        "samples": (samples + [last]) if samples else [[], [], []],
        "exhaustive": True,
        "checker_cmd": "tlc %s ; tlc Gen ; harness/drive.py ; tlc %s" % (", ".join(e[1] for e in mc), trace[0]),
        "trusted_base": ["TLC", "harness/drive.py + %s (ctypes call table)" % mods, "ASan/UBSan runtime"],
        "mc_coverage": mccov,
        "timing_s": {"build": round(tbuild, 1), "drive": round(tdrive, 1), "validate": round(tval, 1)},
    }
    if part:
        rep.cov.setdefault("parts", {})[part] = cov
        for k in ("states", "transitions", "traces_validated_against_impl", "evaluations", "distinct_nontrivial"):
            rep.cov[k] = rep.cov.get(k, 0) + cov[k]
        rep.cov.setdefault("samples", [])
        rep.cov["samples"] += cov["samples"][:2]
        rep.cov["rule"] = cov["rule"]
        rep.cov["exhaustive"] = True
    else:
        rep.cov.update(cov)
    rep.assumptions += list(assumptions)
    if post:
        post(rep, work, lib, behs, res)
    return rep.finish() if finish else 0
