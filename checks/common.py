"""helpers shared by the per-property check scripts"""
import os, sys, json, random, hashlib
sys.path.insert(0, os.path.join(os.path.dirname(os.path.abspath(__file__)), "..", "lib"))
import vlib
from vlib import InfraError


def load_gen(behs):
    """generator lines are JSON strings (CSVWrite quotes them) or objects"""
    out = []
    for b in behs:
        if isinstance(b, str):
            b = json.loads(b)
        out.append(b)
    return out


def sample(behs, n, salt=0):
    if len(behs) <= n:
        return list(behs)
    rnd = random.Random(vlib.seed() * 1000003 + salt)
    return rnd.sample(behs, n)


def number(behs, start=0):
    for i, b in enumerate(behs):
        b["id"] = start + i
    return behs


def nontrivial(b, mutators):
    """a behaviour is non-trivial when it contains at least one state-changing call after the first
    and at least one compared observation"""
    ops = [s["op"] for s in b["steps"]]
    return any(o in mutators for o in ops[1:]) and any("out" in s for s in b["steps"])


def confirm(work, lib, beh, mods, validate=None):
    """re-run one failing behaviour in isolation; returns the new result"""
    b = dict(beh)
    r = vlib.drive(work, lib, [b], mods=mods, jobs=1, tag="confirm")[0]
    return r


def sig_of(res, beh=None):
    """signature of a failure, used for known-findings matching and de-duplication"""
    if res["status"] == "mismatch":
        m = res["mismatch"]
        prev = [e["op"] for e in res["trace"][:m["step"]]]
        return {"kind": "mismatch", "op": m["op"], "keys": m["keys"], "after": prev[-3:]}
    if res["status"] == "crash":
        st = res.get("stderr", "")
        import re
        m = re.search(r"ERROR: \w+: ([\w-]+)", st)
        f = re.search(r"#\d+ \S+ in (\w+) /repo/(\S+?):\d+", st)
        return {"kind": "crash", "error": m.group(1) if m else "signal %s" % res.get("signal"),
                "site": (f.group(1) if f else "?"), "op": (res.get("at_op") or {}).get("op")}
    if res["status"] == "timeout":
        return {"kind": "timeout", "op": (res.get("at_op") or {}).get("op")}
    if "rejected_at" in res:
        i = res["rejected_at"]
        ev = res["trace"][i] if 0 <= i < len(res["trace"]) else {}
        return {"kind": "rejected", "op": ev.get("op"), "after": [e["op"] for e in res["trace"][max(0, i - 3):i]]}
    return {"kind": res["status"]}
