#!/usr/bin/env python3
"""C04 -- storage layout and tuning knobs never change the data an application sees.

The very same specification as C03 (specs/SDArray.tla): the storage configuration is a parameter of Create
that the expected observations do not depend on.  TLC generates every transition of the array model under
EVERY storage configuration of the small extents: every chunk shape of 3 and 2x3 (incl. non-dividing ones)
x chunk-cache sizes, chunked+compressed (RLE, skipping Huffman, deflate), compressed (none/RLE/skphuff/
deflate; written in full), external file (offset 0 / 7), n-bit, linked blocks (unlimited, block size 8/16),
plus whole-chunk writes/reads (SDwritechunk/SDreadchunk) against hyperslab access."""
import os, sys
sys.path.insert(0, os.path.dirname(os.path.abspath(__file__)))
from common import *
import c03


def check(tier, replay):
    quick = tier != "thorough"
    return model_flow(
        "C04", tier, replay, spec="SDArray.tla", mods="ops_h,ops_sd", trace=("Trace_SDArray.tla", "Trace_SDArray.cfg"),
        mc=[("MC_SDArray.tla", "MC_SDArray_chunk.cfg")],
        gens=[("every transition x every storage configuration, histories <= 2 calls", "Gen_SDArray.tla", "Gen_SDArray_layouts3.cfg", "cover", {"sample": 40000, "quick_only": True}),
              ("every transition x every storage configuration, histories <= 3 calls", "Gen_SDArray.tla", "Gen_SDArray_layouts.cfg", "cover", {"thorough_only": True, "timeout": 3000}),
              ("simulate depth 12 under chunked/compressed configurations", "Gen_SDArray.tla", "Gen_SDArray_laysim.cfg", "sim", {"num_quick": 60, "num": 2500, "depth": 13, "sample": 4000})],
        mutators={"Create", "Write", "WriteChunk", "Reopen"}, need_actions=["Info", "Reopen"],
        sig_fn=c03.both, tv_quick=10000,
        assumptions=["non-chunked compressed and n-bit datasets are written in full from their start (the precondition stated in C05)",
                     "n-bit: values fit the kept bit field, no-fill mode (the fill value does not survive the projection)",
                     "chunked / compressed / external datasets have fixed dimensions; block sizes apply to unlimited ones",
                     "GR images under the same configurations are exercised by C09"])


if __name__ == "__main__":
    vlib.main_wrapper(check)
