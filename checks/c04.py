#!/usr/bin/env python3
"""C04 -- storage layout and tuning knobs never change the data an application sees.

The very same specification as C03 (specs/SDArray.tla): the storage configuration is a parameter of Create
that the expected observations do not depend on.  TLC generates every transition of the array model under
EVERY storage configuration of the small extents: every chunk shape of 3 and 2x3 (incl. non-dividing ones)
x chunk-cache sizes, chunked+compressed (RLE, skipping Huffman, deflate), compressed (none/RLE/skphuff/
deflate; written in full), external file (offset 0 / 7), n-bit, linked blocks (unlimited, block size 8/16),
plus whole-chunk writes/reads (SDwritechunk/SDreadchunk) against hyperslab access."""
import os, sys
sys.path.insert(0, os.path.dirname(os.path.abspath(__file__)))
from common import *
import c03


def check(tier, replay):
    quick = tier != "thorough"
    rep = vlib.Report("C04", tier, "model_checking")
    # external elements: the directory knobs (HXsetcreatedir / HXsetdir) and the environment decide WHICH file is
    # used, never what is read from it
    model_flow("C04", tier, replay, spec="ExtElem.tla", mods="ops_ext", trace=("Trace_ExtElem.tla", "Trace_ExtElem.cfg"),
               mc=[("MC_ExtElem.tla", "MC_ExtElem_q.cfg", "quick"), ("MC_ExtElem.tla", "MC_ExtElem.cfg", "thorough")],
               gens=[("external elements: one behaviour per transition (2 elements, 2 names, 3 directories, relative and absolute names, creation and search directories, files moved / removed / planted)", "Gen_ExtElem.tla", "Gen_ExtElem_cover.cfg", "cover", {"sample": 15000}),
                     ("external elements: simulate depth 14, offsets 0/2/5, lengths 1/3/4", "Gen_ExtElem.tla", "Gen_ExtElem_sim.cfg", "sim", {"num_quick": 400, "num": 6000, "depth": 15, "sample": 12000})],
               mutators={"Create", "Promote", "Overwrite", "RWOverwrite", "PutPlain", "Move", "Plant", "Remove", "SetCreateDir", "SetSearch"},
               need_actions=["Create", "Promote", "Overwrite", "Read", "Move", "Plant", "Remove", "SetCreateDir", "SetSearch", "Reopen"],
               rep=rep, finish=False, part="ext", tv_quick=6000,
               assumptions=["external elements (specs/ExtElem.tla): every read / overwrite is one start..endaccess, so no external file stays open across a change of HXsetdir; the environment variables HDFEXTDIR / HDFEXTCREATEDIR are unset; overwrites stay inside the element"])
    return model_flow(
        "C04", tier, replay, rep=rep, spec="SDArray.tla", mods="ops_h,ops_sd", trace=("Trace_SDArray.tla", "Trace_SDArray.cfg"),
        mc=[("MC_SDArray.tla", "MC_SDArray_chunk.cfg")],
        gens=[("every transition x every storage configuration, histories <= 2 calls", "Gen_SDArray.tla", "Gen_SDArray_layouts3.cfg", "cover", {"sample": 40000, "quick_only": True}),
              ("every transition x every storage configuration, histories <= 3 calls", "Gen_SDArray.tla", "Gen_SDArray_layouts.cfg", "cover", {"thorough_only": True, "timeout": 3000}),
              ("simulate depth 12 under chunked/compressed configurations", "Gen_SDArray.tla", "Gen_SDArray_laysim.cfg", "sim", {"num_quick": 60, "num": 1500, "depth": 13, "sample": 4000, "timeout": 4000})],
        mutators={"Create", "Write", "WriteChunk", "Reopen"}, need_actions=["Info", "Reopen"],
        sig_fn=c03.both, tv_quick=10000,
        assumptions=["non-chunked compressed and n-bit datasets are written in full from their start (the precondition stated in C05)",
                     "n-bit: values fit the kept bit field, no-fill mode (the fill value does not survive the projection)",
                     "chunked / compressed / external datasets have fixed dimensions; block sizes apply to unlimited ones",
                     "GR images under the same configurations are exercised by C09"])


if __name__ == "__main__":
    vlib.main_wrapper(check)
