#!/usr/bin/env python3
"""C10 -- attributes and the predefined metadata built on them are returned exactly as last set (specs/Attrs.tla)."""
import os, sys
sys.path.insert(0, os.path.dirname(os.path.abspath(__file__)))
from common import *

SD_OBJS = ("sd", "s1", "s2", "d10", "d20", "d21")
DIMS = ("d10", "d20", "d21")


def patterns(sig, r, beh):
    """KNOWN FINDING patterns (see KNOWN_FINDINGS.jsonl)"""
    steps = beh["steps"]
    m = r.get("mismatch") if r.get("status") == "mismatch" else None
    at = steps[m["step"]] if m and m["step"] < len(steps) else None
    obj = (at or {}).get("args", {}).get("obj")
    # (1) GR: an attribute re-set with a smaller count keeps its old count once the file has been closed
    if m and obj in ("gr", "ri") and m["op"] == "Dump" and "attrs" in m["keys"]:
        ea, oa = m["exp"].get("attrs", []), m["obs"].get("attrs", [])
        if len(ea) == len(oa) and any(e["count"] < o["count"] for e, o in zip(ea, oa)) and \
                all(e["name"] == o["name"] and e["type"] == o["type"] and (e["count"] <= o["count"]) for e, o in zip(ea, oa)) and \
                all(e["k"] == o["k"] for e, o in zip(ea, oa) if e["count"] == o["count"]):
            return {"pattern": "gr-attribute-shrunk-keeps-old-count-after-close"}
    # (2) SD: attribute names longer than 64 characters come back truncated after reopen
    longset = [s for s in steps if s["op"] == "Set" and s["args"]["obj"] in SD_OBJS and s["args"]["name"] in ("X1", "X2")]
    if m and longset and obj in SD_OBJS and m["op"] in ("Dump", "Find") and any(s["op"] == "Reopen" for s in steps[:m["step"]]):
        return {"pattern": "sd-attribute-name-over-64-truncated-after-reopen"}
    # (3) SD: after a dimension became shared, the unnamed dimensions behind it are renumbered when the file is
    #     written and lose their coordinate variable (attributes, strings, scale)
    named = {}
    shared = False
    for s in steps[:(m["step"] if m else len(steps))]:
        if s["op"] == "SetDimName" and (s.get("out") or {}).get("ret") == 0:
            if s["args"]["name"] in named.values() and named.get(s["args"]["obj"]) != s["args"]["name"]:
                shared = True
            named[s["args"]["obj"]] = s["args"]["name"]
    if m and shared and any(d not in named for d in DIMS) and (obj in DIMS or m["op"] == "Lookups") and \
            any(s["op"] == "Reopen" for s in steps[:m["step"]]):
        return {"pattern": "unnamed-dimension-renumbered-after-sharing-loses-metadata"}
    return None


def check(tier, replay):
    cover = lambda o, txt, n=1500: ("one behaviour per transition, %s" % txt, "Gen_Attrs.tla", "Gen_Attrs_cover_%s.cfg" % o, "cover", {"sample": n})
    hist = lambda o: ("every history of <= 5 calls on %s (set small/large/shrink/grow, find, dump, reopen ro/rw)" % o, "Gen_Attrs.tla", "Gen_Attrs_hist_%s.cfg" % o, "cover", {"sample": 800})
    return model_flow(
        "C10", tier, replay, spec="Attrs.tla", mods="ops_attr", trace=("Trace_Attrs.tla", "Trace_Attrs.cfg"),
        mc=[("Attrs.tla", "MC_Attrs_q.cfg", "quick"), ("Attrs.tla", "MC_Attrs_sdq.cfg", "quick"), ("Attrs.tla", "MC_Attrs.cfg", "thorough"),
            ("Attrs.tla", "MC_Attrs_sd.cfg", "thorough"), ("Attrs.tla", "MC_Attrs_pre.cfg")],
        gens=[cover("sd", "SD file attributes: names a/ab/64-char, int16/char/float64, counts 1/2/3000"),
              cover("s2", "dataset attributes (same alphabet)"),
              cover("gr", "GR file attributes (same alphabet: 3000 values cross the attribute-cache threshold)"),
              cover("ri", "raster image attributes"),
              cover("vg", "Vgroup attributes"),
              cover("vd", "Vdata and Vdata-field attributes"),
              cover("sdx", "SD attribute names of 100 characters"),
              cover("s1", "predefined dataset metadata (range, fill value, data strings, calibration) mixed with generic calls on the same names", 2500),
              cover("dimsa", "two dimensions of equal size: names, sharing, scales of two types, strings, attributes, added datasets", 2500),
              cover("dimsb", "two dimensions of different size (sharing refused)", 1500),
              cover("types_sd", "all 10 number types x counts 1..65536 (size limit 65535 bytes), SD"),
              cover("types_ri", "the same, raster image"), cover("types_vdf0", "the same, Vdata field"),
              cover("types_vg", "the same, Vgroup"), cover("types_d10", "the same, dimension"),
              hist("sd"), hist("gr"), hist("ri"), hist("vd"), hist("vg"), hist("d10"), hist("dims"),
              ("simulate depth 14 over all 12 objects", "Gen_Attrs.tla", "Gen_Attrs_sim.cfg", "sim", {"num_quick": 800, "num": 30000, "depth": 14}),
              ("simulate depth 16 over the SD objects (predefined metadata, dimensions, added datasets)", "Gen_Attrs.tla", "Gen_Attrs_sim_sd.cfg", "sim", {"num_quick": 800, "num": 30000, "depth": 16})],
        mutators={"Set", "SetRange", "SetFill", "SetStrs", "SetCal", "SetDimName", "SetDimScale", "SetDimStrs", "AddDs", "Reopen"},
        need_actions=["Setup", "AddDs", "Lookups"],
        tv_quick=5000, sig_fn=patterns, drive_timeout=120,
        assumptions=["values are named by a seed: the driver expands (type, count, seed) with a fixed formula and recovers the seed from what the library returns (16 seeds)",
                     "SDsetdimname only while the dimension has no coordinate variable (its attributes and scale are found by name)",
                     "a never-named dimension has a name of the library's choosing (fakeDim<n>, renumbered when the file is written)",
                     "attribute queries on a dimension without coordinate variable are not generated (they create one for the session only)",
                     "the predefined getters are judged only while their attributes have the type and count the setters store",
                     "re-setting a dimension scale with a wider number type is refused (fix 663b979) and leaves the stored scale"])


if __name__ == "__main__":
    vlib.main_wrapper(check)
