#!/usr/bin/env python3
"""C18 -- hrepack preserves all content while changing only layout (specs/Repack.tla)."""
import os, sys, subprocess
sys.path.insert(0, os.path.dirname(os.path.abspath(__file__)))
from common import *


def patterns(sig, r, beh):
    """KNOWN FINDING: compressing a dataset with an unlimited dimension stores it with a fixed dimension"""
    m = r.get("mismatch") if r.get("status") == "mismatch" else None
    if m and m["op"] == "Repack" and "same" in m["keys"] and r.get("trace"):
        diff = r["trace"][m["step"]]["obs"].get("diff") or []
        if diff and all(d.startswith("/sds[unl]/") for d in diff):
            kind = beh["steps"][0]["args"]["file"]
            ts = [s["args"]["t"] for s in beh["steps"][1:m["step"] + 1]]
            if kind not in ("fixed", "big") and any(("*" in t.split(":")[0] or "unl" in t.split(":")[0]) and not t.endswith(":NONE") for t in ts if t):
                return {"pattern": "unlimited-dataset-compressed-becomes-fixed-size"}
    return None


def check(tier, replay):
    rep = vlib.Report("C18", tier, "model_checking")
    rep.work = vlib.Work("C18")
    tools = rep.work.sub("tools")
    p = subprocess.run([os.path.join(vlib.VERIF, "bin", "build_tools.sh"), tools], capture_output=True, text=True,
                       env=dict(os.environ, VERIF_REPO=vlib.REPO))
    if p.returncode != 0 or not os.path.exists(os.path.join(tools, "hrepack")):
        raise vlib.InfraError("build of the tools failed:\n" + (p.stdout + p.stderr)[-2000:])
    os.environ["H4V_TOOLS"] = tools
    return model_flow(
        "C18", tier, replay, rep=rep, spec="Repack.tla", mods="ops_repack", trace=("Trace_Repack.tla", "Trace_Repack.cfg"),
        mc=[("MC_Repack.tla", "MC_Repack.cfg")],
        gens=[("every single command line: -t {none, *, 3 object lists} x {RLE, HUFF 1, GZIP 6, NONE}, -c {none, *, 2 object lists} x {5x6, 20x30, NONE}, -m {default, 0, 2000}, on the command line and in an option file, on 4 input files (plain, all number types and ranks, nested groups with Vdatas and annotations, mixed), followed by a run that removes every layout", "Gen_Repack.tla", "Gen_Repack_single.cfg", "cover", {"sample": 700}),
              ("chains of 4 runs with random options, each output being the next input (inputs: mixed file; file with a 1.2 MB dataset)", "Gen_Repack.tla", "Gen_Repack_chains.cfg", "sim", {"num_quick": 150, "num": 3000, "depth": 6})],
        mutators={"Repack"}, need_actions=["Repack"],
        tv_quick=3000, sig_fn=patterns, drive_timeout=600,
        assumptions=["content = the API-level view of harness/content.py (names, hierarchy by member names, dimensions incl. names, scales and attributes, number types, attributes, palettes, annotations with their targets, data values), independent of references, object order and storage layout, and independent of hdiff",
                     "every output is compared with the ORIGINAL input's content (repacking is idempotent in content)",
                     "the layout is predicted where the option tables leave no doubt (no option; -t '*:X'; -t '*:X' -c '*:S'); for named object lists only the content is judged",
                     "'*' in one option together with an object list in the other is refused by hrepack and not generated; object lists name objects at the root of the file",
                     "the tools are built from /repo's working tree by bin/build_tools.sh (plain gcc)"])


if __name__ == "__main__":
    vlib.main_wrapper(check)
