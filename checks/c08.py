#!/usr/bin/env python3
"""C08 -- Vgroup membership, naming and hierarchy persist exactly as edited (specs/VGroup.tla)."""
import os, sys
sys.path.insert(0, os.path.dirname(os.path.abspath(__file__)))
from common import *


def long_members():
    """member counts crossing the 64/128/256 growth steps (hand-written, judged by Trace_VGroup)"""
    B = []
    for n in (63, 64, 65, 129, 257):
        steps = [{"op": "Setup", "args": {"nd": 2}}, {"op": "New", "args": {"g": "G1"}}, {"op": "New", "args": {"g": "G2"}}]
        mem = []
        for i in range(n):
            m = ["R1", "D1", "R2", "G2", "D2", "R3"][i % 6]
            steps.append({"op": "Add", "args": {"g": "G1", "m": m}})
            mem.append(m)
        steps += [{"op": "DelRef", "args": {"g": "G1", "m": "G2"}}, {"op": "Info", "args": {"g": "G1"}},
                  {"op": "Detach", "args": {"g": "G1"}}, {"op": "Detach", "args": {"g": "G2"}}, {"op": "Reopen", "args": {"a": 0}},
                  {"op": "Attach", "args": {"g": "G1", "mode": "w"}}, {"op": "Info", "args": {"g": "G1"}},
                  {"op": "Add", "args": {"g": "G1", "m": "D2"}}, {"op": "DelRef", "args": {"g": "G1", "m": "R1"}},
                  {"op": "Info", "args": {"g": "G1"}}, {"op": "Detach", "args": {"g": "G1"}}, {"op": "Lone", "args": {"a": 0}}]
        B.append({"spec": "VGroup", "steps": steps})
    # a vgroup whose ONLY membership sits at position 64 or later of its parent (behind 64+ members that are not vgroups)
    C = []
    for n in (63, 64, 65, 70, 130):
        steps = [{"op": "Setup", "args": {"nd": 2}}, {"op": "New", "args": {"g": "G1"}}, {"op": "New", "args": {"g": "G2"}},
                 {"op": "New", "args": {"g": "G3"}}]
        for i in range(n):
            steps.append({"op": "Add", "args": {"g": "G1", "m": ["R1", "D1", "R2", "D2", "R3"][i % 5]}})
        steps += [{"op": "Add", "args": {"g": "G1", "m": "G2"}}, {"op": "Insert", "args": {"g": "G1", "m": "G3"}},
                  {"op": "Info", "args": {"g": "G1"}},
                  {"op": "Detach", "args": {"g": "G1"}}, {"op": "Detach", "args": {"g": "G2"}}, {"op": "Detach", "args": {"g": "G3"}},
                  {"op": "Lone", "args": {"a": 0}}, {"op": "Reopen", "args": {"a": 0}}, {"op": "Lone", "args": {"a": 0}},
                  {"op": "Iterate", "args": {"a": 0}}]
        C.append({"spec": "VGroup", "steps": steps})
    return {"member lists crossing 64/128/256 entries": B, "child vgroups at member positions 63..131 (lone sets)": C}


def check(tier, replay):
    return model_flow(
        "C08", tier, replay, spec="VGroup.tla", mods="ops_h,ops_v", trace=("Trace_VGroup.tla", "Trace_VGroup.cfg"),
        mc=[("MC_VGroup.tla", "MC_VGroup.cfg")],
        gens=[("one behaviour per transition (2 vgroups, 1 vdata, 1 raw element, <=3 members)", "Gen_VGroup.tla", "Gen_VGroup_cover.cfg", "cover", {"sample": 25000}),
              ("every history of <= 5 calls (2 groups, 1 vdata, <= 2 members; detach, reopen in between)", "Gen_VGroup.tla", "Gen_VGroup_hist.cfg", "cover", {"sample": 4000}),
              ("simulate depth 30 (4 vgroups, 2 vdatas, names of 1/63/64/65/300 bytes)", "Gen_VGroup.tla", "Gen_VGroup_sim.cfg", "sim", {"num_quick": 2500, "num": 60000, "depth": 31})],
        mutators={"New", "SetName", "SetClass", "Add", "Insert", "DelRef", "DeleteG", "DeleteD", "Detach", "Attach", "Reopen"},
        need_actions=["New", "SetName", "SetClass", "Add", "Insert", "DelRef", "Detach", "Attach", "DeleteG", "DeleteD", "Info", "Lone", "Iterate", "Find"],
        extra_behs=long_members, tv_quick=10000,
        assumptions=["file-level queries (lone sets, iteration, find by name) are generated when no vgroup is attached",
                     "Vfind is only asked for names carried by at most one vgroup",
                     "a member whose object has been deleted stays in the member list (the library does not clean up references)"])


if __name__ == "__main__":
    vlib.main_wrapper(check)
