#!/usr/bin/env python3
"""C07 -- Vdata tables return exactly the records written (specs/VData.tla)."""
import os, sys
sys.path.insert(0, os.path.dirname(os.path.abspath(__file__)))
from common import *


def check(tier, replay):
    rep = vlib.Report("C07", tier, "model_checking")
    model_flow("C07", tier, replay, spec="Bulk.tla", mods="ops_bulk", trace=("Trace_Bulk.tla", "Trace_Bulk.cfg"), mc=[],
               gens=[("bulk: Vdatas of 1,000..160,000 records (13- and 92-byte records) around the 1,000,000-byte staging buffer; whole-table reads of field subsets in one and two calls, both buffer interlaces", "Gen_Bulk.tla", "Gen_Bulk_vs.cfg", "cover", {})],
               mutators={"BulkVS", "BulkSD", "BulkHL"}, rep=rep, finish=False, part="bulk", tv_quick=1000, drive_timeout=600,
               assumptions=["bulk part (specs/Bulk.tla): parameter sets around the internal staging thresholds; values by formula, every cell read back is compared by the driver"])
    return model_flow(
        "C07", tier, replay, rep=rep, spec="VData.tla", mods="ops_h,ops_v", trace=("Trace_VData.tla", "Trace_VData.cfg"),
        mc=[("MC_VData.tla", "MC_VData.cfg")],
        gens=[("one behaviour per transition (4 schemas, <=4 records)", "Gen_VData.tla", "Gen_VData_cover.cfg", "cover", {"sample": 25000}),
              ("every history of <= 4 calls after creation (write, seek, read, detach/attach, reopen in between)", "Gen_VData.tla", "Gen_VData_hist.cfg", "cover", {"sample": 4000}),
              ("simulate depth 30 (<=40 records, block sizes 4..64)", "Gen_VData.tla", "Gen_VData_sim.cfg", "sim", {"num_quick": 2500, "num": 60000, "depth": 31})],
        mutators={"Create", "Write", "Seek", "SetFields", "Detach", "Attach", "Bump", "SetIl"},
        need_actions=["Write", "Seek", "Read", "Inquire", "Detach", "Attach"],
        tv_quick=8000,
        assumptions=["VSsetfields names the fields before VSread (the field list of the creating attachment is the write list only)",
                     "NO_INTERLACE *storage* is only exercised with one write call and whole-table reads; both buffer interlaces are exercised everywhere",
                     "reads beyond the last record are not generated; field types int8/int16/int32/float64 by size (byte order is C06)",
                     "record counts <= 40: the 1,000,000-byte transfer buffer boundary is not crossed by this check"])


if __name__ == "__main__":
    vlib.main_wrapper(check)
