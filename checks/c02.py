#!/usr/bin/env python3
"""C02 -- every file written is a well-formed, independently readable HDF4 file.

Every file the library closes while the TLC-generated behaviours of the H-level specifications
(HDir, HElem) and the V/VS/SD/GR/AN workloads run is copied; the independent reader (reader/h4read.py)
extracts the raw layout facts and its own decoding of every element; the library's read calls supply
theirs; TLC evaluates the format predicates of specs/HFormat.tla on every file (Trace_HFormat):
well-formedness, reader = library content, and the raw-location queries for every info_count."""
import os, sys, json, subprocess, time, shutil
sys.path.insert(0, os.path.dirname(os.path.abspath(__file__)))
from common import *

PROP = "C02"


def check(tier, replay):
    rep = vlib.Report(PROP, tier, "exploration")
    work = vlib.Work(PROP)
    quick = tier != "thorough"
    lib, tb = vlib.build_lib(work)
    snap = work.sub("snap")
    env = dict(os.environ, LD_PRELOAD=vlib.asan_so(), ASAN_OPTIONS="detect_leaks=0:abort_on_error=0:exitcode=86", TMPDIR=work.sub("scratch"))
    if replay:
        d = json.load(open(replay))["replay"]
        print(json.dumps(d, indent=1)[:3000])
        print("(the file is not kept; re-run the check to regenerate it)")
        return 1
    # 1. files from TLC-generated behaviours
    gens = [("Gen_HDir.tla", "Gen_HDir_sim.cfg", "sim", 400 if quick else 6000, 25),
            ("Gen_HElem.tla", "Gen_HElem_sim.cfg", "sim", 500 if quick else 8000, 31),
            ("Gen_HDir.tla", "Gen_HDir_hist4.cfg", "cover", 0, 0),
            ("Gen_HElem.tla", "Gen_HElem_hist.cfg", "cover", 0, 0)]
    behs = []
    for i, (m, c, mode, num, depth) in enumerate(gens):
        b, st, _ = vlib.tlc_generate(work, m, c, work.path("g%d.ndjson" % i), mode=mode, num=num, depth=depth)
        b = load_gen(b)
        if mode == "cover":
            b = sample(b, 1500 if quick else 20000, i)
        behs += b
    number(behs)
    os.environ["H4V_SNAPDIR"] = snap
    os.environ["H4V_SNAPMAX"] = "2" if quick else "4"
    res = vlib.drive(work, lib, [{"id": b["id"], "spec": b["spec"], "steps": [{"op": s["op"], "args": s.get("args", {})} for s in b["steps"]]} for b in behs],
                     mods="ops_h")
    del os.environ["H4V_SNAPDIR"]
    # 2. workloads corpus + datainfo probes
    dio = work.path("datainfo.json")
    p = subprocess.run([sys.executable, os.path.join(vlib.VERIF, "harness", "corpus.py"), "--lib", lib, "--snapdir", snap, "--out", dio],
                       capture_output=True, text=True, env=env, timeout=1200)
    if not os.path.exists(dio):
        raise InfraError("corpus.py failed: " + (p.stdout + p.stderr)[-2500:])
    di_events = json.load(open(dio))
    # 3. views
    vout = work.path("views.ndjson")
    p = subprocess.run([sys.executable, os.path.join(vlib.VERIF, "harness", "views.py"), "--lib", lib, "--snapdir", snap, "--out", vout],
                       capture_output=True, text=True, env=env, timeout=3000)
    if not os.path.exists(vout):
        raise InfraError("views.py failed: " + (p.stdout + p.stderr)[-2500:])
    views = [json.loads(l) for l in open(vout) if l.strip()]
    harness_bad = [v for v in views if v["obs"].get("rerrs") == 999]
    if harness_bad:
        raise InfraError("views.py harness error: %s" % harness_bad[0]["obs"]["errs"])
    results = [{"id": i, "trace": [{"op": v["op"], "args": v["args"], "obs": v["obs"]}], "file": v["file"]} for i, v in enumerate(views)]
    base = len(results)
    for j, e in enumerate(di_events):
        results.append({"id": base + j, "trace": [e], "file": "datainfo"})
    acc, rej = vlib.tlc_validate(work, "Trace_HFormat.tla", "Trace_HFormat.cfg", results, timeout=3000)
    for r in rej:
        ev = r["trace"][0]
        if ev["op"] == "View":
            o = ev["obs"]
            diff = [x for x in o["api"] if x not in o["rd"]][:3] + [x for x in o["rd"] if x not in o["api"]][:3]
            kind = "reader-errors" if o["rerrs"] else ("content-differs" if diff else "layout")
            sig = {"kind": kind, "first": (o["errs"][0].split()[0] if o["errs"] else None), "src": ("generated" if len(r["file"].split("/")[0]) == 12 and "_" not in r["file"].split("/")[0] else r["file"].split("/")[0])}
            rep.violation(sig, {"file": r["file"], "errs": o["errs"], "diff": diff, "args": ev["args"] if kind == "layout" else None})
        else:
            sig = {"kind": "datainfo", "what": ev["args"]["what"].split()[0], "cap_vs_n": ("cap<n" if 0 < ev["args"]["cap"] < len(ev["obs"]["extents"]) else "cap>=n" if ev["args"]["cap"] else "cap=0")}
            rep.violation(sig, {"event": ev})
    nspecial = sum(1 for v in views if any((d[0] // 16384) % 4 == 1 for d in v["args"]["dds"]))
    rep.cov.update({
        "evaluations": len(results), "distinct_nontrivial": len(set(json.dumps(v["args"], sort_keys=True) for v in views)) + len(di_events),
        "rule": "one evaluation = one file the library closed (copied at Hclose/SDend... during TLC-generated H-level behaviours and the "
                "V/VS/SD/GR/AN workloads) judged by TLC against specs/HFormat.tla, or one raw-location query; distinct = distinct layout facts "
                "(size, descriptor blocks, descriptors); every one is non-trivial (holds at least the version descriptor and is compared element by element)",
        "files": len(views), "files_with_special_elements": nspecial, "datainfo_queries": len(di_events),
        "behaviours_run": len(behs), "traces_validated_against_impl": acc,
        "samples": [{"file": views[0]["file"], "dds": views[0]["args"]["dds"][:6]}, {"datainfo": di_events[0] if di_events else None}],
        "timing_s": {"build": round(tb, 1)},
    })
    rep.assumptions += ["trusted: reader/h4read.py implements the published layout (its selftest cross-checks it against hdp/hdfls on 300+ files)",
                        "files are taken after close (a flushed-but-open file may still have data in the stdio buffer)"]
    return rep.finish()


if __name__ == "__main__":
    vlib.main_wrapper(check)
