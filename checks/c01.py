#!/usr/bin/env python3
"""C01 -- data-element byte streams read back exactly what was written (specs/HElem.tla)."""
import os, sys
sys.path.insert(0, os.path.dirname(os.path.abspath(__file__)))
from common import *

MUT = {"StartWrite", "StartAccess", "CreateLinked", "CreateExt", "Convert", "Appendable", "Write", "Seek", "Trunc",
       "EndAccess", "Dup", "Del", "Bump", "Reopen"}


def fail_index(r):
    if r["status"] == "mismatch":
        return r["mismatch"]["step"]
    if "rejected_at" in r:
        return r["rejected_at"]
    return r.get("at_step", len(r["trace"]))


def stale_handle_pattern(sig, r, beh):
    """KNOWN FINDING pattern: the failing call goes through handle H on a contiguous element E while, since H
    was attached, ANOTHER handle on E made E grow / seeked to or past its end / converted it (which
    promotes E to linked blocks and leaves H's access record describing the old contiguous element)."""
    steps = beh["steps"]
    i = min(fail_index(r), len(steps) - 1)
    a = steps[i].get("args", {}).get("aid")
    if a is None:
        return None
    key_of, attached_at, special = {}, {}, set()
    for j, s in enumerate(steps[:i + 1]):
        ar = s.get("args", {})
        if s["op"] in ("StartWrite", "StartAccess", "CreateLinked", "CreateExt") and "key" in ar:
            key_of[ar["aid"]] = ar["key"]
            attached_at[ar["aid"]] = j
            if s["op"] in ("CreateLinked", "CreateExt"):
                special.add(ar["key"])
        if s["op"] == "Del":
            special.discard(ar.get("key"))
    k = key_of.get(a)
    if k is None or k in special:
        return None
    for j in range(attached_at[a] + 1, i):
        s = steps[j]
        b = s.get("args", {}).get("aid")
        if b is not None and b != a and key_of.get(b) == k and attached_at.get(b, 0) <= j and s["op"] in ("Write", "Seek", "Convert"):
            return {"pattern": "stale-handle-after-promotion-by-another-handle"}
    return None


def check(tier, replay):
    rep = vlib.Report("C01", tier, "model_checking")
    model_flow("C01", tier, replay, spec="Bulk.tla", mods="ops_bulk", trace=("Trace_Bulk.tla", "Trace_Bulk.cfg"), mc=[],
               gens=[("bulk: linked-block elements with 1/16/100-byte blocks and 1/4/16 block ids per table; single writes spanning hundreds of blocks and several tables", "Gen_Bulk.tla", "Gen_Bulk_hl.cfg", "cover", {})],
               mutators={"BulkVS", "BulkSD", "BulkHL"}, rep=rep, finish=False, part="bulk", tv_quick=1000, drive_timeout=600,
               assumptions=["bulk part (specs/Bulk.tla): parameter sets around the internal staging thresholds; values by formula, every cell read back is compared by the driver"])
    return model_flow(
        "C01", tier, replay, rep=rep, spec="HElem.tla", mods="ops_h", trace=("Trace_HElem.tla", "Trace_HElem.cfg"),
        mc=[("MC_HElem.tla", "MC_HElem_a.cfg"), ("MC_HElem.tla", "MC_HElem_b.cfg")],
        gens=[("transition cover 2 keys x 2 handles", "Gen_HElem.tla", "Gen_HElem_cover.cfg", "cover", {"sample": 25000}),
              ("transition cover ndds 5/16, other block sizes", "Gen_HElem.tla", "Gen_HElem_cover2.cfg", "cover", {"sample": 10000}),
              ("all histories <=5 calls, 1 key x 1 handle", "Gen_HElem.tla", "Gen_HElem_hist.cfg", "cover", {"sample": 15000}),
              ("all histories <=6 calls, 1 key x 1 handle", "Gen_HElem.tla", "Gen_HElem_hist7.cfg", "cover", {"thorough_only": True}),
              ("several handles while the element is promoted (known-finding sweep)", "Gen_HElem.tla", "Gen_HElem_shared.cfg", "cover", {"sample": 4000}),
              ("simulate depth 30", "Gen_HElem.tla", "Gen_HElem_sim.cfg", "sim", {"num_quick": 1500, "num": 40000, "depth": 31})],
        mutators=MUT, sig_fn=stale_handle_pattern,
        need_actions=["Create", "StartWriteNew", "StartAccessNew", "StartExisting", "CreateLinked", "CreateExt", "Convert",
                      "Appendable", "Write", "Seek", "Read", "ReadPast", "Trunc", "EndAccess", "Dup", "Del", "Reopen"],
        assumptions=["reads of cells that were skipped over (gaps) or reserved but never written are only generated after a close/reopen",
                     "seek/write past the end through a non-appendable handle on an element that may have been silently promoted is not generated (answer depends on file layout)",
                     "aliases created by Hdupdd are neither grown nor truncated; Hdupdd of special elements is outside the model",
                     "bounds: specs/Gen_HElem_*.cfg (lengths <= 7, blocks 2..4 bytes, tables 1..4 entries, ndds 4/5/16)"])


if __name__ == "__main__":
    vlib.main_wrapper(check)
