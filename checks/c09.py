#!/usr/bin/env python3
"""C09 -- raster images and palettes round-trip for every region, interlace and type (specs/GRImage.tla)."""
import os, sys
sys.path.insert(0, os.path.dirname(os.path.abspath(__file__)))
from common import *


def comp_mixed(sig, r, beh):
    """KNOWN FINDING pattern: a compressed (non-chunked) image both written and read through one image id in one
    session (either order)"""
    steps = beh["steps"]
    a = steps[0].get("args", {}) if steps and steps[0]["op"] == "Create" else {}
    ly = a.get("layout") or []
    if not ly or ly[0] != "comp":
        return None
    rd = wr = False
    for s in steps:
        if s["op"] == "Read":
            rd = True
        elif s["op"] == "Write":
            wr = True
        elif s["op"] == "Reopen":
            rd = wr = False
        if rd and wr:
            return {"pattern": "compressed-image-read-and-written-in-one-session"}
    return None


def check(tier, replay):
    rep = vlib.Report("C09", tier, "model_checking")
    # the single-file palette interface (dfp.c): which palette each call addresses, and that it reads back as written
    model_flow("C09", tier, replay, spec="Pal.tla", mods="ops_pal", trace=("Trace_Pal.tla", "Trace_Pal.cfg"),
               mc=[("MC_Pal.tla", "MC_Pal.cfg")],
               gens=[("palettes (DFP): one behaviour per transition (<= 3 palettes; new / overwrite / chosen reference numbers, file re-creation, sequential and by-reference reads, restart)", "Gen_Pal.tla", "Gen_Pal_cover.cfg", "cover", {"sample": 8000}),
                     ("palettes (DFP): simulate depth 16, up to 6 palettes", "Gen_Pal.tla", "Gen_Pal_sim.cfg", "sim", {"num_quick": 300, "num": 5000, "depth": 17, "sample": 8000})],
               mutators={"Put", "WriteRef", "ReadRef", "Restart"}, need_actions=["Put", "Get", "ReadRef", "WriteRef", "Restart", "Count"],
               rep=rep, finish=False, part="pal", tv_quick=6000,
               assumptions=["palette interface (specs/Pal.tla): DFPputpal with overwrite is only generated after a palette was written or read in this file (the refused call leaves the file open inside the library)"])
    return model_flow(
        "C09", tier, replay, rep=rep, spec="GRImage.tla", mods="ops_h,ops_gr", trace=("Trace_GRImage.tla", "Trace_GRImage.cfg"),
        mc=[("MC_GRImage.tla", "MC_GRImage.cfg")],
        gens=[("one behaviour per transition: every rectangle/stride inside 2x2 and 3x2 images, 1 and 3 components, 3 write x 3 read interlaces, palette", "Gen_GRImage.tla", "Gen_GRImage_cover.cfg", "cover", {"sample": 15000}),
              ("the same under RLE/deflate/skphuff compression, chunk shapes, chunked+compressed, int16/int32/float32", "Gen_GRImage.tla", "Gen_GRImage_layouts.cfg", "cover", {"sample": 15000}),
              ("every history of <= 5 calls on a 2x2 one-component image (write, read, palette, interlace request, reopen in between)", "Gen_GRImage.tla", "Gen_GRImage_hist.cfg", "cover", {"sample": 4000}),
              ("simulate depth 12: images up to 4x3, 1-4 components, all storage configurations", "Gen_GRImage.tla", "Gen_GRImage_sim.cfg", "sim", {"num_quick": 100, "num": 3000, "depth": 13, "sample": 5000})],
        mutators={"Create", "Write", "ReqIl", "WriteLut", "Reopen"}, need_actions=["ReqIl", "ReadLut", "Info", "Reopen"],
        tv_quick=8000, sig_fn=comp_mixed,
        assumptions=["only rectangles and strides inside the image are generated (the property speaks of those)",
                     "GRwriteimage interprets the buffer in the interlace given to GRcreate; GRreadimage produces pixel interlace unless GRreqimageil asks otherwise; after a reopen the image is pixel-interlaced",
                     "compressed (non-chunked) images are written in full; images <= 4x3, <= 4 components: rows of 128+ bytes (old-style RLE raster coder limits) are not reached"])


if __name__ == "__main__":
    vlib.main_wrapper(check)
