#!/usr/bin/env python3
"""C14 -- read-only access never alters a file; write requests through it are refused (specs/ReadOnly.tla)."""
import os, sys
sys.path.insert(0, os.path.dirname(os.path.abspath(__file__)))
from common import *


def patterns(sig, r, beh):
    """KNOWN FINDING pattern: a mutating call that reports success on a read-only handle (the file is untouched,
    the change lives in memory until the close drops it)"""
    m = r.get("mismatch") if r.get("status") == "mismatch" else None
    if m and m["op"] == "Mutate" and m["keys"] == ["ret"] and m["obs"].get("intact", True) is not False:
        return {"pattern": "mutator-reports-success-on-read-only-handle", "call": beh["steps"][m["step"]]["args"]["call"]}
    return None


def check(tier, replay):
    return model_flow(
        "C14", tier, replay, spec="ReadOnly.tla", mods="ops_ro", trace=("Trace_ReadOnly.tla", "Trace_ReadOnly.cfg"),
        mc=[("ReadOnly.tla", "MC_ReadOnly.cfg")],
        gens=[("every single call (39 queries, 62 mutators) on a read-only session over 2 prepared files, then close, write-mode open/close without change, full dump", "Gen_ReadOnly.tla", "Gen_ReadOnly_cover.cfg", "cover", {}),
              ("every ordered pair of calls on the rich file", "Gen_ReadOnly.tla", "Gen_ReadOnly_pairs.cfg", "cover", {"sample": 4000}),
              ("random programs of 28 calls (simulate), the 15 calls with known findings left out so that the programs run to their end", "Gen_ReadOnly.tla", "Gen_ReadOnly_sim.cfg", "sim", {"num_quick": 600, "num": 20000, "depth": 30}),
              ("random programs of 28 calls over the full alphabet", "Gen_ReadOnly.tla", "Gen_ReadOnly_simall.cfg", "sim", {"num_quick": 200, "num": 5000, "depth": 30})],
        mutators={"Mutate", "Query", "RwCycle"}, need_actions=["OpenRO", "CloseRO", "RwCycle"],
        tv_quick=6000, sig_fn=patterns, drive_timeout=120, level="exploration",
        assumptions=["intact = sha1 of every file in the working directory (the HDF file and the external files of its elements and datasets) equals the value at session start, and no file appeared or vanished; recomputed after every call",
                     "the classification of calls into queries and mutators is the specification's (specs/ReadOnly.tla); in-memory tuning calls (SDsetfillmode, SDsetchunkcache, Hcache, GRreqimageil) are queries",
                     "a mutator that wrongly returns a handle is released at the end of the session"])


if __name__ == "__main__":
    vlib.main_wrapper(check)
