#!/usr/bin/env python3
"""C19 -- inspection tools report what is actually in the file (specs/Tools.tla)."""
import os, sys, subprocess
sys.path.insert(0, os.path.dirname(os.path.abspath(__file__)))
from common import *


def patterns(sig, r, beh):
    """KNOWN FINDING patterns"""
    m = r.get("mismatch") if r.get("status") == "mismatch" else None
    if not m:
        return None
    tg = [s["args"]["target"] for s in beh["steps"] if s["op"] == "Mutate"]
    if m["op"] == "HDiff" and tg and m["exp"].get("rc") == 1 and m["obs"].get("rc") == 0:
        if tg[0] == "added:sds":
            return {"pattern": "hdiff-object-in-one-file-only-not-reported"}
        if tg[0] in ("sds:huge:first", "sds:huge:mid"):
            return {"pattern": "hdiff-large-dataset-only-last-hyperslab-counts"}
    if m["op"] == "Dump" and beh["steps"][m["step"]]["args"]["obj"] == "vd:table2":
        return {"pattern": "hdp-dumpvd-no-interlace-vdata"}
    return None


def check(tier, replay):
    rep = vlib.Report("C19", tier, "exploration")
    rep.work = vlib.Work("C19")
    tools = rep.work.sub("tools")
    p = subprocess.run([os.path.join(vlib.VERIF, "bin", "build_tools.sh"), tools], capture_output=True, text=True,
                       env=dict(os.environ, VERIF_REPO=vlib.REPO))
    if p.returncode != 0 or not os.path.exists(os.path.join(tools, "hdiff")):
        raise vlib.InfraError("build of the tools failed:\n" + (p.stdout + p.stderr)[-2000:])
    os.environ["H4V_TOOLS"] = tools
    return model_flow(
        "C19", tier, replay, rep=rep, spec="Tools.tla", mods="ops_tools", trace=("Trace_Tools.tla", "Trace_Tools.cfg"),
        mc=[("Gen_Tools.tla", "MC_Tools.cfg")],
        gens=[("hdiff: A against itself; every single-point mutation (30 targets: first/middle/last element of datasets of every number type, chunked, compressed, unlimited, 1.2 MB; Vdata records incl. NO_INTERLACE; pixels and components of images; a dataset attribute; a global attribute; an added dataset) compared in both orders under every option (none, -d, -D, -g, -s)", "Gen_Tools.tla", "Gen_Tools_hdiff.cfg", "cover", {"sample": 1200}),
              ("hdiff on a file with a 3.6 MB dataset and a 1.5 MB Vdata: mutations at the first / middle / last element of the large dataset and of small objects", "Gen_Tools.tla", "Gen_Tools_hdiffbig.cfg", "cover", {"sample": 40}),
              ("hdp dumpsds/dumpgr -d of the roster objects against the API", "Gen_Tools.tla", "Gen_Tools_dump.cfg", "cover", {}),
              ("hdp dumpsds -d of datasets of every number type, dumpvd -d of Vdatas, against the API", "Gen_Tools.tla", "Gen_Tools_dumpmixed.cfg", "cover", {}),
              ("hdp dumpvd -d of a 1.5 MB Vdata (150001 records), dumpsds -d of a 3.6 MB dataset", "Gen_Tools.tla", "Gen_Tools_dumpbig.cfg", "cover", {}),
              ("hdfimport: text input FP32/FP64/INT32/INT16 and binary input FP32/FP64(+ -n)/IN32/IN16/IN08, ranks 2 and 3; several binary inputs of different types in one invocation", "Gen_Tools.tla", "Gen_Tools_import.cfg", "cover", {})],
        mutators={"Mutate", "HDiff", "Dump", "Import"}, need_actions=["HDiff"],
        tv_quick=3000, sig_fn=patterns, drive_timeout=300,
        assumptions=["the tools are built from /repo's working tree by bin/build_tools.sh",
                     "hdiff: the classes selected by the options are the specification's Compared(); raster images are compared under every option",
                     "hdp: every number printed by 'dump... -d' is compared with the API value at the same position (floating-point data are multiples of 0.25, printed exactly by %f); character data and header lines are not judged",
                     "hdfimport: text INT8 input (read as characters by the tool) and the raster options are not generated; data are NaN-free"])


if __name__ == "__main__":
    vlib.main_wrapper(check)
