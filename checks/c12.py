#!/usr/bin/env python3
"""C12 -- the tag/ref directory is a faithful persistent map; new refs are never in use.

 1. design check   : TLC, MC_HDir (invariants + action properties of specs/HDir.tla, bounded)
 2. generation     : TLC, Gen_HDir -- (a) every history of state-changing calls up to a bound, each
                     followed by a complete audit; (b) one behaviour per transition of a wider model;
                     (c) -simulate deep random behaviours; (d) ref-space scenarios at 65534/65535
 3. replay         : harness/drive.py runs each behaviour against the library built from /repo (ASan),
                     comparing the specification's expected observation after every call
 4. trace validation: the recorded executions are validated against Trace_HDir by TLC (binds the
                     allocator answers the library chose; evaluates every invariant in every state)
"""
import os, sys, json, time
sys.path.insert(0, os.path.dirname(os.path.abspath(__file__)))
from common import *

PROP = "C12"
MUT = {"Put", "PutExt", "Del", "Dup", "FillDup", "SetCache", "Reopen", "Sync", "NewRef", "TagNewRef"}


def refspace_scenarios():
    """behaviours at the 16-bit boundary (generated here, judged by Trace_HDir)"""
    S = []
    def ev(op, args, out=None):
        d = {"op": op, "args": args}
        if out is not None:
            d["out"] = out
        return d
    for cache in (True, False):
        for nd in (4, 5, 16):
            # A: refs 1..65534 of a tag live -> only 65535 free; then none
            S.append([ev("Create", {"ndds": nd, "cache": cache}, {"ret": 0}),
                      ev("Put", {"tag": 100, "ref": 1, "n": 2}, {"ret": 2, "len": 2}),
                      ev("FillDup", {"tag": 100, "lo": 2, "hi": 65534, "otag": 100, "oref": 1}, {"ret": 0}),
                      ev("TagNewRef", {"tag": 100}), ev("TagNewRef", {"tag": 101}), ev("NewRef", {"a": 0}),
                      ev("Number", {"tag": 100}, {"ret": 65534}),
                      ev("Put", {"tag": 100, "ref": 65535, "n": 2}, {"ret": 2, "len": 2}),
                      ev("TagNewRef", {"tag": 100}), ev("NewRef", {"a": 0}), ev("TagNewRef", {"tag": 101}),
                      ev("Number", {"tag": 100}, {"ret": 65535}),
                      ev("Del", {"tag": 100, "ref": 7}, {"ret": 0}),
                      ev("TagNewRef", {"tag": 100}), ev("NewRef", {"a": 0}),
                      ev("Reopen", {"cache": cache}), ev("Number", {"tag": 100}, {"ret": 65534}),
                      ev("TagNewRef", {"tag": 100}), ev("NewRef", {"a": 0}),
                      ev("Probe", {"tag": 100, "ref": 7}, {"ret": -1, "len": -1}),
                      ev("Probe", {"tag": 100, "ref": 65535}, {"ret": 0, "len": 2})])
            # B: the high-water mark at 65535 -> the general allocator must search
            S.append([ev("Create", {"ndds": nd, "cache": cache}, {"ret": 0}),
                      ev("Put", {"tag": 101, "ref": 65535, "n": 1}, {"ret": 1, "len": 1}),
                      ev("NewRef", {"a": 0}), ev("Put", {"tag": 100, "ref": 1, "n": 1}, {"ret": 1, "len": 1}),
                      ev("NewRef", {"a": 0}), ev("Put", {"tag": 101, "ref": 2, "n": 1}, {"ret": 1, "len": 1}),
                      ev("NewRef", {"a": 0}), ev("TagNewRef", {"tag": 101}), ev("TagNewRef", {"tag": 100}),
                      ev("Dup", {"tag": 100, "ref": 3, "otag": 100, "oref": 1}, {"ret": 0}),
                      ev("NewRef", {"a": 0}), ev("Reopen", {"cache": cache}), ev("NewRef", {"a": 0}),
                      ev("Walk", {"tag": 0, "ref": 0, "dir": 1}, {"list": [[100, 1, 1], [100, 3, 1], [101, 2, 1], [101, 65535, 1]]})])
    return [{"spec": "HDir", "steps": s} for s in S]


def check(tier, replay):
    rep = vlib.Report(PROP, tier, "model_checking")
    work = vlib.Work(PROP)
    quick = tier != "thorough"
    lib, tbuild = vlib.build_lib(work)

    if replay:
        d = json.load(open(replay))
        beh = d["replay"]
        r = vlib.drive(work, lib, [beh], jobs=1)[0]
        acc, rej = vlib.tlc_validate(work, "Trace_HDir.tla", "Trace_HDir.cfg", [r], shards=1)
        bad = r["status"] != "ok" or rej
        print(json.dumps({"status": r["status"], "mismatch": r.get("mismatch"), "stderr": r.get("stderr"),
                          "trace_rejected": bool(rej)}, indent=1))
        if bad:
            print("VIOLATION property=%s replay=%s" % (PROP, replay))
        return 1 if bad else 0

    # 1. design check
    mc = vlib.tlc_check(work, "MC_HDir.tla", "MC_HDir_quick.cfg" if quick else "MC_HDir.cfg",
                        need_actions=["Create", "Put", "PutExt", "Del", "Dup", "NewRef", "TagNewRef", "Number",
                                      "Walk", "Probe", "SetCache", "Sync", "Reopen"], timeout=1500)
    # 2. generation
    gens = {}
    b1, s1, _ = vlib.tlc_generate(work, "Gen_HDir.tla", "Gen_HDir_hist4.cfg", work.path("g_hist4.ndjson"))
    gens["hist<=3 (all)"] = load_gen(b1)
    b2, s2, _ = vlib.tlc_generate(work, "Gen_HDir.tla", "Gen_HDir_hist.cfg", work.path("g_hist5.ndjson"))
    b2 = load_gen(b2)
    gens["hist<=4" + (" (sample)" if quick else " (all)")] = sample(b2, 12000, 1) if quick else b2
    b3, s3, _ = vlib.tlc_generate(work, "Gen_HDir.tla", "Gen_HDir_cover.cfg", work.path("g_cover.ndjson"))
    b3 = load_gen(b3)
    gens["transition cover" + (" (sample)" if quick else "")] = sample(b3, 6000, 2) if quick else b3
    b3h, _, _ = vlib.tlc_generate(work, "Gen_HDir.tla", "Gen_HDir_cover_hi.cfg", work.path("g_cover_hi.ndjson"))
    b3h = load_gen(b3h)
    gens["transition cover, a tag >= 32768 next to small ones (extended tags: no special variant; tag order across the sign bit)" + (" (sample)" if quick else "")] = sample(b3h, 5000, 5) if quick else b3h
    b4, s4, _ = vlib.tlc_generate(work, "Gen_HDir.tla", "Gen_HDir_sim.cfg", work.path("g_sim.ndjson"), mode="sim",
                                  num=2000 if quick else 12000, depth=25)
    gens["simulate depth 24"] = load_gen(b4)
    if not quick:
        b5, s5, _ = vlib.tlc_generate(work, "Gen_HDir.tla", "Gen_HDir_hist6.cfg", work.path("g_hist6.ndjson"), timeout=2400)
        gens["hist<=5 one tag (all)"] = load_gen(b5)
    # the storage-aware refinement (specs/DDBlocks.tla: descriptor blocks, dirty flags, links, version descriptor):
    # design check, the same model with the previous block NOT marked dirty must fail, and one behaviour per
    # block-level transition at which the blocks matter (written in HDir's vocabulary, judged like the others)
    mcb = vlib.tlc_check(work, "DDBlocks.tla", "MC_DDBlocks.cfg", need_actions=["BCreate", "BPut", "BDel", "BSetCache", "BReopen", "BSync"], timeout=1500)
    rc0, out0 = vlib.run_tlc(work, "DDBlocks.tla", "MC_DDBlocks_noprev.cfg", workers=4, timeout=600)
    if "is violated" not in out0:
        raise InfraError("DDBlocks without the dirty mark on the previous block no longer violates its invariants: the model lost its teeth")
    b6, s6, _ = vlib.tlc_generate(work, "Gen_DDBlocks.tla", "Gen_DDBlocks_cover.cfg", work.path("g_ddb.ndjson"), timeout=1200)
    b6 = load_gen(b6)
    gens["descriptor blocks: one behaviour per block-level transition (a block is chained; a flush with dirty blocks; ndds 4, <= 3 blocks)" + (" (sample)" if quick else "")] = sample(b6, 20000, 6) if quick else b6
    if not quick:
        b7, s7, _ = vlib.tlc_generate(work, "Gen_DDBlocks.tla", "Gen_DDBlocks_cover5.cfg", work.path("g_ddb5.ndjson"), timeout=2400)
        b7s = sample(b7, 20000, 7)          # (sampled before parsing: the cover has ~500,000 behaviours; memory)
        del b7
        gens["descriptor blocks of 5 slots (odd size): one behaviour per block-level transition (sample of 20000)"] = load_gen(b7s)
    gens["ref-space"] = refspace_scenarios()
    behs = []
    for k, v in gens.items():
        behs += v
    number(behs)
    byid = {b["id"]: b for b in behs}

    # 3. replay
    t = time.time()
    res = vlib.drive(work, lib, behs, timeout=60)
    tdrive = time.time() - t
    bad = [r for r in res if r["status"] != "ok"]
    # 4. trace validation (all in thorough; a seeded sample + every ref-space scenario in quick)
    okres = [r for r in res if r["status"] == "ok"]
    special = [r for r in okres if any(e["op"] == "FillDup" for e in r["trace"])]
    rest = [r for r in okres if r not in special] if len(special) < 50 else okres
    tv = (sample(rest, 6000, 3) if quick else rest)
    t = time.time()
    acc, rej = vlib.tlc_validate(work, "Trace_HDir.tla", "Trace_HDir.cfg", tv, timeout=3000)
    acc2, rej2 = vlib.tlc_validate(work, "Trace_HDir.tla", "Trace_HDir.cfg", special, timeout=3000, tag="tvs")
    tval = time.time() - t
    # confirm + report
    seen = set()
    for r in bad + rej + rej2:
        sig = sig_of(r)
        key = json.dumps(sig, sort_keys=True)
        if key in seen:
            continue
        seen.add(key)
        beh = byid[r["id"]]
        r2 = confirm(work, lib, beh, "ops_h")
        again = r2["status"] != "ok"
        if not again and "rejected_at" in r:
            a, rj = vlib.tlc_validate(work, "Trace_HDir.tla", "Trace_HDir.cfg", [r2], shards=1, tag="cf")
            again = bool(rj)
        if again:
            rep.violation(sig, beh)
    keys = set(beh_key(b) for b in behs)
    nt = set(vlib.beh_key(b) for b in behs if nontrivial(b, MUT))
    rep.cov.update({
        "states": mc["stats"]["distinct_states"] + mcb["stats"]["distinct_states"],
        "transitions": mc["stats"]["states_generated"] + mcb["stats"]["states_generated"],
        "design_models": "HDir (abstract map) and DDBlocks (descriptor blocks, dirty flags, links: refines HDir; FileHoldsDisk, MemIsMem, NoOrphans); "
                         "DDBlocks without the dirty mark on the previous block violates them (checked on every run)",
        "traces_validated_against_impl": acc + acc2,
        "evaluations": len(behs), "distinct_nontrivial": len(nt),
        "behaviours_replayed": len(res), "replay_ok": len(okres),
        "generators": {k: len(v) for k, v in gens.items()},
        "rule": "behaviours generated by TLC from specs/HDir.tla (all histories of state-changing calls up to the bound + audit, "
                "one per model transition, -simulate) plus ref-space scenarios; distinct = hash of (op,args) sequence; "
                "non-trivial = at least one state-changing call after Create and one compared observation",
        "samples": [behs[0]["steps"][:6], behs[len(behs) // 2]["steps"][:8], gens["ref-space"][0]["steps"][:6]],
        "exhaustive": True,
        "checker_cmd": "tlc MC_HDir / Gen_HDir / Trace_HDir; harness/drive.py",
        "trusted_base": ["TLC", "harness/drive.py + ops_h.py (ctypes call table)", "ASan/UBSan runtime"],
        "mc_coverage": dict({k: v[1] for k, v in mc["coverage"].items()}, **{k: v[1] for k, v in mcb["coverage"].items()}),
        "timing_s": {"build": round(tbuild, 1), "drive": round(tdrive, 1), "validate": round(tval, 1)},
    })
    rep.assumptions += ["the library-owned version descriptor (tag 30) is excluded from listings and wildcard counts",
                        "Hdupdd of special elements and exact (tag,ref) Hfind loops are outside the model (see HDir.tla)",
                        "bounds: see specs/Gen_HDir_*.cfg; MaxRef scaled to 2 in the exhaustive design check, 65535 against the code"]
    return rep.finish()


def beh_key(b):
    return vlib.beh_key(b)


if __name__ == "__main__":
    vlib.main_wrapper(check)
