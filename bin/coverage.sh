#!/bin/bash
# coverage.sh report : function coverage of the library objects in /tmp/g/cov/lib (built with bin/build_lib.sh <dir> cov and
# exercised by running checks with VERIF_LIBMODE=cov VERIF_LIBDIR=<dir>); lists the functions never executed, per source file
D=${1:-/tmp/g/cov/lib}
cd $D/obj || exit 2
for f in *.gcda; do gcov -f -n $f 2>/dev/null; done | python3 -c "
import sys,re,collections
fn=None; zero=collections.defaultdict(list); tot=cov=0; cur=None
lines=sys.stdin.read().splitlines()
for i,l in enumerate(lines):
    m=re.match(r\"Function '(.*)'\",l)
    if m: fn=m.group(1); continue
    m=re.match(r\"Lines executed:([0-9.]+)% of (\d+)\",l)
    if m and fn:
        tot+=1
        if float(m.group(1))==0.0: zero[fn]=int(m.group(2))
        else: cov+=1
        fn=None
print('functions: %d, executed: %d (%.1f%%)'%(tot,cov,100.0*cov/max(tot,1)))
for k,v in sorted(zero.items(), key=lambda kv:-kv[1]): print('%5d %s'%(v,k))
"
