#!/usr/bin/env python3
"""rewrites the generated blocks of DESIGN.md (per-property table, fix list, known findings, seeded-change table)
from MANIFEST.json, evidence/*.json, /repo's git log, KNOWN_FINDINGS.jsonl and seeded/*/meta.json"""
import json, glob, os, subprocess, re
V = os.path.dirname(os.path.dirname(os.path.abspath(__file__)))
os.chdir(V)
doc = open("DESIGN.md").read()
man = json.load(open("MANIFEST.json"))
log = subprocess.run(["git", "-C", "/repo", "log", "--reverse", "--format=%h %s"], capture_output=True, text=True).stdout.strip().split("\n")
fixes = [l for l in log if " fix:" in l]
kf = [json.loads(l) for l in open("KNOWN_FINDINGS.jsonl") if l.strip()]
known = [e for e in kf if e["status"] == "known"]


def block(name, text):
    global doc
    a, b = "<!-- BEGIN %s -->" % name, "<!-- END %s -->" % name
    if a not in doc:
        raise SystemExit("marker %s missing in DESIGN.md" % name)
    doc = doc[:doc.index(a) + len(a)] + "\n" + text + doc[doc.index(b):]


t = "| property | level | specification | quick: behaviours replayed / validated by TLC | notes |\n|---|---|---|---|---|\n"
for c in man["checks"]:
    pid = c["property_id"]
    try:
        cov = json.load(open("evidence/%s.json" % pid)).get("coverage", {})
    except Exception:
        cov = {}
    spec = c["technique"].split("(")[1].split(")")[0] if "(" in c["technique"] else "-"
    t += "| %s | %s | %s | %s / %s | %s |\n" % (pid, c["level_claimed"]["category"], spec, cov.get("behaviours_replayed", cov.get("evaluations", "-")),
                                              cov.get("traces_validated_against_impl", "-"), c["level_note"].replace("|", "/")[:420])
block("PROPERTY-TABLE", t)
block("FIX-LIST", "".join("* `%s` %s\n" % (f.split(" ", 1)[0], f.split(" ", 1)[1]) for f in fixes))
block("KNOWN-LIST", "".join("* **%s** (%s) — %s\n" % (e.get("id", e["property"]), e["site"], e["what"]) for e in known))
rows = "| change | detected | by | needs |\n|---|---|---|---|\n"
cnt = {}
for d in sorted(glob.glob("seeded/*/")):
    m = json.load(open(d + "meta.json"))
    cnt[m["detected"]] = cnt.get(m["detected"], 0) + 1
    rows += "| %s | %s | %s | %s |\n" % (os.path.basename(d[:-1]), m["detected"], m["detected_by"].replace("|", "/")[:100],
                                       m.get("needs_to_manifest", "").replace("|", "/").replace("\n", " ")[:110])
rows += "\nTotals: %s.\n" % ", ".join("%s: %d" % kv for kv in sorted(cnt.items()))
block("SEEDED-TABLE", rows)
doc = re.sub(r"carries\n?\s*\d+ `fix:` commits made by this work\) with \d+ known findings", "carries\n%d `fix:` commits made by this work) with %d known findings" % (len(fixes), len(known)), doc)
open("DESIGN.md", "w").write(doc)
print("fixes", len(fixes), "known", len(known), "seeded", sum(cnt.values()), cnt)
