#!/usr/bin/env python3
"""shrink.py <Cxx> <replay.json> [out.json]
Minimises a failing behaviour.  Candidates (the behaviour with steps removed, expected observations dropped) are
run on the library and judged by TLC trace validation against the property's Trace specification, so a candidate
counts as failing only if the SPECIFICATION rejects what the library did (or the library crashes)."""
import sys, os, json
V = os.path.dirname(os.path.dirname(os.path.abspath(__file__)))
sys.path.insert(0, os.path.join(V, "lib")); sys.path.insert(0, os.path.join(V, "checks"))
import vlib
TABLE = {"C01": ("ops_h", "Trace_HElem"), "C12": ("ops_h", "Trace_HDir"), "C03": ("ops_h,ops_sd", "Trace_SDArray"), "C04": ("ops_h,ops_sd", "Trace_SDArray"),
         "C07": ("ops_h,ops_v", "Trace_VData"), "C08": ("ops_h,ops_v", "Trace_VGroup"), "C09": ("ops_h,ops_gr", "Trace_GRImage"),
         "C10": ("ops_attr", "Trace_Attrs"), "C11": ("ops_an", "Trace_Annot"), "C05": ("ops_h,ops_comp", "Trace_Comp"), "C14": ("ops_ro", "Trace_ReadOnly"), "C20": ("ops_lim", "Trace_Limits"), "C15": ("ops_io", "Trace_Interop")}


def main():
    prop, path = sys.argv[1], sys.argv[2]
    mods, tr = TABLE[prop]
    beh = json.load(open(path))
    beh = beh.get("replay", beh)
    steps = [{"op": s["op"], "args": s.get("args", {})} for s in beh["steps"]]
    work = vlib.Work("shrink")
    lib = vlib.build_lib(work)[0]

    def failing(cands):
        behs = [{"id": "c%d" % i, "spec": beh["spec"], "steps": c} for i, c in enumerate(cands)]
        res = vlib.drive(work, lib, behs, mods=mods, timeout=60)
        bad = {r["id"] for r in res if r["status"] not in ("ok", "mismatch")}
        ok = [r for r in res if r["status"] in ("ok", "mismatch") and r.get("trace")]
        # 1. is the candidate a behaviour of the specification at all?  (observations replaced by "skip")
        import copy
        en = copy.deepcopy(ok)
        for r in en:
            for ev in r["trace"]:
                ev["obs"] = {"skip": 1}
        _, notbeh = vlib.tlc_validate(work, tr + ".tla", tr + ".cfg", en, tag="en")
        invalid = {r["id"] for r in notbeh}
        # 2. does the specification reject what the library did?
        _, rej = vlib.tlc_validate(work, tr + ".tla", tr + ".cfg", [r for r in ok if r["id"] not in invalid], tag="sh")
        bad |= {r["id"] for r in rej}
        return [i for i in range(len(cands)) if "c%d" % i in bad and "c%d" % i not in invalid]

    if not failing([steps]):
        print("the behaviour is not rejected by %s when run without expected observations" % tr)
        return 1
    cur = steps
    while True:
        cands = []
        n = len(cur)
        for size in sorted({max(1, n // 2), max(1, n // 4), 2, 1}, reverse=True):
            for i in range(1, n - size + 1):          # never remove the first step (setup)
                cands.append(cur[:i] + cur[i + size:])
        cands = cands[:400]
        if not cands:
            break
        f = failing(cands)
        if not f:
            break
        cur = min((cands[i] for i in f), key=len)
        print("shrunk to %d steps" % len(cur), flush=True)
    out = sys.argv[3] if len(sys.argv) > 3 else path.replace(".json", ".min.json")
    json.dump({"spec": beh["spec"], "steps": cur}, open(out, "w"), indent=1)
    for s in cur:
        print("  ", s["op"], json.dumps(s["args"]))
    print("written", out)
    return 0


if __name__ == "__main__":
    sys.exit(main())
