#!/bin/bash
# Build an instrumented shared library (libh4v.so) from /repo's CURRENT working tree.
# usage: build_lib.sh <outdir> [asan|plain]
# - sources are taken from the CMake source lists, so new files in the tree are picked up
# - -DH4_VERIF turns the (add-only) hooks on
# - stdio calls made by the library are --wrap'ed into harness/wrapio.c (write log, fault injection)
set -e
OUT=${1:?outdir}; MODE=${2:-asan}
REPO=${VERIF_REPO:-/repo}
HERE=$(cd "$(dirname "$0")/.." && pwd)
mkdir -p "$OUT/obj"
CFG=$REPO/_build
if [ ! -f "$CFG/h4config.h" ]; then CFG=$HERE/harness/cfg; fi
SAN=""
if [ "$MODE" = asan ]; then
  SAN="-fsanitize=address -fsanitize=bounds,null,object-size,pointer-overflow,nonnull-attribute,vla-bound -fno-sanitize-recover=all -fno-omit-frame-pointer"
fi
OPT="-O1"
if [ "$MODE" = cov ]; then SAN="--coverage -DH4V_COV"; OPT="-O0"; fi   # function/line coverage of the library under the checks (bin/coverage.sh)
CFLAGS="$OPT -g -w -fPIC -DHDF -DH4_VERIF $SAN -I$CFG -I$REPO/hdf/src -I$REPO/mfhdf/src -I$HERE/harness"
HS=$(grep -o 'HDF4_HDF_SRC_SOURCE_DIR}/[a-z0-9_]*\.c' $REPO/hdf/src/CMakeLists.txt | sed "s#.*}/#$REPO/hdf/src/#" | sort -u)
MS=$(grep -o 'HDF4_MFHDF_SRC_SOURCE_DIR}/[a-z0-9_]*\.c' $REPO/mfhdf/src/CMakeLists.txt | sed "s#.*}/#$REPO/mfhdf/src/#" | sort -u)
for f in $HS $MS $HERE/harness/wrapio.c; do echo $f; done | \
  xargs -P16 -I{} sh -c 'b=$(basename {} .c); gcc '"$CFLAGS"' -c {} -o '"$OUT"'/obj/$b.o || exit 255'
WR="-Wl,--wrap=fopen,--wrap=fread,--wrap=fwrite,--wrap=fseek,--wrap=ftell,--wrap=fflush,--wrap=fclose"
gcc -shared $SAN $WR -o "$OUT/libh4v.so" "$OUT"/obj/*.o -ljpeg -lz -lm
echo "$OUT/libh4v.so"
