#!/bin/bash
# confirm_mutant.sh <mutant_out_dir> : in a scratch worktree of /repo HEAD, confirm that
#  (1) the demo passes on the unpatched tree, (2) with patch.diff applied the tree builds and the full suite passes,
#  (3) the demo fails on the patched tree.   Prints CONFIRMED or the reason; removes the worktree afterwards.
D=${1:?dir}; N=$(basename $D)
WT=/tmp/mut/confirm_$N
git -C /repo worktree remove --force $WT 2>/dev/null; rm -rf $WT
git -C /repo worktree add -q --detach $WT HEAD || exit 2
res="CONFIRMED"
"$(dirname "$(readlink -f "$0")")/buildtest.sh" $WT > $WT.log 2>&1 || res="unpatched build/test failed"
if [ "$res" = CONFIRMED ]; then
  ( cd $D && timeout 600 bash ./run_demo.sh $WT > $WT.demo0.log 2>&1 ) || res="demo fails on unpatched tree"
fi
if [ "$res" = CONFIRMED ]; then
  git -C $WT apply $D/patch.diff || res="patch does not apply"
fi
if [ "$res" = CONFIRMED ]; then
  "$(dirname "$(readlink -f "$0")")/buildtest.sh" $WT > $WT.log2 2>&1 || res="patched build failed"
  ctest --test-dir $WT/_build -j8 --timeout 900 2>&1 | grep -q "100% tests passed" || res="tests fail with patch"
fi
if [ "$res" = CONFIRMED ]; then
  ( cd $D && timeout 600 bash ./run_demo.sh $WT > $WT.demo1.log 2>&1 ) && res="demo passes on patched tree (no effect)"
fi
echo "$N: $res"
git -C /repo worktree remove --force $WT; rm -rf $WT $WT.log $WT.log2 $WT.demo0.log $WT.demo1.log
