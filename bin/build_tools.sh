#!/bin/bash
# Build the command-line tools (hrepack, hdiff, hdp, hdfimport) from /repo's CURRENT working tree.
# usage: build_tools.sh <outdir>      (sources are taken from the CMake source lists; plain gcc build, ~15 s)
set -e
OUT=${1:?outdir}
REPO=${VERIF_REPO:-/repo}
HERE=$(cd "$(dirname "$0")/.." && pwd)
mkdir -p "$OUT/lobj" "$OUT/tobj"
CFG=$REPO/_build
if [ ! -f "$CFG/h4config.h" ]; then CFG=$HERE/harness/cfg; fi
CFLAGS="-O1 -g -w -DHDF -I$CFG -I$REPO/hdf/src -I$REPO/mfhdf/src -I$REPO/mfhdf/util -I$REPO/hdf/util"
HS=$(grep -o 'HDF4_HDF_SRC_SOURCE_DIR}/[a-z0-9_]*\.c' $REPO/hdf/src/CMakeLists.txt | sed "s#.*}/#$REPO/hdf/src/#" | sort -u)
MS=$(grep -o 'HDF4_MFHDF_SRC_SOURCE_DIR}/[a-z0-9_]*\.c' $REPO/mfhdf/src/CMakeLists.txt | sed "s#.*}/#$REPO/mfhdf/src/#" | sort -u)
for f in $HS $MS; do echo $f; done | xargs -P16 -I{} sh -c 'b=$(basename {} .c); gcc '"$CFLAGS"' -c {} -o '"$OUT"'/lobj/$b.o || exit 255'
rm -f "$OUT/libh4.a"; ar rcs "$OUT/libh4.a" "$OUT"/lobj/*.o
tool() {   # name dir extra-sources...
  local name=$1 dir=$2; shift 2
  local srcs=$(grep -o "_SOURCE_DIR}/[a-z0-9_]*\.c" $REPO/mfhdf/$dir/CMakeLists.txt | sed "s#.*}/#$REPO/mfhdf/$dir/#" | sort -u | grep -v "_check.c\|tst\|test")
  mkdir -p "$OUT/tobj/$name"
  for f in $srcs "$@"; do [ -f "$f" ] && echo $f; done | xargs -P16 -I{} sh -c 'b=$(basename {} .c); gcc '"$CFLAGS -I$REPO/mfhdf/$dir -I$REPO/mfhdf/hdiff"' -c {} -o '"$OUT/tobj/$name"'/$b.o || exit 255'
  gcc -o "$OUT/$name" "$OUT/tobj/$name"/*.o "$OUT/libh4.a" -ljpeg -lz -lm
}
HD=$REPO/mfhdf/hdiff
tool hdiff hdiff $REPO/mfhdf/util/h4getopt.c
# hrepack uses the comparison routines of hdiff (everything but its main)
tool hrepack hrepack $HD/hdiff.c $HD/hdiff_array.c $HD/hdiff_gr.c $HD/hdiff_list.c $HD/hdiff_mattbl.c $HD/hdiff_gattr.c $HD/hdiff_misc.c $HD/hdiff_sds.c $HD/hdiff_table.c $HD/hdiff_vs.c $HD/hdiff_dim.c $REPO/mfhdf/util/h4getopt.c
tool hdp hdp
tool hdfimport hdfimport $REPO/mfhdf/util/h4getopt.c
ls "$OUT"/hrepack "$OUT"/hdiff "$OUT"/hdp "$OUT"/hdfimport
