#!/bin/bash
# buildtest.sh <worktree> : configure+build the tree like /repo/_build (cmake, Ninja, tools+examples+tests) and run the 405-test suite
WT=${1:?worktree}
cmake -G Ninja -S $WT -B $WT/_build -DCMAKE_BUILD_TYPE=RelWithDebInfo -DBUILD_SHARED_LIBS=ON -DBUILD_TESTING=ON \
  -DHDF4_BUILD_EXAMPLES=ON -DH4EX_BUILD_TESTING=ON -DHDF4_BUILD_TOOLS=ON -DHDF4_BUILD_FORTRAN=OFF -DHDF4_BUILD_JAVA=OFF \
  -DHDF4_ENABLE_SZIP_SUPPORT=OFF > $WT/_build.cfg.log 2>&1 || { echo "configure failed"; exit 2; }
cmake --build $WT/_build -j16 > $WT/_build.build.log 2>&1 || { echo "build failed"; tail -20 $WT/_build.build.log; exit 2; }
ctest --test-dir $WT/_build -j8 --timeout 900 > $WT/_build.test.log 2>&1; grep -q "100% tests passed" $WT/_build.test.log || { echo "tests failed"; grep -E "Failed|\*\*\*|tests passed" $WT/_build.test.log | head -20; exit 1; }
echo "build+tests ok"
