#!/usr/bin/env python3
"""import_mutant.py <src_dir> <name> <property> <detected: yes|no|partial> <check that detects> <one-line needs>
copies patch.diff + demonstration into /verif/seeded/<name>/ and writes meta.json"""
import sys, os, shutil, json
src, name, prop, det, by, needs = sys.argv[1:7]
dst = os.path.join(os.path.dirname(os.path.dirname(os.path.abspath(__file__))), "seeded", name)
os.makedirs(dst, exist_ok=True)
for f in os.listdir(src):
    if os.path.getsize(os.path.join(src, f)) < 200000 and not f.endswith(".log"):
        shutil.copy(os.path.join(src, f), os.path.join(dst, f))
json.dump({"property": prop, "needs_to_manifest": needs,
           "confirmed": "bin/confirm_mutant.sh: scratch worktree of /repo HEAD; demo passes unpatched; with patch.diff applied the tree builds, "
                        "all 405 ctest tests pass, and the demo fails",
           "ran": "bin/try_mutant.sh %s %s (check run against a scratch worktree with the patch applied, via VERIF_REPO)" % (src, prop),
           "detected": det, "detected_by": by}, open(os.path.join(dst, "meta.json"), "w"), indent=1)
print(dst)
