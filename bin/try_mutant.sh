#!/bin/bash
# try_mutant.sh <mutant_dir> <Cxx> [tier] : run a check against a scratch worktree of /repo HEAD with the mutant applied
# (VERIF_REPO points the build at the worktree; /repo itself is not touched; evidence goes to a scratch dir)
D=${1:?dir}; P=${2:?prop}; T=${3:-quick}; N=$(basename $D)
WT=/tmp/mut/try_${N}_$P
git -C /repo worktree remove --force $WT 2>/dev/null; rm -rf $WT
git -C /repo worktree add -q --detach $WT HEAD || exit 2
git -C $WT apply $D/patch.diff || { echo "$N $P: patch does not apply"; git -C /repo worktree remove --force $WT; exit 2; }
mkdir -p /tmp/mut/ev_$N
VERIF_REPO=$WT VERIF_EVIDENCE_DIR=/tmp/mut/ev_$N VERIF_VIOL_DIR=/tmp/mut/ev_$N/viol "$(dirname "$0")/check" $P --tier $T > /tmp/mut/try_${N}_$P.log 2>&1
rc=$?
nv=$(grep -c "^VIOLATION" /tmp/mut/try_${N}_$P.log)
echo "$N $P: exit=$rc violations=$nv $(grep -m1 '^  what' /tmp/mut/try_${N}_$P.log | cut -c1-200)"
git -C /repo worktree remove --force $WT; rm -rf $WT
