"""vlib.py -- shared machinery of the /verif checks (standard library only).

  Work            private scratch directory (removed on exit)
  build_lib       instrumented libh4v.so from /repo's current working tree
  tlc_check       run TLC on a model (always under timeout), parse states / transitions / coverage
  tlc_generate    run TLC as behaviour generator (transition cover or -simulate), returns behaviour list
  drive           replay behaviours through the real library (harness/drive.py)
  tlc_validate    validate recorded executions against a Trace_* specification, sharded over cores
  Findings        KNOWN_FINDINGS.jsonl matching
  Report          evidence file + VIOLATION / KNOWN-FINDING lines + exit code
"""
import os, sys, json, re, subprocess, tempfile, shutil, time, hashlib, atexit, random, glob

VERIF = os.path.dirname(os.path.dirname(os.path.abspath(__file__)))
REPO = os.environ.get("VERIF_REPO", "/repo")
SPECS = os.path.join(VERIF, "specs")
ASAN_SO = None
NCPU = min(16, os.cpu_count() or 4)


def seed():
    try:
        return int(os.environ.get("VERIF_SEED", "1"))
    except ValueError:
        return 1


class InfraError(Exception):
    """the machinery failed (build error, TLC parse error, time-out): exit 2, never a VIOLATION"""


class Work:
    def __init__(self, tag):
        base = os.environ.get("TMPDIR", "/tmp")
        self.dir = tempfile.mkdtemp(prefix="h4verif_%s_" % tag, dir=base)
        atexit.register(self.cleanup)

    def path(self, *p):
        return os.path.join(self.dir, *p)

    def sub(self, name):
        d = self.path(name)
        os.makedirs(d, exist_ok=True)
        return d

    def cleanup(self):
        if os.environ.get("VERIF_KEEP"):
            return
        shutil.rmtree(self.dir, ignore_errors=True)


def asan_so():
    global ASAN_SO
    if ASAN_SO is None:
        out = subprocess.run(["gcc", "-print-file-name=libasan.so"], capture_output=True, text=True).stdout.strip()
        ASAN_SO = os.path.realpath(out)
    return ASAN_SO


def build_lib(work, mode="asan"):
    """build libh4v.so from /repo's current working tree into the work directory"""
    if os.environ.get("VERIF_LIBMODE"):        # e.g. "cov": gcov build into a fixed directory (bin/coverage.sh)
        mode = os.environ["VERIF_LIBMODE"]
    out = os.environ.get("VERIF_LIBDIR") or work.sub("build_" + mode)
    t = time.time()
    p = subprocess.run([os.path.join(VERIF, "bin", "build_lib.sh"), out, mode], capture_output=True, text=True,
                       env=dict(os.environ, VERIF_REPO=REPO))
    so = os.path.join(out, "libh4v.so")
    if p.returncode != 0 or not os.path.exists(so):
        raise InfraError("build of /repo failed:\n" + (p.stdout + p.stderr)[-3000:])
    return so, time.time() - t


# ------------------------------------------------------------------------------------------ TLC

def _tlc_env(extra=None):
    e = dict(os.environ)
    e.pop("LD_PRELOAD", None)
    if extra:
        e.update({k: str(v) for k, v in extra.items()})
    return e


def run_tlc(work, module, cfg, args=(), env=None, timeout=900, workers=None, heap="8g", specdir=None):
    """run TLC; returns (returncode, output). Never raises on violation; raises InfraError on time-out."""
    specdir = specdir or SPECS
    meta = tempfile.mkdtemp(prefix="tlcmeta_", dir=work.dir)
    cmd = ["timeout", str(timeout), "java", "-XX:+UseParallelGC", "-Xss64m", "-Xmx" + heap,
           "-cp", "/opt/veriftools/tla/tla2tools.jar:/opt/veriftools/tla/CommunityModules-deps.jar",
           "tlc2.TLC", "-metadir", meta, "-workers", str(workers or 1), "-config", cfg] + list(args) + [module]
    p = subprocess.run(cmd, cwd=specdir, capture_output=True, text=True, env=_tlc_env(env))
    shutil.rmtree(meta, ignore_errors=True)
    # TLC leaves *_TTrace_* files next to the spec on violations: remove
    for f in glob.glob(os.path.join(specdir, "*_TTrace_*")):
        try:
            os.unlink(f)
        except OSError:
            pass
    out = p.stdout + p.stderr
    if p.returncode == 124:
        raise InfraError("TLC timed out after %ds on %s/%s" % (timeout, module, cfg))
    return p.returncode, out


def parse_tlc_stats(out):
    st = {"states_generated": 0, "distinct_states": 0, "depth": 0}
    m = re.findall(r"(\d[\d,]*) states generated, (\d[\d,]*) distinct states found", out)
    if m:
        st["states_generated"] = int(m[-1][0].replace(",", ""))
        st["distinct_states"] = int(m[-1][1].replace(",", ""))
    m = re.search(r"depth of the complete state graph search is (\d+)", out)
    if m:
        st["depth"] = int(m.group(1))
    return st


def parse_coverage(out):
    """-coverage 1 prints  <Action line ..>: distinct:generated  ; returns {action: (distinct, generated)}"""
    cov = {}
    for m in re.finditer(r"^<(\w+) line (\d+), col \d+ to line \d+, col \d+ of module (\w+)>: (\d+):(\d+)", out, re.M):
        cov["%s" % m.group(1)] = (int(m.group(4)), int(m.group(5)))
    return cov


def tlc_check(work, module, cfg, workers=NCPU, timeout=900, need_actions=(), heap="12g", env=None):
    """design check: returns dict(ok, stats, coverage, output). ok=False => an invariant/property of the
    MODEL failed (that is a defect of the specification, reported as infrastructure failure)."""
    rc, out = run_tlc(work, module, cfg, args=["-coverage", "1"], timeout=timeout, workers=workers, heap=heap, env=env)
    stats = parse_tlc_stats(out)
    cov = parse_coverage(out)
    ok = (rc == 0) and ("Model checking completed. No error has been found" in out)
    if not ok:
        raise InfraError("design check %s/%s failed (rc=%d):\n%s" % (module, cfg, rc, out[-3000:]))
    missing = [a for a in need_actions if cov.get(a, (0, 0))[1] == 0]
    if missing:
        raise InfraError("vacuous model %s: actions never taken: %s" % (module, missing))
    return {"stats": stats, "coverage": cov, "output": out}


def tlc_generate(work, module, cfg, outfile, mode="cover", num=1000, depth=20, timeout=900, env=None, sd=None):
    """behaviour generation. The generator module writes one JSON line per behaviour to IOEnv.GEN_OUT.
    mode 'cover': BFS (one behaviour per abstract transition); 'sim': -simulate num/depth."""
    e = {"GEN_OUT": outfile}
    if env:
        e.update(env)
    if os.path.exists(outfile):
        os.unlink(outfile)
    args = []
    if mode == "sim":
        args = ["-simulate", "num=%d" % num, "-depth", str(depth), "-seed", str(sd if sd is not None else seed())]
    rc, out = run_tlc(work, module, cfg, args=args, env=e, timeout=timeout, workers=1, heap="8g")
    if rc != 0 and "Model checking completed" not in out and "simulation" not in out.lower():
        raise InfraError("generator %s/%s failed (rc=%d):\n%s" % (module, cfg, rc, out[-3000:]))
    if rc not in (0,) and not os.path.exists(outfile):
        raise InfraError("generator %s/%s produced nothing (rc=%d):\n%s" % (module, cfg, rc, out[-3000:]))
    behs = []
    if os.path.exists(outfile):
        with open(outfile) as f:
            for line in f:
                line = line.strip()
                if not line:
                    continue
                try:
                    behs.append(json.loads(line))
                except ValueError:
                    raise InfraError("generator wrote an unparsable line: " + line[:200])
    return behs, parse_tlc_stats(out), out


# ------------------------------------------------------------------------------------------ driver

def drive(work, lib, behs, mods="ops_h", jobs=NCPU, timeout=30, tag="run"):
    """replay behaviours through the real library; returns list of result dicts"""
    inp = work.path("%s_in.ndjson" % tag)
    outp = work.path("%s_out.ndjson" % tag)
    with open(inp, "w") as f:
        for b in behs:
            f.write(json.dumps(b) + "\n")
    env = dict(os.environ)
    env["LD_PRELOAD"] = asan_so()
    env["ASAN_OPTIONS"] = "detect_leaks=0:abort_on_error=0:exitcode=86:allocator_may_return_null=1:handle_segv=1:detect_stack_use_after_return=0"
    env["UBSAN_OPTIONS"] = "print_stacktrace=1:halt_on_error=1"
    env["TMPDIR"] = work.sub("scratch")
    p = subprocess.run([sys.executable, os.path.join(VERIF, "harness", "drive.py"), "--lib", lib, "--in", inp,
                        "--out", outp, "--jobs", str(jobs), "--timeout", str(timeout), "--mods", mods],
                       capture_output=True, text=True, env=env)
    if not os.path.exists(outp):
        raise InfraError("driver failed:\n" + (p.stdout + p.stderr)[-3000:])
    res = [json.loads(l) for l in open(outp) if l.strip()]
    if len(res) != len(behs):
        raise InfraError("driver returned %d results for %d behaviours:\n%s" % (len(res), len(behs), (p.stdout + p.stderr)[-2000:]))
    errs = [r for r in res if r["status"] == "error"]
    if errs:
        raise InfraError("driver harness error: " + json.dumps(errs[0].get("error"))[:2000])
    return res


# ------------------------------------------------------------------------------------------ trace validation

def tlc_validate(work, module, cfg, results, shards=NCPU, timeout=900, tag="tv"):
    """validate recorded executions (driver results) against Trace_<M>. Each execution becomes a
    Reset-delimited segment; shards run in parallel. Returns (n_accepted, rejected_ids)."""
    results = [r for r in results if r.get("trace")]
    if not results:
        return 0, []
    shards = max(1, min(shards, len(results)))
    files = []
    for s in range(shards):
        part = results[s::shards]
        fn = work.path("%s_%d.ndjson" % (tag, s))
        with open(fn, "w") as f:
            for r in part:
                f.write(json.dumps({"op": "Reset", "args": {"id": r["id"]}, "obs": {}}) + "\n")
                for ev in r["trace"]:
                    f.write(json.dumps(ev) + "\n")
        files.append((fn, part))
    procs = []
    for fn, part in files:
        meta = tempfile.mkdtemp(prefix="tlcmeta_", dir=work.dir)
        cmd = ["timeout", str(timeout), "java", "-XX:+UseParallelGC", "-Xss512m", "-Xmx3g",
               "-cp", "/opt/veriftools/tla/tla2tools.jar:/opt/veriftools/tla/CommunityModules-deps.jar",
               "tlc2.TLC", "-metadir", meta, "-workers", "1", "-config", cfg, module]
        procs.append((subprocess.Popen(cmd, cwd=SPECS, stdout=subprocess.PIPE, stderr=subprocess.STDOUT, text=True,
                                       env=_tlc_env({"TRACE": fn})), fn, part, meta))
    accepted, rejected = 0, []
    for p, fn, part, meta in procs:
        out = p.communicate()[0]
        shutil.rmtree(meta, ignore_errors=True)
        if p.returncode == 124:
            raise InfraError("trace validation timed out on " + fn)
        if "TRACE_COMPLETE" not in out:
            raise InfraError("trace validation of %s gave no verdict:\n%s" % (fn, out[-2500:]))
        bad_lines = sorted(set(int(x) for x in re.findall(r"TRACE_REJECTED_AT (\d+)", out)))
        # attribute each rejected line to its execution
        starts, cur = [], 0
        for r in part:
            starts.append(cur)          # line numbers are 1-based: Reset line = cur+1
            cur += 1 + len(r["trace"])
        bad_idx = {}
        import bisect
        for ln in bad_lines:
            i = bisect.bisect_right(starts, ln - 1) - 1
            if i not in bad_idx:
                bad_idx[i] = ln - starts[i] - 2   # index into trace of the first unexplained event
        for i, at in bad_idx.items():
            r = part[i]
            r["rejected_at"] = at
            rejected.append(r)
        accepted += len(part) - len(bad_idx)
    for f in glob.glob(os.path.join(SPECS, "*_TTrace_*")):
        try:
            os.unlink(f)
        except OSError:
            pass
    return accepted, rejected


# ------------------------------------------------------------------------------------------ findings / report

class Findings:
    """KNOWN_FINDINGS.jsonl: committed, never written at run time."""
    def __init__(self):
        self.known, self.fixed = [], []
        fn = os.path.join(VERIF, "KNOWN_FINDINGS.jsonl")
        if os.path.exists(fn):
            for l in open(fn):
                l = l.strip()
                if not l or l.startswith("#"):
                    continue
                d = json.loads(l)
                (self.known if d.get("status") == "known" else self.fixed).append(d)

    def match(self, prop, sig):
        """sig: dict describing the failure (op, pattern, site...). A known entry matches when every key of
        its 'match' object equals (or regex-matches, for keys ending in _re) the signature."""
        for k in self.known:
            if k.get("property") != prop:
                continue
            ok = True
            for key, val in k.get("match", {}).items():
                if key.endswith("_re"):
                    if not re.search(val, str(sig.get(key[:-3], ""))):
                        ok = False
                        break
                elif sig.get(key) != val:
                    ok = False
                    break
            if ok:
                return k
        return None


class Report:
    def __init__(self, prop, tier, level):
        self.prop, self.tier, self.level = prop, tier, level
        self.t0 = time.time()
        self.cov = {}
        self.assumptions = []
        self.violations = []     # (signature dict, replay object)
        self.known_hits = {}
        self.findings = Findings()

    def violation(self, sig, replay):
        k = self.findings.match(self.prop, sig)
        if k is not None:
            key = k.get("id") or k.get("what")
            self.known_hits.setdefault(key, {"entry": k, "count": 0})["count"] += 1
            return False
        self.violations.append((sig, replay))
        return True

    def finish(self):
        outdir = os.environ.get("VERIF_VIOL_DIR", os.path.join(VERIF, "out", "violations"))
        lines = []
        for key, h in sorted(self.known_hits.items()):
            lines.append("KNOWN-FINDING: property=%s %s (observed %d times)" % (self.prop, h["entry"].get("what", key), h["count"]))
        seen = set()
        nv = 0
        for sig, replay in self.violations:
            s = json.dumps(sig, sort_keys=True)
            hsh = hashlib.sha1(s.encode()).hexdigest()[:10]
            if hsh in seen:
                continue
            seen.add(hsh)
            nv += 1
            if nv > 40:
                continue
            os.makedirs(outdir, exist_ok=True)
            path = os.path.join(outdir, "%s-%s.json" % (self.prop, hsh))
            with open(path, "w") as f:
                json.dump({"property": self.prop, "signature": sig, "replay": replay}, f, indent=1, default=str)
            lines.append("VIOLATION property=%s replay=%s" % (self.prop, path))
            lines.append("  what: " + s[:600])
        ev = {"property_id": self.prop, "tier": self.tier, "seed": seed(), "level": self.level,
              "coverage": self.cov, "assumptions": self.assumptions,
              "wall_s": round(time.time() - self.t0, 1), "violations": nv}
        if self.violations:
            ev["coverage"]["violation_signatures"] = sorted(set(json.dumps(sg, sort_keys=True) for sg, _ in self.violations))[:200]
        ev["coverage"]["known_findings_observed"] = {k: v["count"] for k, v in self.known_hits.items()}
        evdir = os.environ.get("VERIF_EVIDENCE_DIR", os.path.join(VERIF, "evidence"))
        os.makedirs(evdir, exist_ok=True)
        with open(os.path.join(evdir, self.prop + ".json"), "w") as f:
            json.dump(ev, f, indent=1, default=str)
        for l in lines:
            print(l)
        print("%s %s: %s in %.0fs" % (self.prop, self.tier, "VIOLATED" if nv else "held on everything explored", time.time() - self.t0))
        return 1 if nv else 0


def beh_key(b):
    return hashlib.sha1(json.dumps([[s["op"], s.get("args")] for s in b["steps"]], sort_keys=True).encode()).hexdigest()


def main_wrapper(fn):
    """run a check function(tier, replay) with the exit-code contract"""
    import argparse
    ap = argparse.ArgumentParser()
    ap.add_argument("--tier", default=os.environ.get("VERIF_TIER", "quick"))
    ap.add_argument("--replay", default=None)
    a = ap.parse_args()
    try:
        rc = fn(a.tier, a.replay)
    except InfraError as e:
        print("INFRASTRUCTURE FAILURE (not a verdict): %s" % e)
        sys.exit(2)
    sys.exit(rc)
