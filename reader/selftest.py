#!/usr/bin/env python3
"""Self test of h4read.py (the independent HDF4 reader).

1. builds a corpus of library-produced files (testhdf, hdftest, example programs),
2. parses every corpus file and every checked-in HDF file: no exception, no errors,
3. cross-checks DD listing / vdatas / SDS headers+data / GR images against hdfls and hdp,
4. checks that linked, external, RLE/skphuff/deflate/nbit, chunked and
   chunked+compressed elements were value-compared against `hdp dumpsds -d`,
5. robustness: truncated prefixes, random garbage, targeted corruptions.

The HDF4 tools are used here only (never from h4read.py).  Exit status 0 = all good.
"""
import glob
import os
import random
import re
import shutil
import struct
import subprocess
import sys
import tempfile
import time

sys.path.insert(0, os.path.dirname(os.path.abspath(__file__)))
import h4read  # noqa: E402

BIN = "/repo/_build/bin"
EXAMPLES = """mf_SD_create_sds mf_SD_write_to_sds mf_SD_write_slab mf_SD_alter_sds_values
mf_SD_set_get_dim_info mf_SD_dimscale_vs_sds mf_SD_set_attr mf_SD_unlimited_sds mf_SD_compress_sds
mf_SD_chunking_example mf_SD_mv_sds_to_external hdf_h4ex_VD_create_vdatas
hdf_h4ex_VD_create_onefield_vdatas hdf_h4ex_VD_write_to_vdata hdf_h4ex_VD_write_mixed_vdata
hdf_h4ex_VD_write_mixed_vdata_struct hdf_h4ex_VG_create_vgroup hdf_h4ex_VG_insert_vdatas_to_vgroup
mf_h4ex_VG_add_sds_to_vgroup hdf_h4ex_GR_create_and_write_image hdf_h4ex_GR_modify_image
hdf_h4ex_GR_set_attribute hdf_h4ex_GR_write_palette hdf_h4ex_GR_create_and_write_chunked_image
hdf_h4ex_AN_create_annotation""".split()

# Library-produced files on which read() of some element is *expected* to fail;
# see NOTES.md.  (file basename, base tag, ref) -> reason
KNOWN_READ_FAILURES = {
    ("gr_gzip.hdf", 302, 2): "comp header says 200 bytes, deflate stream holds 100 (library quirk)",
    ("tx.hdf", 1000, 5): "external file lives in testdir/ (HXsetcreatedir), not next to the file",
    ("sds_compressed.hdf", 702, 7): "szip coder not implemented",
}
FAILS = []
T0 = time.time()


def fail(msg):
    FAILS.append(msg)
    print("FAIL: " + msg)


def note(msg):
    print("[%5.1fs] %s" % (time.time() - T0, msg))


def run(cmd, cwd, timeout=120):
    p = subprocess.run(cmd, cwd=cwd, stdout=subprocess.PIPE, stderr=subprocess.STDOUT, timeout=timeout)
    return p.returncode, p.stdout.decode("latin-1")


def is_hdf(path):
    try:
        with open(path, "rb") as f:
            return f.read(4) == h4read.MAGIC
    except OSError:
        return False


# ------------------------------------------------------------------ 1. corpus
def make_corpus(root):
    a, b, c = (os.path.join(root, d) for d in "abc")
    for d in (a, b, c):
        os.makedirs(d)
    for d in ("test_files", "testdir", "testfiles"):
        os.makedirs(os.path.join(a, d))
    for f in glob.glob("/repo/hdf/test/test_files/*"):
        shutil.copy(f, os.path.join(a, "test_files"))
    rc, out = run([BIN + "/testhdf", "-c"], a)          # -c: keep the files
    note("testhdf rc=%d, %d files" % (rc, len(glob.glob(a + "/*.hdf"))))
    for f in glob.glob("/repo/mfhdf/test/*.nc") + glob.glob("/repo/mfhdf/test/*.dat"):
        shutil.copy(f, b)
    rc, out = run([BIN + "/hdftest"], b)
    note("hdftest rc=%d, %d files" % (rc, len(glob.glob(b + "/*.hdf"))))
    for ex in EXAMPLES:
        run([os.path.join(BIN, ex)], c)
    note("examples: %d files" % len(glob.glob(c + "/*.hdf")))
    produced = []
    for d in (a, os.path.join(a, "testdir"), b, c):
        for f in sorted(glob.glob(d + "/*")):
            if os.path.isfile(f) and is_hdf(f):
                produced.append(f)
    return produced


def checked_in():
    fs = glob.glob("/repo/hdf/test/test_files/*") + glob.glob("/repo/mfhdf/*/testfiles/*") + \
        glob.glob("/repo/hdf/util/testfiles/*") + glob.glob("/repo/mfhdf/test/*.dat")
    return sorted(f for f in fs if os.path.isfile(f) and is_hdf(f))


# ------------------------------------------------------------- 2. parse all
def exercise(v):
    """Call every API entry; only FormatError may come out of read()."""
    bad = []
    for key in v.elements:
        try:
            b = v.read(*key)
            if len(b) != v.elements[key].length:
                bad.append((key, "read gave %d bytes, length says %d" % (len(b), v.elements[key].length)))
        except h4read.FormatError as x:
            bad.append((key, str(x)))
    v.vdatas(), v.vgroups(), v.annotations(), v.sds(), v.sds_file(), v.rasters()
    v.extent_map(), v.to_json()
    return bad


def check_parse_all(files, label, parsed):
    nerr = 0
    for f in files:
        try:
            v = h4read.parse(f)
            bad = exercise(v)
        except Exception as x:
            fail("%s: exception %s: %s" % (f, type(x).__name__, x))
            continue
        parsed[f] = v
        print("  %-60s errors=%d warnings=%d unreadable=%d" % (
            os.path.relpath(f, "/tmp") if f.startswith("/tmp") else f, len(v.errors),
            len(v.warnings), len(bad)))
        if v.errors:
            nerr += 1
            fail("%s: %d errors, first: %s" % (f, len(v.errors), v.errors[0]))
        for key, msg in bad:
            if (os.path.basename(f), key[0], key[1]) in KNOWN_READ_FAILURES or "(szip)" in msg:
                print("      known: %d/%d %s" % (key[0], key[1], msg))
            else:
                fail("%s: element %d/%d unreadable: %s" % (f, key[0], key[1], msg))
    note("%s: %d files parsed, %d with errors" % (label, len(files), nerr))


# --------------------------------------------------------- 3. cross checks
def xcheck_ddlist(f, v):
    """hdfls -l prints (tag, ref, DD length) for every DD."""
    rc, out = run([BIN + "/hdfls", "-l", os.path.basename(f)], os.path.dirname(f))
    theirs, tag = [], None
    for line in out.splitlines():
        m = re.search(r"\(tag (\d+)\)", line)
        if m:
            tag = int(m.group(1))
            continue
        m = re.match(r"\s*Ref no\s+(\d+)\s+(-?\d+) bytes", line)
        if m and tag is not None:
            theirs.append((tag, int(m.group(1)), int(m.group(2))))
    if rc != 0 or "more DD's than hdfls can display" in out:
        # fall back to `hdp list -a` (tag/ref only)
        why = "too many DDs for hdfls" if rc == 0 else "hdfls died with rc=%d" % rc
        rc, out = run([BIN + "/hdp", "list", "-a", os.path.basename(f)], os.path.dirname(f))
        if rc != 0:
            print("   (%s: %s and hdp list died with rc=%d -- tool crash, DD list not cross-checked)"
                  % (os.path.basename(f), why, rc))
            return 0
        theirs = sorted((int(m.group(1)), int(m.group(2))) for m in
                        re.finditer(r"^\s*\d+.*?\s(\d+)\s+(\d+)\s+\d+\s*$", out, re.M))
        mine = sorted((d["tag"], d["ref"]) for d in v.dds)
        print("   (%s: %s; compared %d tag/refs with hdp list instead)" % (os.path.basename(f), why, len(mine)))
        if theirs != mine:
            fail("%s: DD tag/ref list differs from hdp list (%d vs %d)" % (f, len(theirs), len(mine)))
        return 0
    # for special elements hdfls shows the logical length (Hinquire), else the DD length
    mine = []
    for d in v.dds:
        e = v.elements.get((h4read.base_tag(d["tag"]), d["ref"]))
        special = h4read.is_special(d["tag"]) and e is not None and e.tag == d["tag"] and e.state == 2
        mine.append((d["tag"], d["ref"], e.length if special else d["len"]))
    if sorted(theirs) != sorted(mine):
        fail("%s: DD list differs from hdfls: only hdfls %s only mine %s" % (
            f, sorted(set(theirs) - set(mine))[:5], sorted(set(mine) - set(theirs))[:5]))
        return 0
    return len(mine)


def xcheck_vdatas(f, v):
    rc, out = run([BIN + "/hdp", "dumpvd", os.path.basename(f)], os.path.dirname(f))
    mine = {d["ref"]: d for d in v.vdatas()}
    n = 0
    for blk in re.split(r"\nVdata: \d+\n", "\n" + out)[1:]:
        m = re.search(r"tag = 1962; reference = (\d+);\s+number of records = (\d+); interlace = \S+ \((\d+)\);"
                      r"\s+fields = (?:\[(.*?)\]| *<Undefined>);\s+record size \(in bytes\) = (\d+);\s+name = (.*?); +class = (.*?);(?:\n|$)",
                      blk, re.S)
        if not m:
            fail("%s: cannot parse hdp dumpvd block %r" % (f, blk[:80]))
            continue
        ref, nrec, il, fields, rsz, name, cls = m.groups()
        d = mine.get(int(ref))
        if d is None:
            fail("%s: vdata %s known to hdp but not to reader" % (f, ref))
            continue
        und = lambda x: x if x else "<Undefined>"          # hdp's rendering of an empty string
        got = [d["nvert"], d["interlace"], und(d["name"]), und(d["class"])]
        exp = [int(nrec), int(il), name, cls]
        if fields is not None:                              # hdp shows no fields for empty vdatas
            got += [[x["name"] for x in d["fields"]], d["ivsize"]]
            exp += [[x.strip() for x in fields.replace("\n", " ").split(",")], int(rsz)]
            types = [(int(t), int(o)) for t, o in re.findall(r"type=(-?\d+), order=(\d+)", blk)]
            if types:                                       # not printed for vdatas without records
                got.append([(x["type"], x["order"]) for x in d["fields"]])
                exp.append(types)
        # hdp truncates nothing, but trailing blanks in names are not significant
        if got != exp and not (len(d["name"]) > 60 or "\n" in d["name"]):
            fail("%s: vdata %s differs: hdp %s reader %s" % (f, ref, exp, got))
        n += 1
    if n != len(mine):
        fail("%s: hdp lists %d vdatas, reader %d" % (f, n, len(mine)))
    return n


FMT = {3: "B", 4: "b", 5: "f", 6: "d", 20: "b", 21: "B", 22: "h", 23: "H", 24: "i", 25: "I", 26: "q", 27: "Q"}


def decode(raw, nt):
    t = nt & 0xFFF
    size = h4read.NT_SIZES[t]
    n = len(raw) // size
    return list(struct.unpack(("<" if nt & 0x4000 else ">") + "%d%s" % (n, FMT[t]), raw[:n * size]))


def same(a, b, isfloat):
    if not isfloat:
        return a == b
    if a != a or b != b:
        return (a != a) == (b != b)
    return abs(a - b) <= 1e-6 + 2e-6 * abs(a)


def xcheck_vdata_values(f, v, cover):
    """Numeric vdatas: compare all values with hdp dumpvd -d."""
    n = 0
    for d in v.vdatas():
        if not d["fields"] or d["nvert"] == 0 or d["nvert"] * d["ivsize"] > 20000 or \
                d["class"].startswith("_HDF_CHK_TBL") or \
                any((x["type"] & 0xFFF) not in FMT or (x["type"] & 0xFFF) in (3, 4) or x["order"] == 0
                    for x in d["fields"]) or d["interlace"] != 0:
            continue
        rc, out = run([BIN + "/hdp", "dumpvd", "-d", "-r", str(d["ref"]), os.path.basename(f)], os.path.dirname(f))
        try:
            theirs = [float(t) for t in out.split()]
        except ValueError:
            continue
        mine, isf = [], []
        for r in range(d["nvert"]):
            rec = d["data"][r * d["ivsize"]:(r + 1) * d["ivsize"]]
            for x in d["fields"]:
                vals = decode(rec[x["offset"]:x["offset"] + x["isize"]], x["type"])
                mine += vals
                isf += [(x["type"] & 0xFFF) in (5, 6)] * len(vals)
        if len(mine) != len(theirs) or not all(same(a, b, c) for a, b, c in zip(mine, theirs, isf)):
            fail("%s: vdata %d values differ from hdp (%d vs %d values)" % (f, d["ref"], len(mine), len(theirs)))
        else:
            n += 1
            e = v.elements.get((h4read.DFTAG_VS, d["ref"]))
            if e is not None and e.special:
                cover.add("vdata-" + e.special)
    return n


def sds_kind(v, e):
    kinds = set()
    if e.special == "comp":
        kinds.add("comp-" + e.info["coder_name"])
        d = v.elements.get((h4read.DFTAG_COMPRESSED, e.info["comp_ref"]))
        if d is not None and d.special:
            kinds.add("comp-data-" + d.special)
    elif e.special == "chunked":
        kinds.add("chunked+" + e.info["comp"]["coder_name"] if e.info["comp"] else "chunked")
    elif e.special:
        kinds.add(e.special)
    else:
        kinds.add("contiguous")
    return kinds


def xcheck_sds(f, v, cover):
    """SDS headers and all data values vs hdp dumpsds."""
    cwd, base = os.path.dirname(f), os.path.basename(f)
    rc, out = run([BIN + "/hdp", "dumpsds", "-h", base], cwd)
    hdr = {}
    for blk in re.split(r"\n(?=(?:Dimension )?Variable Name = )", out):
        m = re.match(r"(?:Dimension )?Variable Name = (.*)\n\s+Index = (\d+)\n\s+(?:Scale )?Type= (.*)\n\s+Ref. = (\d+)", blk)
        if m:
            rank = re.search(r"Rank = (\d+)", blk)
            hdr[int(m.group(4))] = {"name": m.group(1), "index": int(m.group(2)),
                                    "rank": int(rank.group(1)) if rank else None,
                                    "dims": re.findall(r"Dim\d+: Name=(.*)\n\s+Size = (.*)\n", blk),
                                    "nattr": int(re.search(r"Number of attributes = (\d+)", blk).group(1))}
    ncmp = 0
    for s in v.sds():
        h = hdr.get(s["ndg_ref"])
        if h is None:
            fail("%s: SDS %r (ndg %d) not listed by hdp" % (f, s["name"], s["ndg_ref"]))
            continue
        if h["name"].rstrip() != s["name"].rstrip() or h["rank"] != len(s["dims"]) or h["nattr"] != len(s["attrs"]):
            fail("%s: SDS header differs: hdp %s reader %s" % (f, h, s))
        for (hn, hs), d in zip(h["dims"], s["dims"]):
            size = 0 if "UNLIMITED" in hs else int(hs)
            if hn != d["name"] or size != d["size"]:
                fail("%s: SDS %r dim differs: hdp (%s,%s) reader %s" % (f, s["name"], hn, hs, d))
        key = (h4read.DFTAG_SD, s["data_ref"])
        if not s["data_ref"] or key not in v.elements or s["nt"] is None or (s["nt"] & 0xFFF) not in FMT \
                or (s["nt"] & 0xFFF) in (3, 4):
            continue
        if (base, key[0], key[1]) in KNOWN_READ_FAILURES:
            continue
        e = v.elements[key]
        try:
            mine = decode(v.read(*key), s["nt"])
        except h4read.FormatError as x:
            if "(szip)" not in str(x):
                fail("%s: SDS %r unreadable: %s" % (f, s["name"], x))
            continue
        if len(mine) > 200000:
            continue
        rc, out = run([BIN + "/hdp", "dumpsds", "-d", "-s", "-r", str(s["ndg_ref"]), base], cwd)
        if "No data written" in out:
            continue
        try:
            theirs = [float(t) for t in out.split()]
        except ValueError:
            fail("%s: SDS %r: cannot parse hdp output %r" % (f, s["name"], out[:80]))
            continue
        full = 1
        for d in s["dims"]:
            full *= d["size"] if d["size"] else d.get("numrecs", 0)
        unlimited = any(d["size"] == 0 for d in s["dims"])
        # an element may hold fewer values than the shape (never fully written): hdp pads with fill
        n = len(mine) if (unlimited or len(mine) < full) else full
        isf = (s["nt"] & 0xFFF) in (5, 6)
        if len(theirs) < n or len(mine) < n or not all(same(a, b, isf) for a, b in zip(mine[:n], theirs[:n])):
            fail("%s: SDS %r (%s) data differs from hdp: %d vs %d values, first mine %s theirs %s" % (
                f, s["name"], sds_kind(v, e), len(mine), len(theirs), mine[:6], theirs[:6]))
        elif n:
            ncmp += 1
            cover.update(sds_kind(v, e))
    return ncmp


def xcheck_rasters(f, v, cover):
    """GR images (uncompressed or special-compressed, pixel interlace) vs hdp dumpgr -d."""
    cwd, base = os.path.dirname(f), os.path.basename(f)
    n = 0
    imgs = [r for r in v.rasters() if r["via"] == "vgroup"]
    for i, r in enumerate(imgs):
        key = (r["data_tag"], r["data_ref"])
        if r["nt"] is None or (r["nt"] & 0xFFF) not in FMT or r["compressed"] or key not in v.elements or "error" in r:
            continue
        if (base, key[0], key[1]) in KNOWN_READ_FAILURES:
            continue
        rc, out = run([BIN + "/hdp", "dumpgr", "-d", "-s", "-i", str(i), base], cwd)
        try:
            theirs = [float(t) for t in out.split()]
            mine = decode(v.read(*key), r["nt"])
        except (ValueError, h4read.FormatError):
            continue
        if r["interlace"] != 0:
            continue
        if not mine:
            continue
        isf = (r["nt"] & 0xFFF) in (5, 6)
        if len(mine) != len(theirs) or not all(same(a, b, isf) for a, b in zip(mine, theirs)):
            fail("%s: image %r pixels differ from hdp (%d vs %d)" % (f, r["name"], len(mine), len(theirs)))
        else:
            n += 1
            cover.update("gr-" + k for k in sds_kind(v, v.elements[key]))
    return n


# ----------------------------------------------------------- 5. robustness
def check_corruptions(sample, tmp):
    """Targeted damage must be reported in the right category."""
    data = bytearray(open(sample, "rb").read())
    v = h4read.parse(sample)
    dds = [d for d in v.dds if d["len"] > 8 and d["off"] > 0]
    pos = lambda d: v.ddblocks[d["block"]]["off"] + 6 + 12 * d["slot"]

    def variant(name, patch):
        b = bytearray(data)
        patch(b)
        p = os.path.join(tmp, "corrupt_" + name)
        open(p, "wb").write(b)
        w = h4read.parse(p)
        exercise(w)
        if not any(e.startswith(name.upper()) for e in w.errors):
            fail("corruption %s not reported (errors: %s)" % (name, w.errors[:3]))

    variant("magic", lambda b: b.__setitem__(0, 0x0F))
    variant("chain", lambda b: b.__setitem__(slice(6, 10), struct.pack(">i", 4)))            # cycle
    variant("chain", lambda b: b.__setitem__(slice(6, 10), struct.pack(">i", len(b) + 10)))  # next outside
    variant("chain", lambda b: b.__setitem__(slice(4, 6), struct.pack(">h", 0)))             # ndds 0
    variant("dup", lambda b: b.__setitem__(slice(pos(dds[1]), pos(dds[1]) + 4),
                                           struct.pack(">HH", dds[0]["tag"], dds[0]["ref"])))
    variant("bounds", lambda b: b.__setitem__(slice(pos(dds[0]) + 8, pos(dds[0]) + 12),
                                              struct.pack(">i", len(b))))
    variant("overlap", lambda b: b.__setitem__(slice(pos(dds[1]) + 4, pos(dds[1]) + 8),
                                               struct.pack(">i", dds[0]["off"] + 1)))
    sp = [d for d in v.dds if h4read.is_special(d["tag"])]
    if sp:
        variant("special", lambda b: b.__setitem__(slice(sp[0]["off"], sp[0]["off"] + 2), b"\x00\x09"))
    vg = [d for d in v.dds if d["tag"] == h4read.DFTAG_VG]
    if vg:
        variant("vg", lambda b: b.__setitem__(slice(vg[0]["off"], vg[0]["off"] + 2), b"\x7f\xff"))
    vh = [d for d in v.dds if d["tag"] == h4read.DFTAG_VH]
    if vh:
        variant("vh", lambda b: b.__setitem__(slice(vh[0]["off"] + 8, vh[0]["off"] + 10), b"\x7f\xff"))


def check_robust(files, tmp, budget):
    """Every prefix of small files, strided prefixes of others, bit flips, noise."""
    t_end = time.time() + budget
    rnd = random.Random(4)
    n = 0
    p = os.path.join(tmp, "mangled.hdf")

    def one(b, must_fail=False):
        nonlocal n
        with open(p, "wb") as fh:
            fh.write(b)
        try:
            w = h4read.parse(p)
            exercise(w)
            if must_fail and not w.errors:
                fail("truncation to %d bytes not reported by parse()" % len(b))
        except Exception as x:
            keep = os.path.join(tempfile.gettempdir(), "h4read_crash_%d.hdf" % n)
            shutil.copy(p, keep)
            fail("crash on mangled input (%s: %s), kept as %s" % (type(x).__name__, x, keep))
        n += 1

    for f in files:
        data = open(f, "rb").read()
        step = 1 if len(data) < 3500 else max(1, len(data) // 300)
        live_end = max(e for _, e, _ in h4read.parse(f).extent_map())
        for cut in range(0, len(data), step):
            one(data[:cut], must_fail=cut < live_end)
            if time.time() > t_end:
                break
        for _ in range(100):
            b = bytearray(data)
            for _ in range(rnd.randint(1, 8)):
                b[rnd.randrange(len(b))] = rnd.randrange(256)
            one(b)
        if time.time() > t_end:
            note("robustness budget used up")
            break
    for ln in (0, 1, 3, 4, 5, 10, 11, 100, 5000):
        one(bytes(rnd.randrange(256) for _ in range(ln)))
        one(h4read.MAGIC + bytes(rnd.randrange(256) for _ in range(ln)))
    note("robustness: %d mangled inputs, no crash expected" % n)


# ----------------------------------------------------------------------- main
def main():
    root = tempfile.mkdtemp(prefix="h4read_selftest_", dir="/tmp")
    try:
        produced = make_corpus(root)
        parsed = {}
        print("== library-produced files")
        check_parse_all(produced, "corpus", parsed)
        print("== checked-in files")
        check_parse_all(checked_in(), "checked-in", parsed)

        print("== cross checks against hdfls / hdp")
        cover = set()
        counts = dict(dd=0, vd=0, vdval=0, sds=0, gr=0)
        for f in produced:
            v = parsed.get(f)
            if v is None:
                continue
            counts["dd"] += xcheck_ddlist(f, v)
            sub = os.path.basename(os.path.dirname(f))
            if sub in ("b", "c") or os.path.basename(f) in ("tvset.hdf", "tvattr.hdf", "tvpack.hdf", "tblocks.hdf"):
                counts["vd"] += xcheck_vdatas(f, v)
                counts["vdval"] += xcheck_vdata_values(f, v, cover)
            if sub in ("b", "c"):
                counts["sds"] += xcheck_sds(f, v, cover)
            counts["gr"] += xcheck_rasters(f, v, cover)
        note("compared %(dd)d DDs, %(vd)d vdata headers, %(vdval)d vdata value sets, "
             "%(sds)d SDS data sets, %(gr)d images" % counts)
        print("   element kinds whose decoded values matched hdp: " + ", ".join(sorted(cover)))
        need = ["linked", "ext", "comp-rle", "comp-skphuff", "comp-deflate", "comp-nbit", "comp-none",
                "chunked", "chunked+skphuff", "chunked+deflate", "chunked+nbit", "gr-chunked+rle", "contiguous"]
        for k in need:
            if k not in cover:
                fail("no %s element was value-checked against hdp" % k)
        # the named example files must be among them
        for name, kind in (("SDScompressed.hdf", "comp"), ("SDSchunked.hdf", "chunked"),
                           ("SDSUNLIMITED.hdf", "linked"), ("SDS.hdf", "ext")):
            v = parsed.get(os.path.join(root, "c", name))
            if v is None or not any(e.special == kind for e in v.elements.values()):
                fail("%s does not contain a %s element" % (name, kind))

        # the one library file whose comp header overstates the length (NOTES.md): the lenient
        # mode must give exactly what hdp shows
        g = os.path.join(root, "a", "gr_gzip.hdf")
        v = parsed.get(g)
        if v is not None:
            rc, out = run([BIN + "/hdp", "dumpgr", "-d", "-s", "-i", "1", "gr_gzip.hdf"], os.path.dirname(g))
            if list(v.read(302, 2, strict=False)) != [int(t) for t in out.split()]:
                fail("gr_gzip.hdf 302/2: lenient read differs from hdp")

        print("== robustness")
        c = os.path.join(root, "c")
        check_corruptions(os.path.join(c, "SDSchunked.hdf"), root)
        check_corruptions(os.path.join(root, "b", "comptst1.hdf"), root)
        small = [os.path.join(c, n) for n in ("SDScompressed.hdf", "h4ex_VG_add_sds_to_vgroup.hdf",
                                              "SDSchunked.hdf", "SDSUNLIMITED.hdf", "SDS.hdf",
                                              "General_Vgroups3.hdf")]
        small += [os.path.join(root, "b", n) for n in ("chktst.hdf", "comptst5.hdf", "nbit.hdf")]
        small += [os.path.join(root, "a", n) for n in ("tblocks.hdf", "tvattr.hdf", "tman.hdf")]
        check_robust([f for f in small if os.path.exists(f)], root, budget=max(5.0, 40.0 - (time.time() - T0)))
    finally:
        shutil.rmtree(root, ignore_errors=True)
    note("done: %d failure(s)" % len(FAILS))
    for m in FAILS[:50]:
        print("  FAIL: " + m)
    return 1 if FAILS else 0


if __name__ == "__main__":
    sys.exit(main())
