#!/usr/bin/env python3
"""h4read -- an independent, pure-Python reader for the HDF4 on-disk format.

Implements the binary layout only (file header, DD-block chain, special
elements: linked blocks / external / compressed / chunked, Vdata + Vgroup
records, annotations, the SD (mfhdf) and GR Vgroup conventions).  It never
calls, loads or links the HDF4 C library; it is meant to be an oracle that is
independent of that library.

    v = h4read.parse(path)      # never raises; problems are listed in v.errors
    v.read(tag, ref)            # logical bytes of an element (raises FormatError)

Only the Python standard library is used.
"""
import json
import os
import struct
import sys
import zlib

# ----------------------------------------------------------------- constants
MAGIC = b"\x0e\x03\x13\x01"
DD_SZ = 12
DFTAG_NULL, DFTAG_LINKED, DFTAG_VERSION, DFTAG_COMPRESSED = 1, 20, 30, 40
DFTAG_CHUNK = 61
DFTAG_FID, DFTAG_FD, DFTAG_DIL, DFTAG_DIA, DFTAG_NT, DFTAG_FREE = 100, 101, 104, 105, 106, 108
DFTAG_ID, DFTAG_LUT, DFTAG_RI, DFTAG_CI, DFTAG_RIG, DFTAG_LD = 300, 301, 302, 303, 306, 307
DFTAG_SDD, DFTAG_SD, DFTAG_NDG = 701, 702, 720
DFTAG_VH, DFTAG_VS, DFTAG_VG = 1962, 1963, 1965

SPECIAL_NAMES = {1: "linked", 2: "ext", 3: "comp", 4: "vlinked", 5: "chunked",
                 6: "buffered", 7: "compras"}
COMP_CODE_NONE, COMP_CODE_RLE, COMP_CODE_NBIT, COMP_CODE_SKPHUFF = 0, 1, 2, 3
COMP_CODE_DEFLATE, COMP_CODE_SZIP, COMP_CODE_JPEG, COMP_CODE_IMCOMP = 4, 5, 7, 12
CODER_NAMES = {0: "none", 1: "rle", 2: "nbit", 3: "skphuff", 4: "deflate", 5: "szip",
               7: "jpeg", 12: "imcomp"}
DFNT_LITEND = 0x4000
NT_SIZES = {3: 1, 4: 1, 5: 4, 6: 8, 20: 1, 21: 1, 22: 2, 23: 2, 24: 4, 25: 4, 26: 8, 27: 8}
MAX_MSGS = 200          # cap on the number of messages of one category
MAX_READ = 1 << 30      # read() refuses to materialise more than this many bytes


class FormatError(Exception):
    """Raised by read()/decoders when the file contents are inconsistent."""


def base_tag(t):
    """BASETAG(): strip the 'special' bit 0x4000 unless bit 0x8000 is set."""
    return t & ~0x4000 if not (t & 0x8000) else t


def is_special(t):
    """SPECIALTAG()."""
    return (not (t & 0x8000)) and bool(t & 0x4000)


def nt_size(nt):
    return NT_SIZES.get(nt & 0xFFF)


class Cur:
    """Bounds-checked big-endian cursor over a bytes object."""

    def __init__(self, buf, pos=0, what="record"):
        self.buf, self.pos, self.what = buf, pos, what

    def take(self, n):
        if n < 0 or self.pos + n > len(self.buf):
            raise FormatError("%s truncated: need %d bytes at %d, have %d"
                              % (self.what, n, self.pos, len(self.buf)))
        b = self.buf[self.pos:self.pos + n]
        self.pos += n
        return b

    def _un(self, fmt, n):
        return struct.unpack(fmt, self.take(n))[0]

    def u8(self):
        return self._un(">B", 1)

    def u16(self):
        return self._un(">H", 2)

    def i16(self):
        return self._un(">h", 2)

    def u32(self):
        return self._un(">I", 4)

    def i32(self):
        return self._un(">i", 4)

    def left(self):
        return len(self.buf) - self.pos


# ------------------------------------------------------------------ decoders
class BitReader:
    """MSB-first bit reader (same bit order as hbitio.c)."""

    def __init__(self, data):
        self.data, self.pos, self.acc, self.nacc = data, 0, 0, 0

    def read(self, n):
        while self.nacc < n:
            if self.pos >= len(self.data):
                raise FormatError("bit stream exhausted")
            self.acc = (self.acc << 8) | self.data[self.pos]
            self.pos += 1
            self.nacc += 8
        self.nacc -= n
        v = (self.acc >> self.nacc) & ((1 << n) - 1)
        self.acc &= (1 << self.nacc) - 1
        return v


def decode_rle(data, length):
    """crle.c: control byte c; c&0x80 -> run of (c&0x7f)+3 copies of the next
    byte, else (c&0x7f)+1 literal bytes follow."""
    out = bytearray()
    p, n = 0, len(data)
    while len(out) < length:
        if p >= n:
            raise FormatError("RLE stream exhausted at %d of %d bytes" % (len(out), length))
        c = data[p]
        p += 1
        if c & 0x80:
            if p >= n:
                raise FormatError("RLE stream exhausted in run")
            out += bytes([data[p]]) * ((c & 0x7F) + 3)
            p += 1
        else:
            k = (c & 0x7F) + 1
            if p + k > n:
                raise FormatError("RLE stream exhausted in literal")
            out += data[p:p + k]
            p += k
    return bytes(out[:length])


def decode_skphuff(data, length, skip_size):
    """cskphuff.c: one adaptive (semi-splayed) prefix-code tree per byte
    position modulo skip_size; bits MSB first, 0 = left child."""
    if skip_size <= 0:
        raise FormatError("skphuff: bad skip size %d" % skip_size)
    if length > 8 * len(data):                      # every byte costs at least one bit
        raise FormatError("skphuff stream of %d bytes cannot hold %d bytes" % (len(data), length))
    SUCCMAX, ROOT = 256, 0
    skip_size = min(skip_size, max(length, 1))      # further trees are never used
    left = [[(j << 1) for j in range(SUCCMAX)] for _ in range(skip_size)]
    right = [[(j << 1) + 1 for j in range(SUCCMAX)] for _ in range(skip_size)]
    up = [[(i >> 1) & 0xFF for i in range(2 * SUCCMAX + 1)] for _ in range(skip_size)]
    out = bytearray(length)
    nbits, bitpos, k = len(data) * 8, 0, 0
    for i in range(length):
        lf, rt, upk = left[k], right[k], up[k]
        a = ROOT
        while a <= 255:
            if bitpos >= nbits:
                raise FormatError("skphuff stream exhausted at %d of %d bytes" % (i, length))
            bit = (data[bitpos >> 3] >> (7 - (bitpos & 7))) & 1
            bitpos += 1
            a = rt[a] if bit else lf[a]
        plain = a - SUCCMAX
        out[i] = plain
        # semi-splay the tree around the decoded leaf
        a = plain + SUCCMAX
        while True:
            c = upk[a]
            if c != ROOT:
                d = upk[c]
                b = lf[d]
                if c == b:
                    b = rt[d]
                    rt[d] = a
                else:
                    lf[d] = a
                if a == lf[c]:
                    lf[c] = b
                else:
                    rt[c] = b
                upk[a] = d
                upk[b] = c
                a = d
            else:
                a = c
            if a == ROOT:
                break
        k = (k + 1) % skip_size
    return bytes(out)


def decode_nbit(data, length, nt, sign_ext, fill_one, start_bit, bit_len):
    """cnbit.c: each nt-sized item keeps only bit_len bits starting at bit
    start_bit (counted from the least significant bit of the big-endian item)
    going downwards; other bits are fill (0/1) or sign extension."""
    size = nt_size(nt)
    if not size:
        raise FormatError("nbit: unknown number type %d" % nt)
    bits = size * 8
    if not (0 <= start_bit < bits) or bit_len <= 0 or bit_len > start_bit + 1:
        raise FormatError("nbit: bad bit field start=%d len=%d for %d-bit type"
                          % (start_bit, bit_len, bits))
    fill_one = 1 if fill_one else 0
    mask_top, mask_bot = start_bit, start_bit - (bit_len - 1)
    # per byte (most significant first): (number of bits read, left shift, mask)
    minfo = []
    for i in range(size):
        top, bot = bits - 1 - 8 * i, bits - 8 - 8 * i
        hi, lo = min(mask_top, top), max(mask_bot, bot)
        if hi >= lo:
            n = hi - lo + 1
            minfo.append((n, lo - bot, ((1 << n) - 1) << (lo - bot)))
        else:
            minfo.append((0, 0, 0))
    template = bytearray([(0xFF & ~m[2]) if fill_one else 0 for m in minfo])
    sign_byte = size - (start_bit // 8 + 1)
    sbit = start_bit % 8
    sign_mask = 1 << sbit
    ext_mask = 0xFF & ~((1 << sbit) - 1)
    br = BitReader(data)
    nitems = (length + size - 1) // size
    if nitems * bit_len > 8 * len(data):
        raise FormatError("nbit stream of %d bytes cannot hold %d items of %d bits"
                          % (len(data), nitems, bit_len))
    out = bytearray()
    sign = 0
    for _ in range(nitems):
        item = bytearray(template)
        for j, (n, sh, m) in enumerate(minfo):
            if n:
                v = (br.read(n) << sh) & 0xFFFFFFFF
                item[j] |= m & v & 0xFF
                if sign_ext and j == sign_byte:
                    sign = 1 if (v & sign_mask) else 0
        if sign_ext and sign != fill_one:
            if sign:
                for j in range(sign_byte):
                    item[j] = 0xFF
                item[sign_byte] |= ext_mask
            else:
                for j in range(sign_byte):
                    item[j] = 0
                item[sign_byte] &= 0xFF & ~ext_mask
        out += item
    return bytes(out[:length])


def decode_deflate(data, length, strict=True):
    try:
        d = zlib.decompressobj()
        out = d.decompress(data, length) if length > 0 else b""
    except zlib.error as e:
        raise FormatError("deflate: %s" % e)
    if len(out) < length and strict:
        # the C library just returns the shorter count here (cdeflate.c)
        raise FormatError("deflate stream yields %d of %d bytes" % (len(out), length))
    return out


def parse_comp_header(c):
    """HCPdecode_header layout: model(2) coder(2) + coder specific params."""
    model, coder = c.u16(), c.u16()
    params = {}
    if coder == COMP_CODE_NBIT:
        params = {"nt": c.i32(), "sign_ext": c.u16(), "fill_one": c.u16(),
                  "start_bit": c.i32(), "bit_len": c.i32()}
    elif coder == COMP_CODE_SKPHUFF:
        params = {"skp_size": c.u32(), "comp_size": c.u32()}
    elif coder == COMP_CODE_DEFLATE:
        params = {"level": c.u16()}
    elif coder == COMP_CODE_SZIP:
        params = {"pixels": c.u32(), "pixels_per_scanline": c.u32(), "options_mask": c.u32(),
                  "bits_per_pixel": c.u8(), "pixels_per_block": c.u8()}
    return {"model": model, "coder": coder, "coder_name": CODER_NAMES.get(coder, "unknown"),
            "params": params}


def decompress(ci, data, length, strict=True):
    coder, p = ci["coder"], ci["params"]
    if length > MAX_READ:
        raise FormatError("uncompressed length %d exceeds reader limit" % length)
    if ci["model"] != 0:
        raise FormatError("unknown compression model %d" % ci["model"])
    if coder == COMP_CODE_NONE:
        if len(data) < length:
            raise FormatError("COMP_CODE_NONE data %d shorter than length %d" % (len(data), length))
        return data[:length]
    if coder == COMP_CODE_RLE:
        return decode_rle(data, length)
    if coder == COMP_CODE_SKPHUFF:
        return decode_skphuff(data, length, p["skp_size"])
    if coder == COMP_CODE_DEFLATE:
        return decode_deflate(data, length, strict)
    if coder == COMP_CODE_NBIT:
        return decode_nbit(data, length, p["nt"], p["sign_ext"], p["fill_one"],
                           p["start_bit"], p["bit_len"])
    raise FormatError("unsupported coder %d (%s)" % (coder, CODER_NAMES.get(coder, "?")))


# ------------------------------------------------------------------- objects
class Element:
    """One data object, keyed by (base tag, ref)."""

    def __init__(self, dd):
        self.tag, self.ref = dd["tag"], dd["ref"]
        self.base_tag = base_tag(self.tag)
        self.off, self.len = dd["off"], dd["len"]       # the DD's own extent
        self.special = None
        self.length = self.len if (self.off >= 0 and self.len >= 0) else 0
        self.extents = [(self.off, self.len)] if (self.off >= 0 and self.len > 0) else []
        self.info = None
        self.state = 0 if is_special(self.tag) else 2    # 0 new, 1 resolving, 2 done, 3 broken
        self.problem = None

    def __repr__(self):
        return "<Element %d/%d %s len=%d>" % (self.base_tag, self.ref, self.special, self.length)


def _txt(b):
    return b.decode("latin-1")


class H4File:
    def __init__(self, path):
        self.path = path
        self.data = b""
        self.size = 0
        self.ddblocks, self.dds, self.errors, self.warnings = [], [], [], []
        self.elements = {}
        self._counts = {}
        self._vh_cache = {}

    # -------------------------------------------------------------- messages
    def _err(self, cat, msg, warn=False):
        n = self._counts.get((cat, warn), 0) + 1
        self._counts[(cat, warn)] = n
        lst = self.warnings if warn else self.errors
        if n <= MAX_MSGS:
            lst.append("%s %s" % (cat, msg))
        elif n == MAX_MSGS + 1:
            lst.append("%s (further messages suppressed)" % cat)

    # ----------------------------------------------------------------- parse
    def _parse(self):
        try:
            with open(self.path, "rb") as f:
                self.data = f.read()
        except OSError as e:
            self._err("IO", "cannot read file: %s" % e)
            return
        self.size = len(self.data)
        if self.data[:4] != MAGIC:
            self._err("MAGIC", "first bytes %s are not 0e031301" % self.data[:4].hex())
            return
        self._walk_chain()
        self._check_dds()
        for key in list(self.elements):
            self._resolve(key)
        self._check_overlap()
        self._check_vsets()

    def _walk_chain(self):
        data, size = self.data, self.size
        off, seen = 4, set()
        while True:
            if off in seen:
                self._err("CHAIN", "cycle: DD block at %d visited twice" % off)
                return
            seen.add(off)
            if off + 6 > size:
                self._err("CHAIN", "DD block header at %d outside file (size %d)" % (off, size))
                return
            ndds, nxt = struct.unpack_from(">hi", data, off)
            blk = {"off": off, "ndds": ndds, "next": nxt}
            if ndds <= 0:
                self._err("CHAIN", "DD block at %d has ndds=%d" % (off, ndds))
                return
            self.ddblocks.append(blk)
            fit = ndds
            if off + 6 + ndds * DD_SZ > size:
                fit = max(0, (size - off - 6) // DD_SZ)
                self._err("CHAIN", "DD block at %d (ndds=%d) extends past end of file (size %d)"
                          % (off, ndds, size))
            bi = len(self.ddblocks) - 1
            for j in range(fit):
                t, r, o, ln = struct.unpack_from(">HHii", data, off + 6 + j * DD_SZ)
                if t == DFTAG_NULL:
                    continue
                self.dds.append({"tag": t, "ref": r, "off": o, "len": ln, "block": bi, "slot": j})
            if fit != ndds or nxt == 0:
                return
            if nxt < 0 or nxt >= size:
                self._err("CHAIN", "DD block at %d: next=%d outside file (size %d)" % (off, nxt, size))
                return
            off = nxt

    def _check_dds(self):
        for dd in self.dds:
            t, r, o, ln = dd["tag"], dd["ref"], dd["off"], dd["len"]
            if o == -1 or ln == -1:
                if (o == -1) != (ln == -1) and max(o, ln) > 0:
                    self._err("BOUNDS", "DD %d/%d half-invalid off=%d len=%d" % (t, r, o, ln), warn=True)
            elif o < 0 or ln < 0 or o + ln > self.size:
                self._err("BOUNDS", "DD %d/%d off=%d len=%d outside file (size %d)"
                          % (t, r, o, ln, self.size))
            if t == DFTAG_FREE:
                continue
            key = (base_tag(t), r)
            if key in self.elements:
                self._err("DUP", "DD (base tag %d, ref %d) occurs more than once (block %d slot %d)"
                          % (key[0], key[1], dd["block"], dd["slot"]))
            else:
                self.elements[key] = Element(dd)

    # ------------------------------------------------------------ raw access
    def _dd_bytes(self, e, what):
        """The bytes the DD of element e points at (bounds checked)."""
        if e.off == -1 or e.len == -1:
            return b""
        if e.off < 0 or e.len < 0 or e.off + e.len > self.size:
            raise FormatError("%s %d/%d: DD extent off=%d len=%d outside file"
                              % (what, e.base_tag, e.ref, e.off, e.len))
        return self.data[e.off:e.off + e.len]

    def _get(self, tag, ref, what):
        e = self.elements.get((base_tag(tag), ref))
        if e is None:
            raise FormatError("%s: element %d/%d not in DD list" % (what, base_tag(tag), ref))
        return e

    # -------------------------------------------------------- special headers
    def _resolve(self, key):
        """Decode the special-element description record of element `key`
        (memoised, cycle-guarded).  Problems go to self.errors once."""
        e = self.elements[key]
        if e.state >= 2:
            return e
        if e.state == 1:
            raise FormatError("special elements %d/%d reference each other cyclically" % key)
        e.state = 1
        e.extents, e.length = [], 0
        try:
            hdr = self._dd_bytes(e, "special header")
            c = Cur(hdr, 0, "special header of %d/%d" % key)
            code = c.u16()
            e.special = SPECIAL_NAMES.get(code, "unknown%d" % code)
            e.info = {"header_extent": (e.off, e.len)}
            if code == 1:
                self._resolve_linked(e, c)
            elif code == 2:
                self._resolve_ext(e, c)
            elif code == 3:
                self._resolve_comp(e, c)
            elif code == 5:
                self._resolve_chunked(e, c)
            else:
                raise FormatError("special code %d (%s) is not a known on-disk special element"
                                  % (code, e.special))
            e.state = 2
        except FormatError as x:
            e.state, e.problem = 3, str(x)
            self._err("SPECIAL", "%d/%d: %s" % (key[0], key[1], x))
        return e

    def _resolve_linked(self, e, c):
        info = e.info
        e.length = info["length"] = c.i32()
        blen = info["block_len"] = c.i32()
        nblk = info["num_blocks"] = c.i32()
        info["link_ref"] = c.u16()
        info["tables"] = []
        if e.length < 0 or blen <= 0 or nblk <= 0:
            raise FormatError("linked: bad header length=%d block_len=%d num_blocks=%d"
                              % (e.length, blen, nblk))
        ref, seen, refs = info["link_ref"], set(), []
        while ref != 0:
            if ref in seen:
                raise FormatError("linked: link table chain cycles at ref %d" % ref)
            seen.add(ref)
            t = self._get(DFTAG_LINKED, ref, "linked: link table")
            tc = Cur(self._dd_bytes(t, "link table"), 0, "link table %d" % ref)
            nxt = tc.u16()
            blocks = [tc.u16() for _ in range(nblk)]
            info["tables"].append({"ref": ref, "next_ref": nxt, "blocks": blocks})
            refs += blocks
            ref = nxt
        if not refs:
            raise FormatError("linked: no link table (link_ref 0)")
        first = blen
        if refs[0]:
            first = self._get(DFTAG_LINKED, refs[0], "linked: first block").len
            if first < 0:
                raise FormatError("linked: first block %d has length %d" % (refs[0], first))
        info["first_len"] = first
        remaining, problems = e.length, []
        for i, r in enumerate(refs):
            if remaining <= 0:
                break
            n = min(first if i == 0 else blen, remaining)
            if n == 0:                  # empty first block (element converted while empty)
                continue
            if r == 0:
                e.extents.append((None, n))
            else:
                b = self.elements.get((DFTAG_LINKED, r))
                if b is None:
                    problems.append("block ref %d not in DD list" % r)
                    e.extents.append((None, n))
                elif b.len < n or b.off < 0:
                    problems.append("block %d has off=%d len=%d, need %d bytes" % (r, b.off, b.len, n))
                    e.extents.append((None, n))
                else:
                    e.extents.append((b.off, n))
            remaining -= n
        if remaining > 0:
            problems.append("blocks in %d table(s) cover only %d of %d bytes"
                            % (len(info["tables"]), e.length - remaining, e.length))
        if problems:
            raise FormatError("linked: " + "; ".join(problems[:5]))

    def _resolve_ext(self, e, c):
        info = e.info
        e.length = info["length"] = c.i32()
        info["offset"] = c.i32()
        n = c.i32()
        if n <= 0 or n > 4096 or n > c.left():
            raise FormatError("ext: file name length %d not sane (record has %d bytes left)"
                              % (n, c.left()))
        info["filename"] = _txt(c.take(n))
        if e.length < 0 or info["offset"] < 0:
            raise FormatError("ext: negative length/offset %d/%d" % (e.length, info["offset"]))

    def _resolve_comp(self, e, c):
        info = e.info
        info["version"] = c.u16()
        e.length = info["length"] = c.i32()
        info["comp_ref"] = c.u16()
        info.update(parse_comp_header(c))
        if e.length < 0:
            raise FormatError("comp: negative uncompressed length %d" % e.length)
        if info["coder"] not in CODER_NAMES:
            raise FormatError("comp: unknown coder type %d" % info["coder"])
        d = self.elements.get((DFTAG_COMPRESSED, info["comp_ref"]))
        if d is None:
            # the data element only comes into existence with the first write
            if e.length > 0:
                raise FormatError("comp: data element 40/%d not in DD list" % info["comp_ref"])
            return
        d = self._resolve((DFTAG_COMPRESSED, info["comp_ref"]))
        e.extents = list(d.extents)

    def _resolve_chunked(self, e, c):
        info = e.info
        hlen = c.i32()
        if hlen < 0 or hlen > c.left():
            raise FormatError("chunked: header length %d but record has %d bytes left" % (hlen, c.left()))
        h = Cur(c.take(hlen), 0, "chunked header")
        info["version"] = h.u8()
        flag = info["flag"] = h.i32()
        nelem = info["length"] = h.i32()
        info["chunk_size"] = h.i32()
        nts = info["nt_size"] = h.i32()
        info["chktbl_tag"], info["chktbl_ref"] = h.u16(), h.u16()
        info["sp_tag"], info["sp_ref"] = h.u16(), h.u16()
        ndims = info["ndims"] = h.i32()
        if info["version"] != 0:
            raise FormatError("chunked: unknown header version %d" % info["version"])
        if ndims <= 0 or ndims > 1024 or nts <= 0 or info["chunk_size"] <= 0 or nelem < 0:
            raise FormatError("chunked: bad header ndims=%d nt_size=%d chunk_size=%d length=%d"
                              % (ndims, nts, info["chunk_size"], nelem))
        info["dims"], prod_c, prod_d = [], 1, 1
        for _ in range(ndims):
            dflag, dlen, clen = h.i32(), h.i32(), h.i32()
            if dlen < 0 or clen <= 0:
                raise FormatError("chunked: bad dimension dim_length=%d chunk_length=%d" % (dlen, clen))
            info["dims"].append({"flag": dflag, "dim_length": dlen, "chunk_length": clen,
                                 "unlimited": (dflag >> 8) & 0xFF})
            prod_c *= clen
            prod_d *= dlen
        if prod_c != info["chunk_size"]:
            raise FormatError("chunked: chunk_size %d != product of chunk lengths %d"
                              % (info["chunk_size"], prod_c))
        fl = h.i32()
        if fl <= 0 or fl > h.left():
            raise FormatError("chunked: fill value length %d (header has %d bytes left)" % (fl, h.left()))
        info["fill_value"] = h.take(fl)
        info["comp"] = None
        if flag & 0xFF == 3:
            sp, clen = c.u16(), c.i32()
            if sp != 3 or clen < 4 or clen > c.left():
                raise FormatError("chunked: bad nested special header tag=%d len=%d" % (sp, clen))
            info["comp"] = parse_comp_header(Cur(c.take(clen), 0, "chunk compression header"))
        elif flag & 0xFF not in (0, 5):
            raise FormatError("chunked: unknown specialness flag %#x" % flag)
        e.length = nelem * nts
        info["array_bytes"] = prod_d * nts
        # chunk table: a Vdata with records origin[ndims] int32, chk_tag u16, chk_ref u16
        if info["chktbl_tag"] != DFTAG_VH:
            raise FormatError("chunked: chunk table tag %d is not DFTAG_VH" % info["chktbl_tag"])
        vh = self._vh(info["chktbl_ref"])
        if not vh["class"].startswith("_HDF_CHK_TBL_"):
            raise FormatError("chunked: chunk table vdata %d has class %r" % (vh["ref"], vh["class"]))
        rec = 4 * ndims + 4
        if vh["nvert"] and vh["ivsize"] != rec:
            raise FormatError("chunked: chunk table record size %d, expected %d" % (vh["ivsize"], rec))
        table, seen, problems = [], set(), []
        if vh["nvert"] > 0:
            tbl = self.read(DFTAG_VS, vh["ref"])
            if len(tbl) < vh["nvert"] * rec:
                raise FormatError("chunked: chunk table data %d bytes < %d records" % (len(tbl), vh["nvert"]))
            for i in range(vh["nvert"]):
                f = struct.unpack_from(">%diHH" % ndims, tbl, i * rec)
                origin, ctag, cref = tuple(f[:ndims]), f[ndims], f[ndims + 1]
                table.append((origin, ctag, cref))
                for o, d in zip(origin, info["dims"]):
                    if o < 0 or o * d["chunk_length"] >= max(d["dim_length"], 1):
                        problems.append("chunk origin %s outside chunk grid" % (origin,))
                        break
                if origin in seen:
                    problems.append("chunk origin %s listed twice" % (origin,))
                seen.add(origin)
                if ctag == DFTAG_NULL:
                    continue
                if base_tag(ctag) != DFTAG_CHUNK:
                    problems.append("chunk %s has tag %d" % (origin, ctag))
                    continue
                ck = self.elements.get((DFTAG_CHUNK, cref))
                if ck is None:
                    problems.append("chunk %s: element 61/%d not in DD list" % (origin, cref))
                    continue
                ck = self._resolve((DFTAG_CHUNK, cref))
                if ck.state == 2 and ck.length < info["chunk_size"] * nts and ck.length > 0:
                    problems.append("chunk 61/%d holds %d bytes, chunk needs %d"
                                    % (cref, ck.length, info["chunk_size"] * nts))
                e.extents += ck.extents
        info["chunks"] = table
        if problems:
            raise FormatError("chunked: " + "; ".join(problems[:5]))

    # ------------------------------------------------------------------ read
    def read(self, tag, ref, strict=True, _depth=0):
        """Full logical content of element (base tag, ref) as bytes.
        strict=False tolerates what the C library tolerates silently: a deflate
        stream that ends before the advertised uncompressed length."""
        if _depth > 16:
            raise FormatError("special elements nested too deeply")
        key = (base_tag(tag), ref)
        if key not in self.elements:
            raise FormatError("element %d/%d not in DD list" % key)
        e = self._resolve(key)
        if e.state == 3:
            raise FormatError("%d/%d: %s" % (key[0], key[1], e.problem))
        if e.special is None:
            return self._dd_bytes(e, "element")
        if e.length > MAX_READ:
            raise FormatError("%d/%d: logical length %d exceeds reader limit" % (key[0], key[1], e.length))
        if e.special == "linked":
            out = bytearray()
            for off, n in e.extents:
                if off is None:
                    out += bytes(n)
                else:
                    if off + n > self.size:
                        raise FormatError("linked block at %d+%d outside file" % (off, n))
                    out += self.data[off:off + n]
            return bytes(out)
        if e.special == "ext":
            return self._read_ext(e)
        if e.special == "comp":
            if e.length == 0:
                return b""
            raw = self.read(DFTAG_COMPRESSED, e.info["comp_ref"], strict, _depth + 1)
            return decompress(e.info, raw, e.length, strict)
        if e.special == "chunked":
            return self._read_chunked(e, strict, _depth)
        raise FormatError("cannot read special element kind %s" % e.special)

    def ext_path(self, e):
        name = e.info["filename"]
        cands = [name] if os.path.isabs(name) else []
        d = os.path.dirname(os.path.abspath(self.path))
        cands += [os.path.join(d, name), os.path.join(d, os.path.basename(name))]
        for p in cands:
            if os.path.isfile(p):
                return p
        raise FormatError("external file %r not found (tried %s)" % (name, ", ".join(cands)))

    def _read_ext(self, e):
        p = self.ext_path(e)
        try:
            with open(p, "rb") as f:
                f.seek(e.info["offset"])
                b = f.read(e.length)
        except OSError as x:
            raise FormatError("external file %r: %s" % (p, x))
        if len(b) < e.length:
            raise FormatError("external file %r holds %d of %d bytes at offset %d"
                              % (p, len(b), e.length, e.info["offset"]))
        return b

    def _read_chunked(self, e, strict, _depth):
        info = e.info
        nts, dims = info["nt_size"], info["dims"]
        nd = len(dims)
        dl = [d["dim_length"] for d in dims]
        cl = [d["chunk_length"] for d in dims]
        total = info["array_bytes"]
        if total > MAX_READ:
            raise FormatError("chunked array of %d bytes exceeds reader limit" % total)
        fv = info["fill_value"]
        out = bytearray((fv * (total // len(fv) + 1))[:total])
        cbytes = info["chunk_size"] * nts
        # row-major strides, in bytes, of the array and of one chunk
        astr, cstr = [nts] * nd, [nts] * nd
        for i in range(nd - 2, -1, -1):
            astr[i] = astr[i + 1] * dl[i + 1]
            cstr[i] = cstr[i + 1] * cl[i + 1]
        for origin, ctag, cref in info["chunks"]:
            if ctag == DFTAG_NULL:
                continue
            raw = self.read(DFTAG_CHUNK, cref, strict, _depth + 1)
            if info["comp"] is not None and self.elements[(DFTAG_CHUNK, cref)].special is None:
                raise FormatError("chunk 61/%d of a compressed chunked element is not compressed" % cref)
            if len(raw) < cbytes:
                raise FormatError("chunk 61/%d holds %d bytes, need %d" % (cref, len(raw), cbytes))
            start = [o * c for o, c in zip(origin, cl)]
            valid = [min(c, d - s) for c, d, s in zip(cl, dl, start)]   # drop ghost areas
            if min(valid) <= 0:
                continue
            run = valid[-1] * nts
            idx = [0] * (nd - 1)
            while True:
                so = sum(i * s for i, s in zip(idx, cstr))
                do = sum((s0 + i) * s for s0, i, s in zip(start, idx, astr)) + start[-1] * nts
                out[do:do + run] = raw[so:so + run]
                k = nd - 2
                while k >= 0:
                    idx[k] += 1
                    if idx[k] < valid[k]:
                        break
                    idx[k] = 0
                    k -= 1
                if k < 0:
                    break
        return bytes(out[:e.length]) if e.length <= total else bytes(out)

    # ----------------------------------------------------------- extent map
    def extent_map(self):
        """All live stored byte ranges (start, end, owner)."""
        m = [(0, min(4, self.size), "file header")]
        for i, b in enumerate(self.ddblocks):
            m.append((b["off"], b["off"] + 6 + DD_SZ * b["ndds"], "DD-block %d" % i))
        for dd in self.dds:
            if dd["tag"] == DFTAG_FREE or dd["off"] < 0 or dd["len"] <= 0:
                continue
            m.append((dd["off"], dd["off"] + dd["len"], "DD %d/%d" % (dd["tag"], dd["ref"])))
        m.sort(key=lambda x: (x[0], x[1]))
        return m

    def _check_overlap(self):
        best = None                     # range with the largest end seen so far
        for s, e, who in self.extent_map():
            alias = (best is not None and (s, e) == (best[0], best[1])
                     and who.startswith("DD ") and best[2].startswith("DD "))      # Hdupdd
            if best is not None and s < best[1] and not alias:
                self._err("OVERLAP", "%s [%d,%d) overlaps %s [%d,%d)"
                          % (who, s, e, best[2], best[0], best[1]))
            if best is None or e > best[1]:
                best = (s, e, who)

    # ------------------------------------------------------- Vdata / Vgroup
    def _vh(self, ref):
        """Decode a Vdata header (vpackvs layout); raises FormatError."""
        if ref in self._vh_cache:
            r = self._vh_cache[ref]
            if isinstance(r, FormatError):
                raise r
            return r
        try:
            r = self._vh_parse(ref)
        except FormatError as x:
            self._vh_cache[ref] = x
            raise
        self._vh_cache[ref] = r
        return r

    def _vh_parse(self, ref):
        buf = self.read(DFTAG_VH, ref)
        c = Cur(buf, 0, "VH %d" % ref)
        vh = {"ref": ref, "interlace": c.i16(), "nvert": c.i32(), "ivsize": c.u16()}
        n = c.i16()
        if n < 0:
            raise FormatError("VH %d: negative field count %d" % (ref, n))
        cols = [[c.u16() for _ in range(n)] for _ in range(4)]      # type isize offset order
        names = []
        for _ in range(n):
            ln = c.i16()
            if ln < 0:
                raise FormatError("VH %d: negative field name length" % ref)
            names.append(_txt(c.take(ln)))
        vh["fields"] = [{"name": names[i], "type": struct.unpack(">h", struct.pack(">H", cols[0][i]))[0],
                         "isize": cols[1][i], "offset": cols[2][i], "order": cols[3][i]}
                        for i in range(n)]
        for k in ("name", "class"):
            ln = c.i16()
            if ln < 0:
                raise FormatError("VH %d: negative %s length" % (ref, k))
            vh[k] = _txt(c.take(ln))
        vh["extag"], vh["exref"] = c.u16(), c.u16()
        vh["version"], vh["more"] = c.i16(), c.i16()
        vh["flags"], vh["attrs"] = 0, []
        if vh["version"] == 4:
            vh["flags"] = c.u32()
            if vh["flags"] & 1:
                na = c.i32()
                if na < 0 or na * 8 > c.left():
                    raise FormatError("VH %d: attribute count %d does not fit record" % (ref, na))
                vh["attrs"] = [(c.i32(), c.u16(), c.u16()) for _ in range(na)]
        vh["consumed"], vh["reclen"] = c.pos, len(buf)
        if vh["nvert"] < 0:
            raise FormatError("VH %d: negative record count %d" % (ref, vh["nvert"]))
        if vh["version"] >= 3:
            # the record ends with version, more and one pad byte; current libraries
            # write version/more twice (after exref and again at the very end), old
            # ones once -- either way the last 5 bytes must agree (see vunpackvs)
            if struct.unpack_from(">hh", buf, len(buf) - 5) != (vh["version"], vh["more"]):
                raise FormatError("VH %d: version/more at end of record disagree with first copy" % ref)
            if c.left() not in (1, 5):
                raise FormatError("VH %d: %d undecoded bytes at end of record" % (ref, c.left()))
            if n and sum(f["isize"] for f in vh["fields"]) != vh["ivsize"]:
                raise FormatError("VH %d: ivsize %d != sum of field sizes %d"
                                  % (ref, vh["ivsize"], sum(f["isize"] for f in vh["fields"])))
        return vh

    def vdatas(self):
        out = []
        for (t, ref) in sorted(self.elements):
            if t != DFTAG_VH:
                continue
            try:
                vh = dict(self._vh(ref))
            except FormatError as x:
                out.append({"ref": ref, "error": str(x), "name": "", "class": "", "fields": [],
                            "nvert": 0, "ivsize": 0, "interlace": 0, "attrs": [], "data": b"",
                            "extag": 0, "exref": 0, "version": 0})
                continue
            vh["data"] = b""
            if (DFTAG_VS, ref) in self.elements:
                try:
                    vh["data"] = self.read(DFTAG_VS, ref)
                except FormatError as x:
                    vh["data_error"] = str(x)
            out.append(vh)
        return out

    def _vg(self, ref):
        buf = self.read(DFTAG_VG, ref)
        c = Cur(buf, 0, "VG %d" % ref)
        n = c.u16()
        if 4 * n > c.left():
            raise FormatError("VG %d: nvelt %d does not fit record of %d bytes" % (ref, n, len(buf)))
        tags = [c.u16() for _ in range(n)]
        refs = [c.u16() for _ in range(n)]
        vg = {"ref": ref, "members": list(zip(tags, refs))}
        for k in ("name", "class"):
            vg[k] = _txt(c.take(c.u16()))
        vg["extag"], vg["exref"] = c.u16(), c.u16()
        if c.left() < 5:
            raise FormatError("VG %d: record too short for version/more trailer" % ref)
        vg["version"], vg["more"] = struct.unpack_from(">hh", buf, len(buf) - 5)
        vg["flags"], vg["attrs"] = 0, []
        if vg["version"] == 4:
            vg["flags"] = c.u32()
            if vg["flags"] & 1:
                na = c.i32()
                if na < 0 or na * 4 > c.left():
                    raise FormatError("VG %d: attribute count %d does not fit record" % (ref, na))
                vg["attrs"] = [(c.u16(), c.u16()) for _ in range(na)]
        if vg["version"] >= 3 and c.left() != 5:
            raise FormatError("VG %d: %d bytes between decoded fields and trailer"
                              % (ref, c.left() - 5))
        return vg

    def vgroups(self):
        out = []
        for (t, ref) in sorted(self.elements):
            if t != DFTAG_VG:
                continue
            try:
                out.append(self._vg(ref))
            except FormatError as x:
                out.append({"ref": ref, "error": str(x), "name": "", "class": "", "members": [],
                            "extag": 0, "exref": 0, "version": 0, "attrs": []})
        return out

    def _check_vsets(self):
        for vd in self.vdatas():
            if "error" in vd:
                self._err("VH", vd["error"])
                continue
            if "data_error" in vd:
                self._err("VH", "%d: data unreadable: %s" % (vd["ref"], vd["data_error"]))
            elif (DFTAG_VS, vd["ref"]) in self.elements:
                e = self.elements[(DFTAG_VS, vd["ref"])]
                if e.special != "ext" and len(vd["data"]) < vd["nvert"] * vd["ivsize"]:
                    self._err("VH", "%d: VS data %d bytes < nvert*ivsize = %d*%d"
                              % (vd["ref"], len(vd["data"]), vd["nvert"], vd["ivsize"]))
            elif vd["nvert"] * vd["ivsize"] > 0:
                self._err("VH", "%d: nvert=%d but no VS element" % (vd["ref"], vd["nvert"]))
            for fi, at, ar in vd["attrs"]:
                if (base_tag(at), ar) not in self.elements:
                    self._err("VH", "%d: attribute %d/%d not in DD list" % (vd["ref"], at, ar), warn=True)
        for vg in self.vgroups():
            if "error" in vg:
                self._err("VG", vg["error"])
                continue
            for t, r in vg["members"] + vg["attrs"]:
                if (base_tag(t), r) not in self.elements:
                    self._err("VG", "%d (%s): member %d/%d not in DD list"
                              % (vg["ref"], vg["name"], t, r), warn=True)

    # ----------------------------------------------------------- annotations
    def annotations(self):
        kinds = {DFTAG_FID: "file_label", DFTAG_FD: "file_desc",
                 DFTAG_DIL: "obj_label", DFTAG_DIA: "obj_desc"}
        out = []
        for (t, ref) in sorted(self.elements):
            if t not in kinds:
                continue
            a = {"kind": kinds[t], "ann_tag": t, "ann_ref": ref, "target": None, "text": b""}
            try:
                b = self.read(t, ref)
                if t in (DFTAG_DIL, DFTAG_DIA):
                    if len(b) < 4:
                        raise FormatError("object annotation shorter than 4 bytes")
                    a["target"] = struct.unpack(">HH", b[:4])
                    b = b[4:]
                a["text"] = b
            except FormatError as x:
                a["error"] = str(x)
            out.append(a)
        return out

    # ------------------------------------------------------ SD (mfhdf) layer
    def _vgs_by_ref(self):
        return {g["ref"]: g for g in self.vgroups() if "error" not in g}

    def _attr_from_vh(self, ref):
        """Attr0.0 vdata -> attribute dict, or None."""
        try:
            vh = self._vh(ref)
        except FormatError:
            return None
        if vh["class"] != "Attr0.0" or not vh["fields"]:
            return None
        f = vh["fields"][0]
        try:
            raw = self.read(DFTAG_VS, ref) if (DFTAG_VS, ref) in self.elements else b""
        except FormatError:
            raw = b""
        return {"name": vh["name"], "nt": f["type"], "count": vh["nvert"] * f["order"],
                "raw": raw[:vh["nvert"] * vh["ivsize"]], "ref": ref}

    def _dim_from_vg(self, g):
        """Dim0.0 / UDim0.0 vgroup -> {"name","size"(0=unlimited),"numrecs"}."""
        d = {"name": g["name"], "size": None, "ref": g["ref"]}
        for t, r in g["members"]:
            if t != DFTAG_VH:
                continue
            try:
                vh = self._vh(r)
                if vh["class"] == "DimVal0.1" or (g["class"] == "UDim0.0" and vh["class"] == "DimVal0.0"):
                    val = struct.unpack(">i", self.read(DFTAG_VS, r)[:4])[0]
                    if g["class"] == "UDim0.0":
                        d["size"], d["numrecs"] = 0, val
                    else:
                        d["size"] = val
                elif vh["class"] == "DimVal0.0" and d["size"] is None:
                    d["size"] = vh["nvert"]
            except (FormatError, struct.error):
                continue
        return d

    def sds_file(self):
        """[{"name", "ref", "attrs"}] for each CDF0.0 vgroup (file level)."""
        out = []
        for g in self.vgroups():
            if g.get("class") == "CDF0.0":
                attrs = [a for a in (self._attr_from_vh(r) for t, r in g["members"] if t == DFTAG_VH) if a]
                out.append({"name": g["name"], "ref": g["ref"], "attrs": attrs})
        return out

    def sds(self):
        vgs = self._vgs_by_ref()
        out, done = [], set()
        for top in vgs.values():
            if top["class"] != "CDF0.0":
                continue
            for t, r in top["members"]:
                g = vgs.get(r)
                if t != DFTAG_VG or g is None or g["class"] != "Var0.0" or r in done:
                    continue
                done.add(r)
                v = {"name": g["name"], "ref": r, "dims": [], "nt": None, "data_tag": DFTAG_SD,
                     "data_ref": 0, "ndg_ref": 0, "attrs": [], "is_coord": False}
                for mt, mr in g["members"]:
                    if mt == DFTAG_VG:
                        dg = vgs.get(mr)
                        if dg is not None and dg["class"] in ("Dim0.0", "UDim0.0"):
                            v["dims"].append(self._dim_from_vg(dg))
                    elif mt == DFTAG_VH:
                        a = self._attr_from_vh(mr)
                        if a:
                            v["attrs"].append(a)
                            continue
                        try:
                            if self._vh(mr)["class"] == "CoordVar":
                                v["is_coord"] = True
                        except FormatError:
                            pass
                    elif mt == DFTAG_SD:
                        v["data_ref"] = mr
                    elif mt == DFTAG_NDG:
                        v["ndg_ref"] = mr
                    elif mt == DFTAG_NT:
                        try:
                            nt = self.read(DFTAG_NT, mr)
                            if len(nt) >= 4:
                                v["nt"] = nt[1] | (DFNT_LITEND if nt[3] == 4 else 0)
                        except FormatError:
                            pass
                out.append(v)
        return out

    # -------------------------------------------------------------- GR layer
    def _image_dim(self, ref, tag=DFTAG_ID):
        c = Cur(self.read(tag, ref), 0, "image dimension record %d/%d" % (tag, ref))
        d = {"xdim": c.i32(), "ydim": c.i32()}
        nt_tag, nt_ref = c.u16(), c.u16()
        d["ncomp"], d["interlace"] = c.i16(), c.i16()
        ctag, cref = c.u16(), c.u16()
        d["compressed"] = ctag or None
        d["nt"] = None
        try:
            nt = self.read(nt_tag, nt_ref)
            if len(nt) >= 4:
                d["nt"] = nt[1] | (DFNT_LITEND if nt[3] == 4 else 0)
        except FormatError:
            pass
        return d

    def rasters(self):
        """Images described by RI0.0 vgroups, plus RIG (306) groups not
        already covered by one."""
        out, seen = [], set()

        def from_members(members, name, ref, via):
            img = {"name": name, "ref": ref, "via": via, "xdim": None, "ydim": None, "ncomp": None,
                   "nt": None, "interlace": None, "data_tag": None, "data_ref": None, "lut": None,
                   "compressed": None}
            for t, r in members:
                bt = base_tag(t)
                if bt in (DFTAG_RI, DFTAG_CI):
                    img["data_tag"], img["data_ref"] = bt, r
                elif bt == DFTAG_LUT:
                    img["lut"] = (bt, r)
                elif bt == DFTAG_ID:
                    try:
                        img.update(self._image_dim(r))
                    except FormatError as x:
                        img["error"] = str(x)
            return img

        for g in self.vgroups():
            if g.get("class") == "RI0.0":
                img = from_members(g["members"], g["name"], g["ref"], "vgroup")
                seen.add((img["data_tag"], img["data_ref"]))
                out.append(img)
        for (t, ref) in sorted(self.elements):
            if t != DFTAG_RIG:
                continue
            try:
                b = self.read(t, ref)
            except FormatError:
                continue
            members = [struct.unpack_from(">HH", b, i) for i in range(0, len(b) - 3, 4)]
            img = from_members(members, None, ref, "rig")
            if (img["data_tag"], img["data_ref"]) not in seen:
                out.append(img)
        return out

    # ------------------------------------------------------------- summaries
    def to_json(self):
        els = []
        for key in sorted(self.elements):
            e = self.elements[key]
            els.append({"tag": e.tag, "ref": e.ref, "special": e.special, "length": e.length,
                        "extents": [list(x) for x in e.extents]})
        return {"ok": not self.errors, "errors": list(self.errors), "warnings": list(self.warnings),
                "size": self.size, "ddblocks": self.ddblocks, "dds": self.dds, "elements": els}

    def dump(self, out=sys.stdout):
        w = lambda s="": out.write(s + "\n")
        w("file %s  size %d  %s" % (self.path, self.size, "OK" if not self.errors else "ERRORS"))
        for e in self.errors:
            w("  ERROR   " + e)
        for e in self.warnings:
            w("  WARNING " + e)
        w("DD blocks:")
        for i, b in enumerate(self.ddblocks):
            w("  #%d off=%d ndds=%d next=%d" % (i, b["off"], b["ndds"], b["next"]))
        w("DDs (%d):" % len(self.dds))
        for d in self.dds:
            e = self.elements.get((base_tag(d["tag"]), d["ref"]))
            extra = ""
            if e is not None and e.special and e.tag == d["tag"]:
                extra = "  %s logical=%d %s" % (e.special, e.length, _brief(e.info))
            w("  tag=%-5d ref=%-5d off=%-9d len=%-9d%s" % (d["tag"], d["ref"], d["off"], d["len"], extra))
        w("Vgroups:")
        for g in self.vgroups():
            w("  VG %d name=%r class=%r v%d members=%s attrs=%s%s"
              % (g["ref"], g["name"], g["class"], g["version"], g["members"], g["attrs"],
                 "  ERROR " + g["error"] if "error" in g else ""))
        w("Vdatas:")
        for v in self.vdatas():
            w("  VH %d name=%r class=%r nvert=%d ivsize=%d interlace=%d v%d data=%dB%s"
              % (v["ref"], v["name"], v["class"], v["nvert"], v["ivsize"], v["interlace"],
                 v["version"], len(v["data"]), "  ERROR " + v["error"] if "error" in v else ""))
            for f in v["fields"]:
                w("      field %(name)r type=%(type)d isize=%(isize)d offset=%(offset)d order=%(order)d" % f)
        w("SDS:")
        for f in self.sds_file():
            w("  file %r attrs=%s" % (f["name"], [(a["name"], a["nt"], a["count"]) for a in f["attrs"]]))
        for s in self.sds():
            w("  %s %r vg=%d nt=%s dims=%s data=%d/%d ndg=%d attrs=%s"
              % ("coord" if s["is_coord"] else "sds", s["name"], s["ref"], s["nt"],
                 [(d["name"], d["size"]) for d in s["dims"]], s["data_tag"], s["data_ref"],
                 s["ndg_ref"], [(a["name"], a["nt"], a["count"]) for a in s["attrs"]]))
        w("Rasters:")
        for r in self.rasters():
            w("  %s" % {k: v for k, v in r.items()})
        w("Annotations:")
        for a in self.annotations():
            w("  %s %d/%d target=%s text=%r" % (a["kind"], a["ann_tag"], a["ann_ref"], a["target"],
                                               a["text"][:60]))


def _brief(info):
    if not info:
        return ""
    keep = {k: v for k, v in info.items() if k not in ("tables", "chunks", "header_extent")}
    if "tables" in info:
        keep["ntables"] = len(info["tables"])
    if "chunks" in info:
        keep["nchunks"] = len(info["chunks"])
    return str(keep)


def parse(path):
    """Parse an HDF4 file.  Never raises: problems end up in v.errors."""
    v = H4File(path)
    try:
        v._parse()
    except Exception as x:                      # last line of defence
        v._err("INTERNAL", "%s: %s" % (type(x).__name__, x))
    return v


def main(argv):
    if len(argv) == 3 and argv[1] == "--dump":
        parse(argv[2]).dump()
    elif len(argv) == 2:
        print(json.dumps(parse(argv[1]).to_json()))
    else:
        sys.stderr.write("usage: h4read.py [--dump] FILE\n")
        return 2
    return 0


if __name__ == "__main__":
    sys.exit(main(sys.argv))
