"""operation handlers for specs/VData.tla (C07) and specs/VGroup.tla (C08)"""
import ctypes, os, struct
from ctypes import byref, c_int32, create_string_buffer
from ops_common import *
import h4api
from h4api import CBuf, DFNT

TYPE_OF_SIZE = {1: (20, "b"), 2: (22, "h"), 4: (24, "i"), 8: (6, "d")}
FULL, NOIL = 0, 1


def layout(schema, sel, n, il):
    """the struct format characters of the values of a user buffer, in buffer order"""
    fm = []
    if il == FULL:
        for _ in range(n):
            for f in sel:
                fm += [TYPE_OF_SIZE[schema[f - 1][0]][1]] * schema[f - 1][1]
    else:
        for f in sel:
            fm += [TYPE_OF_SIZE[schema[f - 1][0]][1]] * (schema[f - 1][1] * n)
    return fm


def encode(vals, fm):
    return b"".join(struct.pack("=" + c, (float(v) if c == "d" else v)) for v, c in zip(vals, fm))


def decode(raw, fm):
    out, o = [], 0
    for c in fm:
        sz = struct.calcsize("=" + c)
        v = struct.unpack("=" + c, raw[o:o + sz])[0]
        out.append(int(v) if c == "d" and float(v).is_integer() else v)
        o += sz
    return out


def fnames(schema, sel=None):
    idx = sel if sel is not None else range(1, len(schema) + 1)
    return ",".join("f%d" % i for i in idx).encode()


@teardown("VData")
def vd_teardown(c):
    if c.v.get("vs", FAIL) != FAIL:
        c.L.VSdetach(c.v["vs"])
    if c.h.get("F", FAIL) != FAIL:
        c.L.Vfinish(c.h["F"])
        c.L.Hclose(c.h["F"])


@op("VData", "Create")
def vd_create(c, a):
    L = c.L
    h4api.declare_all(L)
    fid = L.Hopen(c.path(), DFACC_CREATE, 0)
    c.h["F"] = fid
    L.Vinitialize(fid)
    vs = L.VSattach(fid, -1, b"w")
    c.v["vs"] = vs
    sc = [list(x) for x in a["schema"]]
    c.v["schema"] = sc
    c.v["bump"] = 0
    L.VSsetname(vs, b"table")
    r = 0
    for i, (sz, order) in enumerate(sc):
        if L.VSfdefine(vs, b"f%d" % (i + 1), TYPE_OF_SIZE[sz][0], order) == FAIL:
            r = FAIL
    if L.VSsetfields(vs, fnames(sc)) == FAIL:
        r = FAIL
    if L.VSsetinterlace(vs, a["il"]) == FAIL:
        r = FAIL
    if a.get("bs"):
        L.VSsetblocksize(vs, a["bs"])
        L.VSsetnumblocks(vs, 2)
    c.v["ref"] = L.VSQueryref(vs)
    return {"ret": r}


@op("VData", "Write")
def vd_write(c, a):
    sc = c.v["schema"]
    fm = layout(sc, list(range(1, len(sc) + 1)), a["n"], a["bil"])
    raw = encode(a["buf"], fm)
    b = CBuf(len(raw), raw)
    r = c.L.VSwrite(c.v["vs"], b.ptr, a["n"], a["bil"])
    b.free()
    return {"ret": r, "nrec": c.L.VSelts(c.v["vs"])}


@op("VData", "Seek")
def vd_seek(c, a):
    return {"ret": c.L.VSseek(c.v["vs"], a["r"])}


@op("VData", "SetFields")
def vd_setfields(c, a):
    r = c.L.VSsetfields(c.v["vs"], fnames(c.v["schema"], a["sel"]))
    return {"ret": r, "size": c.L.VSsizeof(c.v["vs"], fnames(c.v["schema"], a["sel"]))}


@op("VData", "Read")
def vd_read(c, a):
    sc = c.v["schema"]
    fm = layout(sc, a["sel"], a["n"], a["bil"])
    nbytes = sum(struct.calcsize("=" + x) for x in fm)
    b = CBuf(nbytes)
    r = c.L.VSread(c.v["vs"], b.ptr, a["n"], a["bil"])
    vals = decode(b.raw(nbytes), fm) if r == a["n"] else []
    b.free()
    return {"ret": r, "buf": vals}


@op("VData", "Inquire")
def vd_inquire(c, a):
    L = c.L
    vs = c.v["vs"]
    n, il, sz = c_int32(-1), c_int32(-1), c_int32(-1)
    fields = create_string_buffer(4096)
    name = create_string_buffer(256)
    L.VSinquire(vs, byref(n), byref(il), fields, byref(sz), name)
    ok = fields.value == fnames(c.v["schema"]) and n.value == L.VSelts(vs) and sz.value == L.VSsizeof(vs, fields.value)
    return {"nrec": n.value if ok else -99, "il": il.value, "nfields": L.VFnfields(vs), "recsize": sz.value}


@op("VData", "Fpack")
def vd_fpack(c, a):
    """VSfpack(_HDF_VSPACK) of per-field buffers into a record buffer that holds the fields `sel`
    (fields_in_buf), and _HDF_VSUNPACK back"""
    L = c.L
    sc = c.v["schema"]
    n = a["n"]
    sel = a["sel"]
    allf = list(range(1, len(sc) + 1))
    fib = None if sel == allf else fnames(sc, sel)
    fmN = layout(sc, sel, n, NOIL)
    raw = encode(a["fields"], fmN)
    bufs, o = [], 0
    for f in sel:
        sz, order = sc[f - 1]
        ln = sz * order * n
        bufs.append(CBuf(ln, raw[o:o + ln]))
        o += ln
    ptrs = (ctypes.c_void_p * len(sel))(*[b.p for b in bufs])
    recsz = sum(sc[f - 1][0] * sc[f - 1][1] for f in sel)
    packed = CBuf(recsz * n)
    r = L.VSfpack(c.v["vs"], 0, fib, packed.ptr, recsz * n, n, fnames(sc, sel), ptrs)
    pv = decode(packed.raw(recsz * n), layout(sc, sel, n, FULL)) if r != FAIL else []
    outs = [CBuf(sc[f - 1][0] * sc[f - 1][1] * n) for f in sel]
    optrs = (ctypes.c_void_p * len(sel))(*[b.p for b in outs])
    r2 = L.VSfpack(c.v["vs"], 1, fib, packed.ptr, recsz * n, n, fnames(sc, sel), optrs)
    back = b"".join(b.raw() for b in outs)
    ok = (r != FAIL and r2 != FAIL and back == raw)
    for b in bufs + outs + [packed]:
        b.free()
    return {"ret": 0 if ok else FAIL, "packed": pv}


@op("VData", "Bump")
def vd_bump(c, a):
    c.v["bump"] += 1
    r = c.L.Hputelement(c.h["F"], 900, c.v["bump"], b"pad", 3)
    return {"ret": 0 if r == 3 else FAIL}


@op("VData", "Detach")
def vd_detach(c, a):
    r = c.L.VSdetach(c.v["vs"])
    c.v["vs"] = FAIL
    return {"ret": r}


@op("VData", "Attach")
def vd_attach(c, a):
    L = c.L
    if a["reopen"]:
        L.Vfinish(c.h["F"])
        if L.Hclose(c.h["F"]) == FAIL:
            return {"ret": FAIL}
        fid = L.Hopen(c.path(), DFACC_RDWR, 0)
        c.h["F"] = fid
        L.Vinitialize(fid)
    ref = L.VSfind(c.h["F"], b"table")
    vs = L.VSattach(c.h["F"], ref, a["mode"].encode())
    c.v["vs"] = vs
    if vs == FAIL:
        return {"ret": FAIL}
    sc = c.v["schema"]
    r = L.VSsetfields(vs, fnames(sc))
    return {"ret": 0 if r != FAIL else FAIL, "nrec": L.VSelts(vs), "nfields": L.VFnfields(vs), "recsize": L.VSsizeof(vs, fnames(sc))}
