"""operation handlers for specs/VData.tla (C07) and specs/VGroup.tla (C08)"""
import ctypes, os, struct
from ctypes import byref, c_int32, create_string_buffer
from ops_common import *
import h4api
from h4api import CBuf, DFNT

TYPE_OF_SIZE = {1: (20, "b"), 2: (22, "h"), 4: (24, "i"), 8: (6, "d")}
FULL, NOIL = 0, 1


def layout(schema, sel, n, il):
    """the struct format characters of the values of a user buffer, in buffer order"""
    fm = []
    if il == FULL:
        for _ in range(n):
            for f in sel:
                fm += [TYPE_OF_SIZE[schema[f - 1][0]][1]] * schema[f - 1][1]
    else:
        for f in sel:
            fm += [TYPE_OF_SIZE[schema[f - 1][0]][1]] * (schema[f - 1][1] * n)
    return fm


def encode(vals, fm):
    return b"".join(struct.pack("=" + c, (float(v) if c == "d" else v)) for v, c in zip(vals, fm))


def decode(raw, fm):
    out, o = [], 0
    for c in fm:
        sz = struct.calcsize("=" + c)
        v = struct.unpack("=" + c, raw[o:o + sz])[0]
        out.append(int(v) if c == "d" and float(v).is_integer() else v)
        o += sz
    return out


def fnames(schema, sel=None):
    idx = sel if sel is not None else range(1, len(schema) + 1)
    return ",".join("f%d" % i for i in idx).encode()


@teardown("VData")
def vd_teardown(c):
    if c.v.get("vs", FAIL) != FAIL:
        c.L.VSdetach(c.v["vs"])
    if c.h.get("F", FAIL) != FAIL:
        c.L.Vfinish(c.h["F"])
        c.L.Hclose(c.h["F"])


@op("VData", "Create")
def vd_create(c, a):
    L = c.L
    h4api.declare_all(L)
    fid = L.Hopen(c.path(), DFACC_CREATE, 0)
    c.h["F"] = fid
    L.Vinitialize(fid)
    vs = L.VSattach(fid, -1, b"w")
    c.v["vs"] = vs
    sc = [list(x) for x in a["schema"]]
    c.v["schema"] = sc
    c.v["bump"] = 0
    L.VSsetname(vs, b"table")
    r = 0
    for i, (sz, order) in enumerate(sc):
        if L.VSfdefine(vs, b"f%d" % (i + 1), TYPE_OF_SIZE[sz][0], order) == FAIL:
            r = FAIL
    if L.VSsetfields(vs, fnames(sc)) == FAIL:
        r = FAIL
    if L.VSsetinterlace(vs, a["il"]) == FAIL:
        r = FAIL
    if a.get("bs"):
        L.VSsetblocksize(vs, a["bs"])
        L.VSsetnumblocks(vs, 2)
    c.v["ref"] = L.VSQueryref(vs)
    return {"ret": r}


@op("VData", "Write")
def vd_write(c, a):
    sc = c.v["schema"]
    fm = layout(sc, list(range(1, len(sc) + 1)), a["n"], a["bil"])
    raw = encode(a["buf"], fm)
    b = CBuf(len(raw), raw)
    r = c.L.VSwrite(c.v["vs"], b.ptr, a["n"], a["bil"])
    b.free()
    return {"ret": r, "nrec": c.L.VSelts(c.v["vs"])}


@op("VData", "Seek")
def vd_seek(c, a):
    return {"ret": c.L.VSseek(c.v["vs"], a["r"])}


@op("VData", "SetFields")
def vd_setfields(c, a):
    r = c.L.VSsetfields(c.v["vs"], fnames(c.v["schema"], a["sel"]))
    return {"ret": r, "size": c.L.VSsizeof(c.v["vs"], fnames(c.v["schema"], a["sel"]))}


@op("VData", "Read")
def vd_read(c, a):
    sc = c.v["schema"]
    fm = layout(sc, a["sel"], a["n"], a["bil"])
    nbytes = sum(struct.calcsize("=" + x) for x in fm)
    b = CBuf(nbytes)
    r = c.L.VSread(c.v["vs"], b.ptr, a["n"], a["bil"])
    vals = decode(b.raw(nbytes), fm) if r == a["n"] else []
    b.free()
    return {"ret": r, "buf": vals}


@op("VData", "Inquire")
def vd_inquire(c, a):
    L = c.L
    vs = c.v["vs"]
    n, il, sz = c_int32(-1), c_int32(-1), c_int32(-1)
    fields = create_string_buffer(4096)
    name = create_string_buffer(256)
    L.VSinquire(vs, byref(n), byref(il), fields, byref(sz), name)
    ok = fields.value == fnames(c.v["schema"]) and n.value == L.VSelts(vs) and sz.value == L.VSsizeof(vs, fields.value)
    return {"nrec": n.value if ok else -99, "il": il.value, "nfields": L.VFnfields(vs), "recsize": sz.value,
            "agree": _vs_views_agree(c, vs, il.value)}


def _vs_views_agree(c, vs, il):
    """the per-field queries describe the same schema: names, positions, types, orders, sizes, existence"""
    L = c.L
    L.VFfieldname.restype = ctypes.c_char_p
    sc = c.v["schema"]
    why = []
    if L.VSgetinterlace(vs) != il:
        why.append("VSgetinterlace")
    tot = 0
    for i, (sz, order) in enumerate(sc):
        nm = b"f%d" % (i + 1)
        idx = c_int32(-1)
        if L.VSfindex(vs, nm, byref(idx)) == FAIL or idx.value != i:
            why.append("VSfindex(%s) = %d" % (nm.decode(), idx.value))
        if L.VFfieldname(vs, i) != nm:
            why.append("VFfieldname(%d)" % i)
        if L.VFfieldtype(vs, i) != TYPE_OF_SIZE[sz][0] or L.VFfieldorder(vs, i) != order:
            why.append("VFfieldtype/order(%d)" % i)
        if L.VFfieldisize(vs, i) != sz * order or L.VFfieldesize(vs, i) != sz * order:
            why.append("VFfieldisize/esize(%d) = %d/%d" % (i, L.VFfieldisize(vs, i), L.VFfieldesize(vs, i)))
        if L.VSfexist(vs, nm) == FAIL:
            why.append("VSfexist(%s)" % nm.decode())
        tot += sz * order
    if L.VSfexist(vs, b"nosuchfield") != FAIL:
        why.append("VSfexist(nosuchfield) succeeds")
    if L.VSfexist(vs, fnames(sc)) == FAIL:
        why.append("VSfexist(all fields)")
    if L.VSsizeof(vs, fnames(sc)) != tot:
        why.append("VSsizeof(all) = %d, sum of fields %d" % (L.VSsizeof(vs, fnames(sc)), tot))
    if L.VSgetversion(vs) != 3 and L.VSgetversion(vs) != 4:
        why.append("VSgetversion = %d" % L.VSgetversion(vs))
    if why:
        c.v["why"] = why
    return not why


@op("VData", "Fpack")
def vd_fpack(c, a):
    """VSfpack(_HDF_VSPACK) of per-field buffers into a record buffer that holds the fields `sel`
    (fields_in_buf), and _HDF_VSUNPACK back"""
    L = c.L
    sc = c.v["schema"]
    n = a["n"]
    sel = a["sel"]
    allf = list(range(1, len(sc) + 1))
    fib = None if sel == allf else fnames(sc, sel)
    fmN = layout(sc, sel, n, NOIL)
    raw = encode(a["fields"], fmN)
    bufs, o = [], 0
    for f in sel:
        sz, order = sc[f - 1]
        ln = sz * order * n
        bufs.append(CBuf(ln, raw[o:o + ln]))
        o += ln
    ptrs = (ctypes.c_void_p * len(sel))(*[b.p for b in bufs])
    recsz = sum(sc[f - 1][0] * sc[f - 1][1] for f in sel)
    packed = CBuf(recsz * n)
    r = L.VSfpack(c.v["vs"], 0, fib, packed.ptr, recsz * n, n, fnames(sc, sel), ptrs)
    pv = decode(packed.raw(recsz * n), layout(sc, sel, n, FULL)) if r != FAIL else []
    outs = [CBuf(sc[f - 1][0] * sc[f - 1][1] * n) for f in sel]
    optrs = (ctypes.c_void_p * len(sel))(*[b.p for b in outs])
    r2 = L.VSfpack(c.v["vs"], 1, fib, packed.ptr, recsz * n, n, fnames(sc, sel), optrs)
    back = b"".join(b.raw() for b in outs)
    ok = (r != FAIL and r2 != FAIL and back == raw)
    for b in bufs + outs + [packed]:
        b.free()
    return {"ret": 0 if ok else FAIL, "packed": pv}


@op("VData", "SetIl")
def vd_setil(c, a):
    return {"ret": c.L.VSsetinterlace(c.v["vs"], a["il"])}


@op("VData", "Bump")
def vd_bump(c, a):
    c.v["bump"] += 1
    r = c.L.Hputelement(c.h["F"], 900, c.v["bump"], b"pad", 3)
    return {"ret": 0 if r == 3 else FAIL}


@op("VData", "Detach")
def vd_detach(c, a):
    r = c.L.VSdetach(c.v["vs"])
    c.v["vs"] = FAIL
    return {"ret": r}


@op("VData", "Attach")
def vd_attach(c, a):
    L = c.L
    if a["reopen"]:
        L.Vfinish(c.h["F"])
        if L.Hclose(c.h["F"]) == FAIL:
            return {"ret": FAIL}
        fid = L.Hopen(c.path(), DFACC_RDWR, 0)
        c.h["F"] = fid
        L.Vinitialize(fid)
    ref = L.VSfind(c.h["F"], b"table")
    vs = L.VSattach(c.h["F"], ref, a["mode"].encode())
    c.v["vs"] = vs
    if vs == FAIL:
        return {"ret": FAIL}
    sc = c.v["schema"]
    r = L.VSsetfields(vs, fnames(sc))
    return {"ret": 0 if r != FAIL else FAIL, "nrec": L.VSelts(vs), "nfields": L.VFnfields(vs), "recsize": L.VSsizeof(vs, fnames(sc))}


# ------------------------------------------------------------------ VGroup (C08)
DFTAG_VG, DFTAG_VH = 1965, 1962
RAWTAG = 1000


def vg_name(nm):
    """<<len, char>> -> bytes"""
    ln, ch = nm
    return (ch * ln).encode() if ln else b""


def vg_unname(b):
    if not b:
        return [0, ""]
    s = b.decode(errors="replace")
    if s == s[0] * len(s):
        return [len(s), s[0]]
    return [len(s), "?" + s[:8]]


def vg_member(c, m):
    if m[0] == "G":
        return DFTAG_VG, c.v["gref"].get(m, c.v.get("deadg", {}).get(m, 60000 + int(m[1:])))
    if m[0] == "D":
        return DFTAG_VH, c.v["dref"].get(m, c.v.get("deadd", {}).get(m, 61000 + int(m[1:])))
    return RAWTAG, int(m[1:])


def vg_unmember(c, tag, ref):
    if tag == DFTAG_VG:
        for k, v in c.v["gref"].items():
            if v == ref:
                return k
    if tag == DFTAG_VH:
        for k, v in c.v["dref"].items():
            if v == ref:
                return k
    if tag == RAWTAG:
        return "R%d" % ref
    return "?%d/%d" % (tag, ref)


@teardown("VGroup")
def vg_teardown(c):
    for g, h in list(c.v.get("gh", {}).items()):
        c.L.Vdetach(h)
    if c.h.get("F", FAIL) != FAIL:
        c.L.Vfinish(c.h["F"])
        c.L.Hclose(c.h["F"])


@op("VGroup", "Setup")
def vg_setup(c, a):
    L = c.L
    h4api.declare_all(L)
    fid = L.Hopen(c.path(), DFACC_CREATE, 0)
    c.h["F"] = fid
    L.Vinitialize(fid)
    c.v["gref"], c.v["dref"], c.v["gh"] = {}, {}, {}
    for i in range(a["nd"]):
        vs = L.VSattach(fid, -1, b"w")
        L.VSsetname(vs, b"D%d" % (i + 1))
        L.VSfdefine(vs, b"x", DFNT["int16"], 1)
        L.VSsetfields(vs, b"x")
        L.VSwrite(vs, struct.pack("=h", i), 1, 0)
        c.v["dref"]["D%d" % (i + 1)] = L.VSQueryref(vs)
        L.VSdetach(vs)
    for r in (1, 2, 3):
        L.Hputelement(fid, RAWTAG, r, b"raw", 3)
    return {"ret": 0 if fid != FAIL else FAIL}


@op("VGroup", "New")
def vg_new(c, a):
    h = c.L.Vattach(c.h["F"], -1, b"w")
    if h == FAIL:
        return {"ret": FAIL}
    c.v["gh"][a["g"]] = h
    c.v["gref"][a["g"]] = c.L.VQueryref(h)
    return {"ret": 0}


@op("VGroup", "SetName")
def vg_setname(c, a):
    return {"ret": c.L.Vsetname(c.v["gh"][a["g"]], vg_name(a["name"]))}


@op("VGroup", "SetClass")
def vg_setclass(c, a):
    return {"ret": c.L.Vsetclass(c.v["gh"][a["g"]], vg_name(a["name"]))}


@op("VGroup", "Add")
def vg_add(c, a):
    t, r = vg_member(c, a["m"])
    return {"ret": c.L.Vaddtagref(c.v["gh"][a["g"]], t, r)}


@op("VGroup", "Insert")
def vg_insert(c, a):
    L = c.L
    m = a["m"]
    tmp = None
    if m[0] == "G":
        ch = c.v["gh"].get(m)
        if ch is None:
            ch = tmp = L.Vattach(c.h["F"], c.v["gref"][m], b"r")
        r = L.Vinsert(c.v["gh"][a["g"]], ch)
        if tmp is not None:
            L.Vdetach(tmp)
    else:
        vs = L.VSattach(c.h["F"], c.v["dref"][m], b"r")
        r = L.Vinsert(c.v["gh"][a["g"]], vs)
        L.VSdetach(vs)
    return {"ret": r}


@op("VGroup", "DelRef")
def vg_delref(c, a):
    t, r = vg_member(c, a["m"])
    return {"ret": c.L.Vdeletetagref(c.v["gh"][a["g"]], t, r)}


@op("VGroup", "Detach")
def vg_detach(c, a):
    return {"ret": c.L.Vdetach(c.v["gh"].pop(a["g"]))}


@op("VGroup", "Attach")
def vg_attach(c, a):
    h = c.L.Vattach(c.h["F"], c.v["gref"][a["g"]], a["mode"].encode())
    if h == FAIL:
        return {"ret": FAIL}
    c.v["gh"][a["g"]] = h
    return {"ret": 0, "n": c.L.Vntagrefs(h)}


@op("VGroup", "DeleteG")
def vg_deleteg(c, a):
    r = c.L.Vdelete(c.h["F"], c.v["gref"][a["g"]])
    if r != FAIL:
        c.v.setdefault("deadg", {})[a["g"]] = c.v["gref"].pop(a["g"])
    return {"ret": r}


@op("VGroup", "DeleteD")
def vg_deleted(c, a):
    r = c.L.VSdelete(c.h["F"], c.v["dref"][a["d"]])
    if r != FAIL:
        c.v.setdefault("deadd", {})[a["d"]] = c.v["dref"].pop(a["d"])
    return {"ret": r}


def _members(c, h):
    L = c.L
    n = L.Vntagrefs(h)
    if n <= 0:
        return n, []
    tags, refs = h4api.i32arr([0] * n), h4api.i32arr([0] * n)
    got = L.Vgettagrefs(h, tags, refs, n)
    out = []
    for i in range(max(got, 0)):
        k = vg_unmember(c, tags[i], refs[i])
        if k.startswith("?"):
            # a member whose object has been deleted keeps its tag/ref: name it by the id it had
            for dk, dv in list(c.v.get("deadg", {}).items()) + list(c.v.get("deadd", {}).items()):
                if dv == refs[i] and ((tags[i] == DFTAG_VG) == (dk[0] == "G")):
                    k = dk
        out.append(k)
    return n, out


@op("VGroup", "Info")
def vg_info(c, a):
    L = c.L
    h = c.v["gh"][a["g"]]
    ln = ctypes.c_uint16(0)
    L.Vgetnamelen(h, byref(ln))
    nb = create_string_buffer(ln.value + 1)
    L.Vgetname(h, nb)
    cl = ctypes.c_uint16(0)
    L.Vgetclassnamelen(h, byref(cl))
    cb = create_string_buffer(cl.value + 1)
    L.Vgetclass(h, cb)
    n, mem = _members(c, h)
    return {"name": vg_unname(nb.value), "class": vg_unname(cb.value), "mem": mem, "n": n, "agree": _vg_views_agree(c, h, n)}


def _vg_views_agree(c, h, n):
    """the other ways of asking for the same member list: one member at a time (Vgettagref), per-tag counts (Vnrefs),
    the entry count by reference number (Ventries)"""
    L = c.L
    why = []
    if n > 0:
        tags, refs = h4api.i32arr([0] * n), h4api.i32arr([0] * n)
        got = L.Vgettagrefs(h, tags, refs, n)
        bulk = [(tags[i], refs[i]) for i in range(max(got, 0))]
        one = []
        t, r = c_int32(0), c_int32(0)
        for i in range(n):
            if L.Vgettagref(h, i, byref(t), byref(r)) == FAIL:
                why.append("Vgettagref(%d) failed" % i)
                break
            one.append((t.value, r.value))
        if one != bulk:
            why.append("Vgettagref one by one differs from Vgettagrefs")
        for tg in sorted(set(x[0] for x in bulk)):
            if L.Vnrefs(h, tg) != sum(1 for x in bulk if x[0] == tg):
                why.append("Vnrefs(tag %d) = %d" % (tg, L.Vnrefs(h, tg)))
        # a request for fewer members returns the first ones
        if n > 1:
            t2, r2 = h4api.i32arr([0] * (n - 1)), h4api.i32arr([0] * (n - 1))
            g2 = L.Vgettagrefs(h, t2, r2, n - 1)
            if g2 != n - 1 or [(t2[i], r2[i]) for i in range(n - 1)] != bulk[:n - 1]:
                why.append("Vgettagrefs(n-1) is not the first n-1 members")
    ref = L.VQueryref(h)
    if L.Vntagrefs(h) != n:
        why.append("Vntagrefs changed")
    if c.v.get("vg_saved", {}).get(ref) == n and L.Ventries(c.h["F"], ref) != n:
        why.append("Ventries = %d, members = %d" % (L.Ventries(c.h["F"], ref), n))
    if why:
        c.v["why"] = why
    return not why


@op("VGroup", "Inq")
def vg_inq(c, a):
    t, r = vg_member(c, a["m"])
    return {"member": bool(c.L.Vinqtagref(c.v["gh"][a["g"]], t, r))}


def _ids(c, refs, kind):
    out = []
    table = c.v["gref"] if kind == "G" else c.v["dref"]
    for r in refs:
        k = [x for x, v in table.items() if v == r]
        out.append(k[0] if k else "?%d" % r)
    return sorted(out, key=lambda s: (len(s), s))


@op("VGroup", "Lone")
def vg_lone(c, a):
    L = c.L
    arr = h4api.i32arr([0] * 64)
    n = L.Vlone(c.h["F"], arr, 64)
    vg = _ids(c, [arr[i] for i in range(max(n, 0))], "G")
    arr2 = h4api.i32arr([0] * 64)
    n2 = L.VSlone(c.h["F"], arr2, 64)
    vs = _ids(c, [arr2[i] for i in range(max(n2, 0))], "D")
    return {"vg": vg, "vs": vs}


@op("VGroup", "Iterate")
def vg_iterate(c, a):
    L = c.L
    refs, r = [], -1
    while len(refs) < 1000:
        r = L.Vgetid(c.h["F"], r)
        if r == FAIL:
            break
        refs.append(r)
    vrefs, r = [], -1
    while len(vrefs) < 1000:
        r = L.VSgetid(c.h["F"], r)
        if r == FAIL:
            break
        vrefs.append(r)
    vg, vs = _ids(c, refs, "G"), _ids(c, vrefs, "D")
    # the other views of the same sets: Vgetvgroups / VSgetvdatas on the file (user-created objects: none of the model's
    # objects carries a class the library reserves for itself), as a count (no array) and as a list, whole and in two halves
    for fn, mine, tag in ((L.Vgetvgroups, refs, "?Vgetvgroups"), (L.VSgetvdatas, vrefs, "?VSgetvdatas")):
        n = fn(c.h["F"], 0, 0, None)
        if n != len(mine):
            (vg if fn is L.Vgetvgroups else vs).append("%s:count=%d" % (tag, n))
            continue
        if n > 0:
            arr = (ctypes.c_uint16 * n)()
            got = fn(c.h["F"], 0, n, arr)
            whole = [arr[i] for i in range(max(got, 0))]
            h = n // 2
            a1, a2 = (ctypes.c_uint16 * max(h, 1))(), (ctypes.c_uint16 * max(n - h, 1))()
            g1 = fn(c.h["F"], 0, h, a1) if h else 0
            g2 = fn(c.h["F"], h, n - h, a2)
            halves = [a1[i] for i in range(max(g1, 0))] + [a2[i] for i in range(max(g2, 0))]
            if sorted(whole) != sorted(mine) or halves != whole:
                (vg if fn is L.Vgetvgroups else vs).append("%s:%s/%s" % (tag, whole, halves))
    return {"vg": vg, "vs": vs}


@op("VGroup", "Find")
def vg_find(c, a):
    r = c.L.Vfind(c.h["F"], vg_name(a["name"]))
    if r <= 0:
        return {"found": "none"}
    k = [x for x, v in c.v["gref"].items() if v == r]
    return {"found": k[0] if k else "?%d" % r}


@op("VGroup", "Reopen")
def vg_reopen(c, a):
    L = c.L
    L.Vfinish(c.h["F"])
    if L.Hclose(c.h["F"]) == FAIL:
        return {"ret": FAIL}
    fid = L.Hopen(c.path(), DFACC_RDWR, 0)
    c.h["F"] = fid
    L.Vinitialize(fid)
    return {"ret": 0 if fid != FAIL else FAIL}


@op("VGroup", "Peek")
def vg_peek(c, a):
    arr = h4api.i32arr([0] * 64)
    n = c.L.Vlone(c.h["F"], arr, 64)
    n2 = c.L.VSlone(c.h["F"], arr, 64)
    return {"ret": 0 if (n != FAIL and n2 != FAIL) else FAIL}


@op("VGroup", "Reattach")
def vg_reattach(c, a):
    h2 = c.L.Vattach(c.h["F"], c.v["gref"][a["g"]], a["mode"].encode())
    if h2 == FAIL:
        return {"ret": FAIL}
    return {"ret": c.L.Vdetach(h2)}
