#!/usr/bin/env python3
"""drive.py -- replays behaviours (sequences of abstract operations) against the real HDF4 library.

The library is libh4v.so, built by bin/build_lib.sh from /repo's current working tree (ASan + the
memory-related UBSan checks, hooks on, stdio wrapped).  It is loaded ONCE with ctypes; every behaviour
then runs in a forked child, so that
  * library-global state never leaks from one behaviour to the next,
  * a sanitizer abort, crash or hang costs exactly one behaviour and is attributed to it.

Input : NDJSON, one behaviour per line:  {"id":.., "spec":"HDir", "steps":[{"op","args","out"?},...]}
Output: NDJSON, one result per line:     {"id","spec","status","trace":[{"op","args","obs"}],"mismatch"?,"stderr"?}
status: ok | mismatch | crash | timeout | error(harness problem)

`out` (when present) is the specification's expected observation; every key of `out` is compared with
the observed value (the string "any" matches anything).  Handlers live in harness/ops_*.py.
"""
import sys, os, json, ctypes, signal, tempfile, shutil, time, traceback, argparse, importlib

HERE = os.path.dirname(os.path.abspath(__file__))
sys.path.insert(0, HERE)

from ops_common import OPS, SETUP


class Ctx:
    """per-behaviour context"""
    def __init__(self, lib, spec, workdir):
        self.L = lib
        self.spec = spec
        self.dir = workdir
        self.h = {}       # symbolic handle name -> library id
        self.v = {}       # scratch values for handlers

    def path(self, name="f.hdf"):
        return os.path.join(self.dir, name).encode()


def load_lib(path):
    import ops_common
    L = ctypes.CDLL(path)
    ops_common.declare(L)
    return L


def match(exp, obs):
    if exp == "any" or exp == -9 or exp == -8:      # -9: "this value is not constrained" (HElem.Z)
        return True
    if isinstance(exp, str) and exp.startswith("?"):  # a name of the library's choosing (Attrs: unnamed dimension)
        return isinstance(obs, str) and obs.startswith("fakeDim")
    if isinstance(exp, list) and isinstance(obs, list):
        return len(exp) == len(obs) and all(match(a, b) for a, b in zip(exp, obs))
    if isinstance(exp, dict) and isinstance(obs, dict):
        return all(k in obs and match(v, obs[k]) for k, v in exp.items())
    if isinstance(exp, bool) or isinstance(obs, bool):
        return bool(exp) == bool(obs)
    return exp == obs


TEARDOWN = {}  # spec -> function(ctx) releasing every handle the behaviour still holds


def run_batch(lib, behs, wfd, tmo):
    """child side: run a batch of behaviours sequentially, stream result lines to wfd"""
    from ops_common import TEARDOWN
    w = os.fdopen(wfd, "w")
    for bi, beh in enumerate(behs):
        spec = beh["spec"]
        workdir = tempfile.mkdtemp(prefix="h4v_")
        status = "ok"
        w.write(json.dumps({"begin": bi}) + "\n")
        w.flush()           # (a crash in the very first call must still be attributed to this behaviour)
        ctx = None
        try:
            signal.alarm(tmo)
            ctx = Ctx(lib, spec, workdir)
            os.chdir(workdir)
            if spec in SETUP:
                SETUP[spec](ctx, beh)
            handlers = OPS[spec]
            for i, s in enumerate(beh["steps"]):
                ctx.exp = s.get("out")        # (some handlers report values in the specification's terms)
                obs = handlers[s["op"]](ctx, s.get("args", {}))
                w.write(json.dumps({"i": i, "op": s["op"], "args": s.get("args", {}), "obs": obs}) + "\n")
                w.flush()
                exp = s.get("out")
                if exp is not None and not match(exp, obs):
                    bad = [k for k in exp if k not in obs or not match(exp[k], obs[k])]
                    w.write(json.dumps({"mismatch": {"step": i, "op": s["op"], "keys": bad,
                                                     "exp": {k: exp[k] for k in bad},
                                                     "obs": {k: obs.get(k) for k in bad}}}) + "\n")
                    status = "mismatch"
                    break
            if spec in TEARDOWN:
                TEARDOWN[spec](ctx)
            signal.alarm(0)
        except BaseException as e:   # harness problem, not a verdict
            w.write(json.dumps({"error": "%s: %s" % (type(e).__name__, e), "tb": traceback.format_exc()[-1500:]}) + "\n")
            status = "error"
        w.write(json.dumps({"end": status}) + "\n")
        w.flush()
        shutil.rmtree(workdir, ignore_errors=True)
        if status != "ok":
            break      # library state may be off: the parent starts a fresh process for the rest
    try:
        lib.h4v_gcov_dump()    # coverage build only (bin/coverage.sh): counters are not written at _exit
    except Exception:
        pass
    os._exit(0)


class LazyBehs:
    """the behaviours of one worker, parsed from the input file when a batch is taken"""
    def __init__(self, path, offsets, ids):
        self.path, self.offsets, self.ids = path, offsets, ids
        self.f = None

    def __len__(self):
        return len(self.offsets)

    def _load(self, k):
        if self.f is None:
            self.f = open(self.path, "rb")
        self.f.seek(self.offsets[k])
        b = json.loads(self.f.readline())
        b.setdefault("id", self.ids[k])
        return b

    def __getitem__(self, sl):
        if isinstance(sl, slice):
            return [self._load(k) for k in range(*sl.indices(len(self.offsets)))]
        return self._load(sl)


def worker(lib, behs, outpath, tmo, errpath, batch):
    """one worker: forks a child per batch, writes one result line per behaviour to outpath"""
    out = open(outpath, "w")
    pos = 0
    while pos < len(behs):
        chunk = behs[pos:pos + batch]
        r, wfd = os.pipe()
        pid = os.fork()
        if pid == 0:
            os.close(r)
            efd = os.open(errpath, os.O_WRONLY | os.O_CREAT | os.O_TRUNC, 0o644)
            os.dup2(efd, 2)
            os.dup2(efd, 1)
            run_batch(lib, chunk, wfd, tmo)
            os._exit(0)
        os.close(wfd)
        rf = os.fdopen(r)
        done = 0            # behaviours of this chunk with a final verdict
        cur = None          # index in chunk of the behaviour in progress
        trace, mismatch, err = [], None, None
        for line in rf:
            try:
                d = json.loads(line)
            except Exception:
                continue
            if "begin" in d:
                cur = d["begin"]
                trace, mismatch, err = [], None, None
            elif "end" in d:
                beh = chunk[cur]
                res = {"id": beh.get("id"), "spec": beh["spec"], "trace": trace, "status": d["end"]}
                if mismatch:
                    res["mismatch"] = mismatch
                if err:
                    res["error"] = err
                out.write(json.dumps(res) + "\n")
                done = cur + 1
                cur = None
            elif "mismatch" in d:
                mismatch = d["mismatch"]
            elif "error" in d:
                err = d
            else:
                trace.append({"op": d["op"], "args": d["args"], "obs": d["obs"]})
        rf.close()
        _, st = os.waitpid(pid, 0)
        if cur is not None:
            # the child died inside behaviour `cur`
            beh = chunk[cur]
            res = {"id": beh.get("id"), "spec": beh["spec"], "trace": trace}
            sig = os.WTERMSIG(st) if os.WIFSIGNALED(st) else 0
            code = os.WEXITSTATUS(st) if os.WIFEXITED(st) else -1
            res["status"] = "timeout" if sig == signal.SIGALRM else "crash"
            res["signal"], res["exit"] = sig, code
            res["at_step"] = len(trace)
            if len(trace) < len(beh["steps"]):
                res["at_op"] = beh["steps"][len(trace)]
            try:
                txt = open(errpath, errors="replace").read()
                keep = [l for l in txt.splitlines() if ("ERROR" in l or "SUMMARY" in l or l.lstrip().startswith("#"))][:14]
                res["stderr"] = "\n".join(keep)[:3000] if keep else txt[-1500:]
            except Exception:
                pass
            out.write(json.dumps(res) + "\n")
            done = cur + 1
        if done == 0:
            # child died before starting anything: harness problem
            beh = chunk[0]
            out.write(json.dumps({"id": beh.get("id"), "spec": beh["spec"], "trace": [], "status": "error",
                                  "error": {"error": "child died before first behaviour", "st": st}}) + "\n")
            done = 1
        pos += done
    out.close()


def main():
    ap = argparse.ArgumentParser()
    ap.add_argument("--lib", required=True)
    ap.add_argument("--in", dest="inp", required=True)
    ap.add_argument("--out", required=True)
    ap.add_argument("--jobs", type=int, default=16)
    ap.add_argument("--timeout", type=int, default=20)
    ap.add_argument("--mods", default="ops_h")
    ap.add_argument("--batch", type=int, default=40)
    a = ap.parse_args()
    lib = load_lib(a.lib)
    for m in a.mods.split(","):
        importlib.import_module(m)
    # the behaviours are not loaded here: a thorough tier's file holds gigabytes of JSON, and every forked
    # worker would end up with its own copy.  Only the line offsets are kept; a worker parses its lines batch by batch
    offs = []
    with open(a.inp, "rb") as f:
        pos = 0
        for l in f:
            if l.strip():
                offs.append(pos)
            pos += len(l)
    jobs = max(1, min(a.jobs, len(offs)))
    pids = []
    for j in range(jobs):
        part = LazyBehs(a.inp, offs[j::jobs], list(range(j, len(offs), jobs)))
        pid = os.fork()
        if pid == 0:
            worker(lib, part, "%s.%d" % (a.out, j), a.timeout, "%s.err%d" % (a.out, j), a.batch)
            os._exit(0)
        pids.append(pid)
    bad = 0
    for p in pids:
        _, st = os.waitpid(p, 0)
        if st != 0:
            bad += 1
    with open(a.out, "w") as o:
        for j in range(jobs):
            fn = "%s.%d" % (a.out, j)
            if os.path.exists(fn):
                o.write(open(fn).read())
                os.unlink(fn)
            en = "%s.err%d" % (a.out, j)
            if os.path.exists(en):
                os.unlink(en)
    sys.exit(3 if bad else 0)


if __name__ == "__main__":
    main()
