"""operation handlers for specs/Bulk.tla: single calls that cross the library's internal staging thresholds"""
import ctypes, os, struct
from ctypes import byref, c_int32, create_string_buffer
from ops_common import *
import h4api
from h4api import CBuf, DFNT, i32arr, chunkdef, HDF_CHUNK

SCHEMAS = {
    "narrow": [("a", DFNT["int16"], 1, "h"), ("b", DFNT["float32"], 2, "f"), ("c", DFNT["char8"], 3, "c")],
    "wide": [("a", DFNT["int32"], 10, "i"), ("b", DFNT["float64"], 5, "d"), ("c", DFNT["int16"], 6, "h")],
}


def fval(fmt, rec, j, fi):
    if fmt == "c":
        return bytes([97 + (rec * 3 + j + fi) % 26])
    if fmt in ("f", "d"):
        return (rec % 100000) * 0.5 + j * 0.25 + fi
    if fmt == "h":
        return (rec * 7 + j * 3 + fi) % 30000
    return (rec * 1000 + j * 17 + fi) % 2000000000


def field_bytes(schema, fname, rec):
    for fi, (nm, nt, order, fmt) in enumerate(SCHEMAS[schema]):
        if nm == fname:
            return struct.pack("=%d%s" % (order, fmt), *[fval(fmt, rec, j, fi) for j in range(order)])
    raise KeyError(fname)


def table_bytes(schema, fields, lo, hi, il):
    """records lo..hi-1 of the given fields; il 0: record after record, il 1: field after field"""
    if il == 0:
        return b"".join(b"".join(field_bytes(schema, f, r) for f in fields) for r in range(lo, hi))
    return b"".join(b"".join(field_bytes(schema, f, r) for r in range(lo, hi)) for f in fields)


@op("Bulk", "BulkVS")
def bulk_vs(c, a):
    L = c.L
    h4api.declare_all(L)
    schema, nrec, pieces, il = a["schema"], a["nrec"], a["pieces"], a["il"]
    names = [s[0] for s in SCHEMAS[schema]]
    p = c.path()
    why = []
    fid = L.Hopen(p, DFACC_CREATE, 0)
    L.Vinitialize(fid)
    vs = L.VSattach(fid, -1, b"w")
    L.VSsetname(vs, b"bulk")
    for nm, nt, order, fmt in SCHEMAS[schema]:
        L.VSfdefine(vs, nm.encode(), nt, order)
    L.VSsetfields(vs, ",".join(names).encode())
    bounds = [nrec * i // pieces for i in range(pieces + 1)]
    for i in range(pieces):
        raw = table_bytes(schema, names, bounds[i], bounds[i + 1], il)
        b = CBuf(len(raw), raw)
        if L.VSwrite(vs, b.ptr, bounds[i + 1] - bounds[i], il) != bounds[i + 1] - bounds[i]:
            why.append("write piece %d failed" % i)
        b.free()
    ref = L.VSQueryref(vs)
    L.VSdetach(vs)

    def readcheck(tag):
        vs2 = L.VSattach(fid2, ref, b"r")
        n = c_int32()
        L.VSinquire(vs2, byref(n), None, None, None, None)
        if n.value != nrec:
            why.append("%s: %d records, %d written" % (tag, n.value, nrec))
        for sub in ([names[1]], [names[2], names[0]], names):
            for ril in (0, 1):
                for cuts in ([0, nrec], [0, nrec // 3, nrec]):
                    if ril == 1 and len(cuts) > 2:
                        continue
                    L.VSsetfields(vs2, ",".join(sub).encode())
                    L.VSseek(vs2, 0)
                    got = b""
                    ok = True
                    for k in range(len(cuts) - 1):
                        want = table_bytes(schema, sub, cuts[k], cuts[k + 1], ril)
                        b = CBuf(len(want))
                        r = L.VSread(vs2, b.ptr, cuts[k + 1] - cuts[k], ril)
                        if r != cuts[k + 1] - cuts[k] or b.raw() != want:
                            ok = False
                        b.free()
                    if not ok:
                        why.append("%s: fields %s buffer interlace %d in %d call(s): wrong values" % (tag, "+".join(sub), ril, len(cuts) - 1))
        L.VSdetach(vs2)
    fid2 = fid
    readcheck("same session")
    L.Vfinish(fid)
    L.Hclose(fid)
    fid2 = L.Hopen(p, DFACC_READ, 0)
    L.Vinitialize(fid2)
    readcheck("after reopen")
    L.Vfinish(fid2)
    L.Hclose(fid2)
    o = {"match": not why}
    if why:
        o["why"] = why[:6]
    return o


def cell(fmt, i):
    return (i * 7 + 3) % 120 if fmt == "b" else (i * 7001 + 3) % 2000000000


@op("Bulk", "BulkSD")
def bulk_sd(c, a):
    L = c.L
    h4api.declare_all(L)
    fmt = {"i8": "b", "i32": "i"}[a["type"]]
    nt = DFNT["int8"] if fmt == "b" else DFNT["int32"]
    esz = struct.calcsize("=" + fmt)
    shape = list(a["shape"])
    layout = a["layout"]
    fillv = -5
    why = []
    p = c.path()
    sd = L.SDstart(p, DFACC_CREATE)
    if not a["fill"]:
        L.SDsetfillmode(sd, 0x100)          # SD_NOFILL
    cshape = list(shape)
    unl = layout.startswith("linked")
    if unl:
        cshape[0] = 0
    s = L.SDcreate(sd, b"bulk", nt, len(shape), i32arr(cshape))
    L.SDsetfillvalue(s, struct.pack("=" + fmt, fillv))
    if layout == "chunk":
        L.SDsetchunk(s, chunkdef([64, 256]), HDF_CHUNK)
    if unl:
        L.SDsetblocksize(s, int(layout[6:]))
    # the slab written first: rows row..row+rows-1 (rank 2) / the last quarter (rank 1)
    if len(shape) == 2:
        if unl:
            start, count = [0, 0], [shape[0], shape[1]]         # one call spanning every linked block
        else:
            start, count = [(a["row"] + shape[0] // 2) % (shape[0] - a["rows"]), 0], [a["rows"], shape[1]]
    else:
        start, count = [shape[0] - shape[0] // 4], [shape[0] // 4]
    n = 1
    for x in count:
        n *= x
    lin0 = start[0] * (shape[1] if len(shape) == 2 else 1)
    raw = struct.pack("=%d%s" % (n, fmt), *[cell(fmt, lin0 + i) for i in range(n)])
    b = CBuf(len(raw), raw)
    if L.SDwritedata(s, i32arr(start), None, i32arr(count), b.ptr) == FAIL:
        why.append("write failed")
    b.free()

    def readcheck(sid, tag):
        if not a["fill"]:
            # without pre-fill only the cells that were written can be asked for
            rb = CBuf(n * esz)
            if L.SDreaddata(sid, i32arr(start), None, i32arr(count), rb.ptr) == FAIL or rb.raw() != raw:
                why.append("%s: the slab's cells are not the data written" % tag)
            rb.free()
            return
        tot = 1
        for x in shape:
            tot *= x
        rb = CBuf(tot * esz)
        if L.SDreaddata(sid, i32arr([0] * len(shape)), None, i32arr(shape), rb.ptr) == FAIL:
            why.append("%s: read failed" % tag)
            rb.free()
            return
        got = rb.raw()
        rb.free()
        if got[lin0 * esz:(lin0 + n) * esz] != raw:
            why.append("%s: the slab's cells are not the data written" % tag)
        if a["fill"]:
            fb = struct.pack("=" + fmt, fillv)
            head, tail = got[:lin0 * esz], got[(lin0 + n) * esz:]
            if head != fb * lin0 or tail != fb * (tot - lin0 - n):
                bad = next((i for i in range(0, len(head), esz) if head[i:i + esz] != fb), None)
                why.append("%s: cells outside the slab are not the fill value (first wrong cell %s of %d before the slab)" % (tag, bad if bad is None else bad // esz, lin0))
    readcheck(s, "same session")
    L.SDendaccess(s)
    L.SDend(sd)
    sd = L.SDstart(p, DFACC_READ)
    s = L.SDselect(sd, 0)
    readcheck(s, "after reopen")
    L.SDendaccess(s)
    L.SDend(sd)
    o = {"match": not why}
    if why:
        o["why"] = why[:6]
    return o


@op("Bulk", "BulkHL")
def bulk_hl(c, a):
    L = c.L
    h4api.declare_all(L)
    why = []
    p = c.path()
    fid = L.Hopen(p, DFACC_CREATE, 0)
    L.Hputelement(fid, 999, 1, b"x", 1)             # something in front, something behind
    aid = L.HLcreate(fid, 1100, 1, a["b"], a["t"])
    model = bytearray()
    for wi, (off, ln) in enumerate(a["writes"]):
        data = bytes(((wi + 1) * 50 + i * 7) % 251 for i in range(ln))
        if L.Hseek(aid, off, 0) == FAIL:
            why.append("seek %d failed" % off)
        b = CBuf(ln, data)
        if L.Hwrite(aid, ln, b.ptr) != ln:
            why.append("write %d failed" % wi)
        b.free()
        if len(model) < off + ln:
            model += bytes(off + ln - len(model))
        model[off:off + ln] = data
        if wi == 0:
            L.Hputelement(fid, 999, 2, b"y", 1)
    L.Hendaccess(aid)

    def readcheck(f, tag):
        ln = L.Hlength(f, 1100, 1)
        if ln != len(model):
            why.append("%s: length %d, expected %d" % (tag, ln, len(model)))
            return
        b = CBuf(ln)
        if L.Hgetelement(f, 1100, 1, b.ptr) != ln or b.raw() != bytes(model):
            why.append("%s: whole element differs" % tag)
        b.free()
        aid2 = L.Hstartread(f, 1100, 1)
        step = a["b"] * a["t"] + 1                    # pieces that straddle the block-table boundaries
        pos = 0
        ok = True
        while pos < ln:
            k = min(step, ln - pos)
            b = CBuf(k)
            if L.Hread(aid2, k, b.ptr) != k or b.raw() != bytes(model[pos:pos + k]):
                ok = False
            b.free()
            pos += k
        L.Hendaccess(aid2)
        if not ok:
            why.append("%s: piecewise read differs" % tag)
    readcheck(fid, "same session")
    L.Hclose(fid)
    fid = L.Hopen(p, DFACC_READ, 0)
    readcheck(fid, "after reopen")
    L.Hclose(fid)
    o = {"match": not why}
    if why:
        o["why"] = why[:6]
    return o
