"""operation handlers for specs/Bulk.tla: single calls that cross the library's internal staging thresholds"""
import ctypes, os, struct
from ctypes import byref, c_int32, create_string_buffer
from ops_common import *
import h4api
from h4api import CBuf, DFNT, i32arr, chunkdef, HDF_CHUNK

SCHEMAS = {
    "narrow": [("a", DFNT["int16"], 1, "h"), ("b", DFNT["float32"], 2, "f"), ("c", DFNT["char8"], 3, "c")],
    "wide": [("a", DFNT["int32"], 10, "i"), ("b", DFNT["float64"], 5, "d"), ("c", DFNT["int16"], 6, "h")],
}


def fval(fmt, rec, j, fi):
    if fmt == "c":
        return bytes([97 + (rec * 3 + j + fi) % 26])
    if fmt in ("f", "d"):
        return (rec % 100000) * 0.5 + j * 0.25 + fi
    if fmt == "h":
        return (rec * 7 + j * 3 + fi) % 30000
    return (rec * 1000 + j * 17 + fi) % 2000000000


def field_bytes(schema, fname, rec):
    for fi, (nm, nt, order, fmt) in enumerate(SCHEMAS[schema]):
        if nm == fname:
            return struct.pack("=%d%s" % (order, fmt), *[fval(fmt, rec, j, fi) for j in range(order)])
    raise KeyError(fname)


def table_bytes(schema, fields, lo, hi, il):
    """records lo..hi-1 of the given fields; il 0: record after record, il 1: field after field"""
    if il == 0:
        return b"".join(b"".join(field_bytes(schema, f, r) for f in fields) for r in range(lo, hi))
    return b"".join(b"".join(field_bytes(schema, f, r) for r in range(lo, hi)) for f in fields)


@op("Bulk", "BulkVS")
def bulk_vs(c, a):
    L = c.L
    h4api.declare_all(L)
    schema, nrec, pieces, il = a["schema"], a["nrec"], a["pieces"], a["il"]
    names = [s[0] for s in SCHEMAS[schema]]
    p = c.path()
    why = []
    fid = L.Hopen(p, DFACC_CREATE, 0)
    L.Vinitialize(fid)
    vs = L.VSattach(fid, -1, b"w")
    L.VSsetname(vs, b"bulk")
    for nm, nt, order, fmt in SCHEMAS[schema]:
        L.VSfdefine(vs, nm.encode(), nt, order)
    L.VSsetfields(vs, ",".join(names).encode())
    bounds = [nrec * i // pieces for i in range(pieces + 1)]
    for i in range(pieces):
        raw = table_bytes(schema, names, bounds[i], bounds[i + 1], il)
        b = CBuf(len(raw), raw)
        if L.VSwrite(vs, b.ptr, bounds[i + 1] - bounds[i], il) != bounds[i + 1] - bounds[i]:
            why.append("write piece %d failed" % i)
        b.free()
    ref = L.VSQueryref(vs)
    L.VSdetach(vs)

    def readcheck(tag):
        vs2 = L.VSattach(fid2, ref, b"r")
        n = c_int32()
        L.VSinquire(vs2, byref(n), None, None, None, None)
        if n.value != nrec:
            why.append("%s: %d records, %d written" % (tag, n.value, nrec))
        for sub in ([names[1]], [names[2], names[0]], names):
            for ril in (0, 1):
                for cuts in ([0, nrec], [0, nrec // 3, nrec]):
                    if ril == 1 and len(cuts) > 2:
                        continue
                    L.VSsetfields(vs2, ",".join(sub).encode())
                    L.VSseek(vs2, 0)
                    got = b""
                    ok = True
                    for k in range(len(cuts) - 1):
                        want = table_bytes(schema, sub, cuts[k], cuts[k + 1], ril)
                        b = CBuf(len(want))
                        r = L.VSread(vs2, b.ptr, cuts[k + 1] - cuts[k], ril)
                        if r != cuts[k + 1] - cuts[k] or b.raw() != want:
                            ok = False
                        b.free()
                    if not ok:
                        why.append("%s: fields %s buffer interlace %d in %d call(s): wrong values" % (tag, "+".join(sub), ril, len(cuts) - 1))
        L.VSdetach(vs2)
    fid2 = fid
    readcheck("same session")
    L.Vfinish(fid)
    L.Hclose(fid)
    fid2 = L.Hopen(p, DFACC_READ, 0)
    L.Vinitialize(fid2)
    readcheck("after reopen")
    L.Vfinish(fid2)
    L.Hclose(fid2)
    o = {"match": not why}
    if why:
        o["why"] = why[:6]
    return o


def cell(fmt, i):
    return (i * 7 + 3) % 120 if fmt == "b" else (i * 7001 + 3) % 2000000000


@op("Bulk", "BulkSD")
def bulk_sd(c, a):
    L = c.L
    h4api.declare_all(L)
    fmt = {"i8": "b", "i32": "i"}[a["type"]]
    nt = DFNT["int8"] if fmt == "b" else DFNT["int32"]
    esz = struct.calcsize("=" + fmt)
    shape = list(a["shape"])
    layout = a["layout"]
    fillv = -5
    why = []
    p = c.path()
    sd = L.SDstart(p, DFACC_CREATE)
    if not a["fill"]:
        L.SDsetfillmode(sd, 0x100)          # SD_NOFILL
    cshape = list(shape)
    unl = layout.startswith("linked")
    if unl:
        cshape[0] = 0
    s = L.SDcreate(sd, b"bulk", nt, len(shape), i32arr(cshape))
    L.SDsetfillvalue(s, struct.pack("=" + fmt, fillv))
    if layout == "chunk":
        L.SDsetchunk(s, chunkdef([64, 256]), HDF_CHUNK)
    if unl:
        L.SDsetblocksize(s, int(layout[6:]))
    # the slab written first: rows row..row+rows-1 (rank 2) / the last quarter (rank 1)
    if len(shape) == 2:
        if unl:
            start, count = [0, 0], [shape[0], shape[1]]         # one call spanning every linked block
        else:
            start, count = [(a["row"] + shape[0] // 2) % (shape[0] - a["rows"]), 0], [a["rows"], shape[1]]
    else:
        start, count = [shape[0] - shape[0] // 4], [shape[0] // 4]
    n = 1
    for x in count:
        n *= x
    lin0 = start[0] * (shape[1] if len(shape) == 2 else 1)
    raw = struct.pack("=%d%s" % (n, fmt), *[cell(fmt, lin0 + i) for i in range(n)])
    b = CBuf(len(raw), raw)
    if L.SDwritedata(s, i32arr(start), None, i32arr(count), b.ptr) == FAIL:
        why.append("write failed")
    b.free()

    def readcheck(sid, tag):
        if not a["fill"]:
            # without pre-fill only the cells that were written can be asked for
            rb = CBuf(n * esz)
            if L.SDreaddata(sid, i32arr(start), None, i32arr(count), rb.ptr) == FAIL or rb.raw() != raw:
                why.append("%s: the slab's cells are not the data written" % tag)
            rb.free()
            return
        tot = 1
        for x in shape:
            tot *= x
        rb = CBuf(tot * esz)
        if L.SDreaddata(sid, i32arr([0] * len(shape)), None, i32arr(shape), rb.ptr) == FAIL:
            why.append("%s: read failed" % tag)
            rb.free()
            return
        got = rb.raw()
        rb.free()
        if got[lin0 * esz:(lin0 + n) * esz] != raw:
            why.append("%s: the slab's cells are not the data written" % tag)
        if a["fill"]:
            fb = struct.pack("=" + fmt, fillv)
            head, tail = got[:lin0 * esz], got[(lin0 + n) * esz:]
            if head != fb * lin0 or tail != fb * (tot - lin0 - n):
                bad = next((i for i in range(0, len(head), esz) if head[i:i + esz] != fb), None)
                why.append("%s: cells outside the slab are not the fill value (first wrong cell %s of %d before the slab)" % (tag, bad if bad is None else bad // esz, lin0))
    readcheck(s, "same session")
    L.SDendaccess(s)
    L.SDend(sd)
    sd = L.SDstart(p, DFACC_READ)
    s = L.SDselect(sd, 0)
    readcheck(s, "after reopen")
    L.SDendaccess(s)
    L.SDend(sd)
    o = {"match": not why}
    if why:
        o["why"] = why[:6]
    return o


@op("Bulk", "BulkHL")
def bulk_hl(c, a):
    L = c.L
    h4api.declare_all(L)
    why = []
    p = c.path()
    fid = L.Hopen(p, DFACC_CREATE, 0)
    L.Hputelement(fid, 999, 1, b"x", 1)             # something in front, something behind
    aid = L.HLcreate(fid, 1100, 1, a["b"], a["t"])
    model = bytearray()
    for wi, (off, ln) in enumerate(a["writes"]):
        data = bytes(((wi + 1) * 50 + i * 7) % 251 for i in range(ln))
        if L.Hseek(aid, off, 0) == FAIL:
            why.append("seek %d failed" % off)
        b = CBuf(ln, data)
        if L.Hwrite(aid, ln, b.ptr) != ln:
            why.append("write %d failed" % wi)
        b.free()
        if len(model) < off + ln:
            model += bytes(off + ln - len(model))
        model[off:off + ln] = data
        if wi == 0:
            L.Hputelement(fid, 999, 2, b"y", 1)
    L.Hendaccess(aid)

    def readcheck(f, tag):
        ln = L.Hlength(f, 1100, 1)
        if ln != len(model):
            why.append("%s: length %d, expected %d" % (tag, ln, len(model)))
            return
        b = CBuf(ln)
        if L.Hgetelement(f, 1100, 1, b.ptr) != ln or b.raw() != bytes(model):
            why.append("%s: whole element differs" % tag)
        b.free()
        aid2 = L.Hstartread(f, 1100, 1)
        step = a["b"] * a["t"] + 1                    # pieces that straddle the block-table boundaries
        pos = 0
        ok = True
        while pos < ln:
            k = min(step, ln - pos)
            b = CBuf(k)
            if L.Hread(aid2, k, b.ptr) != k or b.raw() != bytes(model[pos:pos + k]):
                ok = False
            b.free()
            pos += k
        L.Hendaccess(aid2)
        if not ok:
            why.append("%s: piecewise read differs" % tag)
    readcheck(fid, "same session")
    L.Hclose(fid)
    fid = L.Hopen(p, DFACC_READ, 0)
    readcheck(fid, "after reopen")
    L.Hclose(fid)
    o = {"match": not why}
    if why:
        o["why"] = why[:6]
    return o


# ------------------------------------------------------------------ bit-granular elements longer than the bit buffer
BITBUF = 4096


def _bits_of(fields):
    """fields: list of (width, value) -> string of '0'/'1', most significant bit first"""
    return "".join(format(v & ((1 << w) - 1), "0%db" % w) for (w, v) in fields)


@op("Bulk", "BulkBits")
def bulk_bits(c, a):
    from ctypes import c_uint32
    L = c.L
    h4api.declare_all(L)
    L.Hbitwrite.argtypes = [c_int32, ctypes.c_int, c_uint32]
    L.Hbitread.argtypes = [c_int32, ctypes.c_int, ctypes.POINTER(c_uint32)]
    widths, blocks, bitoffs = list(a["widths"]), a["blocks"], list(a["bits"])
    why = []
    p = c.path()
    fid = L.Hopen(p, DFACC_CREATE, 0)
    bid = L.Hstartbitwrite(fid, 720, 1, 0)
    L.Hbitappendable(bid)
    fields, nbits, i = [], 0, 0
    target = (blocks * BITBUF + 700) * 8
    while nbits < target:
        w = widths[i % len(widths)]
        v = (i * 2654435761 + 12345) & ((1 << w) - 1)
        fields.append((w, v))
        if L.Hbitwrite(bid, w, v) != w:
            why.append("write of field %d failed" % i)
            break
        nbits += w
        i += 1
    # still in write mode: earlier fields are given new values through bit seeks (backward, forward, backward again),
    # the last one followed by a return to the end of what has been written
    if a.get("patch"):
        starts, at = [], 0
        for (w, v) in fields:
            starts.append(at)
            at += w
        n = len(fields)
        for j in (25, n // 2, n - 3, 7, (BITBUF * 8) // max(sum(widths) // len(widths), 1) + 5):
            if j < 0 or j >= n:
                continue
            w, v = fields[j]
            nv = (~v) & ((1 << w) - 1)
            if L.Hbitseek(bid, starts[j] // 8, starts[j] % 8) == FAIL or L.Hbitwrite(bid, w, nv) != w:
                why.append("patching field %d (bit %d) failed" % (j, starts[j]))
                break
            fields[j] = (w, nv)
        if L.Hbitseek(bid, at // 8, at % 8) == FAIL:
            why.append("seek back to the end failed")
    L.Hendbitaccess(bid, 0)
    L.Hclose(fid)
    bits = _bits_of(fields)
    total = len(bits)

    fid = L.Hopen(p, DFACC_READ, 0)
    bid = L.Hstartbitread(fid, 720, 1)

    def rd(w):
        v = c_uint32(0)
        r = L.Hbitread(bid, w, byref(v))
        return r, v.value

    # in order, with other widths than written
    pos, k = 0, 0
    rw = [5, 32, 1, 17, 8, 31, 3]
    bad = None
    while pos + 32 <= total and bad is None:
        w = rw[k % len(rw)]
        r, v = rd(w)
        if r != w or v != int(bits[pos:pos + w], 2):
            bad = pos
        pos += w
        k += 1
    if bad is not None:
        why.append("sequential read: wrong field at bit %d (byte %d)" % (bad, bad // 8))

    def probe(byte, bit, w, tag):
        at = byte * 8 + bit
        if at + w > total or byte < 0:
            return
        if L.Hbitseek(bid, byte, bit) == FAIL:
            why.append("%s: seek to (%d,%d) failed" % (tag, byte, bit))
            return
        r, v = rd(w)
        if r != w or v != int(bits[at:at + w], 2):
            why.append("%s: %d bits at (byte %d, bit %d) read %d, written %d" % (tag, w, byte, bit, v, int(bits[at:at + w], 2)))

    for m in range(1, blocks + 1):
        edge = m * BITBUF
        for bo in bitoffs:
            probe(edge - 100, 0, 8, "prime")                  # the buffer before the edge is the current one
            probe(edge, bo, 17, "at the edge from the buffer before")
            probe(edge - 100, 0, 8, "prime")
            probe(edge - 1, bo, 32, "across the edge")
            probe(edge - 100, 0, 8, "prime")
            probe(edge + 1, bo, 9, "just after the edge")
            probe(10, 1, 8, "far")
            probe(edge, bo, 23, "at the edge from far away")
            probe(edge + 600, 2, 8, "behind")
            probe(edge, bo, 11, "at the edge from behind")
            probe(edge - 1, 7, 2, "last bit before the edge")
    L.Hendbitaccess(bid, 0)
    L.Hclose(fid)
    o = {"match": not why}
    if why:
        o["why"] = why[:6]
    return o


# ------------------------------------------------------------------ n-bit datasets longer than the coder's buffer
def _nbit_proj(u, w, start, length, sext, fill):
    """the documented projection (specs/NBit.tla, Proj) of the w-bit pattern u"""
    out = 0
    top = (u >> start) & 1
    for b in range(w):
        if start - length + 1 <= b <= start:
            bit = (u >> b) & 1
        elif b > start and sext:
            bit = top
        else:
            bit = 1 if fill else 0
        out |= bit << b
    return out


@op("Bulk", "BulkNBit")
def bulk_nbit(c, a):
    L = c.L
    h4api.declare_all(L)
    w, n = a["w"], a["n"]
    nt, fmt = {(8, True): (20, "b"), (8, False): (21, "B"), (16, True): (22, "h"), (16, False): (23, "H"),
               (32, True): (24, "i"), (32, False): (25, "I")}[(w, bool(a["signed"]))]
    esz = w // 8
    mask = (1 << w) - 1
    pats = [((k * 2654435761 + 40503 * (k % 7)) >> 3) & mask for k in range(n)]
    ufmt = {8: "B", 16: "H", 32: "I"}[w]
    raw = struct.pack("=%d%s" % (n, ufmt), *pats)
    want = [_nbit_proj(u, w, a["start"], a["len"], a["sext"], a["fill"]) for u in pats]
    why = []
    p = c.path()
    sd = L.SDstart(p, DFACC_CREATE)
    s = L.SDcreate(sd, b"nb", nt, 1, h4api.i32arr([n]))
    if L.SDsetnbitdataset(s, a["start"], a["len"], 1 if a["sext"] else 0, 1 if a["fill"] else 0) == FAIL:
        why.append("SDsetnbitdataset failed")
    b = CBuf(len(raw), raw)
    if L.SDwritedata(s, h4api.i32arr([0]), None, h4api.i32arr([n]), b.ptr) == FAIL:
        why.append("write failed")
    b.free()
    L.SDendaccess(s)
    L.SDend(sd)
    sd = L.SDstart(p, DFACC_READ)
    s = L.SDselect(sd, 0)
    # consecutive slabs of unequal sizes (the position does not move in between), a larger one after a smaller one,
    # backward overlaps, forward skips, the tail, everything
    slabs = [(0, 750), (750, 512), (1262, 1300), (100, 1100), (1200, 5), (1205, 2000), (3500, n - 3500), (0, 300), (300, 700),
             (1000, 1024), (2024, 1), (2025, 1500), (0, n)]
    for (s0, cnt) in slabs:
        b = CBuf(cnt * esz)
        if L.SDreaddata(s, h4api.i32arr([s0]), None, h4api.i32arr([cnt]), b.ptr) == FAIL:
            why.append("read of %d values at %d failed" % (cnt, s0))
        else:
            got = struct.unpack("=%d%s" % (cnt, ufmt), b.raw())
            for k in range(cnt):
                if got[k] != want[s0 + k]:
                    why.append("slab (%d,%d): value %d reads %#x, the projection of what was written is %#x" % (s0, cnt, s0 + k, got[k], want[s0 + k]))
                    break
        b.free()
    L.SDendaccess(s)
    L.SDend(sd)
    o = {"match": not why}
    if why:
        o["why"] = why[:6]
    return o


# ------------------------------------------------------------------ compressed elements with long stored streams
def _comp_data(kind, n):
    if kind == "ctr":      # hardly compressible
        return bytes((i * 131 + (i >> 8) * 17 + (i * i) % 251) % 256 for i in range(n))
    out = bytearray()      # runs of awkward lengths (126..131, 1, 2, 300) separated by single bytes
    lens = [126, 1, 127, 2, 128, 1, 129, 3, 130, 1, 131, 300, 5]
    i = 0
    while len(out) < n:
        ln = lens[i % len(lens)]
        out += bytes([(i * 37) % 256]) * ln
        i += 1
    return bytes(out[:n])


@op("Bulk", "BulkComp")
def bulk_comp(c, a):
    from ctypes import c_uint16
    L = c.L
    h4api.declare_all(L)
    L.HCcreate.argtypes = [c_int32, c_uint16, c_uint16, ctypes.c_int, ctypes.c_void_p, ctypes.c_int, ctypes.c_void_p]
    L.HCcreate.restype = c_int32
    name, par = a["coder"]
    n, pieces = a["n"], a["pieces"]
    data = _comp_data(a["kind"], n)
    code = {"none": 0, "rle": 1, "skphuff": 3, "deflate": 4}[name]
    why = []
    p = c.path()
    fid = L.Hopen(p, DFACC_CREATE, 0)
    minfo = (c_int32 * 16)()
    cinfo = (c_int32 * 8)()
    cinfo[0] = par
    aid = L.HCcreate(fid, 730, 1, 0, minfo, code, cinfo)
    if aid == FAIL:
        L.Hclose(fid)
        return {"match": False, "why": ["HCcreate failed"]}
    cuts = [n * i // pieces for i in range(pieces + 1)]
    for i in range(pieces):
        seg = data[cuts[i]:cuts[i + 1]]
        b = CBuf(len(seg), seg)
        if L.Hwrite(aid, len(seg), ctypes.c_void_p(b.p)) != len(seg):
            why.append("write of piece %d failed" % i)
        b.free()
    L.Hendaccess(aid)
    L.Hclose(fid)

    fid = L.Hopen(p, DFACC_READ, 0)
    if L.Hlength(fid, 730, 1) != n:
        why.append("length %d, written %d" % (L.Hlength(fid, 730, 1), n))
    aid = L.Hstartread(fid, 730, 1)

    def rd(k):
        b = CBuf(max(k, 1))
        r = L.Hread(aid, k, ctypes.c_void_p(b.p))
        raw = b.raw(k) if r == k else None
        b.free()
        return raw

    if rd(n) != data:
        why.append("whole read differs")
    # pieces of awkward lengths from the start
    L.Hseek(aid, 0, 0)
    pos, k, ok = 0, 0, True
    lens = [1, 4095, 2, 4097, 127, 128, 129, 1000, 7]
    while pos < n:
        ln = min(lens[k % len(lens)], n - pos)
        if rd(ln) != data[pos:pos + ln]:
            ok = False
            break
        pos += ln
        k += 1
    if not ok:
        why.append("piecewise read differs at %d" % pos)
    # seeks around the buffer multiples, forwards and backwards
    spots = []
    for m in range(1, n // 4096 + 1):
        spots += [m * 4096 - 1, m * 4096, m * 4096 + 1]
    spots += [n - 5, 0, n // 2, 3, n - 1]
    for sp in spots + spots[::-1]:
        if sp < 0 or sp >= n:
            continue
        ln = min(300, n - sp)
        if L.Hseek(aid, sp, 0) == FAIL:
            why.append("seek to %d failed" % sp)
            continue
        if rd(ln) != data[sp:sp + ln]:
            why.append("read of %d bytes after a seek to %d differs" % (ln, sp))
    L.Hendaccess(aid)
    L.Hclose(fid)
    o = {"match": not why}
    if why:
        o["why"] = why[:6]
    return o
