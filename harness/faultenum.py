#!/usr/bin/env python3
"""faultenum.py -- C16: fail the k-th stdio call of a workload, for EVERY k, single and sticky.

For each workload: fault-free run (golden files + golden read results + number N of stdio calls), then
for every k in 1..N x {single, sticky} x {hard failure, short count}: a forked child runs the workload
with the fault armed and reports, per API call, whether it returned its failure value, whether the
fault was delivered during it, and finally the bytes of every file.  Crashes, sanitizer reports and
hangs are outcomes.  Output: NDJSON trace per run for Trace_Faults (TLC judges) + details."""
import sys, os, json, ctypes, shutil, tempfile, signal, argparse, hashlib
HERE = os.path.dirname(os.path.abspath(__file__))
sys.path.insert(0, HERE)
import ops_common, h4api, workloads


class Rec:
    def __init__(self, L):
        self.L = L
        self.calls = []
        self.datas = []
        self.last_delivered = 0

    def __call__(self, name, ret, failval):
        dl = self.L.h4v_fault_delivered()
        self.calls.append([name, ret == failval, dl > self.last_delivered])
        self.last_delivered = dl
        return ret

    def data(self, name, raw):
        self.datas.append([name, hashlib.sha1(raw).hexdigest()[:12]])


def files_digest(d):
    out = {}
    for fn in sorted(os.listdir(d)):
        p = os.path.join(d, fn)
        if os.path.isfile(p):
            out[fn] = hashlib.sha1(open(p, "rb").read()).hexdigest()[:16]
    return out


def run_once(L, wl, k, sticky, short, tmo=30):
    """returns dict(outcome...). k=0: fault-free"""
    name, setup, body, _ = wl
    d = tempfile.mkdtemp(prefix="fi_")
    r, w = os.pipe()
    errf = os.path.join(d, "..", os.path.basename(d) + ".err")
    pid = os.fork()
    if pid == 0:
        os.close(r)
        try:
            efd = os.open(errf, os.O_WRONLY | os.O_CREAT | os.O_TRUNC, 0o644)
            os.dup2(efd, 2)
            os.dup2(efd, 1)
            signal.alarm(tmo)
            os.chdir(d)
            if setup:
                setup(L, d)
            rec = Rec(L)
            L.h4v_fault_reset(k if k > 0 else -1, (2 if sticky == "kind" else 1) if sticky else 0, 1 if short else 0)
            body(L, d, rec)
            ncalls = L.h4v_fault_calls()
            delivered = L.h4v_fault_delivered()
            iokind = L.h4v_fault_kind()
            L.h4v_fault_reset(-1, 0, 0)
            res = {"calls": rec.calls, "datas": rec.datas, "ncalls": ncalls, "delivered": delivered, "io": iokind, "files": files_digest(d)}
        except BaseException as e:
            import traceback
            res = {"harness_error": "%r" % (e,), "tb": traceback.format_exc()[-800:]}
        os.write(w, json.dumps(res).encode())
        os._exit(0)
    os.close(w)
    data = b""
    while True:
        ch = os.read(r, 1 << 16)
        if not ch:
            break
        data += ch
    os.close(r)
    _, st = os.waitpid(pid, 0)
    res = json.loads(data) if data else None
    if res is None:
        sig = os.WTERMSIG(st) if os.WIFSIGNALED(st) else 0
        txt = ""
        try:
            txt = open(errf, errors="replace").read()
        except Exception:
            pass
        keep = [l for l in txt.splitlines() if ("ERROR" in l or "SUMMARY" in l or l.lstrip().startswith("#"))][:8]
        res = {"crashed": True, "hung": sig == signal.SIGALRM, "signal": sig, "stderr": "\n".join(keep)[:1500]}
    try:
        os.unlink(errf)
    except OSError:
        pass
    shutil.rmtree(d, ignore_errors=True)
    return res


def site_of(stderr):
    import re
    m = re.search(r"ERROR: \w+: ([\w-]+)", stderr or "")
    f = re.findall(r"#\d+ \S+ in (\w+) \S*/(?:hdf|mfhdf)/src/\S+", stderr or "")   # wherever the tree was built from
    return (m.group(1) if m else "signal"), (f[0] if f else "?")


def run_workload(L, wl, every=1, shorts=True):
    name = wl[0]
    gold = run_once(L, wl, 0, False, False)
    if gold.get("crashed") or "harness_error" in gold:
        return {"workload": name, "error": "fault-free run failed: %s" % json.dumps(gold)[:600]}
    if any(c[1] for c in gold["calls"]):
        return {"workload": name, "error": "fault-free run reports a failing call: %s" % [c[0] for c in gold["calls"] if c[1]]}
    N = gold["ncalls"]
    runs = []
    for k in range(1, N + 1):
        if every > 1 and k % every and k != N:
            continue
        for sticky in (False, True, "kind"):
            for short in ((False, True) if shorts else (False,)):
                r = run_once(L, wl, k, sticky, short)
                if "harness_error" in r:
                    return {"workload": name, "error": r["harness_error"] + r.get("tb", "")}
                ev = [{"op": "Inject", "args": {"k": k, "sticky": sticky, "short": short}, "obs": {}}]
                if r.get("crashed"):
                    err, site = site_of(r.get("stderr"))
                    ev.append({"op": "End", "args": {}, "obs": {"crashed": True, "hung": bool(r.get("hung")), "delivered": True,
                                                                "reported": False, "identical": False}})
                    runs.append({"k": k, "sticky": sticky, "short": short, "events": ev, "crash": {"error": err, "site": site},
                                 "stderr": r.get("stderr", "")[:600]})
                    continue
                reported = any(c[1] for c in r["calls"])
                during = [c[0] for c in r["calls"] if c[2]]
                identical = (r["files"] == gold["files"]) and (r["datas"] == gold["datas"])
                for c in r["calls"]:
                    ev.append({"op": "Call", "args": {"name": c[0]}, "obs": {"failed": c[1], "hit": c[2]}})
                ev.append({"op": "End", "args": {}, "obs": {"crashed": False, "hung": False, "delivered": r["delivered"] > 0,
                                                            "reported": reported, "identical": identical}})
                runs.append({"k": k, "sticky": sticky, "short": short, "events": ev, "during": during[:3],
                             "io": ["none", "fopen", "fread", "fwrite", "fseek", "fflush", "fclose"][r.get("io", 0)],
                             "silent": (r["delivered"] > 0 and not reported and not identical)})
    return {"workload": name, "ncalls": N, "runs": runs}


def main():
    ap = argparse.ArgumentParser()
    ap.add_argument("--lib", required=True)
    ap.add_argument("--out", required=True)
    ap.add_argument("--tier", default="quick")
    ap.add_argument("--only", default="")
    ap.add_argument("--k", type=int, default=0)
    ap.add_argument("--jobs", type=int, default=16)
    a = ap.parse_args()
    L = ctypes.CDLL(a.lib)
    ops_common.declare(L)
    h4api.declare_all(L)
    wls = []
    for w in workloads.C16_WORKLOADS:
        if a.only:
            if w[0] in a.only.split(","):
                wls.append((w, 1))
        elif a.tier == "thorough":
            wls.append((w, 1))
        else:
            wls.append((w, 1))                     # quick: every k; short counts only for the core workloads
    pids = []
    for i, (wl, every) in enumerate(wls):
        while len(pids) >= a.jobs:
            os.waitpid(pids.pop(0), 0)
        pid = os.fork()
        if pid == 0:
            try:
                res = run_workload(L, wl, every, shorts=(a.tier == "thorough" or bool(a.only) or wl[3]))
            except BaseException as e:
                import traceback
                res = {"workload": wl[0], "error": "%r %s" % (e, traceback.format_exc()[-800:])}
            json.dump(res, open("%s.%d" % (a.out, i), "w"))
            os._exit(0)
        pids.append(pid)
    for p in pids:
        os.waitpid(p, 0)
    allres = []
    for i in range(len(wls)):
        fn = "%s.%d" % (a.out, i)
        if os.path.exists(fn):
            allres.append(json.load(open(fn)))
            os.unlink(fn)
        else:
            allres.append({"workload": wls[i][0][0], "error": "enumerator process died"})
    json.dump(allres, open(a.out, "w"))


if __name__ == "__main__":
    main()
