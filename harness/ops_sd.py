"""operation handlers for specs/SDArray.tla (C03, C04)"""
import ctypes, os, struct
from ctypes import byref, c_int32, create_string_buffer
from ops_common import *
import h4api
from h4api import CBuf, DFNT, i32arr, chunkdef, HDF_CHUNK, HDF_COMP, COMP_CODE_RLE, COMP_CODE_SKPHUFF, COMP_CODE_DEFLATE, COMP_CODE_NONE

F, ZC = -1000, -9
# number type name -> (code, struct fmt, default fill, user fill, 8-bit?)
NTS = {
    "int8": (20, "b", -127, -77, True), "uint8": (21, "B", 129, 201, True), "char8": (4, "B", 0, 35, True),
    "int16": (22, "h", -32767, 1999, False), "uint16": (23, "H", 32769, 1999, False),
    "int32": (24, "i", -2147483647, 1999, False), "uint32": (25, "I", 2147483649, 1999, False),
    "float32": (5, "f", 9.969209968386869e+36, 1999.0, False), "float64": (6, "d", 9.969209968386869e+36, 1999.0, False),
}
FLAVOUR = {"std": 0, "le": 0x4000, "native": 0x1000}


def typed(c, v):
    """abstract value -> the number stored"""
    nt = c.v["ntinfo"]
    if v == F:
        return c.v["fill"]
    if nt[4]:
        return (v % 100) + 1
    if nt[1] in "fd":
        return v * 0.5
    return v


def to_bytes(c, vals):
    nt = c.v["ntinfo"]
    return struct.pack("=%d%s" % (len(vals), nt[1]), *[typed(c, v) for v in vals])


def from_bytes(c, raw, n, exp):
    """typed values -> abstract values; where an expectation is available the abstract value it names is
    reported when the stored number equals what that abstract value is stored as (8-bit types map many to one)"""
    nt = c.v["ntinfo"]
    vals = struct.unpack("=%d%s" % (n, nt[1]), raw[:n * struct.calcsize("=" + nt[1])])
    out = []
    for i, x in enumerate(vals):
        e = exp[i] if exp is not None and i < len(exp) else None
        if e is not None and e != ZC and (x == typed(c, e) or (nt[1] == "f" and struct.pack("=f", typed(c, e)) == struct.pack("=f", x))):
            out.append(e)
        elif e == ZC:
            out.append(ZC)
        elif x == c.v["fill"] or (nt[1] == "f" and struct.pack("=f", c.v["fill"]) == struct.pack("=f", x)):
            out.append(F)
        elif nt[1] in "fd":
            out.append(int(x * 2) if float(x * 2).is_integer() and abs(x) < 1e9 else -7777)
        else:
            out.append(int(x))
    return out


def nprod(xs):
    p = 1
    for x in xs:
        p *= max(x, 1)
    return p


@teardown("SDArray")
def sd_teardown(c):
    if c.v.get("sds", FAIL) != FAIL:
        c.L.SDendaccess(c.v["sds"])
    if c.v.get("sd", FAIL) != FAIL:
        c.L.SDend(c.v["sd"])


def apply_layout(c, s, ly, shape):
    """storage configuration of the dataset: never changes what the application sees (C04)"""
    L = c.L
    kind = ly[0]
    if kind == "contig":
        return 0
    if kind == "chunk":
        r = L.SDsetchunk(s, chunkdef(ly[1:1 + len(shape)]), HDF_CHUNK)
        if len(ly) > 1 + len(shape):
            L.SDsetchunkcache(s, ly[1 + len(shape)], 0)
        return r
    if kind == "comp":
        code = {"none": COMP_CODE_NONE, "rle": COMP_CODE_RLE, "skphuff": COMP_CODE_SKPHUFF, "deflate": COMP_CODE_DEFLATE}[ly[1]]
        ci = (c_int32 * 8)()
        ci[0] = ly[2] if len(ly) > 2 else (struct.calcsize("=" + c.v["ntinfo"][1]) if ly[1] == "skphuff" else 6)
        return L.SDsetcompress(s, code, ci)
    if kind == "chunkcomp":
        code = {"none": COMP_CODE_NONE, "rle": COMP_CODE_RLE, "skphuff": COMP_CODE_SKPHUFF, "deflate": COMP_CODE_DEFLATE}[ly[1]]
        lvl = struct.calcsize("=" + c.v["ntinfo"][1]) if ly[1] == "skphuff" else 6
        r = L.SDsetchunk(s, chunkdef(ly[2:2 + len(shape)], code, lvl), HDF_COMP)
        if len(ly) > 2 + len(shape):
            L.SDsetchunkcache(s, ly[2 + len(shape)], 0)
        return r
    if kind == "ext":
        return L.SDsetexternalfile(s, b"ext_sds.dat", ly[1] if len(ly) > 1 else 0)
    if kind == "blk":
        return L.SDsetblocksize(s, ly[1])
    if kind == "nbit":
        # the low bit_len bits of each value are kept (start_bit = bit_len - 1), no sign extension, no fill
        return L.SDsetnbitdataset(s, ly[1] - 1, ly[1], 0, 0)
    return 0


@op("SDArray", "Create")
def sd_create(c, a):
    L = c.L
    h4api.declare_all(L)
    ly = a["layout"]
    ntname = c.v.get("nt", "int32")
    flav = c.v.get("flavour", "std")
    # the number type / flavour ride in the layout descriptor's tail: [..., "nt", name, flavour]
    if "nt" in ly:
        i = ly.index("nt")
        ntname, flav = ly[i + 1], ly[i + 2]
        ly = ly[:i]
    nt = NTS[ntname]
    c.v["ntinfo"] = nt
    c.v["fill"] = nt[3] if a["fillset"] else nt[2]
    c.v["shape"] = a["shape"]
    sd = L.SDstart(c.path(), DFACC_CREATE)
    c.v["sd"] = sd
    if not a["fillmode"]:
        L.SDsetfillmode(sd, 0x100)      # SD_NOFILL
    s = L.SDcreate(sd, b"data", nt[0] | FLAVOUR[flav], len(a["shape"]), i32arr(a["shape"]))
    c.v["sds"] = s
    r = 0 if (sd != FAIL and s != FAIL) else FAIL
    if a["fillset"]:
        fv = CBuf(8, struct.pack("=" + nt[1], nt[3]))
        if L.SDsetfillvalue(s, fv.ptr) == FAIL:
            r = FAIL
        fv.free()
    c.v["layout"] = ly
    if apply_layout(c, s, ly, a["shape"]) == FAIL:
        r = FAIL
    return {"ret": r}


@op("SDArray", "Write")
def sd_write(c, a):
    raw = to_bytes(c, a["data"])
    b = CBuf(len(raw), raw)
    stride = None if all(x == 1 for x in a["stride"]) and c.v.get("nullstride", True) else i32arr(a["stride"])
    r = c.L.SDwritedata(c.v["sds"], i32arr(a["start"]), stride, i32arr(a["count"]), b.ptr)
    b.free()
    return {"ret": 0 if r != FAIL else FAIL}


@op("SDArray", "Read")
def sd_read(c, a):
    n = nprod(a["count"])
    sz = struct.calcsize("=" + c.v["ntinfo"][1])
    b = CBuf(n * sz)
    r = c.L.SDreaddata(c.v["sds"], i32arr(a["start"]), i32arr(a["stride"]), i32arr(a["count"]), b.ptr)
    o = {"ret": 0 if r != FAIL else FAIL}
    if r != FAIL:
        exp = (c.exp or {}).get("data") if c.exp else None
        o["data"] = from_bytes(c, b.raw(n * sz), n, exp)
    b.free()
    return o


def _dims(c):
    name = create_string_buffer(256)
    rank, nt, na = c_int32(), c_int32(), c_int32()
    dims = i32arr([0] * 32)
    if c.L.SDgetinfo(c.v["sds"], name, byref(rank), dims, byref(nt), byref(na)) == FAIL:
        return -1, []
    return rank.value, [dims[i] for i in range(rank.value)]


@op("SDArray", "Info")
def sd_info(c, a):
    rank, dims = _dims(c)
    return {"rank": rank, "dims": dims}


@op("SDArray", "Reopen")
def sd_reopen(c, a):
    L = c.L
    L.SDendaccess(c.v["sds"])
    c.v["sds"] = FAIL
    if L.SDend(c.v["sd"]) == FAIL:
        c.v["sd"] = FAIL
        return {"ret": FAIL}
    sd = L.SDstart(c.path(), DFACC_RDWR)
    c.v["sd"] = sd
    s = L.SDselect(sd, L.SDnametoindex(sd, b"data"))
    c.v["sds"] = s
    if sd == FAIL or s == FAIL:
        return {"ret": FAIL}
    rank, dims = _dims(c)
    return {"ret": 0, "dims": dims}


def _chunk_elems(c):
    ly = c.v["layout"]
    cs = ly[1:1 + len(c.v["shape"])] if ly[0] == "chunk" else ly[2:2 + len(c.v["shape"])]
    return nprod(cs)


@op("SDArray", "WriteChunk")
def sd_writechunk(c, a):
    raw = to_bytes(c, a["data"])
    b = CBuf(len(raw), raw)
    r = c.L.SDwritechunk(c.v["sds"], i32arr(a["origin"]), b.ptr)
    b.free()
    return {"ret": 0 if r != FAIL else FAIL}


@op("SDArray", "ReadChunk")
def sd_readchunk(c, a):
    n = _chunk_elems(c)
    sz = struct.calcsize("=" + c.v["ntinfo"][1])
    b = CBuf(n * sz)
    r = c.L.SDreadchunk(c.v["sds"], i32arr(a["origin"]), b.ptr)
    o = {"ret": 0 if r != FAIL else FAIL}
    if r != FAIL:
        exp = (c.exp or {}).get("data") if c.exp else None
        o["data"] = from_bytes(c, b.raw(n * sz), n, exp)
    b.free()
    return o
