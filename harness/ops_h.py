"""operation handlers for the H-level specifications (HDir, HElem)"""
import ctypes, os
from ctypes import byref, c_uint16, c_int32, c_int16
from ops_common import *

# ------------------------------------------------------------------ HDir (C12)

def payload(tag, ref, n):
    return bytes(((tag * 7 + ref * 13 + i) % 251) + 1 for i in range(n))


@teardown("HDir")
def hd_teardown(c):
    if c.h.get("F", FAIL) != FAIL:
        c.L.Hclose(c.h["F"])


@op("HDir", "Create")
def hd_create(c, a):
    fid = c.L.Hopen(c.path(), DFACC_CREATE, a["ndds"])
    c.h["F"] = fid
    r = 0 if fid != FAIL else FAIL
    if fid != FAIL:
        c.L.Hcache(fid, 1 if a["cache"] else 0)
    return {"ret": r}


@op("HDir", "Put")
def hd_put(c, a):
    d = payload(a["tag"], a["ref"], a["n"])
    r = c.L.Hputelement(c.h["F"], a["tag"], a["ref"], d, a["n"])
    return {"ret": r, "len": c.L.Hlength(c.h["F"], a["tag"], a["ref"])}


@op("HDir", "PutExt")
def hd_putext(c, a):
    name = ("x_%d_%d.dat" % (a["tag"], a["ref"])).encode()
    aid = c.L.HXcreate(c.h["F"], a["tag"], a["ref"], name, 0, 0)
    if aid == FAIL:
        return {"ret": FAIL, "len": c.L.Hlength(c.h["F"], a["tag"], a["ref"])}
    d = payload(a["tag"], a["ref"], a["n"])
    r = c.L.Hwrite(aid, a["n"], d)
    e = c.L.Hendaccess(aid)
    return {"ret": r if e == 0 else FAIL, "len": c.L.Hlength(c.h["F"], a["tag"], a["ref"])}


@op("HDir", "Del")
def hd_del(c, a):
    return {"ret": c.L.Hdeldd(c.h["F"], a["tag"], a["ref"])}


@op("HDir", "Dup")
def hd_dup(c, a):
    return {"ret": c.L.Hdupdd(c.h["F"], a["tag"], a["ref"], a["otag"], a["oref"])}


@op("HDir", "NewRef")
def hd_newref(c, a):
    return {"ret": c.L.Hnewref(c.h["F"])}


@op("HDir", "TagNewRef")
def hd_tagnewref(c, a):
    return {"ret": c.L.Htagnewref(c.h["F"], a["tag"])}


@op("HDir", "Number")
def hd_number(c, a):
    n = c.L.Hnumber(c.h["F"], a["tag"])
    if a["tag"] == 0 and n > 0 and c.L.Hexist(c.h["F"], VERSION_TAG, 1) == 0:
        n -= 1
    return {"ret": n}


def base_tag(t):
    # BASETAG(): a special tag has bit 0x4000 set and bit 0x8000 clear
    return (t & ~0x4000) if (t & 0x8000) == 0 and (t & 0x4000) else t


VERSION_TAG = 30   # library-owned descriptor, not part of the HDir map (see HDir.tla, Create)


def walk(c, fid, tag, ref, direction, limit=70000):
    ft, fr = c_uint16(0), c_uint16(0)
    fo, fl = c_int32(0), c_int32(0)
    found = []
    while len(found) < limit:
        r = c.L.Hfind(fid, tag, ref, byref(ft), byref(fr), byref(fo), byref(fl), direction)
        if r == FAIL:
            break
        if base_tag(ft.value) != VERSION_TAG:
            found.append((base_tag(ft.value), fr.value))
    return found


@op("HDir", "Walk")
def hd_walk(c, a):
    fid = c.h["F"]
    found = walk(c, fid, a["tag"], a["ref"], DF_FORWARD if a["dir"] == 0 else DF_BACKWARD)
    lst = sorted([t, r, c.L.Hlength(fid, t, r)] for (t, r) in found)
    return {"list": lst}


@op("HDir", "Probe")
def hd_probe(c, a):
    fid = c.h["F"]
    e = c.L.Hexist(fid, a["tag"], a["ref"])
    return {"ret": e, "len": c.L.Hlength(fid, a["tag"], a["ref"])}


@op("HDir", "SetCache")
def hd_setcache(c, a):
    return {"ret": c.L.Hcache(c.h["F"], 1 if a["on"] else 0)}


@op("HDir", "Sync")
def hd_sync(c, a):
    return {"ret": c.L.Hsync(c.h["F"])}


@op("HDir", "Reopen")
def hd_reopen(c, a):
    r = c.L.Hclose(c.h["F"])
    if r == FAIL:
        return {"ret": FAIL, "list": []}
    fid = c.L.Hopen(c.path(), DFACC_RDWR, 0)
    c.h["F"] = fid
    if fid == FAIL:
        return {"ret": FAIL, "list": []}
    c.L.Hcache(fid, 1 if a["cache"] else 0)
    found = walk(c, fid, 0, 0, DF_FORWARD)
    lst = sorted([t, r, c.L.Hlength(fid, t, r)] for (t, r) in found)
    return {"ret": 0, "list": lst}


@op("HDir", "FillDup")
def hd_filldup(c, a):
    fid = c.h["F"]
    for r in range(a["lo"], a["hi"] + 1):
        if c.L.Hdupdd(fid, a["tag"], r, a["otag"], a["oref"]) == FAIL:
            return {"ret": FAIL, "at": r}
    return {"ret": 0}
