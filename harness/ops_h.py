"""operation handlers for the H-level specifications (HDir, HElem)"""
import ctypes, os
from ctypes import byref, c_uint16, c_int32, c_int16
from ops_common import *

import shutil, uuid


def snap(c):
    """C02: keep a copy of every file the library has just closed (when a snapshot directory is set)"""
    sd = os.environ.get("H4V_SNAPDIR")
    if not sd:
        return
    n = c.v.get("snapn", 0)
    if n >= int(os.environ.get("H4V_SNAPMAX", "3")):
        return
    c.v["snapn"] = n + 1
    dst = os.path.join(sd, uuid.uuid4().hex[:12])
    os.makedirs(dst, exist_ok=True)
    for fn in os.listdir(c.dir):
        p = os.path.join(c.dir, fn)
        if os.path.isfile(p):
            shutil.copy(p, os.path.join(dst, fn))


# ------------------------------------------------------------------ HDir (C12)

def payload(tag, ref, n):
    return bytes(((tag * 7 + ref * 13 + i) % 251) + 1 for i in range(n))


@teardown("HDir")
def hd_teardown(c):
    if c.h.get("F", FAIL) != FAIL:
        if c.L.Hclose(c.h["F"]) != FAIL:
            snap(c)


@op("HDir", "Create")
def hd_create(c, a):
    fid = c.L.Hopen(c.path(), DFACC_CREATE, a["ndds"])
    c.h["F"] = fid
    r = 0 if fid != FAIL else FAIL
    if fid != FAIL:
        c.L.Hcache(fid, 1 if a["cache"] else 0)
    return {"ret": r}


@op("HDir", "Put")
def hd_put(c, a):
    d = payload(a["tag"], a["ref"], a["n"])
    r = c.L.Hputelement(c.h["F"], a["tag"], a["ref"], d, a["n"])
    return {"ret": r, "len": c.L.Hlength(c.h["F"], a["tag"], a["ref"])}


@op("HDir", "PutExt")
def hd_putext(c, a):
    name = ("x_%d_%d.dat" % (a["tag"], a["ref"])).encode()
    aid = c.L.HXcreate(c.h["F"], a["tag"], a["ref"], name, 0, 0)
    if aid == FAIL:
        return {"ret": FAIL, "len": c.L.Hlength(c.h["F"], a["tag"], a["ref"])}
    d = payload(a["tag"], a["ref"], a["n"])
    r = c.L.Hwrite(aid, a["n"], d)
    e = c.L.Hendaccess(aid)
    return {"ret": r if e == 0 else FAIL, "len": c.L.Hlength(c.h["F"], a["tag"], a["ref"])}


@op("HDir", "Del")
def hd_del(c, a):
    return {"ret": c.L.Hdeldd(c.h["F"], a["tag"], a["ref"])}


@op("HDir", "Dup")
def hd_dup(c, a):
    return {"ret": c.L.Hdupdd(c.h["F"], a["tag"], a["ref"], a["otag"], a["oref"])}


def _fresh(c, ret, tag):
    """is the reference an allocator handed out unused (file-wide for tag 0, for that tag otherwise), judged on a
    wildcard walk of the directory made BEFORE the call; 0 is right only when every reference is taken"""
    used = c.v.pop("_used_before", None)
    if used is None:
        return True
    refs = set(r for (t, r) in used if tag == 0 or t == tag)
    if ret == 0:
        return len(refs) >= 65535
    return ret not in refs


def _note_used(c):
    fid = c.h["F"]
    n = c.L.Hnumber(fid, 0)
    # (directories of tens of thousands of entries belong to the reference-space scenarios: those executions are all
    #  validated by TLC, which makes the same judgement from the model's map)
    c.v["_used_before"] = walk(c, fid, 0, 0, DF_FORWARD) if 0 <= n <= 3000 else None


@op("HDir", "NewRef")
def hd_newref(c, a):
    _note_used(c)
    r = c.L.Hnewref(c.h["F"])
    return {"ret": r, "fresh": _fresh(c, r, 0)}


@op("HDir", "TagNewRef")
def hd_tagnewref(c, a):
    _note_used(c)
    r = c.L.Htagnewref(c.h["F"], a["tag"])
    return {"ret": r, "fresh": _fresh(c, r, a["tag"])}


@op("HDir", "Number")
def hd_number(c, a):
    n = c.L.Hnumber(c.h["F"], a["tag"])
    if a["tag"] == 0 and n > 0 and c.L.Hexist(c.h["F"], VERSION_TAG, 1) == 0:
        n -= 1
    return {"ret": n}


def base_tag(t):
    # BASETAG(): a special tag has bit 0x4000 set and bit 0x8000 clear
    return (t & ~0x4000) if (t & 0x8000) == 0 and (t & 0x4000) else t


VERSION_TAG = 30   # library-owned descriptor, not part of the HDir map (see HDir.tla, Create)


def walk(c, fid, tag, ref, direction, limit=70000):
    ft, fr = c_uint16(0), c_uint16(0)
    fo, fl = c_int32(0), c_int32(0)
    found = []
    while len(found) < limit:
        r = c.L.Hfind(fid, tag, ref, byref(ft), byref(fr), byref(fo), byref(fl), direction)
        if r == FAIL:
            break
        if base_tag(ft.value) != VERSION_TAG:
            found.append((base_tag(ft.value), fr.value))
    return found


def walk_nextread(c, fid, tag, ref, limit=70000):
    """the same walk through an access handle: Hstartread on the pattern, then Hnextread(.., DF_CURRENT)"""
    L = c.L
    found = []
    aid = L.Hstartread(fid, tag, ref)
    if aid == FAIL:
        return found
    ft, fr, fl = c_uint16(0), c_uint16(0), c_int32(0)
    while len(found) < limit:
        if L.Hinquire(aid, None, byref(ft), byref(fr), byref(fl), None, None, None, None) == FAIL:
            found.append((-1, -1, -1))
            break
        if base_tag(ft.value) != VERSION_TAG:
            found.append((base_tag(ft.value), fr.value, fl.value))
        if L.Hnextread(aid, tag, ref, DF_CURRENT) == FAIL:
            break
    L.Hendaccess(aid)
    return found


@op("HDir", "Walk")
def hd_walk(c, a):
    fid = c.h["F"]
    found = walk(c, fid, a["tag"], a["ref"], DF_FORWARD if a["dir"] == 0 else DF_BACKWARD)
    lst = sorted([t, r, c.L.Hlength(fid, t, r)] for (t, r) in found)
    o = {"list": lst}
    if a["dir"] == 0:
        o["nlist"] = sorted([t, r, n] for (t, r, n) in walk_nextread(c, fid, a["tag"], a["ref"]))
    return o


@op("HDir", "Probe")
def hd_probe(c, a):
    fid = c.h["F"]
    e = c.L.Hexist(fid, a["tag"], a["ref"])
    return {"ret": e, "len": c.L.Hlength(fid, a["tag"], a["ref"])}


@op("HDir", "SetCache")
def hd_setcache(c, a):
    return {"ret": c.L.Hcache(c.h["F"], 1 if a["on"] else 0)}


@op("HDir", "Sync")
def hd_sync(c, a):
    return {"ret": c.L.Hsync(c.h["F"])}


@op("HDir", "Reopen")
def hd_reopen(c, a):
    r = c.L.Hclose(c.h["F"])
    if r == FAIL:
        return {"ret": FAIL, "list": []}
    snap(c)
    fid = c.L.Hopen(c.path(), DFACC_RDWR, 0)
    c.h["F"] = fid
    if fid == FAIL:
        return {"ret": FAIL, "list": []}
    c.L.Hcache(fid, 1 if a["cache"] else 0)
    found = walk(c, fid, 0, 0, DF_FORWARD)
    lst = sorted([t, r, c.L.Hlength(fid, t, r)] for (t, r) in found)
    return {"ret": 0, "list": lst}


@op("HDir", "FillDup")
def hd_filldup(c, a):
    fid = c.h["F"]
    for r in range(a["lo"], a["hi"] + 1):
        if c.L.Hdupdd(fid, a["tag"], r, a["otag"], a["oref"]) == FAIL:
            return {"ret": FAIL, "at": r}
    return {"ret": 0}


# ------------------------------------------------------------------ HElem (C01)
ETAG = 200
_libc = ctypes.CDLL(None)
_libc.malloc.restype = ctypes.c_void_p
_libc.malloc.argtypes = [ctypes.c_size_t]
_libc.free.argtypes = [ctypes.c_void_p]


class CBuf:
    """exact-size heap buffer from the (ASan-intercepted) C allocator: an overrun by the library is caught"""
    def __init__(self, n):
        self.n = n
        self.p = _libc.malloc(max(n, 1))
        ctypes.memset(self.p, 0xEE, max(n, 1))

    def bytes(self, m):
        return ctypes.string_at(self.p, m) if m > 0 else b""

    def free(self):
        _libc.free(self.p)


def he_info(c, aid):
    ln, pos = c_int32(-9), c_int32(-9)
    r = c.L.Hinquire(aid, None, None, None, byref(ln), None, byref(pos), None, None)
    return (ln.value if r != FAIL else -9), c.L.Htell(aid)


def he_rep(c, aid, ret):
    ln, pos = he_info(c, aid)
    return {"ret": ret, "posn": pos, "len": ln}


@teardown("HElem")
def he_teardown(c):
    for k in [k for k in c.h if k != "F"]:
        c.L.Hendaccess(c.h[k])
    if c.h.get("F", FAIL) != FAIL:
        if c.L.Hclose(c.h["F"]) != FAIL:
            snap(c)


@op("HElem", "Create")
def he_create(c, a):
    fid = c.L.Hopen(c.path(), DFACC_CREATE, a["ndds"])
    c.h["F"] = fid
    c.v["nkeys"] = a.get("nkeys", 2)
    c.v["bump"] = 0
    if fid != FAIL:
        c.L.Hcache(fid, 1 if a["cache"] else 0)
    return {"ret": 0 if fid != FAIL else FAIL}


def he_started(c, a, aid):
    if aid == FAIL:
        return {"ret": FAIL}
    c.h[a["aid"]] = aid
    return he_rep(c, aid, 0)


@op("HElem", "StartWrite")
def he_startwrite(c, a):
    return he_started(c, a, c.L.Hstartwrite(c.h["F"], ETAG, a["key"], a["n"]))


@op("HElem", "StartAccess")
def he_startaccess(c, a):
    if a["w"]:
        aid = c.L.Hstartaccess(c.h["F"], ETAG, a["key"], DFACC_RDWR | (DFACC_APPENDABLE if a["app"] else 0))
    else:
        aid = c.L.Hstartread(c.h["F"], ETAG, a["key"])
    return he_started(c, a, aid)


@op("HElem", "StartRead")
def he_startread(c, a):
    return he_started(c, a, c.L.Hstartread(c.h["F"], ETAG, a["key"]))


@op("HElem", "CreateLinked")
def he_createlinked(c, a):
    return he_started(c, a, c.L.HLcreate(c.h["F"], ETAG, a["key"], a["blk"], a["nblk"]))


@op("HElem", "CreateExt")
def he_createext(c, a):
    return he_started(c, a, c.L.HXcreate(c.h["F"], ETAG, a["key"], ("ext_%d.dat" % a["key"]).encode(), 0, 0))


@op("HElem", "Convert")
def he_convert(c, a):
    aid = c.h[a["aid"]]
    return he_rep(c, aid, c.L.HLconvert(aid, a["blk"], a["nblk"]))


@op("HElem", "Appendable")
def he_appendable(c, a):
    return {"ret": c.L.Happendable(c.h[a["aid"]])}


@op("HElem", "Write")
def he_write(c, a):
    aid = c.h[a["aid"]]
    d = bytes(a["data"])
    b = CBuf(len(d))
    ctypes.memmove(b.p, d, len(d))
    r = c.L.Hwrite(aid, len(d), ctypes.c_void_p(b.p))
    b.free()
    return he_rep(c, aid, r)


@op("HElem", "Seek")
def he_seek(c, a):
    aid = c.h[a["aid"]]
    r = c.L.Hseek(aid, a["off"], DF_START)
    return {"ret": r, "posn": c.L.Htell(aid)}


@op("HElem", "Read")
def he_read(c, a):
    aid = c.h[a["aid"]]
    ln, pos = he_info(c, aid)
    n = a["n"]
    # the caller's buffer is exactly as large as the API contract requires: n bytes, or "to the end"
    need = n if n > 0 else max(ln - pos, 0)
    b = CBuf(need)
    r = c.L.Hread(aid, n, ctypes.c_void_p(b.p))
    data = list(b.bytes(min(r, need))) if r > 0 else []
    b.free()
    o = he_rep(c, aid, r)
    o["data"] = data
    return o


@op("HElem", "Trunc")
def he_trunc(c, a):
    aid = c.h[a["aid"]]
    return he_rep(c, aid, c.L.Htrunc(aid, a["n"]))


@op("HElem", "EndAccess")
def he_endaccess(c, a):
    r = c.L.Hendaccess(c.h.pop(a["aid"]))
    return {"ret": r}


@op("HElem", "Dup")
def he_dup(c, a):
    r = c.L.Hdupdd(c.h["F"], ETAG, a["key"], ETAG, a["okey"])
    return {"ret": r, "len": c.L.Hlength(c.h["F"], ETAG, a["key"])}


@op("HElem", "Del")
def he_del(c, a):
    return {"ret": c.L.Hdeldd(c.h["F"], ETAG, a["key"])}


@op("HElem", "Bump")
def he_bump(c, a):
    c.v["bump"] += 1
    r = c.L.Hputelement(c.h["F"], 300, c.v["bump"], b"\x07", 1)
    return {"ret": 0 if r == 1 else FAIL}


@op("HElem", "Get")
def he_get(c, a):
    ln = c.L.Hlength(c.h["F"], ETAG, a["key"])
    b = CBuf(max(ln, 0))
    r = c.L.Hgetelement(c.h["F"], ETAG, a["key"], ctypes.c_void_p(b.p))
    data = list(b.bytes(min(r, max(ln, 0)))) if r > 0 else []
    b.free()
    return {"ret": r, "data": data}


@op("HElem", "CloseBusy")
def he_closebusy(c, a):
    r = c.L.Hclose(c.h["F"])
    if r != FAIL:
        c.h["F"] = FAIL
    return {"ret": r}


@op("HElem", "Reopen")
def he_reopen(c, a):
    r = c.L.Hclose(c.h["F"])
    if r == FAIL:
        return {"ret": FAIL}
    snap(c)
    fid = c.L.Hopen(c.path(), DFACC_RDWR, 0)
    c.h["F"] = fid
    if fid == FAIL:
        return {"ret": FAIL}
    c.L.Hcache(fid, 1 if a["cache"] else 0)
    return {"ret": 0, "lens": [c.L.Hlength(fid, ETAG, k) for k in range(1, c.v["nkeys"] + 1)]}


@op("HElem", "ReadPast")
def he_readpast(c, a):
    aid = c.h[a["aid"]]
    n = a["n"]
    b = CBuf(max(n, 1))
    r = c.L.Hread(aid, n, ctypes.c_void_p(b.p))
    b.free()
    return {"ret": r, "posn": c.L.Htell(aid)}
