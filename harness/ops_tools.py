"""operation handlers for specs/Tools.tla (C19): hdiff, hdp dump commands, hdfimport"""
import ctypes, os, struct, subprocess, shutil, re
from ctypes import byref, c_int32, create_string_buffer
from ops_common import *
import h4api
from h4api import CBuf, DFNT, DFNT_SIZE, DFNT_FMT, i32arr
import ops_repack as R


def tool(name):
    return os.path.join(os.environ.get("H4V_TOOLS", "/tmp/h4v_tools"), name)


def run(cmd, timeout=120):
    env = dict(os.environ)
    env.pop("LD_PRELOAD", None)
    try:
        p = subprocess.run(cmd, capture_output=True, timeout=timeout, env=env)
        return p.returncode, p.stdout.decode(errors="replace"), p.stderr.decode(errors="replace")
    except subprocess.TimeoutExpired:
        return -99, "", "timeout"


@op("Tools", "Build")
def t_build(c, a):
    L = c.L
    h4api.declare_all(L)
    L.VFfieldname.restype = ctypes.c_void_p
    os.chdir(c.dir)
    p = R.build(L, c.dir, a["file"])
    c.v["A"] = os.path.join(c.dir, "A.hdf")
    os.rename(p.decode(), c.v["A"])
    c.v["B"] = os.path.join(c.dir, "B.hdf")
    shutil.copy(c.v["A"], c.v["B"])
    return {"ret": 0}


def bump(raw, nt, how):
    """another value of the same type"""
    fmt = DFNT_FMT[nt]
    if fmt == "c":
        return bytes([(raw[0] + 1 - 97) % 26 + 97])
    v = struct.unpack("=" + fmt, raw)[0]
    if fmt in ("f", "d"):
        return struct.pack("=" + fmt, v + 1.5)
    lim = {"b": (-128, 127), "B": (0, 255), "h": (-32768, 32767), "H": (0, 65535), "i": (-2 ** 31, 2 ** 31 - 1), "I": (0, 2 ** 32 - 1)}[fmt]
    if how == "big":        # a difference of 128 or more in an 8-bit type
        nv = v + 130 if v + 130 <= lim[1] else v - 130
    elif how == "wrap":     # a difference that wraps in 16 bits: far apart values
        nv = lim[1] if v < 0 else lim[0] + 1 if v > 20000 else v + 40000 if fmt == "H" else -v - 30000 if v >= 0 else v
        if nv == v or not (lim[0] <= nv <= lim[1]):
            nv = lim[0] if v != lim[0] else lim[1]
    else:
        nv = v + 1 if v < lim[1] else v - 1
    return struct.pack("=" + fmt, nv)


@op("Tools", "Mutate")
def t_mutate(c, a):
    L = c.L
    cls, *rest = a["target"].split(":")
    pb = c.v["B"].encode()
    r = 0
    if cls == "sds":
        name, where = rest
        sd = L.SDstart(pb, DFACC_RDWR)
        s = L.SDselect(sd, L.SDnametoindex(sd, name.encode()))
        nm, rank, nt, na = create_string_buffer(300), c_int32(), c_int32(), c_int32()
        dims = (c_int32 * 32)()
        L.SDgetinfo(s, nm, byref(rank), dims, byref(nt), byref(na))
        shape = [dims[k] for k in range(rank.value)]
        if where == "first":
            idx = [0] * len(shape)
        elif where == "last":
            idx = [x - 1 for x in shape]
        else:
            idx = [x // 2 for x in shape]
        sz = DFNT_SIZE[nt.value]
        if name == "cmp":
            # a compressed (unchunked) dataset is rewritten in full
            n = 1
            for x in shape:
                n *= x
            b = CBuf(n * sz)
            if L.SDreaddata(s, i32arr([0] * len(shape)), None, i32arr(shape), b.ptr) == FAIL:
                r = FAIL
            raw = bytearray(b.raw())
            lin = 0
            for k, x in enumerate(idx):
                lin = lin * shape[k] + x
            raw[lin * sz:(lin + 1) * sz] = bump(bytes(raw[lin * sz:(lin + 1) * sz]), nt.value, where)
            L.SDendaccess(s)
            s = L.SDselect(sd, L.SDnametoindex(sd, name.encode()))
            nb = CBuf(len(raw), bytes(raw))
            if L.SDwritedata(s, i32arr([0] * len(shape)), None, i32arr(shape), nb.ptr) == FAIL:
                r = FAIL
        elif where == "ulp":
            # A holds 0.5 at that element, B the next representable value (a difference far below any epsilon
            # meant for rounding noise, but a different value)
            import math
            fmt = DFNT_FMT[nt.value]
            idx = [x // 2 for x in shape]
            sdA = L.SDstart(c.v["A"].encode(), DFACC_RDWR)
            sA = L.SDselect(sdA, L.SDnametoindex(sdA, name.encode()))
            a0 = CBuf(sz, struct.pack("=" + fmt, 0.5))
            L.SDwritedata(sA, i32arr(idx), None, i32arr([1] * len(shape)), a0.ptr)
            a0.free()
            L.SDendaccess(sA)
            L.SDend(sdA)
            nxt = struct.unpack("=" + fmt, struct.pack("=" + ("I" if fmt == "f" else "Q"), struct.unpack("=" + ("I" if fmt == "f" else "Q"), struct.pack("=" + fmt, 0.5))[0] + 1))[0]
            b = CBuf(sz)
            nb = CBuf(sz, struct.pack("=" + fmt, nxt))
            if L.SDwritedata(s, i32arr(idx), None, i32arr([1] * len(shape)), nb.ptr) == FAIL:
                r = FAIL
        else:
            b = CBuf(sz)
            if L.SDreaddata(s, i32arr(idx), None, i32arr([1] * len(shape)), b.ptr) == FAIL:
                r = FAIL
            nb = CBuf(sz, bump(b.raw(), nt.value, where))
            if L.SDwritedata(s, i32arr(idx), None, i32arr([1] * len(shape)), nb.ptr) == FAIL:
                r = FAIL
        b.free()
        nb.free()
        L.SDendaccess(s)
        L.SDend(sd)
    elif cls == "sdattr" and rest[1] == "units":
        sd = L.SDstart(pb, DFACC_RDWR)
        s = L.SDselect(sd, L.SDnametoindex(sd, rest[0].encode()))
        r = L.SDsetattr(s, b"units", DFNT["char8"], 3, b"m/h")
        L.SDendaccess(s)
        L.SDend(sd)
    elif cls == "gattr" and rest[0] == "title":
        sd = L.SDstart(pb, DFACC_RDWR)
        r = L.SDsetattr(sd, b"title", DFNT["char8"], 11, b"repack tesu")
        L.SDend(sd)
    elif cls in ("sdattr", "gattr"):
        # one element of a numeric attribute: "gattr:<attr>:<element>[hi]" / "sdattr:<dataset>:<attr>:<element>[hi]"
        # ("hi": only the most significant byte of the element changes)
        sd = L.SDstart(pb, DFACC_RDWR)
        if cls == "sdattr":
            obj = L.SDselect(sd, L.SDnametoindex(sd, rest[0].encode()))
            an, el = rest[1], rest[2]
        else:
            obj = sd
            an, el = rest[0], rest[1]
        hi = el.endswith("hi")
        el = int(el[:-2] if hi else el)
        ai = L.SDfindattr(obj, an.encode())
        nm, nt, cnt = create_string_buffer(300), c_int32(), c_int32()
        if ai == FAIL or L.SDattrinfo(obj, ai, nm, byref(nt), byref(cnt)) == FAIL:
            r = FAIL
        else:
            esz = DFNT_SIZE[nt.value]
            b = CBuf(esz * cnt.value)
            L.SDreadattr(obj, ai, b.ptr)
            raw = bytearray(b.raw())
            b.free()
            pos = el * esz + (esz - 1 if hi else 0)          # (little-endian host: the last byte is the most significant)
            raw[pos] = (raw[pos] + 1) % 256 if not (hi and DFNT_FMT.get(nt.value) in ("f", "d")) else (raw[pos] ^ 0x01)
            nb = CBuf(len(raw), bytes(raw))
            r = L.SDsetattr(obj, an.encode(), nt.value, cnt.value, nb.ptr)
            nb.free()
        if cls == "sdattr":
            L.SDendaccess(obj)
        L.SDend(sd)
    elif cls == "added":
        sd = L.SDstart(pb, DFACC_RDWR)
        L.SDendaccess(R.mk_sds(L, sd, b"extra_dataset", DFNT["int16"], [3, 3], 99))
        L.SDend(sd)
    elif cls == "vdata":
        name, where = rest
        fid = L.Hopen(pb, DFACC_RDWR, 0)
        L.Vinitialize(fid)
        vs = L.VSattach(fid, L.VSfind(fid, name.encode()), b"w")
        n = c_int32()
        L.VSinquire(vs, byref(n), None, None, None, None)
        rec = {"first": 0, "last": n.value - 1, "mid": n.value // 2}[where]
        if name == "table2":
            # stored NO_INTERLACE: written and read as a whole table
            nrec = n.value
            L.VSsetfields(vs, b"a,b,c")
            b = CBuf(nrec * 13)
            L.VSread(vs, b.ptr, nrec, 1)
            raw = bytearray(b.raw())
            v = struct.unpack("=h", raw[rec * 2:rec * 2 + 2])[0]
            raw[rec * 2:rec * 2 + 2] = struct.pack("=h", v + 1)
            L.VSseek(vs, 0)
            nb = CBuf(len(raw), bytes(raw))
            if L.VSwrite(vs, nb.ptr, nrec, 1) != nrec:
                r = FAIL
        else:
            L.VSsetfields(vs, b"a,b,c")
            L.VSseek(vs, rec)
            b = CBuf(13)
            L.VSread(vs, b.ptr, 1, 0)
            raw = bytearray(b.raw())
            v = struct.unpack("=h", raw[0:2])[0]
            raw[0:2] = struct.pack("=h", v + 1)
            L.VSseek(vs, rec)
            nb = CBuf(13, bytes(raw))
            if L.VSwrite(vs, nb.ptr, 1, 0) != 1:
                r = FAIL
        b.free()
        nb.free()
        L.VSdetach(vs)
        L.Vfinish(fid)
        L.Hclose(fid)
    elif cls == "gr":
        name, where = rest
        fid = L.Hopen(pb, DFACC_RDWR, 0)
        gr = L.GRstart(fid)
        ri = L.GRselect(gr, L.GRnametoindex(gr, name.encode()))
        nm, nc, nt, il, na = create_string_buffer(300), c_int32(), c_int32(), c_int32(), c_int32()
        dm = (c_int32 * 2)()
        L.GRgetiminfo(ri, nm, byref(nc), byref(nt), byref(il), dm, byref(na))
        xy = [dm[0] - 1, dm[1] - 1] if where == "last" else [0, 0] if where == "first" else [dm[0] // 2, dm[1] // 2]
        b = CBuf(nc.value)
        L.GRreadimage(ri, i32arr(xy), None, i32arr([1, 1]), b.ptr)
        px = bytearray(b.raw())
        k = int(where[4:]) if where.startswith("comp") else 0
        px[k] = (px[k] + 1) % 256
        nb = CBuf(nc.value, bytes(px))
        if L.GRwriteimage(ri, i32arr(xy), None, i32arr([1, 1]), nb.ptr) == FAIL:
            r = FAIL
        b.free()
        nb.free()
        L.GRendaccess(ri)
        L.GRend(gr)
        L.Hclose(fid)
    return {"ret": r}


@op("Tools", "HDiff")
def t_hdiff(c, a):
    cmd = [tool("hdiff")] + ([a["opt"]] if a["opt"] else []) + [c.v[a["x"]], c.v[a["y"]]]
    rc, out, err = run(cmd)
    o = {"rc": rc}
    if rc not in (0, 1):
        o["stderr"] = (out + err)[-300:]
    return o


# ---------------------------------------------------------------- hdp
NUM = re.compile(r"[-+]?(?:\d+\.\d*(?:[eE][-+]?\d+)?|\d+(?:[eE][-+]?\d+)?|\.\d+)")


def close(a, b):
    return a == b or abs(a - b) <= 1e-6 * max(1.0, abs(a), abs(b))


@op("Tools", "Dump")
def t_dump(c, a):
    L = c.L
    kind, name = a["obj"].split(":")
    pa = c.v["A"].encode()
    why = []
    if kind == "sds":
        rc, out, err = run([tool("hdp"), "dumpsds", "-d", "-n", name, c.v["A"]])
        sd = L.SDstart(pa, DFACC_READ)
        s = L.SDselect(sd, L.SDnametoindex(sd, name.encode()))
        nm, rank, nt, na = create_string_buffer(300), c_int32(), c_int32(), c_int32()
        dims = (c_int32 * 32)()
        L.SDgetinfo(s, nm, byref(rank), dims, byref(nt), byref(na))
        shape = [dims[k] for k in range(rank.value)]
        n = 1
        for x in shape:
            n *= x
        b = CBuf(n * DFNT_SIZE[nt.value])
        L.SDreaddata(s, i32arr([0] * len(shape)), None, i32arr(shape), b.ptr)
        want = list(struct.unpack("=%d%s" % (n, DFNT_FMT[nt.value]), b.raw()))
        b.free()
        L.SDendaccess(s)
        L.SDend(sd)
    elif kind == "gr":
        rc, out, err = run([tool("hdp"), "dumpgr", "-d", "-n", name, c.v["A"]])
        fid = L.Hopen(pa, DFACC_READ, 0)
        gr = L.GRstart(fid)
        ri = L.GRselect(gr, L.GRnametoindex(gr, name.encode()))
        nm, nc, nt, il, na = create_string_buffer(300), c_int32(), c_int32(), c_int32(), c_int32()
        dm = (c_int32 * 2)()
        L.GRgetiminfo(ri, nm, byref(nc), byref(nt), byref(il), dm, byref(na))
        b = CBuf(dm[0] * dm[1] * nc.value)
        L.GRreqimageil(ri, 0)
        L.GRreadimage(ri, i32arr([0, 0]), None, i32arr([dm[0], dm[1]]), b.ptr)
        want = list(b.raw())
        b.free()
        L.GRendaccess(ri)
        L.GRend(gr)
        L.Hclose(fid)
    else:
        rc, out, err = run([tool("hdp"), "dumpvd", "-d", "-n", name, "-f", "a,b", c.v["A"]])
        fid = L.Hopen(pa, DFACC_READ, 0)
        L.Vinitialize(fid)
        vs = L.VSattach(fid, L.VSfind(fid, name.encode()), b"r")
        n = c_int32()
        L.VSinquire(vs, byref(n), None, None, None, None)
        L.VSsetfields(vs, b"a,b")
        b = CBuf(n.value * 10)
        L.VSread(vs, b.ptr, n.value, 0)
        want = []
        for k in range(n.value):
            want += list(struct.unpack("=hff", b.raw()[k * 10:(k + 1) * 10]))
        b.free()
        L.VSdetach(vs)
        L.Vfinish(fid)
        L.Hclose(fid)
    if rc != 0:
        why.append("hdp exit %d: %s" % (rc, (out + err)[-200:]))
    got = [float(x) for x in NUM.findall(out)]
    if isinstance(want[0], bytes):
        want = [w[0] for w in want]
    if len(got) != len(want):
        why.append("%d values printed, %d in the object" % (len(got), len(want)))
    else:
        bad = [i for i in range(len(want)) if not close(float(want[i]), got[i])]
        if bad:
            why.append("value %d printed as %r, the API returns %r (%d values differ)" % (bad[0], got[bad[0]], want[bad[0]], len(bad)))
    o = {"agree": not why}
    if why:
        o["why"] = why
    return o


# ---------------------------------------------------------------- hdfimport
def imp_values(n, ty):
    if ty in ("FP32", "FP64"):
        return [0.25 * ((i * 7) % 401) - 20.0 for i in range(n)]
    m = {"INT32": 100000, "INT16": 30000, "INT8": 120, "IN32": 100000, "IN16": 30000, "IN08": 120}[ty]
    return [((i * 37) % (2 * m)) - m for i in range(n)]


def write_bin(path, ty, shape, vals, scales):
    code = {"FP32": b"FP32", "FP64": b"FP64", "IN32": b"IN32", "IN16": b"IN16", "IN08": b"IN08"}[ty]
    fmt = {"FP32": "f", "FP64": "d", "IN32": "i", "IN16": "h", "IN08": "b"}[ty]
    with open(path, "wb") as f:
        f.write(code)
        f.write(struct.pack("=3i", *shape))
        f.write(struct.pack("=2" + fmt, max(vals), min(vals)))
        for d in (0, 1, 2):
            if d == 0 and shape[0] == 1:
                continue
            f.write(struct.pack("=%d%s" % (shape[d], fmt), *scales[d]))
        f.write(struct.pack("=%d%s" % (len(vals), fmt), *vals))


def import_multi(c, types):
    """several binary inputs in one invocation: one dataset per input, in order"""
    L = c.L
    shape = [1, 4, 5]
    n = 20
    cmd = [tool("hdfimport")]
    wants = []
    for i, ty in enumerate(types):
        vals = [v + i for v in imp_values(n, ty)]
        isf = ty in ("FP32", "FP64")
        scales = [[float(j + 1) if isf else j + 1 for j in range(d)] for d in shape]
        inp = os.path.join(c.dir, "in%d.dat" % i)
        write_bin(inp, ty, shape, vals, scales)
        cmd.append(inp)
        wants.append(vals)
    outp = os.path.join(c.dir, "outm.hdf")
    cmd += ["-o", outp]
    rc, out, err = run(cmd)
    if rc != 0 or not os.path.exists(outp):
        return {"agree": False, "why": ["hdfimport exit %d: %s" % (rc, (out + err)[-300:])]}
    why = []
    sd = L.SDstart(outp.encode(), DFACC_READ)
    nd, na = c_int32(), c_int32()
    L.SDfileinfo(sd, byref(nd), byref(na))
    got = []
    for i in range(nd.value):
        s = L.SDselect(sd, i)
        if not L.SDiscoordvar(s):
            nm, rk, nt, na2 = create_string_buffer(300), c_int32(), c_int32(), c_int32()
            dims = (c_int32 * 32)()
            L.SDgetinfo(s, nm, byref(rk), dims, byref(nt), byref(na2))
            b = CBuf(n * DFNT_SIZE[nt.value])
            L.SDreaddata(s, i32arr([0] * rk.value), None, i32arr([dims[k] for k in range(rk.value)]), b.ptr)
            got.append(struct.unpack("=%d%s" % (n, DFNT_FMT[nt.value]), b.raw()))
            b.free()
        L.SDendaccess(s)
    L.SDend(sd)
    if len(got) != len(wants):
        why.append("%d datasets for %d inputs" % (len(got), len(wants)))
    else:
        for i, (g, w) in enumerate(zip(got, wants)):
            bad = [j for j in range(n) if not close(float(w[j]), float(g[j]))]
            if bad:
                why.append("input %d (%s): value %d is %r, input %r (%d differ)" % (i, types[i], bad[0], g[bad[0]], w[bad[0]], len(bad)))
    o = {"agree": not why}
    if why:
        o["why"] = why
    return o


@op("Tools", "Import")
def t_import(c, a):
    """case = <TEXT|BIN>:<type>:<rank>[:n]"""
    L = c.L
    h4api.declare_all(L)
    os.chdir(c.dir)
    parts = a["case"].split(":")
    if parts[0] == "MULTI":
        return import_multi(c, parts[1].split("+"))
    form, ty, rank = parts[0], parts[1], int(parts[2])
    shape = [3, 4, 5] if rank == 3 else [1, 4, 5]
    n = shape[0] * shape[1] * shape[2]
    vals = imp_values(n, ty)
    inp = os.path.join(c.dir, "in.dat")
    outp = os.path.join(c.dir, "out.hdf")
    isf = ty in ("FP32", "FP64")
    scales = [[float(i + 1) if isf else i + 1 for i in range(d)] for d in shape]
    if form == "TEXT":
        with open(inp, "w") as f:
            f.write("TEXT\n%d %d %d\n" % tuple(shape))
            f.write(("%r %r\n" % (max(vals), min(vals))) if isf else ("%d %d\n" % (max(vals), min(vals))))
            for d in (0, 1, 2):
                if d == 0 and rank == 2:
                    continue
                f.write(" ".join(repr(x) if isf else str(x) for x in scales[d]) + "\n")
            for i in range(0, n, shape[2]):
                f.write(" ".join(repr(x) if isf else str(x) for x in vals[i:i + shape[2]]) + "\n")
        cmd = [tool("hdfimport"), inp] + (["-t", ty] if ty != "FP32" else []) + ["-o", outp]
        want_nt = {"FP32": 5, "FP64": 6, "INT32": 24, "INT16": 22, "INT8": 20}[ty]
    else:
        code = {"FP32": b"FP32", "FP64": b"FP64", "IN32": b"IN32", "IN16": b"IN16", "IN08": b"IN08"}[ty]
        fmt = {"FP32": "f", "FP64": "d", "IN32": "i", "IN16": "h", "IN08": "b"}[ty]
        with open(inp, "wb") as f:
            f.write(code)
            f.write(struct.pack("=3i", *shape))
            f.write(struct.pack("=2" + fmt, max(vals), min(vals)))
            for d in (0, 1, 2):
                if d == 0 and rank == 2:
                    continue
                f.write(struct.pack("=%d%s" % (shape[d], fmt), *scales[d]))
            f.write(struct.pack("=%d%s" % (n, fmt), *vals))
        keep64 = len(parts) > 3 and parts[3] == "n"
        cmd = [tool("hdfimport"), inp] + (["-n"] if keep64 else []) + ["-o", outp]
        want_nt = {"FP32": 5, "FP64": 6 if keep64 else 5, "IN32": 24, "IN16": 22, "IN08": 20}[ty]
    rc, out, err = run(cmd)
    why = []
    if rc != 0 or not os.path.exists(outp):
        return {"agree": False, "why": ["hdfimport exit %d: %s" % (rc, (out + err)[-300:])]}
    sd = L.SDstart(outp.encode(), DFACC_READ)
    nd, na = c_int32(), c_int32()
    L.SDfileinfo(sd, byref(nd), byref(na))
    found = False
    for i in range(nd.value):
        s = L.SDselect(sd, i)
        if L.SDiscoordvar(s):
            L.SDendaccess(s)
            continue
        nm, rk, nt, na2 = create_string_buffer(300), c_int32(), c_int32(), c_int32()
        dims = (c_int32 * 32)()
        L.SDgetinfo(s, nm, byref(rk), dims, byref(nt), byref(na2))
        got_shape = [dims[k] for k in range(rk.value)]
        exp_shape = shape if rank == 3 else shape[1:]
        found = True
        if got_shape != exp_shape:
            why.append("shape %s, input %s" % (got_shape, exp_shape))
        if nt.value != want_nt:
            why.append("number type %d, expected %d" % (nt.value, want_nt))
        if not why:
            b = CBuf(n * DFNT_SIZE[nt.value])
            L.SDreaddata(s, i32arr([0] * rk.value), None, i32arr(got_shape), b.ptr)
            got = struct.unpack("=%d%s" % (n, DFNT_FMT[nt.value]), b.raw())
            b.free()
            bad = [j for j in range(n) if not close(float(vals[j]), float(got[j]))]
            if bad:
                why.append("value %d is %r, input %r (%d differ)" % (bad[0], got[bad[0]], vals[bad[0]], len(bad)))
        L.SDendaccess(s)
    L.SDend(sd)
    if not found:
        why.append("no dataset in the output")
    o = {"agree": not why}
    if why:
        o["why"] = why
    return o
