#!/usr/bin/env python3
"""corpus.py -- C02: files written by the V/VS/SD/GR/AN workloads (fault-free), copied into the snapshot
directory, plus raw-location (datainfo) probes recorded as DataInfo events."""
import sys, os, json, ctypes, shutil, tempfile, argparse
HERE = os.path.dirname(os.path.abspath(__file__))
sys.path.insert(0, HERE)
sys.path.insert(0, os.path.join(HERE, "..", "reader"))
import ops_common, h4api, workloads, h4read
from h4api import *
from ctypes import byref, c_int32


def keep(d, snapdir, name):
    dst = os.path.join(snapdir, name)
    os.makedirs(dst, exist_ok=True)
    for fn in os.listdir(d):
        if os.path.isfile(os.path.join(d, fn)):
            shutil.copy(os.path.join(d, fn), os.path.join(dst, fn if fn != workloads.F else name + ".hdf"))


class NoRec:
    def __call__(self, name, ret, failval):
        return ret

    def data(self, *a):
        pass


def extents_of(v, tag, ref):
    e = v.elements.get((tag, ref))
    if e is None:
        return None
    return [[o, n] for (o, n) in e.extents if o is not None and n > 0]


def datainfo_probes(L, d, events):
    """vdata in linked blocks / contiguous; SDS contiguous, linked (unlimited, appended), chunked"""
    p = os.path.join(d, "di.hdf").encode()
    fid = L.Hopen(p, DFACC_CREATE, 0)
    L.Vinitialize(fid)
    refs = []
    for k, (blk, nwrites) in enumerate(((4, 5), (16, 3), (0, 1))):
        vs = L.VSattach(fid, -1, b"w")
        L.VSsetname(vs, b"vd%d" % k)
        L.VSfdefine(vs, b"x", DFNT["int32"], 1)
        L.VSsetfields(vs, b"x")
        if blk:
            L.VSsetblocksize(vs, blk)
            L.VSsetnumblocks(vs, 2)
        for w in range(nwrites):
            L.VSwrite(vs, pack(24, [w * 10 + j for j in range(3)]), 3, FULL_INTERLACE)
            # interpose another element so that the vdata is not last in the file and gets promoted
            L.Hputelement(fid, 900, 100 * k + w + 1, b"pad", 3)
        refs.append(L.VSQueryref(vs))
        L.VSdetach(vs)
    L.Vfinish(fid)
    L.Hclose(fid)
    v = h4read.parse(p.decode())
    fid = L.Hopen(p, DFACC_READ, 0)
    L.Vinitialize(fid)
    for ref in refs:
        ext = extents_of(v, DFTAG_VS, ref) or []
        vs = L.VSattach(fid, ref, b"r")
        n = len(ext)
        for cap in sorted(set([0, 1, max(n - 1, 1), n, n + 1, n + 3])):
            if cap == 0:
                r = L.VSgetdatainfo(vs, 0, 0, None, None)
                events.append({"op": "DataInfo", "args": {"cap": 0, "what": "VSgetdatainfo ref %d" % ref}, "obs": {"ret": r, "got": [], "extents": ext}})
                continue
            offs, lens = CBuf(4 * cap), CBuf(4 * cap)
            r = L.VSgetdatainfo(vs, 0, cap, offs.ptr, lens.ptr)
            got = []
            if r > 0:
                o = struct.unpack("=%di" % cap, offs.raw(4 * cap))
                l = struct.unpack("=%di" % cap, lens.raw(4 * cap))
                got = [[o[i], l[i]] for i in range(min(r, cap))]
            offs.free()
            lens.free()
            events.append({"op": "DataInfo", "args": {"cap": cap, "what": "VSgetdatainfo ref %d" % ref}, "obs": {"ret": r, "got": got, "extents": ext}})
        L.VSdetach(vs)
    L.Vfinish(fid)
    L.Hclose(fid)
    # attributes of a vdata (on the vdata itself and on two fields) and of a vgroup: VSgetattdatainfo / Vgetattdatainfo
    p3 = os.path.join(d, "di_attr.hdf").encode()
    fid = L.Hopen(p3, DFACC_CREATE, 0)
    L.Vinitialize(fid)
    vs = L.VSattach(fid, -1, b"w")
    L.VSsetname(vs, b"withattrs")
    L.VSfdefine(vs, b"a", DFNT["int16"], 1)
    L.VSfdefine(vs, b"b", DFNT["int32"], 1)
    L.VSsetfields(vs, b"a,b")
    L.VSwrite(vs, struct.pack(">hi", 1, 2), 1, FULL_INTERLACE)
    plan = [(1, b"b_first", b"B1"), (-1, b"vd_one", b"V1xx"), (0, b"a_one", b"A1xxx"), (1, b"b_second", b"B2xxxxxx"), (-1, b"vd_two", b"V2xxxxxxxxx")]
    for findex, nm, val in plan:
        L.VSsetattr(vs, findex, nm, DFNT["char8"], len(val), val)
    aref = L.VSQueryref(vs)
    L.VSdetach(vs)
    vg = L.Vattach(fid, -1, b"w")
    L.Vsetname(vg, b"gattrs")
    for nm, val in ((b"g_one", b"G1x"), (b"g_two", b"G2xxxxx")):
        L.Vsetattr(vg, nm, DFNT["char8"], len(val), val)
    gref = L.VQueryref(vg)
    L.Vdetach(vg)
    L.Vfinish(fid)
    L.Hclose(fid)
    v = h4read.parse(p3.decode())
    vdr = [x for x in v.vdatas() if x["ref"] == aref][0]
    fid = L.Hopen(p3, DFACC_READ, 0)
    L.Vinitialize(fid)
    vs = L.VSattach(fid, aref, b"r")
    for findex in (-1, 0, 1):
        mine = [t for t in vdr["attrs"] if t[0] == findex]
        for k, (fi, atag, ar) in enumerate(mine):
            ext = extents_of(v, DFTAG_VS, ar) or []
            off, ln = c_int32(-7), c_int32(-7)
            r = L.VSgetattdatainfo(vs, findex, k, byref(off), byref(ln))
            events.append({"op": "DataInfo", "args": {"cap": 1, "what": "VSgetattdatainfo field %d attr %d" % (findex, k)},
                           "obs": {"ret": r, "got": [[off.value, ln.value]] if r > 0 else [], "extents": ext}})
    L.VSdetach(vs)
    vgr = [x for x in v.vgroups() if x["ref"] == gref][0]
    vg = L.Vattach(fid, gref, b"r")
    for k, (atag, ar) in enumerate(vgr["attrs"]):
        ext = extents_of(v, DFTAG_VS, ar) or []
        off, ln = c_int32(-7), c_int32(-7)
        r = L.Vgetattdatainfo(vg, k, byref(off), byref(ln))
        events.append({"op": "DataInfo", "args": {"cap": 1, "what": "Vgetattdatainfo attr %d" % k},
                       "obs": {"ret": r, "got": [[off.value, ln.value]] if r > 0 else [], "extents": ext}})
    L.Vdetach(vg)
    L.Vfinish(fid)
    L.Hclose(fid)
    # SDS: contiguous and unlimited-appended (linked blocks)
    p2 = os.path.join(d, "di_sd.hdf").encode()
    sd = L.SDstart(p2, DFACC_CREATE)
    s1 = L.SDcreate(sd, b"contig", DFNT["int16"], 2, i32arr([3, 4]))
    L.SDwritedata(s1, i32arr([0, 0]), None, i32arr([3, 4]), pack(22, list(range(12))))
    s2 = L.SDcreate(sd, b"unl", DFNT["int16"], 2, i32arr([0, 4]))
    L.SDsetblocksize(s2, 8)
    for rec in range(5):
        L.SDwritedata(s2, i32arr([rec, 0]), None, i32arr([1, 4]), pack(22, [rec] * 4))
        if rec == 1:
            L.SDwritedata(s1, i32arr([0, 0]), None, i32arr([1, 4]), pack(22, [9] * 4))
    L.SDendaccess(s1)
    L.SDendaccess(s2)
    L.SDend(sd)
    v = h4read.parse(p2.decode())
    sd = L.SDstart(p2, DFACC_READ)
    for name in (b"contig", b"unl"):
        idx = L.SDnametoindex(sd, name)
        s = L.SDselect(sd, idx)
        dref = None
        for x in v.sds():
            if x["name"] == name.decode():
                dref = x.get("data_ref")
        ext = extents_of(v, 702, dref) if dref else None
        if ext is None:
            L.SDendaccess(s)
            continue
        n = len(ext)
        for cap in sorted(set([0, 1, max(n - 1, 1), n, n + 2])):
            if cap == 0:
                r = L.SDgetdatainfo(s, None, 0, 0, None, None)
                events.append({"op": "DataInfo", "args": {"cap": 0, "what": "SDgetdatainfo " + name.decode()}, "obs": {"ret": r, "got": [], "extents": ext}})
                continue
            offs, lens = CBuf(4 * cap), CBuf(4 * cap)
            r = L.SDgetdatainfo(s, None, 0, cap, offs.ptr, lens.ptr)
            got = []
            if r > 0:
                o = struct.unpack("=%di" % cap, offs.raw(4 * cap))
                l = struct.unpack("=%di" % cap, lens.raw(4 * cap))
                got = [[o[i], l[i]] for i in range(min(r, cap))]
            offs.free()
            lens.free()
            events.append({"op": "DataInfo", "args": {"cap": cap, "what": "SDgetdatainfo " + name.decode()}, "obs": {"ret": r, "got": got, "extents": ext}})
        L.SDendaccess(s)
    L.SDend(sd)


import struct


def main():
    ap = argparse.ArgumentParser()
    ap.add_argument("--lib", required=True)
    ap.add_argument("--snapdir", required=True)
    ap.add_argument("--out", required=True)
    a = ap.parse_args()
    L = ctypes.CDLL(a.lib)
    ops_common.declare(L)
    h4api.declare_all(L)
    rec = NoRec()
    n = 0
    for nd in (4, 5, 7, 16):
        for ne in (1, 3, 6):
            d = tempfile.mkdtemp(prefix="corp_")
            workloads.prep_mixed(L, d, nd, ne)
            keep(d, a.snapdir, "mixed_%d_%d" % (nd, ne))
            shutil.rmtree(d)
    for w in workloads.C16_WORKLOADS:
        d = tempfile.mkdtemp(prefix="corp_")
        os.chdir(d)
        if w[1]:
            w[1](L, d)
        w[2](L, d, rec)
        keep(d, a.snapdir, "w16_" + w[0])
        os.chdir("/")
        shutil.rmtree(d)
    for w in workloads.C17_WORKLOADS:
        d = tempfile.mkdtemp(prefix="corp_")
        os.chdir(d)
        w[1](L, d)
        w[2](L, d, rec, None)
        keep(d, a.snapdir, "w17_" + w[0])
        os.chdir("/")
        shutil.rmtree(d)
    events = []
    d = tempfile.mkdtemp(prefix="corp_")
    os.chdir(d)
    datainfo_probes(L, d, events)
    keep(d, a.snapdir, "datainfo")
    os.chdir("/")
    shutil.rmtree(d)
    json.dump(events, open(a.out, "w"))


if __name__ == "__main__":
    main()
