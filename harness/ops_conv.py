"""operation handlers for specs/Conv.tla (C06): DFKconvert as a byte permutation"""
import ctypes, os, struct
from ctypes import c_int32, c_int16, c_void_p
from ops_common import *
from h4api import CBuf

# size -> number types of that size (all are exercised; the specification only knows the size)
TYPES = {1: [20, 21, 4, 3], 2: [22, 23], 4: [24, 25, 5], 8: [6]}
FLAV = {"std": 0, "native": 0x1000, "le": 0x4000}
DIR = {"out": 2, "in": 1}     # DFACC_WRITE: memory -> file ; DFACC_READ: file -> memory


def _decl(L):
    L.DFKconvert.argtypes = [c_void_p, c_void_p, c_int32, c_int32, c_int16, c_int32, c_int32]
    L.DFKconvert.restype = ctypes.c_int


def _types(a):
    return [t | FLAV[a["flavour"]] for t in TYPES[a["size"]]]


@op("Conv", "Conv2")
def cv_conv2(c, a):
    _decl(c.L)
    res = None
    for nt in _types(a):
        src = CBuf(len(a["src"]), bytes(a["src"]))
        dst = CBuf(len(a["dst"]), bytes(a["dst"]))
        r = c.L.DFKconvert(src.p, dst.p, nt, a["n"], DIR[a["dir"]], a["ss"], a["ds"])
        o = {"ret": 0 if r == 0 else FAIL, "dst": list(dst.raw()), "src_intact": src.raw() == bytes(a["src"])}
        src.free()
        dst.free()
        if res is None:
            res = o
        elif o != res:
            res = dict(o, types_disagree=True, dst=[-5])
    if not res.pop("src_intact"):
        res["dst"] = [-6]
    return res


@op("Conv", "Conv1")
def cv_conv1(c, a):
    _decl(c.L)
    res = None
    for nt in _types(a):
        buf = CBuf(len(a["buf"]), bytes(a["buf"]))
        r = c.L.DFKconvert(buf.p, buf.p, nt, a["n"], DIR[a["dir"]], a["st"], a["st"])
        o = {"ret": 0 if r == 0 else FAIL, "buf": list(buf.raw())}
        buf.free()
        if res is None:
            res = o
        elif o != res:
            res = dict(o, buf=[-5])
    return res


@op("Conv", "Conv1g")
def cv_conv1g(c, a):
    _decl(c.L)
    res = None
    for nt in _types(a):
        buf = CBuf(len(a["buf"]), bytes(a["buf"]))
        r = c.L.DFKconvert(buf.p, buf.p, nt, a["n"], DIR[a["dir"]], a["ss"], a["ds"])
        o = {"ret": 0 if r == 0 else FAIL, "buf": list(buf.raw())}
        buf.free()
        if res is None:
            res = o
        elif o != res:
            res = dict(o, buf=[-5])
    return res


def permute(raw, size, perm):
    """apply the element-wise byte permutation to a contiguous buffer (perm is 1-based source index per dest byte)"""
    out = bytearray(len(raw))
    for j, p in enumerate(perm):
        out[j::size] = raw[p - 1::size]
    return bytes(out)


@op("Conv", "Sweep")
def cv_sweep(c, a):
    """every bit pattern of the block through DFKconvert in the given mode; the permutation is OBSERVED on a
    position-coded probe, then every value of the block is required to follow it, and to round-trip"""
    _decl(c.L)
    L = c.L
    size = a["size"]
    d, back = DIR[a["dir"]], DIR["in" if a["dir"] == "out" else "out"]
    # the values of this block
    if size == 1:
        raw = bytes(range(256))
    elif size == 2:
        raw = b"".join(struct.pack("<H", v) for v in range(65536))
    elif size == 4:
        base = a["block"] << 20           # 2^20 values per block of the 32-bit space
        raw = struct.pack("<%dI" % (1 << 20), *range(base, base + (1 << 20)))
    else:
        # 64-bit: structured patterns (exponent/mantissa boundaries, NaN payloads, denormals) around the block number
        vals = []
        for e in range(0, 2048, 7):
            for m in (0, 1, 2, (1 << 51), (1 << 52) - 1, 0x5555555555555, (a["block"] * 0x9E3779B97F4A7C15) & ((1 << 52) - 1)):
                for sgn in (0, 1):
                    vals.append((sgn << 63) | (e << 52) | m)
        raw = struct.pack("<%dQ" % len(vals), *vals)
    n = len(raw) // size
    uniform, roundtrip, perm = True, True, None
    for nt in _types(a):
        probe = CBuf(size, bytes(range(1, size + 1)))
        pout = CBuf(size)
        L.DFKconvert(probe.p, pout.p, nt, 1, d, 0, 0)
        p = list(pout.raw())
        probe.free()
        pout.free()
        if perm is None:
            perm = p
        elif p != perm:
            uniform = False
        if sorted(p) != list(range(1, size + 1)):
            uniform = False
            continue
        expect = permute(raw, size, p)
        if a["mode"] == "contig":
            src = CBuf(len(raw), raw)
            dst = CBuf(len(raw))
            L.DFKconvert(src.p, dst.p, nt, n, d, 0, 0)
            got = dst.raw()
            b2 = CBuf(len(raw))
            L.DFKconvert(dst.p, b2.p, nt, n, back, 0, 0)
            rt = b2.raw()
            for x in (src, dst, b2):
                x.free()
        elif a["mode"] == "inplace":
            buf = CBuf(len(raw), raw)
            L.DFKconvert(buf.p, buf.p, nt, n, d, 0, 0)
            got = buf.raw()
            L.DFKconvert(buf.p, buf.p, nt, n, back, 0, 0)
            rt = buf.raw()
            buf.free()
        else:  # strided: source elements 2*size apart, destination 3*size apart
            ss, ds = 2 * size, 3 * size
            sb = bytearray(n * ss)
            for j in range(size):
                sb[j::ss] = raw[j::size]
            src = CBuf(len(sb), bytes(sb))
            dst = CBuf(n * ds)
            L.DFKconvert(src.p, dst.p, nt, n, d, ss, ds)
            db = dst.raw()
            got = bytearray(len(raw))
            for j in range(size):
                got[j::size] = db[j::ds]
            got = bytes(got)
            gaps_ok = all(db[j::ds] == b"\xee" * n for j in range(size, ds))
            if not gaps_ok:
                uniform = False
            b2 = CBuf(len(raw))
            L.DFKconvert(dst.p, b2.p, nt, n, back, ds, size)
            rt = b2.raw()
            for x in (src, dst, b2):
                x.free()
        if got != expect:
            uniform = False
        if rt != raw:
            roundtrip = False
    return {"perm": perm, "uniform": uniform, "roundtrip": roundtrip, "values": n}
