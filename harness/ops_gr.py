"""operation handlers for specs/GRImage.tla (C09)"""
import ctypes, os, struct
from ctypes import byref, c_int32, create_string_buffer
from ops_common import *
import h4api
from h4api import CBuf, DFNT, i32arr, chunkdef, HDF_CHUNK, HDF_COMP, COMP_CODE_RLE, COMP_CODE_SKPHUFF, COMP_CODE_DEFLATE

F = -1000
GNT = {"uint8": (21, "B", 0, 201), "int16": (22, "h", 0, 1999), "int32": (24, "i", 0, 1999), "float32": (5, "f", 0.0, 1999.0)}


def g_typed(c, v):
    fmt = c.v["fmt"]
    if v == F:
        return c.v["fill"]
    if fmt == "B":
        return (v % 150) + 1
    if fmt == "f":
        return v * 0.5
    return v


def g_pack(c, vals):
    return struct.pack("=%d%s" % (len(vals), c.v["fmt"]), *[g_typed(c, v) for v in vals])


def g_unpack(c, raw, n, exp):
    vals = struct.unpack("=%d%s" % (n, c.v["fmt"]), raw)
    out = []
    for i, x in enumerate(vals):
        e = exp[i] if exp is not None and i < len(exp) else None
        if e is not None and x == g_typed(c, e):
            out.append(e)
        elif x == c.v["fill"]:
            out.append(F)
        elif c.v["fmt"] == "f":
            out.append(int(x * 2) if float(x * 2).is_integer() else -7777)
        else:
            out.append(int(x))
    return out


@teardown("GRImage")
def gr_teardown(c):
    L = c.L
    if c.v.get("ri", FAIL) != FAIL:
        L.GRendaccess(c.v["ri"])
    if c.v.get("gr", FAIL) != FAIL:
        L.GRend(c.v["gr"])
    if c.h.get("F", FAIL) != FAIL:
        L.Hclose(c.h["F"])


@op("GRImage", "Create")
def gr_create(c, a):
    L = c.L
    h4api.declare_all(L)
    ly = list(a["layout"])
    ntname = "uint8"
    if "nt" in ly:
        i = ly.index("nt")
        ntname = ly[i + 1]
        ly = ly[:i]
    nt, fmt, dfill, ufill = GNT[ntname]
    c.v["fmt"] = fmt
    c.v["fill"] = ufill if a["fillset"] else dfill
    c.v["nc"], c.v["w"], c.v["h"] = a["ncomp"], a["w"], a["h"]
    fid = L.Hopen(c.path(), DFACC_CREATE, 0)
    c.h["F"] = fid
    gr = L.GRstart(fid)
    c.v["gr"] = gr
    ri = L.GRcreate(gr, b"image", a["ncomp"], nt, a["il"], i32arr([a["w"], a["h"]]))
    c.v["ri"] = ri
    r = 0 if (fid != FAIL and gr != FAIL and ri != FAIL) else FAIL
    if a["fillset"]:
        fv = struct.pack("=%d%s" % (a["ncomp"], fmt), *([ufill] * a["ncomp"]))
        if L.GRsetattr(ri, b"FillValue", nt, a["ncomp"], fv) == FAIL:
            r = FAIL
    if ly:
        k = ly[0]
        sz = struct.calcsize("=" + fmt)
        if k == "comp":
            code = {"rle": COMP_CODE_RLE, "skphuff": COMP_CODE_SKPHUFF, "deflate": COMP_CODE_DEFLATE}[ly[1]]
            ci = (c_int32 * 8)()
            ci[0] = sz if ly[1] == "skphuff" else 6
            if L.GRsetcompress(ri, code, ci) == FAIL:
                r = FAIL
        elif k == "chunk":
            # GR chunk lengths are given as (x, y) like the dimensions
            if L.GRsetchunk(ri, chunkdef([ly[1], ly[2]]), HDF_CHUNK) == FAIL:
                r = FAIL
            if len(ly) > 3:
                L.GRsetchunkcache(ri, ly[3], 0)
        elif k == "chunkcomp":
            code = {"rle": COMP_CODE_RLE, "skphuff": COMP_CODE_SKPHUFF, "deflate": COMP_CODE_DEFLATE}[ly[1]]
            if L.GRsetchunk(ri, chunkdef([ly[2], ly[3]], code, sz if ly[1] == "skphuff" else 6), HDF_COMP) == FAIL:
                r = FAIL
    return {"ret": r}


@op("GRImage", "Write")
def gr_write(c, a):
    raw = g_pack(c, a["data"])
    b = CBuf(len(raw), raw)
    r = c.L.GRwriteimage(c.v["ri"], i32arr([a["x"], a["y"]]), None, i32arr([a["cw"], a["ch"]]), b.ptr)
    b.free()
    return {"ret": 0 if r != FAIL else FAIL}


@op("GRImage", "ReqIl")
def gr_reqil(c, a):
    return {"ret": c.L.GRreqimageil(c.v["ri"], a["il"])}


@op("GRImage", "Read")
def gr_read(c, a):
    n = max(a["cw"], 1) * max(a["ch"], 1) * c.v["nc"]
    sz = struct.calcsize("=" + c.v["fmt"])
    b = CBuf(n * sz)
    r = c.L.GRreadimage(c.v["ri"], i32arr([a["x"], a["y"]]), i32arr([a["sx"], a["sy"]]), i32arr([a["cw"], a["ch"]]), b.ptr)
    o = {"ret": 0 if r != FAIL else FAIL}
    if r != FAIL:
        o["data"] = g_unpack(c, b.raw(), n, (c.exp or {}).get("data") if c.exp else None)
    b.free()
    return o


@op("GRImage", "WriteLut")
def gr_writelut(c, a):
    L = c.L
    pal = L.GRgetlutid(c.v["ri"], 0)
    data = bytes(((e * 3 + ch + a["k"]) % 256) for e in range(256) for ch in range(3))
    r = L.GRwritelut(pal, 3, DFNT["uint8"], 0, 256, data)
    return {"ret": 0 if (pal != FAIL and r != FAIL) else FAIL}


@op("GRImage", "ReadLut")
def gr_readlut(c, a):
    L = c.L
    pal = L.GRgetlutid(c.v["ri"], 0)
    nc, nt, il, ne = c_int32(), c_int32(), c_int32(), c_int32()
    if L.GRgetlutinfo(pal, byref(nc), byref(nt), byref(il), byref(ne)) == FAIL:
        return {"ret": FAIL}
    b = CBuf(768)
    r = L.GRreadlut(pal, b.ptr)
    raw = b.raw()
    b.free()
    k = -1
    for cand in (1, 2, 3):
        if raw == bytes(((e * 3 + ch + cand) % 256) for e in range(256) for ch in range(3)):
            k = cand
    return {"ret": 0 if r != FAIL else FAIL, "k": k, "ncomp": nc.value, "nentries": ne.value}


def _info(c):
    name = create_string_buffer(256)
    nc, nt, il, na = c_int32(), c_int32(), c_int32(), c_int32()
    dm = i32arr([0, 0])
    if c.L.GRgetiminfo(c.v["ri"], name, byref(nc), byref(nt), byref(il), dm, byref(na)) == FAIL:
        return {"ncomp": -1, "il": -1, "w": -1, "h": -1}
    return {"ncomp": nc.value, "il": il.value, "w": dm[0], "h": dm[1]}


@op("GRImage", "Info")
def gr_info(c, a):
    return _info(c)


@op("GRImage", "Reopen")
def gr_reopen(c, a):
    L = c.L
    L.GRendaccess(c.v["ri"])
    c.v["ri"] = FAIL
    r1 = L.GRend(c.v["gr"])
    c.v["gr"] = FAIL
    r2 = L.Hclose(c.h["F"])
    if r1 == FAIL or r2 == FAIL:
        c.h["F"] = FAIL
        return {"ret": FAIL}
    fid = L.Hopen(c.path(), DFACC_RDWR, 0)
    c.h["F"] = fid
    gr = L.GRstart(fid)
    c.v["gr"] = gr
    ri = L.GRselect(gr, L.GRnametoindex(gr, b"image"))
    c.v["ri"] = ri
    if fid == FAIL or gr == FAIL or ri == FAIL:
        return {"ret": FAIL}
    o = _info(c)
    o["ret"] = 0
    return o
