"""operation handlers for specs/Handles.tla (C13): acquire / use / release of every identifier kind"""
import ctypes, os
from ctypes import byref, c_int32, c_uint16, c_int16, c_char_p, create_string_buffer, POINTER
from ops_common import *
import h4api
from h4api import i32arr, DFNT, CBuf

FILES = ["f1", "f2"]


def mkfile(L, d, f):
    p = os.path.join(d, f + ".hdf").encode()
    fid = L.Hopen(p, DFACC_CREATE, 0)
    # e1 is a linked-block element (a special element with per-file block tables), e2 a plain one
    s = ("%s:e1" % f).encode()
    aid = L.HLcreate(fid, 500, 1, 2 if f == "f1" else 3, 2)
    L.Hwrite(aid, len(s), s)
    L.Hendaccess(aid)
    s = ("%s:e2" % f).encode()
    L.Hputelement(fid, 500, 2, s, len(s))
    # e3 is an external element (its bytes live in a file of its own), e4 a run-length compressed one
    s = ("%s:e3" % f).encode()
    aid = L.HXcreate(fid, 500, 3, os.path.join(d, f + "_e3.dat").encode(), 0, 0)
    L.Hwrite(aid, len(s), s)
    L.Hendaccess(aid)
    s = ("%s:e4" % f).encode()
    ci = (ctypes.c_int32 * 8)()
    mi = (ctypes.c_int32 * 8)()
    aid = L.HCcreate(fid, 500, 4, 0, mi, 1, ci)          # COMP_MODEL_STDIO, COMP_CODE_RLE
    L.Hwrite(aid, len(s), s)
    L.Hendaccess(aid)
    L.Vinitialize(fid)
    for k in (1, 2):
        vg = L.Vattach(fid, -1, b"w")
        L.Vsetname(vg, ("%s:vg%d" % (f, k)).encode())
        L.Vdetach(vg)
        vs = L.VSattach(fid, -1, b"w")
        L.VSsetname(vs, ("%s:vd%d" % (f, k)).encode())
        L.VSfdefine(vs, b"x", DFNT["int16"], 1)
        L.VSsetfields(vs, b"x")
        L.VSwrite(vs, b"\x00\x01\x00\x02", 2, 0)
        L.VSdetach(vs)
    L.Vfinish(fid)
    gr = L.GRstart(fid)
    L.GRsetattr(gr, b"marker", DFNT["char8"], 2, f.encode())
    for k in (1, 2):
        ri = L.GRcreate(gr, ("%s:im%d" % (f, k)).encode(), 1, DFNT["uint8"], 0, i32arr([2, 2]))
        L.GRwriteimage(ri, i32arr([0, 0]), None, i32arr([2, 2]), bytes([k] * 4))
        L.GRendaccess(ri)
    L.GRend(gr)
    an = L.ANstart(fid)
    for k in range(1):
        a = L.ANcreatef(an, h4api.AN_FILE_LABEL)
        s = ("%s:lab%d" % (f, k + 1)).encode()
        L.ANwriteann(a, s, len(s))
        L.ANendaccess(a)
    L.ANend(an)
    L.Hclose(fid)
    sd = L.SDstart(p, DFACC_RDWR)
    L.SDsetattr(sd, b"marker", DFNT["char8"], 2, f.encode())
    for k in (1, 2):
        s = L.SDcreate(sd, ("%s:s%d" % (f, k)).encode(), DFNT["int16"], 1, i32arr([3]))
        L.SDwritedata(s, i32arr([0]), None, i32arr([3]), b"\x00\x01\x00\x02\x00\x03")
        L.SDendaccess(s)
    L.SDend(sd)


def canonical(c):
    """a fixed workload whose observable results must not depend on what the library did before"""
    L = c.L
    res = []
    p = c.path("f1.hdf")
    fid = L.Hopen(p, DFACC_READ, 0)
    res.append(L.Hnumber(fid, 500))
    L.Vinitialize(fid)
    ref = L.Vfind(fid, b"f1:vg2")
    vg = L.Vattach(fid, ref, b"r")
    res.append(use_vg(c, vg))
    L.Vdetach(vg)
    L.Vfinish(fid)
    gr = L.GRstart(fid)
    ri = L.GRselect(gr, 1)
    res.append(use_ri(c, ri))
    L.GRendaccess(ri)
    L.GRend(gr)
    res.append(L.Hclose(fid))
    sd = L.SDstart(p, DFACC_READ)
    s = L.SDselect(sd, 0)
    res.append(use_sds(c, s))
    L.SDendaccess(s)
    res.append(L.SDend(sd))
    return res


@setup("Handles")
def hd_setup(c, beh):
    h4api.declare_all(c.L)
    c.L.Hfidinquire.argtypes = [c_int32, POINTER(c_char_p), POINTER(ctypes.c_int), POINTER(ctypes.c_int)]
    for f in FILES:
        mkfile(c.L, c.dir, f)
    c.v["canon"] = canonical(c)
    c.v["nums"] = {}      # handle name -> (kind, num, live, parent)


@teardown("Handles")
def hd_teardown(c):
    order = ["ann", "sds", "ri", "aid", "vs", "vg", "gr", "sd", "fid"]
    for k in order:
        for h, (kind, num, live, par) in list(c.v["nums"].items()):
            if kind == k and live:
                release_of(c, k, num, h)


def s(buf):
    return buf.value.decode(errors="replace")


def use_fid(c, n):
    name = c_char_p()
    acc, att = ctypes.c_int(), ctypes.c_int()
    if c.L.Hfidinquire(n, byref(name), byref(acc), byref(att)) == FAIL or not name.value:
        return "FAIL"
    return os.path.basename(name.value.decode()).replace(".hdf", "") + ":file"


def use_aid(c, n):
    ln = c_int32(-1)
    if c.L.Hinquire(n, None, None, None, byref(ln), None, None, None, None) == FAIL or ln.value < 0 or ln.value > 64:
        return "FAIL"
    if c.L.Hseek(n, 0, 0) == FAIL:
        return "FAIL"
    b = CBuf(ln.value)
    r = c.L.Hread(n, ln.value, b.ptr)
    t = b.raw(max(r, 0)).decode(errors="replace") if r == ln.value else "FAIL"
    b.free()
    return t


def _name(fn, n, size=256):
    buf = create_string_buffer(size)
    return s(buf) if fn(n, buf) != FAIL else "FAIL"


def use_vg(c, n):
    return _name(c.L.Vgetname, n)


def use_vs(c, n):
    return _name(c.L.VSgetname, n)


def use_gr(c, n):
    buf = create_string_buffer(16)
    return (buf.raw[:2].decode(errors="replace") + ":gr") if c.L.GRgetattr(n, 0, buf) != FAIL else "FAIL"


def use_ri(c, n):
    buf = create_string_buffer(256)
    nc, nt, il, na = c_int32(), c_int32(), c_int32(), c_int32()
    dm = i32arr([0, 0])
    return s(buf) if c.L.GRgetiminfo(n, buf, byref(nc), byref(nt), byref(il), dm, byref(na)) != FAIL else "FAIL"


def use_an(c, n):
    a = [c_int32() for _ in range(4)]
    if c.L.ANfileinfo(n, byref(a[0]), byref(a[1]), byref(a[2]), byref(a[3])) == FAIL:
        return "FAIL"
    return "f%d:an" % a[0].value


def use_ann(c, n):
    ln = c.L.ANannlen(n)
    if ln == FAIL or ln > 64:
        return "FAIL"
    buf = create_string_buffer(ln + 1)
    return s(buf) if c.L.ANreadann(n, buf, ln + 1) != FAIL else "FAIL"


def use_sd(c, n):
    buf = create_string_buffer(16)
    return (buf.raw[:2].decode(errors="replace") + ":sd") if c.L.SDreadattr(n, 0, buf) != FAIL else "FAIL"


def use_sds(c, n):
    buf = create_string_buffer(256)
    rank, nt, na = c_int32(), c_int32(), c_int32()
    dims = i32arr([0] * 32)
    return s(buf) if c.L.SDgetinfo(n, buf, byref(rank), dims, byref(nt), byref(na)) != FAIL else "FAIL"


USE = {"fid": use_fid, "aid": use_aid, "vg": use_vg, "vs": use_vs, "gr": use_gr, "ri": use_ri,
       "ann": use_ann, "sd": use_sd, "sds": use_sds}


def release_of(c, k, n, hname=None):
    L = c.L
    if k == "fid":
        # Vfinish only when no vgroup/vdata handle of this file is live (else the close must be refused anyway)
        kids = [x for x in c.v["nums"].values() if x[2] and x[3] == hname and x[0] in ("vg", "vs")]
        if hname is not None and not kids and c.v.get("vinit", {}).get(n):
            L.Vfinish(n)
            c.v["vinit"][n] = False
        r = L.Hclose(n)
        if r == FAIL and hname is not None and not kids:
            L.Vinitialize(n)
            c.v.setdefault("vinit", {})[n] = True
        return r
    return {"aid": L.Hendaccess, "vg": L.Vdetach, "vs": L.VSdetach, "gr": L.GRend, "ri": L.GRendaccess,
            "ann": L.ANendaccess, "sd": L.SDend, "sds": L.SDendaccess}[k](n)


def acquire_of(c, k, pnum, f, o):
    L = c.L
    if k == "fid":
        n = L.Hopen(c.path(f + ".hdf"), DFACC_RDWR if o == "w" else DFACC_READ, 0)
        if n != FAIL:
            L.Vinitialize(n)
            c.v.setdefault("vinit", {})[n] = True
            if o != "w":
                c.v.setdefault("seen_r", set()).add(f)
            # vgroups are attached for writing only when the path has never been opened read-only in this
            # behaviour (the V layer keeps the access mode of the first open of a path)
            c.v.setdefault("wfid", {})[n] = (o == "w" and f not in c.v.get("seen_r", set()))
        return n
    if k == "aid":
        return L.Hstartread(pnum, 500, {"e1": 1, "e2": 2, "e3": 3, "e4": 4}.get(o, 2))
    if k == "vg":
        ref = L.Vfind(pnum, ("%s:%s" % (f, o)).encode())
        return L.Vattach(pnum, ref if ref > 0 else 9999, b"w" if c.v.get("wfid", {}).get(pnum) else b"r")
    if k == "vs":
        ref = L.VSfind(pnum, ("%s:%s" % (f, o)).encode())
        return L.VSattach(pnum, ref if ref > 0 else 9999, b"r")
    if k == "gr":
        return L.GRstart(pnum)
    if k == "ri":
        idx = L.GRnametoindex(pnum, ("%s:%s" % (f, o)).encode())
        return L.GRselect(pnum, idx)
    if k == "ann":
        an = L.ANstart(pnum)
        return L.ANselect(an, 0, h4api.AN_FILE_LABEL) if an != FAIL else FAIL
    if k == "sd":
        return L.SDstart(c.path(f + ".hdf"), DFACC_RDWR)
    if k == "sds":
        idx = L.SDnametoindex(pnum, ("%s:%s" % (f, o)).encode())
        return L.SDselect(pnum, idx)
    return FAIL


@op("Handles", "Acquire")
def hd_acquire(c, a):
    pn = c.v["nums"][a["parent"]][1] if a["parent"] else None
    n = acquire_of(c, a["kind"], pn, a["file"], a["obj"])
    c.v["nums"][a["h"]] = (a["kind"], n, n != FAIL, a["parent"])
    return {"ret": n}


@op("Handles", "AcquireDead")
def hd_acquiredead(c, a):
    kind, pn, live, par = c.v["nums"][a["parent"]]
    f = "f1"
    n = acquire_of(c, a["kind"], pn, f, a["obj"])
    if n != FAIL:
        c.v["nums"][a["h"]] = (a["kind"], n, True, a["parent"])
    return {"ret": FAIL if n == FAIL else n}


@op("Handles", "Use")
def hd_use(c, a):
    kind, n, live, par = c.v["nums"][a["h"]]
    return {"ret": USE[a["kind"]](c, n), "num": n}


@op("Handles", "Release")
def hd_release(c, a):
    kind, n, live, par = c.v["nums"][a["h"]]
    r = release_of(c, a["kind"], n, a["h"] if kind == a["kind"] else None)
    if r != FAIL and kind == a["kind"]:
        c.v["nums"][a["h"]] = (kind, n, False, par)
    return {"ret": 0 if r != FAIL else FAIL, "num": n}


@op("Handles", "UseBogus")
def hd_usebogus(c, a):
    k = a["kind"]
    livenums = set(x[1] for x in c.v["nums"].values() if x[2])
    allnums = set(x[1] for x in c.v["nums"].values())
    samekind = [x[1] for x in c.v["nums"].values() if x[0] == k and x[2]]
    cand = {"minus1": -1, "zero": 0, "plus1": (samekind[0] + 1) if samekind else 12345, "big": 0x7FFFFFF0}[a["which"]]
    if a["which"] in ("plus1", "big"):
        while cand in livenums or cand in allnums:
            cand += 1
    if a["which"] == "zero" and 0 in livenums:
        return {"ret": "FAIL", "num": 0, "skipped": True}
    return {"ret": USE[k](c, cand), "num": cand}


@op("Handles", "Quiesce")
def hd_quiesce(c, a):
    return {"ret": "same" if canonical(c) == c.v["canon"] else "different"}


@op("Handles", "CrossInsert")
def hd_crossinsert(c, a):
    n1 = c.v["nums"][a["h"]][1]
    n2 = c.v["nums"][a["h2"]][1]
    r = c.L.Vinsert(n1, n2)
    return {"ret": FAIL if r == FAIL else r}
