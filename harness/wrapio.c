/* wrapio.c -- stdio seam for the HDF4 verification harness.
 *
 * Linked into libh4v.so together with the library objects with
 *   -Wl,--wrap=fopen,--wrap=fread,--wrap=fwrite,--wrap=fseek,--wrap=ftell,--wrap=fflush,--wrap=fclose
 * so every stdio call *made by the library* goes through here (the harness' own I/O does not).
 *
 * Provides
 *   - an ordered event log of the physical operations (open/write/flush/close with offsets and bytes)
 *     -> C02/C14/C17 (write log, crash images, "no write reaches a read-only stream")
 *   - fault injection at the k-th stdio call (single or sticky), kinds chosen per call class
 *     -> C16
 *   - a sink for the H4V_EVENT hooks compiled into the library with -DH4_VERIF
 */
#include <stdio.h>
#include <stdio_ext.h>
#include <stdlib.h>
#include <string.h>
#include <errno.h>

FILE  *__real_fopen(const char *, const char *);
size_t __real_fread(void *, size_t, size_t, FILE *);
size_t __real_fwrite(const void *, size_t, size_t, FILE *);
int    __real_fseek(FILE *, long, int);
long   __real_ftell(FILE *);
int    __real_fflush(FILE *);
int    __real_fclose(FILE *);

/* ---------------------------------------------------------------- log */
typedef struct {
    int   kind; /* 1 open 2 write 3 flush 4 close 5 read 6 seek 7 hook */
    int   stream;
    long  off;
    long  len;
    long  a, b;        /* extra (mode flags / hook args) */
    char  name[96];    /* path for open, hook name for hook */
    unsigned char *bytes;
} h4v_ev;

static h4v_ev *evs     = NULL;
static long    nevs    = 0, capevs = 0;
static int     logging = 0;   /* 0 off, 1 log writes/open/close/flush/hooks, 2 also reads+seeks */
static int     keep_bytes = 1;

#define MAXSTREAM 64
static FILE *streams[MAXSTREAM];
static char  spath[MAXSTREAM][96];
static int   swr[MAXSTREAM];

static int
stream_id(FILE *f)
{
    for (int i = 0; i < MAXSTREAM; i++)
        if (streams[i] == f)
            return i;
    return -1;
}

static h4v_ev *
push(int kind, int stream, long off, long len)
{
    if (!logging)
        return NULL;
    if (nevs == capevs) {
        capevs = capevs ? capevs * 2 : 1024;
        evs    = (h4v_ev *)realloc(evs, (size_t)capevs * sizeof(h4v_ev));
    }
    h4v_ev *e = &evs[nevs++];
    memset(e, 0, sizeof(*e));
    e->kind   = kind;
    e->stream = stream;
    e->off    = off;
    e->len    = len;
    return e;
}

void
h4v_log_start(int level, int keepbytes)
{
    for (long i = 0; i < nevs; i++)
        free(evs[i].bytes);
    nevs       = 0;
    logging    = level;
    keep_bytes = keepbytes;
}
void h4v_log_stop(void) { logging = 0; }
long h4v_log_count(void) { return nevs; }
int  h4v_log_get(long i, int *kind, int *stream, long *off, long *len, long *a, long *b, char *name)
{
    if (i < 0 || i >= nevs)
        return -1;
    *kind = evs[i].kind; *stream = evs[i].stream; *off = evs[i].off; *len = evs[i].len;
    *a = evs[i].a; *b = evs[i].b;
    strcpy(name, evs[i].name);
    return 0;
}
long
h4v_log_bytes(long i, unsigned char *dst, long max)
{
    if (i < 0 || i >= nevs || !evs[i].bytes)
        return -1;
    long n = evs[i].len < max ? evs[i].len : max;
    memcpy(dst, evs[i].bytes, (size_t)n);
    return n;
}

/* ---------------------------------------------------------------- hooks sink */
void
h4v_hook(const char *name, long a, long b, long c, long d)
{
    h4v_ev *e = push(7, -1, c, d);
    if (e) {
        strncpy(e->name, name, sizeof(e->name) - 1);
        e->a = a;
        e->b = b;
    }
}

/* ---------------------------------------------------------------- faults */
static long ncalls     = 0;  /* stdio calls seen since h4v_fault_reset */
static long fault_at   = -1; /* 1-based index of the call that fails; -1 none */
static int  fault_sticky = 0;
static long nfaults    = 0;  /* faults actually delivered */
static int  fault_kind = 0; /* stdio function of the first fault delivered: 1 fopen 2 fread 3 fwrite 4 fseek 5 fflush 6 fclose */
static int  fault_short = 0; /* for fread/fwrite: 1 = short count (half) instead of 0 */

void
h4v_fault_reset(long at, int sticky, int shortcount)
{
    ncalls       = 0;
    fault_at     = at;
    fault_sticky = sticky;
    fault_short  = shortcount;
    nfaults      = 0;
    fault_kind   = 0;
}
long h4v_fault_calls(void) { return ncalls; }
long h4v_fault_delivered(void) { return nfaults; }

int h4v_fault_kind(void) { return fault_kind; }

static int
should_fail_k(int kind)
{
    ncalls++;
    if (fault_at < 0)
        return 0;
    /* sticky 1: every later stdio call fails; sticky 2: every later call of the SAME stdio function fails (a full disk:
       all writes fail, everything else works; an unreadable medium: all reads fail) */
    if (ncalls == fault_at || (fault_sticky == 1 && ncalls > fault_at) ||
        (fault_sticky == 2 && ncalls > fault_at && nfaults > 0 && kind == fault_kind)) {
        if (nfaults == 0)
            fault_kind = kind;
        nfaults++;
        return 1;
    }
    return 0;
}

/* ---------------------------------------------------------------- wrappers */
FILE *
__wrap_fopen(const char *path, const char *mode)
{
    if (should_fail_k(1)) {
        errno = EIO;
        return NULL;
    }
    FILE *f = __real_fopen(path, mode);
    if (f) {
        int id = -1;
        for (int i = 0; i < MAXSTREAM; i++)
            if (!streams[i]) {
                id = i;
                break;
            }
        if (id >= 0) {
            streams[id] = f;
            strncpy(spath[id], path, sizeof(spath[id]) - 1);
            spath[id][sizeof(spath[id]) - 1] = 0;
            swr[id] = (strchr(mode, '+') || mode[0] == 'w' || mode[0] == 'a');
        }
        h4v_ev *e = push(1, id, 0, 0);
        if (e) {
            strncpy(e->name, path, sizeof(e->name) - 1);
            e->a = (mode[0] == 'w') ? 2 : (strchr(mode, '+') ? 1 : 0); /* 2 create/trunc, 1 rw, 0 ro */
        }
    }
    return f;
}

size_t
__wrap_fread(void *p, size_t sz, size_t n, FILE *f)
{
    if (should_fail_k(2)) {
        errno = EIO;
        if (fault_short && sz * n > 1) {
            size_t half = (sz * n) / 2;
            size_t got  = __real_fread(p, 1, half, f);
            return got / (sz ? sz : 1);
        }
        return 0;
    }
    long   off = logging >= 2 ? __real_ftell(f) : 0;
    size_t r   = __real_fread(p, sz, n, f);
    if (logging >= 2)
        push(5, stream_id(f), off, (long)(r * sz));
    return r;
}

size_t
__wrap_fwrite(const void *p, size_t sz, size_t n, FILE *f)
{
    if (should_fail_k(3)) {
        errno = ENOSPC;
        if (fault_short && sz * n > 1) {
            size_t half = (sz * n) / 2;
            long   off  = __real_ftell(f);
            size_t put  = __real_fwrite(p, 1, half, f);
            h4v_ev *e   = push(2, stream_id(f), off, (long)put);
            if (e && keep_bytes) {
                e->bytes = (unsigned char *)malloc(put ? put : 1);
                memcpy(e->bytes, p, put);
            }
            return put / (sz ? sz : 1);
        }
        return 0;
    }
    long   off = logging ? __real_ftell(f) : 0;
    size_t r   = __real_fwrite(p, sz, n, f);
    if (logging) {
        h4v_ev *e = push(2, stream_id(f), off, (long)(r * sz));
        if (e && keep_bytes && r * sz > 0) {
            e->bytes = (unsigned char *)malloc(r * sz);
            memcpy(e->bytes, p, r * sz);
        }
    }
    return r;
}

int
__wrap_fseek(FILE *f, long off, int wh)
{
    if (should_fail_k(4)) {
        errno = EIO;
        return -1;
    }
    int r = __real_fseek(f, off, wh);
    if (logging >= 2)
        push(6, stream_id(f), off, wh);
    return r;
}

long
__wrap_ftell(FILE *f)
{
    /* not counted as a faultable call: the library does not check it consistently and a failing
       ftell has no realistic cause once the stream is open */
    return __real_ftell(f);
}

int
__wrap_fflush(FILE *f)
{
    if (should_fail_k(5)) {
        /* as ENOSPC at flush does: buffered bytes are lost */
        if (f)
            __fpurge(f);
        errno = ENOSPC;
        return EOF;
    }
    int r = __real_fflush(f);
    push(3, f ? stream_id(f) : -1, 0, 0);
    return r;
}

int
__wrap_fclose(FILE *f)
{
    int id = stream_id(f);
    if (should_fail_k(6)) {
        /* a failing fclose still releases the stream (C11 7.21.5.1); buffered bytes are lost */
        __fpurge(f);
        __real_fclose(f);
        if (id >= 0)
            streams[id] = NULL;
        push(4, id, 1, 0);
        errno = ENOSPC;
        return EOF;
    }
    int r = __real_fclose(f);
    if (id >= 0)
        streams[id] = NULL;
    push(4, id, 0, 0);
    return r;
}

const char *
h4v_stream_path(int id)
{
    return (id >= 0 && id < MAXSTREAM) ? spath[id] : "";
}
int
h4v_stream_writable(int id)
{
    return (id >= 0 && id < MAXSTREAM) ? swr[id] : 0;
}


/* ---------------------------------------------------------------- atom counter (specs/Atoms.tla, action Burn)
 * n register/remove pairs of a throwaway object in one atom group: what n acquire/release pairs of any identifier of
 * that group do to the group's counter, without the file I/O.  Returns the number of pairs done (stops on failure). */
extern int   HAregister_atom(int grp, void *object);
extern void *HAremove_atom(int atm);
unsigned long
h4v_burn_atoms(int grp, unsigned long n)
{
    static int    dummy;
    unsigned long i;
    for (i = 0; i < n; i++) {
        int t = HAregister_atom(grp, &dummy);
        if (t == -1 || HAremove_atom(t) == NULL)
            break;
    }
    return i;
}

/* ---------------------------------------------------------------- coverage build only (bin/build_lib.sh <dir> cov) */
#ifdef H4V_COV
extern void __gcov_dump(void);
void
h4v_gcov_dump(void)
{
    __gcov_dump();
}
#endif
