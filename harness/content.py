"""API-level content view of an HDF4 file, independent of references, object order and storage layout
(used to judge hrepack / hdiff / hdp: C18, C19).  content(L, path) -> dict ; layout(L, path) -> dict"""
import ctypes
from ctypes import byref, c_int32, c_uint16, create_string_buffer
from ops_common import *
import h4api
from h4api import CBuf, DFNT_SIZE, i32arr

INTERNAL_VD_CLASSES = ("Attr0.0", "DimVal0.0", "DimVal0.1", "SDSVar", "CoordVar", "RIATTR0.0N", "RIATTR0.0C", "_HDF_CHK_TBL_")
INTERNAL_VG_CLASSES = ("CDF0.0", "Var0.0", "Dim0.0", "UDim0.0", "RI0.0", "RIG0.0")
DFTAG_VG, DFTAG_VH, DFTAG_NDG, DFTAG_SDG, DFTAG_RIG, DFTAG_RI, DFTAG_RI8 = 1965, 1962, 720, 700, 306, 302, 202


def _prod(xs):
    n = 1
    for x in xs:
        n *= x
    return n


def _attrs(L, oid, n, kind, fx=None):
    res = []
    for i in range(max(n, 0)):
        nm, nt, cnt, sz = create_string_buffer(400), c_int32(), c_int32(), c_int32()
        if kind == "SD":
            r = L.SDattrinfo(oid, i, nm, byref(nt), byref(cnt))
        elif kind == "GR":
            r = L.GRattrinfo(oid, i, nm, byref(nt), byref(cnt))
        elif kind == "VG":
            r = L.Vattrinfo(oid, i, nm, byref(nt), byref(cnt), byref(sz))
        else:
            r = L.VSattrinfo(oid, fx, i, nm, byref(nt), byref(cnt), byref(sz))
        if r == FAIL:
            res.append(["?", -1, -1, ""])
            continue
        nb = cnt.value * DFNT_SIZE.get(nt.value & 0xfff, 8)
        b = CBuf(max(nb, 1))
        if kind == "SD":
            r = L.SDreadattr(oid, i, b.ptr)
        elif kind == "GR":
            r = L.GRgetattr(oid, i, b.ptr)
        elif kind == "VG":
            r = L.Vgetattr(oid, i, b.ptr)
        else:
            r = L.VSgetattr(oid, fx, i, b.ptr)
        res.append([nm.value.decode(errors="replace"), nt.value, cnt.value, b.raw()[:nb].hex() if r != FAIL else "READFAIL"])
        b.free()
    return sorted(res)


def content(L, path, big=1 << 26):
    p = path.encode() if isinstance(path, str) else path
    out = {}
    # ------------------------------------------------------------ SD
    sdnames = {}       # NDG ref -> name
    sd = L.SDstart(p, DFACC_READ)
    sds = []
    if sd != FAIL:
        nds, nat = c_int32(), c_int32()
        L.SDfileinfo(sd, byref(nds), byref(nat))
        for i in range(nds.value):
            s = L.SDselect(sd, i)
            name = create_string_buffer(300)
            rank, nt, na = c_int32(), c_int32(), c_int32()
            dims = i32arr([0] * 32)
            if s == FAIL or L.SDgetinfo(s, name, byref(rank), dims, byref(nt), byref(na)) == FAIL:
                sds.append({"name": "?%d" % i})
                continue
            shape = [dims[k] for k in range(rank.value)]
            ref = L.SDidtoref(s)
            nm = name.value.decode(errors="replace")
            sdnames[ref] = nm
            if L.SDiscoordvar(s):
                L.SDendaccess(s)
                continue
            d = {"name": nm, "shape": shape, "nt": nt.value, "unlimited": bool(L.SDisrecord(s))}
            esz = DFNT_SIZE.get(nt.value & 0xfff, 8)
            tot = _prod(shape) if shape else 0
            emp = c_int32(0)
            L.SDcheckempty(s, byref(emp))
            d["empty"] = bool(emp.value)
            if 0 < tot * esz < big and not emp.value:
                b = CBuf(tot * esz)
                r = L.SDreaddata(s, i32arr([0] * len(shape)), None, i32arr(shape), b.ptr)
                import hashlib
                raw = b.raw()
                d["data"] = (raw.hex() if len(raw) <= 4096 else "sha1:" + hashlib.sha1(raw).hexdigest()) if r != FAIL else "READFAIL"
                b.free()
            d["attrs"] = _attrs(L, s, na.value, "SD")
            dl = []
            for k in range(rank.value):
                dm = L.SDgetdimid(s, k)
                dn = create_string_buffer(300)
                sz, dnt, dna = c_int32(), c_int32(), c_int32()
                L.SDdiminfo(dm, dn, byref(sz), byref(dnt), byref(dna))
                dname = dn.value.decode(errors="replace")
                e = {"name": "fakeDim" if dname.startswith("fakeDim") else dname, "size": sz.value, "attrs": _attrs(L, dm, dna.value, "SD") if dna.value > 0 else []}
                if dnt.value != 0:
                    cnt = sz.value if sz.value else (shape[0] if shape else 0)
                    nb = cnt * DFNT_SIZE.get(dnt.value & 0xfff, 8)
                    if 0 < nb < big:
                        b = CBuf(nb)
                        e["scale"] = [dnt.value, b.raw().hex()] if L.SDgetdimscale(dm, b.ptr) != FAIL else "READFAIL"
                        if isinstance(e["scale"], list):
                            e["scale"][1] = b.raw().hex()
                        b.free()
                dl.append(e)
            d["dims"] = dl
            L.SDendaccess(s)
            sds.append(d)
        out["sd_fileattrs"] = _attrs(L, sd, nat.value, "SD")
        L.SDend(sd)
    out["sds"] = sorted(sds, key=lambda e: (e.get("name", ""), str(e.get("shape")), e.get("nt", 0), str(e.get("data"))))
    # ------------------------------------------------------------ GR
    fid = L.Hopen(p, DFACC_READ, 0)
    if fid == FAIL:
        out["open"] = "FAIL"
        return out
    grnames = {}
    ims = []
    gr = L.GRstart(fid)
    if gr != FAIL:
        nim, nat = c_int32(), c_int32()
        L.GRfileinfo(gr, byref(nim), byref(nat))
        for i in range(nim.value):
            ri = L.GRselect(gr, i)
            name = create_string_buffer(300)
            nc, nt, il, na = c_int32(), c_int32(), c_int32(), c_int32()
            dm = i32arr([0, 0])
            if ri == FAIL or L.GRgetiminfo(ri, name, byref(nc), byref(nt), byref(il), dm, byref(na)) == FAIL:
                ims.append({"name": "?%d" % i})
                continue
            nm = name.value.decode(errors="replace")
            grnames[L.GRidtoref(ri)] = nm
            d = {"name": nm, "ncomp": nc.value, "nt": nt.value, "dims": [dm[0], dm[1]]}
            tot = dm[0] * dm[1] * nc.value * DFNT_SIZE.get(nt.value & 0xfff, 8)
            if 0 < tot < big:
                L.GRreqimageil(ri, 0)
                b = CBuf(tot)
                r = L.GRreadimage(ri, i32arr([0, 0]), None, i32arr([dm[0], dm[1]]), b.ptr)
                import hashlib
                raw = b.raw()
                d["data"] = (raw.hex() if len(raw) <= 4096 else "sha1:" + hashlib.sha1(raw).hexdigest()) if r != FAIL else "READFAIL"
                b.free()
            d["attrs"] = _attrs(L, ri, na.value, "GR")
            lut = L.GRgetlutid(ri, 0)
            x = [c_int32() for _ in range(4)]
            if lut != FAIL and L.GRgetlutinfo(lut, byref(x[0]), byref(x[1]), byref(x[2]), byref(x[3])) != FAIL and x[3].value > 0:
                nb = x[0].value * x[3].value * DFNT_SIZE.get(x[1].value & 0xfff, 1)
                b = CBuf(nb)
                L.GRreqlutil(lut, 0)
                d["palette"] = b.raw().hex() if L.GRreadlut(lut, b.ptr) != FAIL else "READFAIL"
                if d["palette"] != "READFAIL":
                    d["palette"] = b.raw().hex()
                b.free()
            L.GRendaccess(ri)
            ims.append(d)
        out["gr_fileattrs"] = _attrs(L, gr, nat.value, "GR")
        L.GRend(gr)
    out["images"] = sorted(ims, key=lambda e: (e.get("name", ""), str(e.get("dims")), str(e.get("data"))))
    # ------------------------------------------------------------ Vdatas
    L.Vinitialize(fid)
    vdnames = {}
    vds = []
    ref = -1
    for _ in range(100000):
        ref = L.VSgetid(fid, ref)
        if ref == FAIL:
            break
        vs = L.VSattach(fid, ref, b"r")
        if vs == FAIL:
            vds.append({"name": "?attach"})
            continue
        name, cls, fields = create_string_buffer(300), create_string_buffer(300), create_string_buffer(70000)
        nrec, il, sz = c_int32(), c_int32(), c_int32()
        L.VSinquire(vs, byref(nrec), byref(il), fields, byref(sz), name)
        L.VSgetclass(vs, cls)
        c = cls.value.decode(errors="replace")
        nm = name.value.decode(errors="replace")
        vdnames[ref] = nm
        if c.startswith(INTERNAL_VD_CLASSES) or L.VSisattr(vs):
            L.VSdetach(vs)
            continue
        nf = L.VFnfields(vs)
        fl = [[ctypes.string_at(L.VFfieldname(vs, k)).decode(errors="replace"), L.VFfieldtype(vs, k), L.VFfieldorder(vs, k)] for k in range(max(nf, 0))]
        d = {"name": nm, "class": c, "n": nrec.value, "fields": fl}
        if nrec.value > 0 and sz.value > 0 and nrec.value * sz.value < big and fields.value:
            if L.VSsetfields(vs, fields.value) != FAIL:
                b = CBuf(nrec.value * sz.value)
                r = L.VSread(vs, b.ptr, nrec.value, 0)
                import hashlib
                raw = b.raw()
                d["data"] = (raw.hex() if len(raw) <= 4096 else "sha1:" + hashlib.sha1(raw).hexdigest()) if r == nrec.value else "READFAIL(%d)" % r
                b.free()
        d["attrs"] = _attrs(L, vs, L.VSfnattrs(vs, -1), "VS", -1)
        d["fattrs"] = [_attrs(L, vs, L.VSfnattrs(vs, k), "VS", k) for k in range(max(nf, 0))]
        L.VSdetach(vs)
        vds.append(d)
    out["vdatas"] = sorted(vds, key=lambda e: (e.get("name", ""), e.get("class", ""), str(e.get("data"))))
    # ------------------------------------------------------------ Vgroups
    vgraw = {}
    ref = -1
    for _ in range(100000):
        ref = L.Vgetid(fid, ref)
        if ref == FAIL:
            break
        vg = L.Vattach(fid, ref, b"r")
        if vg == FAIL:
            vgraw[ref] = None
            continue
        ln = c_uint16()
        L.Vgetnamelen(vg, byref(ln))
        name = create_string_buffer(ln.value + 2)
        L.Vgetname(vg, name)
        L.Vgetclassnamelen(vg, byref(ln))
        cls = create_string_buffer(ln.value + 2)
        L.Vgetclass(vg, cls)
        n = L.Vntagrefs(vg)
        mem = []
        if n > 0:
            tags, refs = i32arr([0] * n), i32arr([0] * n)
            L.Vgettagrefs(vg, tags, refs, n)
            mem = [(tags[i], refs[i]) for i in range(n)]
        vgraw[ref] = {"name": name.value.decode(errors="replace"), "class": cls.value.decode(errors="replace"), "members": mem,
                      "attrs": _attrs(L, vg, L.Vnattrs(vg), "VG")}
        L.Vdetach(vg)

    def describe(tag, ref):
        if tag == DFTAG_VG:
            g = vgraw.get(ref)
            if g is None:
                return ["vg", "?dangling"]
            if g["class"] in ("Var0.0",):
                return ["sds", g["name"]]
            if g["class"] in ("RI0.0",):
                return ["gr", g["name"]]
            if g["class"] in INTERNAL_VG_CLASSES:
                return ["internal", g["class"]]
            return ["vg", g["name"]]
        if tag == DFTAG_VH:
            return ["vd", vdnames.get(ref, "?dangling")]
        if tag in (DFTAG_NDG, DFTAG_SDG):
            return ["sds", sdnames.get(ref, "?ref")]
        if tag in (DFTAG_RIG, DFTAG_RI, DFTAG_RI8):
            return ["gr", grnames.get(ref, "?ref")]
        return ["tag", tag]
    vgs = []
    for ref, g in vgraw.items():
        if g is None:
            vgs.append({"name": "?attach"})
            continue
        if g["class"] in INTERNAL_VG_CLASSES:
            continue
        vgs.append({"name": g["name"], "class": g["class"], "attrs": g["attrs"], "members": sorted(describe(t, r) for (t, r) in g["members"])})
    out["vgroups"] = sorted(vgs, key=lambda e: (e.get("name", ""), e.get("class", ""), str(e.get("members"))))
    L.Vfinish(fid)
    # ------------------------------------------------------------ annotations
    an = L.ANstart(fid)
    anns = []
    if an != FAIL:
        c = [c_int32() for _ in range(4)]
        L.ANfileinfo(an, byref(c[0]), byref(c[1]), byref(c[2]), byref(c[3]))
        L.ANget_tagref.argtypes = None
        for typ, cnt in ((2, c[0].value), (3, c[1].value), (0, c[2].value), (1, c[3].value)):
            for i in range(cnt):
                a = L.ANselect(an, i, typ)
                ln = L.ANannlen(a)
                txt = None
                if 0 <= ln < (1 << 22):
                    b = CBuf(ln + 1)
                    r = L.ANreadann(a, b.ptr, ln + 1)
                    txt = b.raw()[:ln].hex() if r != FAIL else "READFAIL"
                    b.free()
                target = None
                if typ in (0, 1):
                    # the annotated object: stored in front of the text; ask the low-level element
                    tg, rf = c_uint16(), c_uint16()
                    L.ANid2tagref(a, byref(tg), byref(rf))
                    hb = create_string_buffer(4)
                    aid = L.Hstartread(fid, tg.value, rf.value)
                    if aid != FAIL:
                        if L.Hread(aid, 4, hb) == 4:
                            import struct
                            t2, r2 = struct.unpack(">HH", hb.raw[:4])
                            target = describe(t2, r2)
                        L.Hendaccess(aid)
                anns.append([typ, target, txt])
                L.ANendaccess(a)
        L.ANend(an)
    out["anns"] = sorted(anns, key=lambda e: (e[0], str(e[1]), str(e[2])))
    L.Hclose(fid)
    return out


def layout(L, path):
    """name -> storage layout of every dataset and image"""
    p = path.encode() if isinstance(path, str) else path
    out = {"sds": {}, "gr": {}}
    sd = L.SDstart(p, DFACC_READ)
    if sd != FAIL:
        nds, nat = c_int32(), c_int32()
        L.SDfileinfo(sd, byref(nds), byref(nat))
        for i in range(nds.value):
            s = L.SDselect(sd, i)
            if s == FAIL or L.SDiscoordvar(s):
                if s != FAIL:
                    L.SDendaccess(s)
                continue
            name = create_string_buffer(300)
            rank, nt, na = c_int32(), c_int32(), c_int32()
            dims = i32arr([0] * 32)
            L.SDgetinfo(s, name, byref(rank), dims, byref(nt), byref(na))
            ct = c_int32(0)
            ci = (c_int32 * 16)()
            L.SDgetcompinfo(s, byref(ct), ci)
            cd = h4api.ChunkDef()
            fl = c_int32(0)
            L.SDgetchunkinfo(s, byref(cd), byref(fl))
            ch = [cd.w[k] for k in range(rank.value)] if (fl.value & 1) else None
            out["sds"][name.value.decode(errors="replace")] = {"comp": ct.value, "chunk": ch}
            L.SDendaccess(s)
        L.SDend(sd)
    fid = L.Hopen(p, DFACC_READ, 0)
    if fid != FAIL:
        gr = L.GRstart(fid)
        nim, nat = c_int32(), c_int32()
        L.GRfileinfo(gr, byref(nim), byref(nat))
        for i in range(nim.value):
            ri = L.GRselect(gr, i)
            name = create_string_buffer(300)
            nc, nt, il, na = c_int32(), c_int32(), c_int32(), c_int32()
            dm = i32arr([0, 0])
            L.GRgetiminfo(ri, name, byref(nc), byref(nt), byref(il), dm, byref(na))
            ct = c_int32(0)
            ci = (c_int32 * 16)()
            L.GRgetcompinfo(ri, byref(ct), ci)
            cd = h4api.ChunkDef()
            fl = c_int32(0)
            L.GRgetchunkinfo(ri, byref(cd), byref(fl))
            out["gr"][name.value.decode(errors="replace")] = {"comp": ct.value, "chunk": [cd.w[0], cd.w[1]] if (fl.value & 1) else None}
            L.GRendaccess(ri)
        L.GRend(gr)
        L.Hclose(fid)
    return out
