"""operation handlers for specs/Interop.tla (C15): write through one interface, list through the others"""
import ctypes, os, struct
from ctypes import byref, c_int32, c_int, c_long, create_string_buffer
from ops_common import *
import h4api
from h4api import CBuf, DFNT, i32arr, COMP_CODE_RLE, COMP_CODE_DEFLATE
from ops_attr import TY, TYNAME, packv

KMAX = 16
NC_T = {"i8": 1, "c8": 2, "i16": 3, "i32": 4, "f32": 5, "f64": 6}
NC_SIZE = {1: 1, 2: 1, 3: 2, 4: 4, 5: 4, 6: 8}
NC_CLOBBER, NC_NOWRITE = 0xb, 0
DFTAG_RLE = 11


def P(c):
    return os.path.join(c.dir, "w.hdf").encode()


def judged(c, items):
    """the listing of the objects the specification speaks of, ordered by seed; anything else a reader shows
    (dimension variables presented as datasets, ...) is counted but not judged"""
    want = (c.exp or {}).get("items") if c.exp else None
    items = sorted(items, key=lambda e: e["k"])
    if want is None:
        return {"items": items}
    keep = []
    for e in items:
        if e in want and e not in keep:
            keep.append(e)
    return {"items": keep, "extra": len(items) - len(keep)}


def prod(xs):
    n = 1
    for x in xs:
        n *= x
    return n


def sds_bytes(ty, n, k):
    return packv(ty, n, k % 16)


def recover_sds(types, n, raw):
    for ty in types:
        if len(raw) != n * struct.calcsize("=" + TY[ty][1]):
            continue
        for k in range(1, KMAX):
            if sds_bytes(ty, n, k) == raw:
                return ty, k
    return None, -7777


def img(w, h, nc, k):
    return bytes(((k * 37 + i * 3) % 251) for i in range(w * h * nc))


def to_il(pix, w, h, nc, il):
    """pixel-interlaced bytes -> interlace il (0 pixel, 1 line, 2 component)"""
    if nc == 1 or il == 0:
        return pix
    out = bytearray(len(pix))
    for y in range(h):
        for x in range(w):
            for ch in range(nc):
                v = pix[(y * w + x) * nc + ch]
                if il == 1:
                    out[(y * nc + ch) * w + x] = v
                else:
                    out[(ch * h + y) * w + x] = v
    return bytes(out)


def pal_bytes(k):
    return bytes((j * 7 + ch + k * 13) % 256 for j in range(256) for ch in range(3))


def recover_img(w, h, nc, raw):
    for k in range(1, KMAX):
        if img(w, h, nc, k) == raw:
            return k
    return -7777


def recover_pal(raw):
    for k in range(1, KMAX):
        if pal_bytes(k) == raw:
            return k
    return -7777


@op("Interop", "Setup")
def io_setup(c, a):
    L = c.L
    h4api.declare_all(L)
    L.H4_nccreate.restype = c_int
    L.H4_ncopen.restype = c_int
    L.DFR8lastref.restype = ctypes.c_uint16
    L.DFR8readref.argtypes = [ctypes.c_char_p, ctypes.c_uint16]
    c_int.in_dll(L, "H4_ncopts").value = 0      # netCDF-2 convention: errors are returned, not fatal
    os.chdir(c.dir)
    for f in ("DFSDclear", "DFR8restart", "DF24restart", "DFSDrestart"):
        getattr(L, f)()
    L.DFR8setpalette(None)
    fid = L.Hopen(P(c), DFACC_CREATE, 0)
    r = L.Hclose(fid) if fid != FAIL else FAIL
    return {"ret": r}


# ---------------------------------------------------------------- datasets
@op("Interop", "WriteSds")
def io_writesds(c, a):
    L = c.L
    api, shape, ty, k = a["api"], list(a["shape"]), a["type"], a["k"]
    n = prod(shape)
    raw = sds_bytes(ty, n, k)
    nt = TY[ty][0]
    b = CBuf(len(raw), raw)
    r = 0
    sc = list(a.get("scales") or [0] * len(shape))
    unl = bool(a.get("unl"))

    def scale_bytes(i):
        return sds_bytes(ty, shape[i], (k + 3 + i) % 16)
    if api == "DFSD":
        L.DFSDclear()
        if L.DFSDsetNT(nt) == FAIL or L.DFSDsetdims(len(shape), i32arr(shape)) == FAIL:
            r = FAIL
        for i in range(len(shape)):
            if sc[i]:
                sb = CBuf(len(scale_bytes(i)), scale_bytes(i))
                if L.DFSDsetdimscale(i + 1, shape[i], sb.ptr) == FAIL:
                    r = FAIL
                sb.free()
        if L.DFSDadddata(P(c), len(shape), i32arr(shape), b.ptr) == FAIL:
            r = FAIL
    elif api == "DFSDS":
        # the same dataset written in two hyperslabs along the first dimension (the second one empty for 1 row)
        L.DFSDclear()
        if L.DFSDsetNT(nt) == FAIL or L.DFSDsetdims(len(shape), i32arr(shape)) == FAIL:
            r = FAIL
        if L.DFSDstartslab(P(c)) == FAIL:
            r = FAIL
        else:
            h = max(1, shape[0] // 2)
            rec = len(raw) // shape[0]
            for lo, hi in ((0, h), (h, shape[0])):
                if hi > lo:
                    sb = CBuf((hi - lo) * rec, raw[lo * rec:hi * rec])
                    # (slab starts are 1-based in this interface)
                    if L.DFSDwriteslab(i32arr([lo + 1] + [1] * (len(shape) - 1)), i32arr([1] * len(shape)), i32arr([hi - lo] + shape[1:]), sb.ptr) == FAIL:
                        r = FAIL
                    sb.free()
            if L.DFSDendslab() == FAIL:
                r = FAIL
    elif api == "SD":
        sd = L.SDstart(P(c), DFACC_RDWR)
        cshape = list(shape)
        if unl:
            cshape[0] = 0
        s = L.SDcreate(sd, b"sds_k%d" % k, nt, len(shape), i32arr(cshape)) if sd != FAIL else FAIL
        if s == FAIL or L.SDwritedata(s, i32arr([0] * len(shape)), None, i32arr(shape), b.ptr) == FAIL:
            r = FAIL
        if s != FAIL:
            for i in range(len(shape)):
                if sc[i]:
                    dm = L.SDgetdimid(s, i)
                    L.SDsetdimname(dm, b"dim_k%d_%d" % (k, i))
                    sb = CBuf(len(scale_bytes(i)), scale_bytes(i))
                    if L.SDsetdimscale(dm, shape[i], nt, sb.ptr) == FAIL:
                        r = FAIL
                    sb.free()
        if s != FAIL and L.SDendaccess(s) == FAIL:
            r = FAIL
        if sd == FAIL or L.SDend(sd) == FAIL:
            r = FAIL
    else:
        nc = L.H4_nccreate(P(c), NC_CLOBBER)
        if nc == -1:
            r = FAIL
        else:
            dims = (c_int * len(shape))(*[L.H4_ncdimdef(nc, b"d%d_%d" % (k, i), c_long(shape[i])) for i in range(len(shape))])
            v = L.H4_ncvardef(nc, b"nc_k%d" % k, NC_T[ty], len(shape), dims)
            if v == -1 or L.H4_ncendef(nc) == -1:
                r = FAIL
            elif L.H4_ncvarput(nc, v, (c_long * len(shape))(*([0] * len(shape))), (c_long * len(shape))(*shape), b.ptr) == -1:
                r = FAIL
            if L.H4_ncclose(nc) == -1:
                r = FAIL
    b.free()
    return {"ret": r}


@op("Interop", "GrowSds")
def io_growsds(c, a):
    """a later session that only appends n records to the dataset sds_k<k> (unlimited first dimension)"""
    L = c.L
    k, ty, shape, n = a["k"], a["type"], list(a["shape"]), a["n"]
    rec = prod(shape[1:])
    esz = struct.calcsize("=" + TY[ty][1])
    raw = sds_bytes(ty, (shape[0] + n) * rec, k)[shape[0] * rec * esz:]
    b = CBuf(len(raw), raw)
    r = 0
    sd = L.SDstart(P(c), DFACC_RDWR)
    idx = L.SDnametoindex(sd, b"sds_k%d" % k) if sd != FAIL else FAIL
    s = L.SDselect(sd, idx) if idx != FAIL else FAIL
    if s == FAIL or L.SDwritedata(s, i32arr([shape[0]] + [0] * (len(shape) - 1)), None, i32arr([n] + shape[1:]), b.ptr) == FAIL:
        r = FAIL
    if s != FAIL and L.SDendaccess(s) == FAIL:
        r = FAIL
    if sd == FAIL or L.SDend(sd) == FAIL:
        r = FAIL
    b.free()
    return {"ret": r}


@op("Interop", "ListSds")
def io_listsds(c, a):
    L = c.L
    items = []
    if a["api"] == "SD":
        sd = L.SDstart(P(c), DFACC_READ)
        nd, na = c_int32(), c_int32()
        if sd == FAIL or L.SDfileinfo(sd, byref(nd), byref(na)) == FAIL:
            return {"items": [{"shape": [], "type": "?open", "k": -1}]}
        for i in range(nd.value):
            s = L.SDselect(sd, i)
            nm, rank, nt, n = create_string_buffer(300), c_int32(), c_int32(), c_int32()
            dims = (c_int32 * 32)()
            if s == FAIL or L.SDgetinfo(s, nm, byref(rank), dims, byref(nt), byref(n)) == FAIL:
                continue
            shape = list(dims)[:rank.value]
            ty = TYNAME.get(nt.value)
            if L.SDiscoordvar(s):
                L.SDendaccess(s)
                continue
            if ty and 0 < prod(shape) < 100000:
                sz = prod(shape) * struct.calcsize("=" + TY[ty][1])
                b = CBuf(sz)
                if L.SDreaddata(s, i32arr([0] * rank.value), None, i32arr(shape), b.ptr) != FAIL:
                    t2, k = recover_sds([ty], prod(shape), b.raw())
                    if k > 0:
                        scs = []
                        for i in range(rank.value):
                            dm = L.SDgetdimid(s, i)
                            dn, dsz, dnt, dna = create_string_buffer(300), c_int32(), c_int32(), c_int32()
                            L.SDdiminfo(dm, dn, byref(dsz), byref(dnt), byref(dna))
                            if dnt.value == 0:
                                scs.append(0)
                                continue
                            st = TYNAME.get(dnt.value)
                            sb = CBuf(shape[i] * struct.calcsize("=" + TY[st][1]) if st else 8)
                            ok = st is not None and L.SDgetdimscale(dm, sb.ptr) != FAIL and sb.raw() == sds_bytes(st, shape[i], (k + 3 + i) % 16) and st == ty
                            scs.append(1 if ok else -7777)
                            sb.free()
                        items.append({"shape": shape, "type": ty, "k": k, "scales": scs})
                b.free()
            L.SDendaccess(s)
        L.SDend(sd)
    else:
        L.DFSDrestart()
        for _ in range(200):
            rank = c_int32()
            dims = (c_int32 * 32)()
            if L.DFSDgetdims(P(c), byref(rank), dims, 32) == FAIL:
                break
            nt = c_int32()
            L.DFSDgetNT(byref(nt))
            shape = list(dims)[:rank.value]
            ty = TYNAME.get(nt.value)
            if ty and 0 < prod(shape) < 100000:
                sz = prod(shape) * struct.calcsize("=" + TY[ty][1])
                b = CBuf(sz)
                if L.DFSDgetdata(P(c), rank.value, dims, b.ptr) != FAIL:
                    t2, k = recover_sds([ty], prod(shape), b.raw())
                    if k > 0:
                        scs = []
                        for i in range(rank.value):
                            sb = CBuf(shape[i] * struct.calcsize("=" + TY[ty][1]))
                            if L.DFSDgetdimscale(i + 1, shape[i], sb.ptr) == FAIL:
                                scs.append(0)
                            else:
                                scs.append(1 if sb.raw() == sds_bytes(ty, shape[i], (k + 3 + i) % 16) else -7777)
                            sb.free()
                        items.append({"shape": shape, "type": ty, "k": k, "scales": scs})
                b.free()
    return judged(c, items)


@op("Interop", "ListSdsNc")
def io_listnc(c, a):
    L = c.L
    nc = L.H4_ncopen(P(c), NC_NOWRITE)
    if nc == -1:
        return {"items": [{"shape": [], "size": -1, "float": False, "k": -1}]}
    items = []
    for v in range(200):
        nm, ty, nd, na = create_string_buffer(300), c_int(), c_int(), c_int()
        dd = (c_int * 32)()
        if L.H4_ncvarinq(nc, v, nm, byref(ty), byref(nd), dd, byref(na)) == -1:
            break
        shape = []
        for i in range(nd.value):
            sz = c_long()
            L.H4_ncdiminq(nc, dd[i], None, byref(sz))
            shape.append(sz.value)
        if ty.value not in NC_SIZE or not (0 < prod(shape) < 100000):
            continue
        esz = NC_SIZE[ty.value]
        b = CBuf(prod(shape) * esz)
        if L.H4_ncvarget(nc, v, (c_long * nd.value)(*([0] * nd.value)), (c_long * nd.value)(*shape), b.ptr) != -1:
            cands = [t for t in TY if struct.calcsize("=" + TY[t][1]) == esz and ((t in ("f32", "f64", "lf32", "lf64")) == (ty.value in (5, 6)))]
            # (the class does not name the type: a short payload can be the formula's under several types;
            #  every reading is listed and the judged listing keeps the one the specification speaks of)
            for t in cands:
                t2, k = recover_sds([t], prod(shape), b.raw())
                e = {"shape": shape, "size": esz, "float": ty.value in (5, 6), "k": k}
                if k > 0 and e not in items:
                    items.append(e)
        b.free()
    L.H4_ncclose(nc)
    return judged(c, items)


# ---------------------------------------------------------------- rasters
@op("Interop", "WriteRas")
def io_writeras(c, a):
    L = c.L
    api, (w, h), nc, comp, pal, il, k = a["api"], a["dims"], a["ncomp"], a["comp"], a["pal"], a["il"], a["k"]
    pix = img(w, h, nc, k)
    data = to_il(pix, w, h, nc, il)
    b = CBuf(len(data), data)
    r = 0
    if api == "DFR8":
        L.DFR8setpalette(pal_bytes(pal) if pal else None)
        if L.DFR8addimage(P(c), b.ptr, w, h, DFTAG_RLE if comp == "rle" else 0) == FAIL:
            r = FAIL
        L.DFR8setpalette(None)
    elif api == "DF24":
        L.DF24setil(il)
        if L.DF24addimage(P(c), b.ptr, w, h) == FAIL:
            r = FAIL
        L.DF24setil(0)
    else:
        fid = L.Hopen(P(c), DFACC_RDWR, 0)
        gr = L.GRstart(fid)
        ri = L.GRcreate(gr, b"img_k%d" % k, nc, DFNT["uint8"], il, i32arr([w, h]))
        if ri == FAIL:
            r = FAIL
        else:
            if comp != "none":
                ci = (c_int32 * 8)()
                ci[0] = 6
                if L.GRsetcompress(ri, COMP_CODE_RLE if comp == "rle" else COMP_CODE_DEFLATE, ci) == FAIL:
                    r = FAIL
            if L.GRwriteimage(ri, i32arr([0, 0]), None, i32arr([w, h]), b.ptr) == FAIL:
                r = FAIL
            if pal:
                lut = L.GRgetlutid(ri, 0)
                if L.GRwritelut(lut, 3, DFNT["uint8"], 0, 256, pal_bytes(pal)) == FAIL:
                    r = FAIL
            if L.GRendaccess(ri) == FAIL:
                r = FAIL
        if L.GRend(gr) == FAIL or L.Hclose(fid) == FAIL:
            r = FAIL
    b.free()
    return {"ret": r}


@op("Interop", "ListRas")
def io_listras(c, a):
    L = c.L
    items = []
    api = a["api"]
    if api == "GR":
        fid = L.Hopen(P(c), DFACC_READ, 0)
        gr = L.GRstart(fid)
        n, na = c_int32(), c_int32()
        L.GRfileinfo(gr, byref(n), byref(na))
        for i in range(n.value):
            ri = L.GRselect(gr, i)
            nm, nc, nt, il, na2 = create_string_buffer(300), c_int32(), c_int32(), c_int32(), c_int32()
            dims = (c_int32 * 2)()
            if ri == FAIL or L.GRgetiminfo(ri, nm, byref(nc), byref(nt), byref(il), dims, byref(na2)) == FAIL:
                continue
            w, h = dims[0], dims[1]
            if nt.value in (21, 3) and 0 < w * h * nc.value < 100000:
                L.GRreqimageil(ri, 0)
                b = CBuf(w * h * nc.value)
                if L.GRreadimage(ri, i32arr([0, 0]), None, i32arr([w, h]), b.ptr) != FAIL:
                    k = recover_img(w, h, nc.value, b.raw())
                    pk = 0
                    lut = L.GRgetlutid(ri, 0)
                    x = [c_int32() for _ in range(4)]
                    if lut != FAIL and L.GRgetlutinfo(lut, byref(x[0]), byref(x[1]), byref(x[2]), byref(x[3])) != FAIL and x[3].value > 0:
                        pb = CBuf(768)
                        L.GRreqlutil(lut, 0)
                        pk = recover_pal(pb.raw()) if L.GRreadlut(lut, pb.ptr) != FAIL else -7778
                        pb.free()
                    if k > 0:
                        items.append({"dims": [w, h], "ncomp": nc.value, "k": k, "pal": pk})
                b.free()
            L.GRendaccess(ri)
        L.GRend(gr)
        L.Hclose(fid)
    elif api == "DFR8":
        L.DFR8restart()
        for _ in range(200):
            w, h, isp = c_int32(), c_int32(), c_int32()
            if L.DFR8getdims(P(c), byref(w), byref(h), byref(isp)) == FAIL:
                break
            if not (0 < w.value * h.value < 100000):
                continue
            b, pb = CBuf(w.value * h.value), CBuf(768)
            if L.DFR8getimage(P(c), b.ptr, w.value, h.value, pb.ptr) != FAIL:
                k = recover_img(w.value, h.value, 1, b.raw())
                # the same image once more, into a buffer that is wider than the image (it is then placed in the
                # upper left corner): the pixels must be the same
                wide = w.value + max(1, w.value // 3)
                L.DFR8readref(P(c), L.DFR8lastref())
                w2, h2, isp2 = c_int32(), c_int32(), c_int32()
                b2 = CBuf(wide * h.value)
                if L.DFR8getdims(P(c), byref(w2), byref(h2), byref(isp2)) != FAIL and L.DFR8getimage(P(c), b2.ptr, wide, h.value, None) != FAIL:
                    raw2 = b2.raw()
                    rows = b"".join(raw2[y * wide:y * wide + w.value] for y in range(h.value))
                    if rows != b.raw():
                        k = -7776
                else:
                    k = -7775
                b2.free()
                if k > 0:
                    items.append({"dims": [w.value, h.value], "ncomp": 1, "k": k, "pal": recover_pal(pb.raw()) if isp.value else 0})
            b.free()
            pb.free()
    else:
        L.DF24restart()
        for _ in range(200):
            w, h, il = c_int32(), c_int32(), c_int32()
            if L.DF24getdims(P(c), byref(w), byref(h), byref(il)) == FAIL:
                break
            if not (0 < w.value * h.value < 100000):
                continue
            L.DF24reqil(0)
            b = CBuf(w.value * h.value * 3)
            if L.DF24getimage(P(c), b.ptr, w.value, h.value) != FAIL:
                k = recover_img(w.value, h.value, 3, b.raw())
                if k > 0:
                    items.append({"dims": [w.value, h.value], "ncomp": 3, "k": k, "pal": 0})
            b.free()
    return judged(c, items)


@op("Interop", "VViews")
def io_vviews(c, a):
    L = c.L
    fid = L.Hopen(P(c), DFACC_READ, 0)
    if fid == FAIL:
        return {"vars": [-1], "images": [-1]}
    L.Vinitialize(fid)
    vars_, images = [], []
    for k in range(1, KMAX):
        for nm, cls, lst in ((b"sds_k%d" % k, b"Var0.0", vars_), (b"nc_k%d" % k, b"Var0.0", vars_), (b"img_k%d" % k, b"RI0.0", images)):
            ref = L.Vfind(fid, nm)
            if ref > 0:
                vg = L.Vattach(fid, ref, b"r")
                if vg != FAIL:
                    cb = create_string_buffer(300)
                    L.Vgetclass(vg, cb)
                    if cb.value == cls:
                        lst.append(k)
                    L.Vdetach(vg)
    L.Vfinish(fid)
    L.Hclose(fid)
    return {"vars": sorted(vars_), "images": sorted(images)}


# ---------------------------------------------------------------- checked-in legacy files
def _sha(b):
    import hashlib
    return hashlib.sha1(b).hexdigest()[:12]


@op("Interop", "Legacy")
def io_legacy(c, a):
    """the same file through the old and the new interfaces (read-only, on a copy)"""
    import shutil
    L = c.L
    h4api.declare_all(L)
    c_int.in_dll(L, "H4_ncopts").value = 0
    src = a["file"]
    p = os.path.join(c.dir, "legacy.hdf")
    shutil.copy(src, p)
    os.chmod(p, 0o644)
    pb = p.encode()
    why = []
    if not L.Hishdf(pb):
        # a netCDF file: only SD can address it
        return {"agree": True, "note": "not an HDF file"}
    # datasets: DFSD vs SD
    L.DFSDrestart()
    old = []
    for _ in range(500):
        rank = c_int32()
        dims = (c_int32 * 32)()
        if L.DFSDgetdims(pb, byref(rank), dims, 32) == FAIL:
            break
        nt = c_int32()
        L.DFSDgetNT(byref(nt))
        shape = list(dims)[:rank.value]
        sz = h4api.DFNT_SIZE.get(nt.value & 0xfff)
        if sz is None or not (0 < prod(shape) * sz < 50000000):
            continue
        b = CBuf(prod(shape) * sz)
        if L.DFSDgetdata(pb, rank.value, dims, b.ptr) != FAIL:
            old.append((tuple(shape), nt.value, _sha(b.raw())))
        b.free()
    new = []
    recvars = []
    sd = L.SDstart(pb, DFACC_READ)
    if sd != FAIL:
        nd, na = c_int32(), c_int32()
        L.SDfileinfo(sd, byref(nd), byref(na))
        for i in range(nd.value):
            s = L.SDselect(sd, i)
            nm, rank, nt, n = create_string_buffer(300), c_int32(), c_int32(), c_int32()
            dims = (c_int32 * 32)()
            if s == FAIL or L.SDgetinfo(s, nm, byref(rank), dims, byref(nt), byref(n)) == FAIL:
                continue
            shape = list(dims)[:rank.value]
            sz = h4api.DFNT_SIZE.get(nt.value & 0xfff)
            if sz and 0 < prod(shape) * sz < 50000000:
                b = CBuf(prod(shape) * sz)
                if L.SDreaddata(s, i32arr([0] * rank.value), None, i32arr(shape), b.ptr) != FAIL:
                    ct = c_int32(0)
                    ci = (c_int32 * 16)()
                    L.SDgetcompinfo(s, byref(ct), ci)
                    cd = h4api.ChunkDef()
                    fl = c_int32(0)
                    L.SDgetchunkinfo(s, byref(cd), byref(fl))
                    emp = c_int32(0)
                    L.SDcheckempty(s, byref(emp))
                    if emp.value:
                        recvars.append((tuple(shape[1:]), nt.value))       # (no data written: nothing to agree on)
                    plain = not L.SDisrecord(s) and ct.value == 0 and fl.value == 0 and not emp.value
                    new.append((tuple(shape), nt.value, _sha(b.raw()), bool(L.SDiscoordvar(s)) or not plain))
                    if L.SDisrecord(s):
                        recvars.append((tuple(shape[1:]), nt.value))
                b.free()
            L.SDendaccess(s)
        L.SDend(sd)
    newset = {(s, t, d) for (s, t, d, cv) in new}
    for e in old:
        # (DFSD does not address unlimited datasets: it presents them with the size in the dimension record)
        if e not in newset and (tuple(e[0][1:]), e[1]) not in recvars:
            why.append("DFSD shows %s which SD does not" % (e,))
    oldset = set(old)
    if old:         # (a file DFSD cannot address at all says nothing)
        for (s, t, d, cv) in new:
            if not cv and (s, t, d) not in oldset:
                why.append("SD shows %s which DFSD does not" % ((s, t, d),))
    # rasters: DFR8 / DF24 vs GR
    legacy_r = []
    L.DFR8restart()
    for _ in range(500):
        w, h, isp = c_int32(), c_int32(), c_int32()
        if L.DFR8getdims(pb, byref(w), byref(h), byref(isp)) == FAIL:
            break
        if not (0 < w.value * h.value < 50000000):
            continue
        b, palb = CBuf(w.value * h.value), CBuf(768)
        if L.DFR8getimage(pb, b.ptr, w.value, h.value, palb.ptr) != FAIL:
            legacy_r.append((w.value, h.value, 1, _sha(b.raw())))
        b.free()
        palb.free()
    L.DF24restart()
    for _ in range(500):
        w, h, il = c_int32(), c_int32(), c_int32()
        if L.DF24getdims(pb, byref(w), byref(h), byref(il)) == FAIL:
            break
        if not (0 < w.value * h.value < 50000000):
            continue
        L.DF24reqil(0)
        b = CBuf(w.value * h.value * 3)
        if L.DF24getimage(pb, b.ptr, w.value, h.value) != FAIL:
            legacy_r.append((w.value, h.value, 3, _sha(b.raw())))
        b.free()
    grs = set()
    lossy = set()
    fid = L.Hopen(pb, DFACC_READ, 0)
    if fid != FAIL:
        gr = L.GRstart(fid)
        n, na = c_int32(), c_int32()
        L.GRfileinfo(gr, byref(n), byref(na))
        for i in range(n.value):
            ri = L.GRselect(gr, i)
            nm, nc, nt, il, na2 = create_string_buffer(300), c_int32(), c_int32(), c_int32(), c_int32()
            dims = (c_int32 * 2)()
            if ri == FAIL or L.GRgetiminfo(ri, nm, byref(nc), byref(nt), byref(il), dims, byref(na2)) == FAIL:
                continue
            sz = h4api.DFNT_SIZE.get(nt.value & 0xfff)
            if sz and 0 < dims[0] * dims[1] * nc.value * sz < 50000000:
                L.GRreqimageil(ri, 0)
                b = CBuf(dims[0] * dims[1] * nc.value * sz)
                ct = c_int32(0)
                ci = (c_int32 * 16)()
                L.GRgetcompinfo(ri, byref(ct), ci)
                if ct.value in (2, 6, 7, 12):        # IMCOMP, JPEG, JPEG5 (greyscale), old JPEG: lossy, excluded
                    lossy.add((dims[0], dims[1], nc.value))
                elif L.GRreadimage(ri, i32arr([0, 0]), None, i32arr([dims[0], dims[1]]), b.ptr) != FAIL:
                    grs.add((dims[0], dims[1], nc.value, _sha(b.raw())))
                b.free()
            L.GRendaccess(ri)
        L.GRend(gr)
        L.Hclose(fid)
    for e in legacy_r:
        if e not in grs and e[:3] not in lossy:
            why.append("DFR8/DF24 shows image %s which GR does not" % (e,))
    o = {"agree": not why, "counts": [len(old), len(new), len(legacy_r), len(grs)]}
    if why:
        o["why"] = why[:6]
    return o
