"""workloads.py -- representative H/V/SD/GR/AN workload programs for the fault (C16), crash (C17),
read-only (C14) and well-formedness (C02) checks.

A workload is a function  w(L, d, rec)  where L is the ctypes library, d the scratch directory and
rec(name, ret, failval) records the API calls whose return value tells the caller about failure
(rec returns ret).  Workloads are deterministic."""
import os, ctypes
from ctypes import byref, c_int32, c_uint16, create_string_buffer
from h4api import *

F = "w.hdf"


def _p(d, name=F):
    return os.path.join(d, name).encode()


# ------------------------------------------------------------------ preparation (pre-populated file)
def prep_mixed(L, d, ndds=4, nelem=3):
    """a file holding low-level elements, a vdata, a vgroup, an SDS with attribute, a GR image, annotations"""
    p = _p(d)
    fid = L.Hopen(p, DFACC_CREATE, ndds)
    for i in range(nelem):
        data = bytes((i * 17 + j) % 256 for j in range(10 + i))
        L.Hputelement(fid, 1000 + i % 2, i + 1, data, len(data))
    L.Vinitialize(fid)
    vs = L.VSattach(fid, -1, b"w")
    L.VSsetname(vs, b"oldvd")
    L.VSfdefine(vs, b"a", DFNT["int16"], 1)
    L.VSfdefine(vs, b"b", DFNT["uint8"], 2)
    L.VSsetfields(vs, b"a,b")
    buf = b"".join(struct.pack(">hBB", k * 3, k, k + 1) for k in range(5))
    L.VSwrite(vs, buf, 5, FULL_INTERLACE)
    vsref = L.VSQueryref(vs)
    L.VSdetach(vs)
    vg = L.Vattach(fid, -1, b"w")
    L.Vsetname(vg, b"oldvg")
    L.Vaddtagref(vg, DFTAG_VH, vsref)
    L.Vaddtagref(vg, 1000, 1)
    L.Vdetach(vg)
    L.Vfinish(fid)
    an = L.ANstart(fid)
    a = L.ANcreatef(an, AN_FILE_LABEL)
    L.ANwriteann(a, b"old file label", 14)
    L.ANendaccess(a)
    a = L.ANcreate(an, 1000, 1, AN_DATA_DESC)
    L.ANwriteann(a, b"desc of 1000/1", 14)
    L.ANendaccess(a)
    L.ANend(an)
    gr = L.GRstart(fid)
    ri = L.GRcreate(gr, b"oldimg", 2, DFNT["uint8"], MFGR_INTERLACE_PIXEL, i32arr([3, 2]))
    L.GRwriteimage(ri, i32arr([0, 0]), None, i32arr([3, 2]), bytes(range(12)))
    L.GRendaccess(ri)
    L.GRend(gr)
    L.Hclose(fid)
    sd = L.SDstart(p, DFACC_RDWR)
    s = L.SDcreate(sd, b"oldsds", DFNT["int32"], 2, i32arr([3, 4]))
    L.SDwritedata(s, i32arr([0, 0]), None, i32arr([3, 4]), pack(24, list(range(100, 112))))
    L.SDsetattr(s, b"units", DFNT["char8"], 3, b"m/s")
    L.SDendaccess(s)
    L.SDend(sd)


def prep_h(L, d, ndds=4, nelem=3):
    p = _p(d)
    fid = L.Hopen(p, DFACC_CREATE, ndds)
    for i in range(nelem):
        data = bytes((i * 17 + j) % 256 for j in range(10 + i))
        L.Hputelement(fid, 1000 + i % 2, i + 1, data, len(data))
    L.Hclose(fid)


import struct


# ------------------------------------------------------------------ append-only sessions (C17)
def sess_h_elements(L, d, rec, n=7, mark=None):
    fid = rec("Hopen", L.Hopen(_p(d), DFACC_RDWR, 0), FAIL)
    for i in range(n):
        data = bytes((i * 31 + j) % 256 for j in range(5 + i))
        rec("Hputelement", L.Hputelement(fid, 2000, 100 + i, data, len(data)), FAIL)
    if mark:
        mark("flush")
    rec("Hclose", L.Hclose(fid), FAIL)


def sess_h_linked(L, d, rec, mark=None):
    """new linked-block element + appends to it (only new objects)"""
    fid = rec("Hopen", L.Hopen(_p(d), DFACC_RDWR, 0), FAIL)
    aid = rec("HLcreate", L.HLcreate(fid, 2001, 1, 8, 2), FAIL)
    for i in range(5):
        rec("Hwrite", L.Hwrite(aid, 7, bytes([i] * 7)), FAIL)
    rec("Hendaccess", L.Hendaccess(aid), FAIL)
    if mark:
        mark("flush")
    rec("Hclose", L.Hclose(fid), FAIL)


def sess_vdata_vgroup(L, d, rec, mark=None, nvd=2):
    fid = rec("Hopen", L.Hopen(_p(d), DFACC_RDWR, 0), FAIL)
    rec("Vstart", L.Vinitialize(fid), FAIL)
    refs = []
    for k in range(nvd):
        vs = rec("VSattach", L.VSattach(fid, -1, b"w"), FAIL)
        rec("VSsetname", L.VSsetname(vs, b"newvd%d" % k), FAIL)
        rec("VSfdefine", L.VSfdefine(vs, b"x", DFNT["int32"], 1), FAIL)
        rec("VSsetfields", L.VSsetfields(vs, b"x"), FAIL)
        buf = b"".join(struct.pack(">i", 1000 * k + j) for j in range(6))
        rec("VSwrite", L.VSwrite(vs, buf, 6, FULL_INTERLACE), FAIL)
        refs.append(L.VSQueryref(vs))
        rec("VSdetach", L.VSdetach(vs), FAIL)
    vg = rec("Vattach", L.Vattach(fid, -1, b"w"), FAIL)
    rec("Vsetname", L.Vsetname(vg, b"newvg"), FAIL)
    for r in refs:
        rec("Vaddtagref", L.Vaddtagref(vg, DFTAG_VH, r), FAIL)
    rec("Vdetach", L.Vdetach(vg), FAIL)
    rec("Vend", L.Vfinish(fid), FAIL)
    if mark:
        mark("flush")
    rec("Hclose", L.Hclose(fid), FAIL)


def sess_new_sds(L, d, rec, mark=None):
    sd = rec("SDstart", L.SDstart(_p(d), DFACC_RDWR), FAIL)
    s = rec("SDcreate", L.SDcreate(sd, b"newsds", DFNT["int16"], 2, i32arr([4, 3])), FAIL)
    rec("SDwritedata", L.SDwritedata(s, i32arr([0, 0]), None, i32arr([4, 3]), pack(22, list(range(12)))), FAIL)
    rec("SDsetattr", L.SDsetattr(s, b"note", DFNT["char8"], 4, b"abcd"), FAIL)
    rec("SDendaccess", L.SDendaccess(s), FAIL)
    if mark:
        mark("flush")
    rec("SDend", L.SDend(sd), FAIL)


def sess_new_image(L, d, rec, mark=None):
    fid = rec("Hopen", L.Hopen(_p(d), DFACC_RDWR, 0), FAIL)
    gr = rec("GRstart", L.GRstart(fid), FAIL)
    ri = rec("GRcreate", L.GRcreate(gr, b"newimg", 3, DFNT["uint8"], MFGR_INTERLACE_PIXEL, i32arr([4, 3])), FAIL)
    rec("GRwriteimage", L.GRwriteimage(ri, i32arr([0, 0]), None, i32arr([4, 3]), bytes(range(36))), FAIL)
    rec("GRendaccess", L.GRendaccess(ri), FAIL)
    if mark:
        mark("flush")
    rec("GRend", L.GRend(gr), FAIL)
    rec("Hclose", L.Hclose(fid), FAIL)


def sess_annotations(L, d, rec, mark=None):
    fid = rec("Hopen", L.Hopen(_p(d), DFACC_RDWR, 0), FAIL)
    an = rec("ANstart", L.ANstart(fid), FAIL)
    a = rec("ANcreatef", L.ANcreatef(an, AN_FILE_DESC), FAIL)
    rec("ANwriteann", L.ANwriteann(a, b"a new file description", 22), FAIL)
    rec("ANendaccess", L.ANendaccess(a), FAIL)
    a = rec("ANcreate", L.ANcreate(an, 1000, 2, AN_DATA_LABEL), FAIL)
    rec("ANwriteann", L.ANwriteann(a, b"label for 1000/2", 16), FAIL)
    rec("ANendaccess", L.ANendaccess(a), FAIL)
    if mark:
        mark("flush")
    rec("ANend", L.ANend(an), FAIL)
    rec("Hclose", L.Hclose(fid), FAIL)


# (name, prepare, session, clause2: also safe at every write boundary INSIDE the flush)
C17_WORKLOADS = [
    ("h_elements_ndds4", lambda L, d: prep_h(L, d, 4, 3), lambda L, d, rec, mark: sess_h_elements(L, d, rec, 7, mark), True),
    ("h_elements_ndds5", lambda L, d: prep_h(L, d, 5, 4), lambda L, d, rec, mark: sess_h_elements(L, d, rec, 12, mark), True),
    ("h_elements_mixed16", lambda L, d: prep_mixed(L, d, 16, 3), lambda L, d, rec, mark: sess_h_elements(L, d, rec, 20, mark), True),
    ("h_linked", lambda L, d: prep_h(L, d, 4, 2), sess_h_linked, True),
    ("vdata_vgroup_ndds4", lambda L, d: prep_mixed(L, d, 4, 2), sess_vdata_vgroup, True),
    ("vdata_vgroup_ndds16", lambda L, d: prep_mixed(L, d, 16, 3), lambda L, d, rec, mark: sess_vdata_vgroup(L, d, rec, mark, 4), True),
    ("new_sds", lambda L, d: prep_mixed(L, d, 16, 3), sess_new_sds, False),
    ("new_image", lambda L, d: prep_mixed(L, d, 16, 3), sess_new_image, False),
    ("annotations", lambda L, d: prep_mixed(L, d, 16, 3), sess_annotations, False),
]


def _mk_h(nd, npre, nnew):
    return ("h_elements_ndds%d_pre%d_new%d" % (nd, npre, nnew), lambda L, d: prep_h(L, d, nd, npre),
            lambda L, d, rec, mark: sess_h_elements(L, d, rec, nnew, mark), True)


def _mk_v(nd, npre, nvd):
    return ("vdata_vgroup_ndds%d_pre%d_nvd%d" % (nd, npre, nvd), lambda L, d: prep_mixed(L, d, nd, npre),
            lambda L, d, rec, mark: sess_vdata_vgroup(L, d, rec, mark, nvd), True)


C17_WORKLOADS_THOROUGH = list(C17_WORKLOADS)
for _nd in range(4, 17):
    for _npre, _nnew in ((1, 3), (_nd - 1, 2), (_nd, _nd + 1), (3, 2 * _nd + 3), (2, 40)):
        C17_WORKLOADS_THOROUGH.append(_mk_h(_nd, _npre, _nnew))
for _nd in (4, 5, 6, 7, 9, 16):
    for _nvd in (1, 3, 6):
        C17_WORKLOADS_THOROUGH.append(_mk_v(_nd, 2, _nvd))


# ------------------------------------------------------------------ C16 workloads: (name, setup|None, body)
def w_h_create(L, d, rec):
    fid = rec("Hopen", L.Hopen(_p(d), DFACC_CREATE, 4), FAIL)
    if fid == FAIL:
        return
    for i in range(6):
        data = bytes((i * 31 + j) % 256 for j in range(5 + i))
        rec("Hputelement", L.Hputelement(fid, 2000, 100 + i, data, len(data)), FAIL)
    rec("Hclose", L.Hclose(fid), FAIL)


def w_h_linked_rw(L, d, rec):
    fid = rec("Hopen", L.Hopen(_p(d), DFACC_CREATE, 5), FAIL)
    if fid == FAIL:
        return
    aid = rec("HLcreate", L.HLcreate(fid, 2001, 1, 8, 2), FAIL)
    if aid != FAIL:
        for i in range(5):
            rec("Hwrite", L.Hwrite(aid, 7, bytes([i + 1] * 7)), FAIL)
        rec("Hseek", L.Hseek(aid, 3, 0), FAIL)
        b = CBuf(20)
        r = rec("Hread", L.Hread(aid, 20, b.ptr), FAIL)
        rec.data("Hread.data", b.raw(max(r, 0)))
        b.free()
        rec("Hendaccess", L.Hendaccess(aid), FAIL)
    rec("Hclose", L.Hclose(fid), FAIL)


def w_h_extend(L, d, rec):
    sess_h_elements(L, d, rec, 7, None)


def w_vdata_vgroup(L, d, rec):
    fid = rec("Hopen", L.Hopen(_p(d), DFACC_CREATE, 0), FAIL)
    if fid == FAIL:
        return
    L.Hclose(fid) if False else None
    rec("Hclose0", L.Hclose(fid), FAIL)
    sess_vdata_vgroup(L, d, rec, None, 2)


def w_vdata_read(L, d, rec):
    fid = rec("Hopen", L.Hopen(_p(d), DFACC_READ, 0), FAIL)
    if fid == FAIL:
        return
    rec("Vstart", L.Vinitialize(fid), FAIL)
    ref = L.VSfind(fid, b"oldvd")
    vs = rec("VSattach", L.VSattach(fid, ref, b"r"), FAIL)
    if vs != FAIL:
        rec("VSsetfields", L.VSsetfields(vs, b"a,b"), FAIL)
        b = CBuf(20)
        r = rec("VSread", L.VSread(vs, b.ptr, 5, FULL_INTERLACE), FAIL)
        rec.data("VSread.data", b.raw(20) if r == 5 else b"")
        b.free()
        rec("VSdetach", L.VSdetach(vs), FAIL)
    rec("Vend", L.Vfinish(fid), FAIL)
    rec("Hclose", L.Hclose(fid), FAIL)


def w_sd_create(L, d, rec):
    sd = rec("SDstart", L.SDstart(_p(d), DFACC_CREATE), FAIL)
    if sd == FAIL:
        return
    s = rec("SDcreate", L.SDcreate(sd, b"t", DFNT["int32"], 2, i32arr([3, 4])), FAIL)
    if s != FAIL:
        rec("SDwritedata", L.SDwritedata(s, i32arr([0, 0]), None, i32arr([3, 4]), pack(24, list(range(12)))), FAIL)
        rec("SDsetattr", L.SDsetattr(s, b"units", DFNT["char8"], 3, b"m/s"), FAIL)
        rec("SDendaccess", L.SDendaccess(s), FAIL)
    rec("SDend", L.SDend(sd), FAIL)


def w_sd_read(L, d, rec):
    sd = rec("SDstart", L.SDstart(_p(d), DFACC_READ), FAIL)
    if sd == FAIL:
        return
    idx = rec("SDnametoindex", L.SDnametoindex(sd, b"oldsds"), FAIL)
    s = rec("SDselect", L.SDselect(sd, max(idx, 0)), FAIL)
    if s != FAIL:
        b = CBuf(48)
        r = rec("SDreaddata", L.SDreaddata(s, i32arr([0, 0]), None, i32arr([3, 4]), b.ptr), FAIL)
        rec.data("SDreaddata.data", b.raw(48) if r != FAIL else b"")
        b.free()
        rec("SDendaccess", L.SDendaccess(s), FAIL)
    rec("SDend", L.SDend(sd), FAIL)


def w_sd_unlimited_append(L, d, rec):
    sd = rec("SDstart", L.SDstart(_p(d), DFACC_CREATE), FAIL)
    if sd == FAIL:
        return
    s = rec("SDcreate", L.SDcreate(sd, b"u", DFNT["int16"], 2, i32arr([SD_UNLIMITED, 3])), FAIL)
    if s != FAIL:
        rec("SDwritedata", L.SDwritedata(s, i32arr([0, 0]), None, i32arr([2, 3]), pack(22, list(range(6)))), FAIL)
        rec("SDwritedata", L.SDwritedata(s, i32arr([4, 0]), None, i32arr([1, 3]), pack(22, [7, 8, 9])), FAIL)
        rec("SDendaccess", L.SDendaccess(s), FAIL)
    rec("SDend", L.SDend(sd), FAIL)


def w_sd_chunked_deflate(L, d, rec):
    sd = rec("SDstart", L.SDstart(_p(d), DFACC_CREATE), FAIL)
    if sd == FAIL:
        return
    s = rec("SDcreate", L.SDcreate(sd, b"c", DFNT["int32"], 2, i32arr([5, 4])), FAIL)
    if s != FAIL:
        rec("SDsetchunk", L.SDsetchunk(s, chunkdef([2, 3], COMP_CODE_DEFLATE, 6), HDF_COMP), FAIL)
        rec("SDsetchunkcache", L.SDsetchunkcache(s, 2, 0), FAIL)
        rec("SDwritedata", L.SDwritedata(s, i32arr([0, 0]), None, i32arr([5, 4]), pack(24, list(range(20)))), FAIL)
        rec("SDendaccess", L.SDendaccess(s), FAIL)
    rec("SDend", L.SDend(sd), FAIL)


def w_gr_create(L, d, rec):
    fid = rec("Hopen", L.Hopen(_p(d), DFACC_CREATE, 0), FAIL)
    if fid == FAIL:
        return
    gr = rec("GRstart", L.GRstart(fid), FAIL)
    if gr != FAIL:
        ri = rec("GRcreate", L.GRcreate(gr, b"img", 3, DFNT["uint8"], MFGR_INTERLACE_PIXEL, i32arr([4, 3])), FAIL)
        if ri != FAIL:
            rec("GRwriteimage", L.GRwriteimage(ri, i32arr([0, 0]), None, i32arr([4, 3]), bytes(range(36))), FAIL)
            pal = rec("GRgetlutid", L.GRgetlutid(ri, 0), FAIL)
            if pal != FAIL:
                rec("GRwritelut", L.GRwritelut(pal, 3, DFNT["uint8"], 0, 256, bytes(range(256)) * 3), FAIL)
            rec("GRendaccess", L.GRendaccess(ri), FAIL)
        rec("GRend", L.GRend(gr), FAIL)
    rec("Hclose", L.Hclose(fid), FAIL)


def w_an_create(L, d, rec):
    fid = rec("Hopen", L.Hopen(_p(d), DFACC_CREATE, 0), FAIL)
    if fid == FAIL:
        return
    rec("Hputelement", L.Hputelement(fid, 1000, 2, b"xyz", 3), FAIL)
    rec("Hclose0", L.Hclose(fid), FAIL)
    sess_annotations(L, d, rec, None)


def w_h_external(L, d, rec):
    fid = rec("Hopen", L.Hopen(_p(d), DFACC_CREATE, 0), FAIL)
    if fid == FAIL:
        return
    aid = rec("HXcreate", L.HXcreate(fid, 2002, 1, b"ext.dat", 0, 0), FAIL)
    if aid != FAIL:
        rec("Hwrite", L.Hwrite(aid, 9, b"123456789"), FAIL)
        rec("Hendaccess", L.Hendaccess(aid), FAIL)
    rec("Hclose", L.Hclose(fid), FAIL)


C16_WORKLOADS = [
    ("h_create", None, w_h_create, True),
    ("h_linked_rw", None, w_h_linked_rw, True),
    ("h_extend", lambda L, d: prep_h(L, d, 4, 3), w_h_extend, True),
    ("vdata_vgroup", None, w_vdata_vgroup, True),
    ("sd_create", None, w_sd_create, True),
    ("sd_read", lambda L, d: prep_mixed(L, d, 16, 3), w_sd_read, True),
    ("vdata_read", lambda L, d: prep_mixed(L, d, 16, 3), w_vdata_read, False),
    ("sd_unlimited_append", None, w_sd_unlimited_append, False),
    ("sd_chunked_deflate", None, w_sd_chunked_deflate, False),
    ("gr_create", None, w_gr_create, False),
    ("an_create", None, w_an_create, False),
    ("h_external", None, w_h_external, False),
    ("new_sds_in_mixed", lambda L, d: prep_mixed(L, d, 16, 3), lambda L, d, rec: sess_new_sds(L, d, rec, None), False),
    ("new_image_in_mixed", lambda L, d: prep_mixed(L, d, 16, 3), lambda L, d, rec: sess_new_image(L, d, rec, None), False),
]


# ---- pre-populated files whose LAST thing is a descriptor block / whose refs have wrapped (C17)
def prep_h_dup_tail(L, d, ndds=4):
    """two sessions: the second fills the first DD block exactly and then creates a DD (Hdupdd: no data)
    that needs a new DD block, which is then the last thing in the file"""
    p = _p(d)
    fid = L.Hopen(p, DFACC_CREATE, ndds)
    L.Hputelement(fid, 1000, 1, b"first element", 13)
    L.Hclose(fid)                      # writes the version element: 2 DDs used
    fid = L.Hopen(p, DFACC_RDWR, 0)
    for i in range(ndds - 2):
        L.Hputelement(fid, 1000, 2 + i, bytes([65 + i] * (6 + i)), 6 + i)
    L.Hdupdd(fid, 1001, 1, 1000, 1)     # first DD block is full: new block, nothing after it
    L.Hclose(fid)


def prep_refs_wrapped(L, d, ndds=16):
    """ref 65535 in use (Hnewref has to search) and low refs NOT in ascending order in the DD list:
    DD order becomes (30,1), (1001,65535), VS 3, VH 3, (1000,2), ... so ref 2 sits after the old vdata's ref 3"""
    p = _p(d)
    fid = L.Hopen(p, DFACC_CREATE, ndds)
    L.Hputelement(fid, 1000, 2, b"temp", 4)
    L.Vinitialize(fid)
    vs = L.VSattach(fid, -1, b"w")          # ref 3
    L.VSsetname(vs, b"oldvd")
    L.VSfdefine(vs, b"a", DFNT["int16"], 1)
    L.VSsetfields(vs, b"a")
    L.VSwrite(vs, struct.pack(">hhh", 7, 8, 9), 3, FULL_INTERLACE)
    L.VSdetach(vs)
    L.Vfinish(fid)
    L.Hdeldd(fid, 1000, 2)
    L.Hputelement(fid, 1001, 65535, b"top", 3)      # takes the freed first slot
    L.Hputelement(fid, 1000, 2, b"second", 6)       # next free slot: after the vdata's DDs
    L.Hputelement(fid, 1000, 4, b"fourth", 6)
    L.Hclose(fid)


C17_EXTRA = []
for _nd in (4, 5, 8):
    C17_EXTRA.append(("h_elements_after_dd_tail_ndds%d" % _nd, (lambda nd: (lambda L, d: prep_h_dup_tail(L, d, nd)))(_nd),
                      lambda L, d, rec, mark: sess_h_elements(L, d, rec, 5, mark), True))
C17_EXTRA.append(("vdata_vgroup_refs_wrapped", prep_refs_wrapped, lambda L, d, rec, mark: sess_vdata_vgroup(L, d, rec, mark, 3), True))
C17_EXTRA.append(("h_elements_refs_wrapped", prep_refs_wrapped, lambda L, d, rec, mark: sess_h_elements(L, d, rec, 4, mark), True))
C17_WORKLOADS += C17_EXTRA
C17_WORKLOADS_THOROUGH += C17_EXTRA
