"""workloads.py -- representative H/V/SD/GR/AN workload programs for the fault (C16), crash (C17),
read-only (C14) and well-formedness (C02) checks.

A workload is a function  w(L, d, rec)  where L is the ctypes library, d the scratch directory and
rec(name, ret, failval) records the API calls whose return value tells the caller about failure
(rec returns ret).  Workloads are deterministic."""
import os, ctypes
from ctypes import byref, c_int32, c_uint16, create_string_buffer
from h4api import *

F = "w.hdf"


def _p(d, name=F):
    # relative when the caller already sits in d: the SD interface stores the path it was given in the file
    # (name of the CDF vgroup), and runs that are compared byte for byte must not differ by their scratch directory
    try:
        if os.path.realpath(os.getcwd()) == os.path.realpath(d):
            return name.encode()
    except OSError:
        pass
    return os.path.join(d, name).encode()


# ------------------------------------------------------------------ preparation (pre-populated file)
def prep_mixed(L, d, ndds=4, nelem=3):
    """a file holding low-level elements, a vdata, a vgroup, an SDS with attribute, a GR image, annotations"""
    p = _p(d)
    fid = L.Hopen(p, DFACC_CREATE, ndds)
    for i in range(nelem):
        data = bytes((i * 17 + j) % 256 for j in range(10 + i))
        L.Hputelement(fid, 1000 + i % 2, i + 1, data, len(data))
    L.Vinitialize(fid)
    vs = L.VSattach(fid, -1, b"w")
    L.VSsetname(vs, b"oldvd")
    L.VSfdefine(vs, b"a", DFNT["int16"], 1)
    L.VSfdefine(vs, b"b", DFNT["uint8"], 2)
    L.VSsetfields(vs, b"a,b")
    buf = b"".join(struct.pack(">hBB", k * 3, k, k + 1) for k in range(5))
    L.VSwrite(vs, buf, 5, FULL_INTERLACE)
    vsref = L.VSQueryref(vs)
    L.VSdetach(vs)
    vg = L.Vattach(fid, -1, b"w")
    L.Vsetname(vg, b"oldvg")
    L.Vaddtagref(vg, DFTAG_VH, vsref)
    L.Vaddtagref(vg, 1000, 1)
    L.Vdetach(vg)
    L.Vfinish(fid)
    an = L.ANstart(fid)
    a = L.ANcreatef(an, AN_FILE_LABEL)
    L.ANwriteann(a, b"old file label", 14)
    L.ANendaccess(a)
    a = L.ANcreate(an, 1000, 1, AN_DATA_DESC)
    L.ANwriteann(a, b"desc of 1000/1", 14)
    L.ANendaccess(a)
    L.ANend(an)
    gr = L.GRstart(fid)
    ri = L.GRcreate(gr, b"oldimg", 2, DFNT["uint8"], MFGR_INTERLACE_PIXEL, i32arr([3, 2]))
    L.GRwriteimage(ri, i32arr([0, 0]), None, i32arr([3, 2]), bytes(range(12)))
    L.GRendaccess(ri)
    L.GRend(gr)
    L.Hclose(fid)
    sd = L.SDstart(p, DFACC_RDWR)
    s = L.SDcreate(sd, b"oldsds", DFNT["int32"], 2, i32arr([3, 4]))
    L.SDwritedata(s, i32arr([0, 0]), None, i32arr([3, 4]), pack(24, list(range(100, 112))))
    L.SDsetattr(s, b"units", DFNT["char8"], 3, b"m/s")
    L.SDendaccess(s)
    L.SDend(sd)


def prep_h(L, d, ndds=4, nelem=3):
    p = _p(d)
    fid = L.Hopen(p, DFACC_CREATE, ndds)
    for i in range(nelem):
        data = bytes((i * 17 + j) % 256 for j in range(10 + i))
        L.Hputelement(fid, 1000 + i % 2, i + 1, data, len(data))
    L.Hclose(fid)


import struct


# ------------------------------------------------------------------ append-only sessions (C17)
def sess_h_elements(L, d, rec, n=7, mark=None):
    fid = rec("Hopen", L.Hopen(_p(d), DFACC_RDWR, 0), FAIL)
    for i in range(n):
        data = bytes((i * 31 + j) % 256 for j in range(5 + i))
        rec("Hputelement", L.Hputelement(fid, 2000, 100 + i, data, len(data)), FAIL)
    if mark:
        mark("flush")
    rec("Hclose", L.Hclose(fid), FAIL)


def sess_h_linked(L, d, rec, mark=None):
    """new linked-block element + appends to it (only new objects)"""
    fid = rec("Hopen", L.Hopen(_p(d), DFACC_RDWR, 0), FAIL)
    aid = rec("HLcreate", L.HLcreate(fid, 2001, 1, 8, 2), FAIL)
    for i in range(5):
        rec("Hwrite", L.Hwrite(aid, 7, bytes([i] * 7)), FAIL)
    rec("Hendaccess", L.Hendaccess(aid), FAIL)
    if mark:
        mark("flush")
    rec("Hclose", L.Hclose(fid), FAIL)


def sess_vdata_vgroup(L, d, rec, mark=None, nvd=2):
    fid = rec("Hopen", L.Hopen(_p(d), DFACC_RDWR, 0), FAIL)
    rec("Vstart", L.Vinitialize(fid), FAIL)
    refs = []
    for k in range(nvd):
        vs = rec("VSattach", L.VSattach(fid, -1, b"w"), FAIL)
        rec("VSsetname", L.VSsetname(vs, b"newvd%d" % k), FAIL)
        rec("VSfdefine", L.VSfdefine(vs, b"x", DFNT["int32"], 1), FAIL)
        rec("VSsetfields", L.VSsetfields(vs, b"x"), FAIL)
        buf = b"".join(struct.pack(">i", 1000 * k + j) for j in range(6))
        rec("VSwrite", L.VSwrite(vs, buf, 6, FULL_INTERLACE), FAIL)
        refs.append(L.VSQueryref(vs))
        rec("VSdetach", L.VSdetach(vs), FAIL)
    vg = rec("Vattach", L.Vattach(fid, -1, b"w"), FAIL)
    rec("Vsetname", L.Vsetname(vg, b"newvg"), FAIL)
    for r in refs:
        rec("Vaddtagref", L.Vaddtagref(vg, DFTAG_VH, r), FAIL)
    rec("Vdetach", L.Vdetach(vg), FAIL)
    rec("Vend", L.Vfinish(fid), FAIL)
    if mark:
        mark("flush")
    rec("Hclose", L.Hclose(fid), FAIL)


def sess_new_sds(L, d, rec, mark=None):
    sd = rec("SDstart", L.SDstart(_p(d), DFACC_RDWR), FAIL)
    s = rec("SDcreate", L.SDcreate(sd, b"newsds", DFNT["int16"], 2, i32arr([4, 3])), FAIL)
    rec("SDwritedata", L.SDwritedata(s, i32arr([0, 0]), None, i32arr([4, 3]), pack(22, list(range(12)))), FAIL)
    rec("SDsetattr", L.SDsetattr(s, b"note", DFNT["char8"], 4, b"abcd"), FAIL)
    rec("SDendaccess", L.SDendaccess(s), FAIL)
    if mark:
        mark("flush")
    rec("SDend", L.SDend(sd), FAIL)


def sess_new_image(L, d, rec, mark=None):
    fid = rec("Hopen", L.Hopen(_p(d), DFACC_RDWR, 0), FAIL)
    gr = rec("GRstart", L.GRstart(fid), FAIL)
    ri = rec("GRcreate", L.GRcreate(gr, b"newimg", 3, DFNT["uint8"], MFGR_INTERLACE_PIXEL, i32arr([4, 3])), FAIL)
    rec("GRwriteimage", L.GRwriteimage(ri, i32arr([0, 0]), None, i32arr([4, 3]), bytes(range(36))), FAIL)
    rec("GRendaccess", L.GRendaccess(ri), FAIL)
    if mark:
        mark("flush")
    rec("GRend", L.GRend(gr), FAIL)
    rec("Hclose", L.Hclose(fid), FAIL)


def sess_annotations(L, d, rec, mark=None):
    fid = rec("Hopen", L.Hopen(_p(d), DFACC_RDWR, 0), FAIL)
    an = rec("ANstart", L.ANstart(fid), FAIL)
    a = rec("ANcreatef", L.ANcreatef(an, AN_FILE_DESC), FAIL)
    rec("ANwriteann", L.ANwriteann(a, b"a new file description", 22), FAIL)
    rec("ANendaccess", L.ANendaccess(a), FAIL)
    a = rec("ANcreate", L.ANcreate(an, 1000, 2, AN_DATA_LABEL), FAIL)
    rec("ANwriteann", L.ANwriteann(a, b"label for 1000/2", 16), FAIL)
    rec("ANendaccess", L.ANendaccess(a), FAIL)
    if mark:
        mark("flush")
    rec("ANend", L.ANend(an), FAIL)
    rec("Hclose", L.Hclose(fid), FAIL)


# (name, prepare, session, clause2: also safe at every write boundary INSIDE the flush)
C17_WORKLOADS = [
    ("h_elements_ndds4", lambda L, d: prep_h(L, d, 4, 3), lambda L, d, rec, mark: sess_h_elements(L, d, rec, 7, mark), True),
    ("h_elements_ndds5", lambda L, d: prep_h(L, d, 5, 4), lambda L, d, rec, mark: sess_h_elements(L, d, rec, 12, mark), True),
    ("h_elements_mixed16", lambda L, d: prep_mixed(L, d, 16, 3), lambda L, d, rec, mark: sess_h_elements(L, d, rec, 20, mark), True),
    ("h_linked", lambda L, d: prep_h(L, d, 4, 2), sess_h_linked, True),
    ("vdata_vgroup_ndds4", lambda L, d: prep_mixed(L, d, 4, 2), sess_vdata_vgroup, True),
    ("vdata_vgroup_ndds16", lambda L, d: prep_mixed(L, d, 16, 3), lambda L, d, rec, mark: sess_vdata_vgroup(L, d, rec, mark, 4), True),
    ("new_sds", lambda L, d: prep_mixed(L, d, 16, 3), sess_new_sds, False),
    ("new_image", lambda L, d: prep_mixed(L, d, 16, 3), sess_new_image, False),
    ("annotations", lambda L, d: prep_mixed(L, d, 16, 3), sess_annotations, False),
]


def _mk_h(nd, npre, nnew):
    return ("h_elements_ndds%d_pre%d_new%d" % (nd, npre, nnew), lambda L, d: prep_h(L, d, nd, npre),
            lambda L, d, rec, mark: sess_h_elements(L, d, rec, nnew, mark), True)


def _mk_v(nd, npre, nvd):
    return ("vdata_vgroup_ndds%d_pre%d_nvd%d" % (nd, npre, nvd), lambda L, d: prep_mixed(L, d, nd, npre),
            lambda L, d, rec, mark: sess_vdata_vgroup(L, d, rec, mark, nvd), True)


C17_WORKLOADS_THOROUGH = list(C17_WORKLOADS)
for _nd in range(4, 17):
    for _npre, _nnew in ((1, 3), (_nd - 1, 2), (_nd, _nd + 1), (3, 2 * _nd + 3), (2, 40)):
        C17_WORKLOADS_THOROUGH.append(_mk_h(_nd, _npre, _nnew))
for _nd in (4, 5, 6, 7, 9, 16):
    for _nvd in (1, 3, 6):
        C17_WORKLOADS_THOROUGH.append(_mk_v(_nd, 2, _nvd))


# ------------------------------------------------------------------ C16 workloads: (name, setup|None, body)
def w_h_create(L, d, rec):
    fid = rec("Hopen", L.Hopen(_p(d), DFACC_CREATE, 4), FAIL)
    if fid == FAIL:
        return
    for i in range(6):
        data = bytes((i * 31 + j) % 256 for j in range(5 + i))
        rec("Hputelement", L.Hputelement(fid, 2000, 100 + i, data, len(data)), FAIL)
    rec("Hclose", L.Hclose(fid), FAIL)


def w_h_linked_rw(L, d, rec):
    fid = rec("Hopen", L.Hopen(_p(d), DFACC_CREATE, 5), FAIL)
    if fid == FAIL:
        return
    aid = rec("HLcreate", L.HLcreate(fid, 2001, 1, 8, 2), FAIL)
    if aid != FAIL:
        for i in range(5):
            rec("Hwrite", L.Hwrite(aid, 7, bytes([i + 1] * 7)), FAIL)
        rec("Hseek", L.Hseek(aid, 3, 0), FAIL)
        b = CBuf(20)
        r = rec("Hread", L.Hread(aid, 20, b.ptr), FAIL)
        rec.data("Hread.data", b.raw(max(r, 0)))
        b.free()
        rec("Hendaccess", L.Hendaccess(aid), FAIL)
    rec("Hclose", L.Hclose(fid), FAIL)


def w_h_extend(L, d, rec):
    sess_h_elements(L, d, rec, 7, None)


def w_vdata_vgroup(L, d, rec):
    fid = rec("Hopen", L.Hopen(_p(d), DFACC_CREATE, 0), FAIL)
    if fid == FAIL:
        return
    L.Hclose(fid) if False else None
    rec("Hclose0", L.Hclose(fid), FAIL)
    sess_vdata_vgroup(L, d, rec, None, 2)


def w_vdata_read(L, d, rec):
    fid = rec("Hopen", L.Hopen(_p(d), DFACC_READ, 0), FAIL)
    if fid == FAIL:
        return
    rec("Vstart", L.Vinitialize(fid), FAIL)
    ref = L.VSfind(fid, b"oldvd")
    vs = rec("VSattach", L.VSattach(fid, ref, b"r"), FAIL)
    if vs != FAIL:
        rec("VSsetfields", L.VSsetfields(vs, b"a,b"), FAIL)
        b = CBuf(20)
        r = rec("VSread", L.VSread(vs, b.ptr, 5, FULL_INTERLACE), FAIL)
        rec.data("VSread.data", b.raw(20) if r == 5 else b"")
        b.free()
        rec("VSdetach", L.VSdetach(vs), FAIL)
    rec("Vend", L.Vfinish(fid), FAIL)
    rec("Hclose", L.Hclose(fid), FAIL)


def w_sd_create(L, d, rec):
    sd = rec("SDstart", L.SDstart(_p(d), DFACC_CREATE), FAIL)
    if sd == FAIL:
        return
    s = rec("SDcreate", L.SDcreate(sd, b"t", DFNT["int32"], 2, i32arr([3, 4])), FAIL)
    if s != FAIL:
        rec("SDwritedata", L.SDwritedata(s, i32arr([0, 0]), None, i32arr([3, 4]), pack(24, list(range(12)))), FAIL)
        rec("SDsetattr", L.SDsetattr(s, b"units", DFNT["char8"], 3, b"m/s"), FAIL)
        rec("SDendaccess", L.SDendaccess(s), FAIL)
    rec("SDend", L.SDend(sd), FAIL)


def w_sd_read(L, d, rec):
    sd = rec("SDstart", L.SDstart(_p(d), DFACC_READ), FAIL)
    if sd == FAIL:
        return
    idx = rec("SDnametoindex", L.SDnametoindex(sd, b"oldsds"), FAIL)
    s = rec("SDselect", L.SDselect(sd, max(idx, 0)), FAIL)
    if s != FAIL:
        b = CBuf(48)
        r = rec("SDreaddata", L.SDreaddata(s, i32arr([0, 0]), None, i32arr([3, 4]), b.ptr), FAIL)
        rec.data("SDreaddata.data", b.raw(48) if r != FAIL else b"")
        b.free()
        rec("SDendaccess", L.SDendaccess(s), FAIL)
    rec("SDend", L.SDend(sd), FAIL)


def w_sd_unlimited_append(L, d, rec):
    sd = rec("SDstart", L.SDstart(_p(d), DFACC_CREATE), FAIL)
    if sd == FAIL:
        return
    s = rec("SDcreate", L.SDcreate(sd, b"u", DFNT["int16"], 2, i32arr([SD_UNLIMITED, 3])), FAIL)
    if s != FAIL:
        rec("SDwritedata", L.SDwritedata(s, i32arr([0, 0]), None, i32arr([2, 3]), pack(22, list(range(6)))), FAIL)
        rec("SDwritedata", L.SDwritedata(s, i32arr([4, 0]), None, i32arr([1, 3]), pack(22, [7, 8, 9])), FAIL)
        rec("SDendaccess", L.SDendaccess(s), FAIL)
    rec("SDend", L.SDend(sd), FAIL)


def w_sd_chunked_deflate(L, d, rec):
    sd = rec("SDstart", L.SDstart(_p(d), DFACC_CREATE), FAIL)
    if sd == FAIL:
        return
    s = rec("SDcreate", L.SDcreate(sd, b"c", DFNT["int32"], 2, i32arr([5, 4])), FAIL)
    if s != FAIL:
        rec("SDsetchunk", L.SDsetchunk(s, chunkdef([2, 3], COMP_CODE_DEFLATE, 6), HDF_COMP), FAIL)
        rec("SDsetchunkcache", L.SDsetchunkcache(s, 2, 0), FAIL)
        rec("SDwritedata", L.SDwritedata(s, i32arr([0, 0]), None, i32arr([5, 4]), pack(24, list(range(20)))), FAIL)
        rec("SDendaccess", L.SDendaccess(s), FAIL)
    rec("SDend", L.SDend(sd), FAIL)


def w_gr_create(L, d, rec):
    fid = rec("Hopen", L.Hopen(_p(d), DFACC_CREATE, 0), FAIL)
    if fid == FAIL:
        return
    gr = rec("GRstart", L.GRstart(fid), FAIL)
    if gr != FAIL:
        ri = rec("GRcreate", L.GRcreate(gr, b"img", 3, DFNT["uint8"], MFGR_INTERLACE_PIXEL, i32arr([4, 3])), FAIL)
        if ri != FAIL:
            rec("GRwriteimage", L.GRwriteimage(ri, i32arr([0, 0]), None, i32arr([4, 3]), bytes(range(36))), FAIL)
            pal = rec("GRgetlutid", L.GRgetlutid(ri, 0), FAIL)
            if pal != FAIL:
                rec("GRwritelut", L.GRwritelut(pal, 3, DFNT["uint8"], 0, 256, bytes(range(256)) * 3), FAIL)
            rec("GRendaccess", L.GRendaccess(ri), FAIL)
        rec("GRend", L.GRend(gr), FAIL)
    rec("Hclose", L.Hclose(fid), FAIL)


def w_an_create(L, d, rec):
    fid = rec("Hopen", L.Hopen(_p(d), DFACC_CREATE, 0), FAIL)
    if fid == FAIL:
        return
    rec("Hputelement", L.Hputelement(fid, 1000, 2, b"xyz", 3), FAIL)
    rec("Hclose0", L.Hclose(fid), FAIL)
    sess_annotations(L, d, rec, None)


def w_h_external(L, d, rec):
    fid = rec("Hopen", L.Hopen(_p(d), DFACC_CREATE, 0), FAIL)
    if fid == FAIL:
        return
    aid = rec("HXcreate", L.HXcreate(fid, 2002, 1, b"ext.dat", 0, 0), FAIL)
    if aid != FAIL:
        rec("Hwrite", L.Hwrite(aid, 9, b"123456789"), FAIL)
        rec("Hendaccess", L.Hendaccess(aid), FAIL)
    rec("Hclose", L.Hclose(fid), FAIL)


def w_h_external_more(L, d, rec):
    """an external element that the workload keeps using whatever the calls report: several writes, a seek, a read,
    a write in the middle; then a second session on the stored element"""
    fid = rec("Hopen", L.Hopen(_p(d), DFACC_CREATE, 0), FAIL)
    if fid == FAIL:
        return
    aid = rec("HXcreate", L.HXcreate(fid, 2002, 1, b"extm.dat", 7, 0), FAIL)
    if aid != FAIL:
        rec("Hwrite", L.Hwrite(aid, 9, b"123456789"), FAIL)
        rec("Hwrite", L.Hwrite(aid, 9, b"abcdefghi"), FAIL)
        rec("Hseek", L.Hseek(aid, 3, 0), FAIL)
        b = CBuf(4)
        rec("Hread", L.Hread(aid, 4, b.ptr), FAIL)
        b.free()
        rec("Hwrite", L.Hwrite(aid, 5, b"VWXYZ"), FAIL)
        rec("Hendaccess", L.Hendaccess(aid), FAIL)
    rec("Hclose", L.Hclose(fid), FAIL)
    fid = rec("Hopen", L.Hopen(_p(d), DFACC_RDWR, 0), FAIL)
    if fid == FAIL:
        return
    aid = rec("Hstartwrite", L.Hstartwrite(fid, 2002, 1, 0), FAIL)
    if aid != FAIL:
        b = CBuf(6)
        rec("Hread", L.Hread(aid, 6, b.ptr), FAIL)
        b.free()
        rec("Hwrite", L.Hwrite(aid, 4, b"mnop"), FAIL)
        rec("Hwrite", L.Hwrite(aid, 4, b"qrst"), FAIL)
        rec("Hendaccess", L.Hendaccess(aid), FAIL)
    rec("Hclose", L.Hclose(fid), FAIL)


C16_WORKLOADS = [
    ("h_create", None, w_h_create, True),
    ("h_linked_rw", None, w_h_linked_rw, True),
    ("h_extend", lambda L, d: prep_h(L, d, 4, 3), w_h_extend, True),
    ("vdata_vgroup", None, w_vdata_vgroup, True),
    ("sd_create", None, w_sd_create, True),
    ("sd_read", lambda L, d: prep_mixed(L, d, 16, 3), w_sd_read, True),
    ("vdata_read", lambda L, d: prep_mixed(L, d, 16, 3), w_vdata_read, False),
    ("sd_unlimited_append", None, w_sd_unlimited_append, False),
    ("sd_chunked_deflate", None, w_sd_chunked_deflate, False),
    ("gr_create", None, w_gr_create, False),
    ("an_create", None, w_an_create, False),
    ("h_external", None, w_h_external, False),
    ("h_external_more", None, w_h_external_more, False),
    ("new_sds_in_mixed", lambda L, d: prep_mixed(L, d, 16, 3), lambda L, d, rec: sess_new_sds(L, d, rec, None), False),
    ("new_image_in_mixed", lambda L, d: prep_mixed(L, d, 16, 3), lambda L, d, rec: sess_new_image(L, d, rec, None), False),
]


# ---- further C16 workloads: paths that are only taken with DD caching off, across linked blocks, through the
#      compression layers, through external SDS files, and in read/modify sessions on a file with everything in it
def w_h_nocache(L, d, rec):
    fid = rec("Hopen", L.Hopen(_p(d), DFACC_CREATE, 4), FAIL)
    if fid == FAIL:
        return
    rec("Hcache", L.Hcache(fid, 0), FAIL)
    for i in range(11):                       # 4 DDs per block: several new DD blocks are chained in, uncached
        data = bytes((i * 13 + j) % 256 for j in range(6 + i))
        rec("Hputelement", L.Hputelement(fid, 2100, 1 + i, data, len(data)), FAIL)
    rec("Hdeldd", L.Hdeldd(fid, 2100, 3), FAIL)
    rec("Hdupdd", L.Hdupdd(fid, 2101, 1, 2100, 5), FAIL)
    rec("Hputelement", L.Hputelement(fid, 2100, 2, b"rewrite", 7), FAIL)
    b = CBuf(7)
    r = rec("Hgetelement", L.Hgetelement(fid, 2100, 2, b.ptr), FAIL)
    rec.data("Hgetelement.data", b.raw(7) if r != FAIL else b"")
    b.free()
    rec("Hclose", L.Hclose(fid), FAIL)


def w_h_big(L, d, rec):
    """elements larger than the stdio buffer, overwritten in place and appended to"""
    fid = rec("Hopen", L.Hopen(_p(d), DFACC_CREATE, 0), FAIL)
    if fid == FAIL:
        return
    big = bytes((j * 7) % 251 for j in range(10000))
    rec("Hputelement", L.Hputelement(fid, 2200, 1, big, len(big)), FAIL)
    rec("Hputelement", L.Hputelement(fid, 2200, 2, big[:5000], 5000), FAIL)
    aid = rec("Hstartwrite", L.Hstartwrite(fid, 2200, 2, 5000), FAIL)
    if aid != FAIL:
        rec("Happendable", L.Happendable(aid), FAIL)
        rec("Hseek", L.Hseek(aid, 4000, 0), FAIL)
        rec("Hwrite", L.Hwrite(aid, 6000, big[1000:7000]), FAIL)          # grows the last element
        rec("Hendaccess", L.Hendaccess(aid), FAIL)
    aid = rec("Hstartwrite", L.Hstartwrite(fid, 2200, 1, 10000), FAIL)
    if aid != FAIL:
        rec("Happendable", L.Happendable(aid), FAIL)
        rec("Hseek", L.Hseek(aid, 9000, 0), FAIL)
        rec("Hwrite", L.Hwrite(aid, 3000, big[:3000]), FAIL)              # not the last: becomes linked blocks
        rec("Hendaccess", L.Hendaccess(aid), FAIL)
    b = CBuf(12000)
    r = rec("Hgetelement", L.Hgetelement(fid, 2200, 1, b.ptr), FAIL)
    rec.data("Hgetelement.data", b.raw(12000) if r != FAIL else b"")
    b.free()
    rec("Hclose", L.Hclose(fid), FAIL)


def w_vdata_append_linked(L, d, rec):
    fid = rec("Hopen", L.Hopen(_p(d), DFACC_CREATE, 0), FAIL)
    if fid == FAIL:
        return
    rec("Vstart", L.Vinitialize(fid), FAIL)
    vs = rec("VSattach", L.VSattach(fid, -1, b"w"), FAIL)
    ref = FAIL
    if vs != FAIL:
        rec("VSsetname", L.VSsetname(vs, b"tbl"), FAIL)
        rec("VSfdefine", L.VSfdefine(vs, b"x", DFNT["int32"], 1), FAIL)
        rec("VSfdefine", L.VSfdefine(vs, b"y", DFNT["float32"], 2), FAIL)
        rec("VSsetfields", L.VSsetfields(vs, b"x,y"), FAIL)
        buf = b"".join(struct.pack("=iff", k, k * 0.5, k * 2.0) for k in range(4))
        rec("VSwrite", L.VSwrite(vs, buf, 4, FULL_INTERLACE), FAIL)
        ref = L.VSQueryref(vs)
        rec("VSdetach", L.VSdetach(vs), FAIL)
    rec("Hputelement", L.Hputelement(fid, 2300, 1, b"in the way", 10), FAIL)
    if ref != FAIL:
        vs = rec("VSattach", L.VSattach(fid, ref, b"w"), FAIL)
        if vs != FAIL:
            rec("VSsetblocksize", L.VSsetblocksize(vs, 32), FAIL)
            rec("VSsetfields", L.VSsetfields(vs, b"x,y"), FAIL)
            rec("VSseek", L.VSseek(vs, 3), FAIL)
            buf = b"".join(struct.pack("=iff", 100 + k, k * 1.5, k * 3.0) for k in range(9))
            rec("VSwrite", L.VSwrite(vs, buf, 9, FULL_INTERLACE), FAIL)   # past the end: linked blocks of 32 bytes
            rec("VSsetattr", L.VSsetattr(vs, -1, b"unit", DFNT["char8"], 2, b"mm"), FAIL)
            rec("VSsetattr", L.VSsetattr(vs, 0, b"scale", DFNT["int16"], 1, struct.pack("=h", 4)), FAIL)
            rb = CBuf(12 * 12)
            rec("VSseek", L.VSseek(vs, 0), FAIL)
            r = rec("VSread", L.VSread(vs, rb.ptr, 12, FULL_INTERLACE), FAIL)
            rec.data("VSread.data", rb.raw(144) if r == 12 else b"")
            rb.free()
            rec("VSdetach", L.VSdetach(vs), FAIL)
    vg = rec("Vattach", L.Vattach(fid, -1, b"w"), FAIL)
    if vg != FAIL:
        rec("Vsetname", L.Vsetname(vg, b"grp"), FAIL)
        if ref != FAIL:
            rec("Vaddtagref", L.Vaddtagref(vg, DFTAG_VH, ref), FAIL)
        rec("Vsetattr", L.Vsetattr(vg, b"ga", DFNT["int32"], 2, struct.pack("=2i", 5, 6)), FAIL)
        rec("Vdetach", L.Vdetach(vg), FAIL)
    rec("Vend", L.Vfinish(fid), FAIL)
    rec("Hclose", L.Hclose(fid), FAIL)


def w_gr_compressed(L, d, rec):
    fid = rec("Hopen", L.Hopen(_p(d), DFACC_CREATE, 0), FAIL)
    if fid == FAIL:
        return
    gr = rec("GRstart", L.GRstart(fid), FAIL)
    if gr != FAIL:
        for nm, code in ((b"rle", COMP_CODE_RLE), (b"zip", COMP_CODE_DEFLATE)):
            ri = rec("GRcreate", L.GRcreate(gr, nm, 1, DFNT["uint8"], MFGR_INTERLACE_PIXEL, i32arr([8, 6])), FAIL)
            if ri == FAIL:
                continue
            ci = (c_int32 * 8)()
            ci[0] = 6
            rec("GRsetcompress", L.GRsetcompress(ri, code, ci), FAIL)
            rec("GRwriteimage", L.GRwriteimage(ri, i32arr([0, 0]), None, i32arr([8, 6]), bytes((j // 5) % 7 for j in range(48))), FAIL)
            rec("GRsetattr", L.GRsetattr(ri, b"ia", DFNT["int16"], 2, struct.pack("=2h", 1, 2)), FAIL)
            rec("GRendaccess", L.GRendaccess(ri), FAIL)
        rec("GRsetattr", L.GRsetattr(gr, b"ga", DFNT["char8"], 4, b"glob"), FAIL)
        ri = rec("GRselect", L.GRselect(gr, 1), FAIL)
        if ri != FAIL:
            b = CBuf(48)
            r = rec("GRreadimage", L.GRreadimage(ri, i32arr([0, 0]), None, i32arr([8, 6]), b.ptr), FAIL)
            rec.data("GRreadimage.data", b.raw(48) if r != FAIL else b"")
            b.free()
            rec("GRendaccess", L.GRendaccess(ri), FAIL)
        rec("GRend", L.GRend(gr), FAIL)
    rec("Hclose", L.Hclose(fid), FAIL)


def w_sd_rich(L, d, rec):
    """dimension names and scales, predefined attributes, a compressed and an external data set"""
    sd = rec("SDstart", L.SDstart(_p(d), DFACC_CREATE), FAIL)
    if sd == FAIL:
        return
    s = rec("SDcreate", L.SDcreate(sd, b"temp", DFNT["float32"], 2, i32arr([4, 3])), FAIL)
    if s != FAIL:
        for i, (nm, n) in enumerate(((b"lat", 4), (b"lon", 3))):
            dim = rec("SDgetdimid", L.SDgetdimid(s, i), FAIL)
            if dim != FAIL:
                rec("SDsetdimname", L.SDsetdimname(dim, nm), FAIL)
                rec("SDsetdimscale", L.SDsetdimscale(dim, n, DFNT["int16"], pack(22, list(range(10, 10 + n)))), FAIL)
                rec("SDsetdimstrs", L.SDsetdimstrs(dim, b"l", b"deg", b"F5"), FAIL)
        rec("SDsetdatastrs", L.SDsetdatastrs(s, b"temperature", b"K", b"F7.2", b"cart"), FAIL)
        rec("SDsetfillvalue", L.SDsetfillvalue(s, struct.pack("=f", -1.0)), FAIL)
        rec("SDsetrange", L.SDsetrange(s, struct.pack("=f", 400.0), struct.pack("=f", 0.0)), FAIL)
        rec("SDwritedata", L.SDwritedata(s, i32arr([1, 0]), None, i32arr([2, 3]), struct.pack("=6f", *[k * 1.5 for k in range(6)])), FAIL)
        rec("SDendaccess", L.SDendaccess(s), FAIL)
    s = rec("SDcreate", L.SDcreate(sd, b"cmp", DFNT["int16"], 1, i32arr([40])), FAIL)
    if s != FAIL:
        ci = (c_int32 * 8)()
        ci[0] = 6
        rec("SDsetcompress", L.SDsetcompress(s, COMP_CODE_DEFLATE, ci), FAIL)
        rec("SDwritedata", L.SDwritedata(s, i32arr([0]), None, i32arr([40]), pack(22, [k // 4 for k in range(40)])), FAIL)
        rec("SDendaccess", L.SDendaccess(s), FAIL)
    s = rec("SDcreate", L.SDcreate(sd, b"ext", DFNT["int32"], 1, i32arr([5])), FAIL)
    if s != FAIL:
        rec("SDsetexternalfile", L.SDsetexternalfile(s, b"sdext.dat", 0), FAIL)
        rec("SDwritedata", L.SDwritedata(s, i32arr([0]), None, i32arr([5]), pack(24, [9, 8, 7, 6, 5])), FAIL)
        rec("SDendaccess", L.SDendaccess(s), FAIL)
    rec("SDsetattr", L.SDsetattr(sd, b"title", DFNT["char8"], 5, b"hello"), FAIL)
    rec("SDend", L.SDend(sd), FAIL)


def prep_rich_sd(L, d):
    class R:
        calls = []
        datas = []

        def __call__(self, n, r, f):
            return r

        def data(self, n, raw):
            pass
    w_sd_rich(L, d, R())
    w_sd_chunked_deflate_into(L, d)


def w_sd_chunked_deflate_into(L, d):
    sd = L.SDstart(_p(d), DFACC_RDWR)
    s = L.SDcreate(sd, b"c", DFNT["int32"], 2, i32arr([5, 4]))
    L.SDsetchunk(s, chunkdef([2, 3], COMP_CODE_DEFLATE, 6), HDF_COMP)
    L.SDwritedata(s, i32arr([0, 0]), None, i32arr([5, 4]), pack(24, list(range(20))))
    L.SDendaccess(s)
    L.SDend(sd)


def w_sd_modify(L, d, rec):
    """read/modify session on a file that holds scaled, compressed, external and chunked data sets"""
    sd = rec("SDstart", L.SDstart(_p(d), DFACC_RDWR), FAIL)
    if sd == FAIL:
        return
    for nm, nt, n in ((b"cmp", 22, 40), (b"ext", 24, 5)):
        idx = rec("SDnametoindex", L.SDnametoindex(sd, nm), FAIL)
        s = rec("SDselect", L.SDselect(sd, max(idx, 0)), FAIL)
        if s == FAIL:
            continue
        b = CBuf(n * (2 if nt == 22 else 4))
        r = rec("SDreaddata", L.SDreaddata(s, i32arr([0]), None, i32arr([n]), b.ptr), FAIL)
        rec.data("SDreaddata." + nm.decode(), b.raw() if r != FAIL else b"")
        b.free()
        if nm == b"ext":               # (a compressed, unchunked data set cannot be rewritten in part)
            rec("SDwritedata", L.SDwritedata(s, i32arr([1]), None, i32arr([3]), pack(nt, [70, 71, 72])), FAIL)
        rec("SDendaccess", L.SDendaccess(s), FAIL)
    idx = rec("SDnametoindex", L.SDnametoindex(sd, b"c"), FAIL)
    s = rec("SDselect", L.SDselect(sd, max(idx, 0)), FAIL)
    if s != FAIL:
        rec("SDwritedata", L.SDwritedata(s, i32arr([1, 1]), None, i32arr([3, 2]), pack(24, [500 + k for k in range(6)])), FAIL)
        b = CBuf(80)
        r = rec("SDreaddata", L.SDreaddata(s, i32arr([0, 0]), None, i32arr([5, 4]), b.ptr), FAIL)
        rec.data("SDreaddata.c", b.raw() if r != FAIL else b"")
        b.free()
        rec("SDendaccess", L.SDendaccess(s), FAIL)
    idx = rec("SDnametoindex", L.SDnametoindex(sd, b"temp"), FAIL)
    s = rec("SDselect", L.SDselect(sd, max(idx, 0)), FAIL)
    if s != FAIL:
        rec("SDsetattr", L.SDsetattr(s, b"long_name", DFNT["char8"], 11, b"replacement"), FAIL)
        dim = rec("SDgetdimid", L.SDgetdimid(s, 0), FAIL)
        if dim != FAIL:
            b = CBuf(8)
            r = rec("SDgetdimscale", L.SDgetdimscale(dim, b.ptr), FAIL)
            rec.data("SDgetdimscale.data", b.raw() if r != FAIL else b"")
            b.free()
        rec("SDendaccess", L.SDendaccess(s), FAIL)
    rec("SDend", L.SDend(sd), FAIL)


def w_mixed_modify(L, d, rec):
    """read/modify session through the H, V, AN and GR interfaces on the file that holds one of everything"""
    fid = rec("Hopen", L.Hopen(_p(d), DFACC_RDWR, 0), FAIL)
    if fid == FAIL:
        return
    rec("Vstart", L.Vinitialize(fid), FAIL)
    vs = rec("VSattach", L.VSattach(fid, L.VSfind(fid, b"oldvd"), b"w"), FAIL)
    if vs != FAIL:
        rec("VSsetfields", L.VSsetfields(vs, b"a,b"), FAIL)
        rec("VSseek", L.VSseek(vs, 2), FAIL)
        rec("VSwrite", L.VSwrite(vs, struct.pack(">hBB", 99, 9, 9) * 6, 6, FULL_INTERLACE), FAIL)
        rec("VSdetach", L.VSdetach(vs), FAIL)
    vg = rec("Vattach", L.Vattach(fid, L.Vfind(fid, b"oldvg"), b"w"), FAIL)
    if vg != FAIL:
        rec("Vaddtagref", L.Vaddtagref(vg, 1001, 2), FAIL)
        rec("Vdeletetagref", L.Vdeletetagref(vg, 1000, 1), FAIL)
        rec("Vdetach", L.Vdetach(vg), FAIL)
    rec("Vend", L.Vfinish(fid), FAIL)
    an = rec("ANstart", L.ANstart(fid), FAIL)
    if an != FAIL:
        a = rec("ANselect", L.ANselect(an, 0, AN_FILE_LABEL), FAIL)
        if a != FAIL:
            b = CBuf(15)
            r = rec("ANreadann", L.ANreadann(a, b.ptr, 15), FAIL)
            rec.data("ANreadann.data", b.raw() if r != FAIL else b"")
            b.free()
            rec("ANwriteann", L.ANwriteann(a, b"a longer replacement file label", 31), FAIL)
            rec("ANendaccess", L.ANendaccess(a), FAIL)
        rec("ANend", L.ANend(an), FAIL)
    gr = rec("GRstart", L.GRstart(fid), FAIL)
    if gr != FAIL:
        ri = rec("GRselect", L.GRselect(gr, 0), FAIL)
        if ri != FAIL:
            b = CBuf(12)
            r = rec("GRreadimage", L.GRreadimage(ri, i32arr([0, 0]), None, i32arr([3, 2]), b.ptr), FAIL)
            rec.data("GRreadimage.data", b.raw() if r != FAIL else b"")
            b.free()
            rec("GRwriteimage", L.GRwriteimage(ri, i32arr([1, 0]), None, i32arr([2, 2]), bytes([200, 201, 202, 203, 204, 205, 206, 207])), FAIL)
            rec("GRsetattr", L.GRsetattr(ri, b"note", DFNT["int16"], 3, struct.pack("=3h", 5, 6, 7)), FAIL)
            rec("GRendaccess", L.GRendaccess(ri), FAIL)
        rec("GRend", L.GRend(gr), FAIL)
    rec("Hdeldd", L.Hdeldd(fid, 1000, 3), FAIL)
    rec("Hclose", L.Hclose(fid), FAIL)


C16_WORKLOADS += [
    ("h_nocache", None, w_h_nocache, True),
    ("h_big", None, w_h_big, False),
    ("vdata_append_linked", None, w_vdata_append_linked, False),
    ("gr_compressed", None, w_gr_compressed, False),
    ("sd_rich", None, w_sd_rich, False),
    ("sd_modify", prep_rich_sd, w_sd_modify, False),
    ("mixed_modify", lambda L, d: prep_mixed(L, d, 4, 3), w_mixed_modify, False),
]


def prep_unlimited(L, d):
    sd = L.SDstart(_p(d), DFACC_CREATE)
    s = L.SDcreate(sd, b"u", DFNT["int16"], 2, i32arr([SD_UNLIMITED, 3]))
    L.SDwritedata(s, i32arr([0, 0]), None, i32arr([2, 3]), pack(22, list(range(6))))
    L.SDendaccess(s)
    s = L.SDcreate(sd, b"fixed", DFNT["int32"], 1, i32arr([4]))
    L.SDwritedata(s, i32arr([0]), None, i32arr([4]), pack(24, [1, 2, 3, 4]))
    L.SDendaccess(s)
    L.SDend(sd)


def w_sd_append_second_session(L, d, rec):
    """records appended to an unlimited data set in a later session, nothing else changed: at SDend only the
    record count (dimension Vdata) is rewritten, not the whole metadata"""
    sd = rec("SDstart", L.SDstart(_p(d), DFACC_RDWR), FAIL)
    if sd == FAIL:
        return
    idx = rec("SDnametoindex", L.SDnametoindex(sd, b"u"), FAIL)
    s = rec("SDselect", L.SDselect(sd, max(idx, 0)), FAIL)
    if s != FAIL:
        rec("SDwritedata", L.SDwritedata(s, i32arr([2, 0]), None, i32arr([2, 3]), pack(22, [20, 21, 22, 23, 24, 25])), FAIL)
        b = CBuf(24)
        r = rec("SDreaddata", L.SDreaddata(s, i32arr([0, 0]), None, i32arr([4, 3]), b.ptr), FAIL)
        rec.data("SDreaddata.data", b.raw() if r != FAIL else b"")
        b.free()
        rec("SDendaccess", L.SDendaccess(s), FAIL)
    rec("SDend", L.SDend(sd), FAIL)


C16_WORKLOADS += [
    ("sd_append_second_session", prep_unlimited, w_sd_append_second_session, False),
]


# ---- pre-populated files whose LAST thing is a descriptor block / whose refs have wrapped (C17)
def prep_h_dup_tail(L, d, ndds=4):
    """two sessions: the second fills the first DD block exactly and then creates a DD (Hdupdd: no data)
    that needs a new DD block, which is then the last thing in the file"""
    p = _p(d)
    fid = L.Hopen(p, DFACC_CREATE, ndds)
    L.Hputelement(fid, 1000, 1, b"first element", 13)
    L.Hclose(fid)                      # writes the version element: 2 DDs used
    fid = L.Hopen(p, DFACC_RDWR, 0)
    for i in range(ndds - 2):
        L.Hputelement(fid, 1000, 2 + i, bytes([65 + i] * (6 + i)), 6 + i)
    L.Hdupdd(fid, 1001, 1, 1000, 1)     # first DD block is full: new block, nothing after it
    L.Hclose(fid)


def prep_refs_wrapped(L, d, ndds=16):
    """ref 65535 in use (Hnewref has to search) and low refs NOT in ascending order in the DD list:
    DD order becomes (30,1), (1001,65535), VS 3, VH 3, (1000,2), ... so ref 2 sits after the old vdata's ref 3"""
    p = _p(d)
    fid = L.Hopen(p, DFACC_CREATE, ndds)
    L.Hputelement(fid, 1000, 2, b"temp", 4)
    L.Vinitialize(fid)
    vs = L.VSattach(fid, -1, b"w")          # ref 3
    L.VSsetname(vs, b"oldvd")
    L.VSfdefine(vs, b"a", DFNT["int16"], 1)
    L.VSsetfields(vs, b"a")
    L.VSwrite(vs, struct.pack(">hhh", 7, 8, 9), 3, FULL_INTERLACE)
    L.VSdetach(vs)
    L.Vfinish(fid)
    L.Hdeldd(fid, 1000, 2)
    L.Hputelement(fid, 1001, 65535, b"top", 3)      # takes the freed first slot
    L.Hputelement(fid, 1000, 2, b"second", 6)       # next free slot: after the vdata's DDs
    L.Hputelement(fid, 1000, 4, b"fourth", 6)
    L.Hclose(fid)


C17_EXTRA = []
for _nd in (4, 5, 8):
    C17_EXTRA.append(("h_elements_after_dd_tail_ndds%d" % _nd, (lambda nd: (lambda L, d: prep_h_dup_tail(L, d, nd)))(_nd),
                      lambda L, d, rec, mark: sess_h_elements(L, d, rec, 5, mark), True))
C17_EXTRA.append(("vdata_vgroup_refs_wrapped", prep_refs_wrapped, lambda L, d, rec, mark: sess_vdata_vgroup(L, d, rec, mark, 3), True))
C17_EXTRA.append(("h_elements_refs_wrapped", prep_refs_wrapped, lambda L, d, rec, mark: sess_h_elements(L, d, rec, 4, mark), True))
C17_WORKLOADS += C17_EXTRA
C17_WORKLOADS_THOROUGH += C17_EXTRA
