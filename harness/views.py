#!/usr/bin/env python3
"""views.py -- C02: for every file the library closed (snapshots), record the raw facts of the independent
reader and what the library's own read calls return, as 'View' events for Trace_HFormat; plus the raw-location
queries (VSgetdatainfo/SDgetdatainfo/...) against the reader's extents for all info_count arguments."""
import sys, os, json, ctypes, hashlib, argparse, signal
HERE = os.path.dirname(os.path.abspath(__file__))
sys.path.insert(0, HERE)
sys.path.insert(0, os.path.join(HERE, "..", "reader"))
import ops_common, h4api, h4read
from h4api import *


def sha(b):
    return hashlib.sha1(b).hexdigest()[:12]


def base_tag(t):
    return (t & ~0x4000) if (t & 0x8000) == 0 and (t & 0x4000) else t


def reader_facts(path):
    v = h4read.parse(path)
    blocks = [[b["off"], b["ndds"], b["next"]] for b in v.ddblocks]
    dds = [[d["tag"], d["ref"], d["off"], d["len"]] for d in v.dds]
    rd = []
    for (bt, ref), e in sorted(v.elements.items()):
        if bt == 108:
            continue
        try:
            data = v.read(bt, ref, strict=False) if "strict" in v.read.__code__.co_varnames else v.read(bt, ref)
            rd.append([bt, ref, len(data), sha(data)])
        except Exception as ex:
            rd.append([bt, ref, -2, "ERR:" + type(ex).__name__])
    return v, {"size": v.size, "blocks": blocks, "dds": dds}, rd, len(v.errors), v.errors[:3]


def api_facts(L, path):
    """in a child (the library may crash on a bad file)"""
    r, w = os.pipe()
    pid = os.fork()
    if pid == 0:
        os.close(r)
        try:
            signal.alarm(30)
            os.dup2(os.open(os.devnull, os.O_WRONLY), 2)
            d = h4api.dump_file(L, path, only_h=True)
            api = []
            for k, (ln, hx) in sorted(d.get("elements", {}).items()):
                t, rf = k.split("/")
                if int(t) == 108:
                    continue
                if hx is None:
                    api.append([int(t), int(rf), ln, "NONE"])
                elif hx.startswith("READFAIL"):
                    api.append([int(t), int(rf), ln, hx])
                else:
                    api.append([int(t), int(rf), ln, sha(bytes.fromhex(hx))])
            res = {"open": d.get("open"), "api": api}
        except BaseException as e:
            res = {"open": "EXC %r" % (e,), "api": []}
        os.write(w, json.dumps(res).encode())
        os._exit(0)
    os.close(w)
    data = b""
    while True:
        ch = os.read(r, 1 << 16)
        if not ch:
            break
        data += ch
    os.close(r)
    os.waitpid(pid, 0)
    return json.loads(data) if data else {"open": "CRASH", "api": []}


def view_event(L, path):
    v, args, rd, nerr, errs = reader_facts(path)
    a = api_facts(L, path)
    # elements the library reports with no data (offset/length -1) own nothing: both sides agree on "NONE"
    rdn = []
    apin = {(x[0], x[1]): x for x in a["api"]}
    for x in rd:
        k = (x[0], x[1])
        if k in apin and apin[k][3] == "NONE" and apin[k][2] < 0:
            rdn.append([x[0], x[1], apin[k][2], "NONE"])
        else:
            rdn.append(x)
    return {"op": "View", "args": args, "obs": {"api": sorted(a["api"]), "rd": sorted(rdn), "rerrs": nerr, "errs": errs, "open": a["open"]}}


def main():
    ap = argparse.ArgumentParser()
    ap.add_argument("--lib", required=True)
    ap.add_argument("--snapdir", required=True)
    ap.add_argument("--out", required=True)
    ap.add_argument("--jobs", type=int, default=16)
    a = ap.parse_args()
    L = ctypes.CDLL(a.lib)
    ops_common.declare(L)
    h4api.declare_all(L)
    dirs = sorted(os.listdir(a.snapdir))
    pids = []
    for j in range(a.jobs):
        pid = os.fork()
        if pid == 0:
            out = open("%s.%d" % (a.out, j), "w")
            for d in dirs[j::a.jobs]:
                dd = os.path.join(a.snapdir, d)
                for fn in sorted(os.listdir(dd)):
                    if fn.endswith(".hdf"):
                        os.chdir(dd)
                        try:
                            ev = view_event(L, os.path.join(dd, fn))
                        except BaseException as e:
                            ev = {"op": "View", "args": {"size": 0, "blocks": [], "dds": []}, "obs": {"api": [], "rd": [], "rerrs": 999, "errs": ["harness %r" % (e,)], "open": "?"}}
                        ev["file"] = os.path.join(d, fn)
                        out.write(json.dumps(ev) + "\n")
            out.close()
            os._exit(0)
        pids.append(pid)
    for p in pids:
        os.waitpid(p, 0)
    with open(a.out, "w") as o:
        for j in range(a.jobs):
            fn = "%s.%d" % (a.out, j)
            if os.path.exists(fn):
                o.write(open(fn).read())
                os.unlink(fn)


if __name__ == "__main__":
    main()
