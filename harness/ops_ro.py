"""operation handlers for specs/ReadOnly.tla (C14): arbitrary programs against read-only handles"""
import ctypes, os, struct, hashlib, json
from ctypes import byref, c_int32, c_uint16, c_double, create_string_buffer
from ops_common import *
import h4api
from h4api import CBuf, DFNT, i32arr, chunkdef, HDF_CHUNK, HDF_COMP, COMP_CODE_RLE, COMP_CODE_DEFLATE
import workloads

AN_DATA_LABEL, AN_DATA_DESC, AN_FILE_LABEL, AN_FILE_DESC = 0, 1, 2, 3
F = "w.hdf"


def snapshot(c):
    """name -> sha1 of every file in the working directory"""
    out = {}
    for fn in sorted(os.listdir(c.dir)):
        p = os.path.join(c.dir, fn)
        if os.path.isfile(p):
            out[fn] = hashlib.sha1(open(p, "rb").read()).hexdigest()
    return out


def intact(c):
    return snapshot(c) == c.v["snap"]


def P(c):
    return os.path.join(c.dir, F).encode()


# ---------------------------------------------------------------- file preparation
def prep_rich(L, d):
    workloads.prep_mixed(L, d)
    p = os.path.join(d, F).encode()
    fid = L.Hopen(p, DFACC_RDWR, 0)
    aid = L.HLcreate(fid, 3000, 1, 8, 2)
    L.Hwrite(aid, 30, bytes(range(30)))
    L.Hendaccess(aid)
    aid = L.HXcreate(fid, 2002, 1, b"ext.dat", 0, 0)
    L.Hwrite(aid, 9, b"123456789")
    L.Hendaccess(aid)
    gr = L.GRstart(fid)
    ri = L.GRselect(gr, 0)
    pal = L.GRgetlutid(ri, 0)
    L.GRwritelut(pal, 3, DFNT["uint8"], 0, 256, bytes(range(256)) * 3)
    L.GRsetattr(ri, b"note", DFNT["int16"], 2, struct.pack("=2h", 5, 6))
    L.GRsetattr(gr, b"gnote", DFNT["int16"], 1, struct.pack("=h", 9))
    L.GRendaccess(ri)
    ri = L.GRcreate(gr, b"cimg", 1, DFNT["uint8"], 0, i32arr([4, 3]))
    ci = (c_int32 * 8)()
    ci[0] = 6
    L.GRsetcompress(ri, COMP_CODE_DEFLATE, ci)
    L.GRwriteimage(ri, i32arr([0, 0]), None, i32arr([4, 3]), bytes(range(12)))
    L.GRendaccess(ri)
    L.GRend(gr)
    L.Vinitialize(fid)
    vg = L.Vattach(fid, L.Vfind(fid, b"oldvg"), b"w")
    L.Vsetattr(vg, b"gattr", DFNT["int32"], 1, struct.pack("=i", 77))
    L.Vdetach(vg)
    vs = L.VSattach(fid, L.VSfind(fid, b"oldvd"), b"w")
    L.VSsetattr(vs, -1, b"vattr", DFNT["int16"], 1, struct.pack("=h", 3))
    L.VSdetach(vs)
    L.Vfinish(fid)
    L.Hclose(fid)
    sd = L.SDstart(p, DFACC_RDWR)
    s = L.SDcreate(sd, b"chk", DFNT["int32"], 2, i32arr([5, 4]))
    L.SDsetchunk(s, chunkdef([2, 3]), HDF_CHUNK)
    L.SDwritedata(s, i32arr([0, 0]), None, i32arr([5, 4]), h4api.pack(24, list(range(20))))
    L.SDendaccess(s)
    s = L.SDcreate(sd, b"cmp", DFNT["int16"], 1, i32arr([6]))
    ci = (c_int32 * 8)()
    ci[0] = 6
    L.SDsetcompress(s, COMP_CODE_DEFLATE, ci)
    L.SDwritedata(s, i32arr([0]), None, i32arr([6]), h4api.pack(22, [1, 2, 3, 4, 5, 6]))
    L.SDendaccess(s)
    s = L.SDcreate(sd, b"ext", DFNT["int16"], 1, i32arr([4]))
    L.SDsetexternalfile(s, b"sdext.dat", 0)
    L.SDwritedata(s, i32arr([0]), None, i32arr([4]), h4api.pack(22, [9, 8, 7, 6]))
    L.SDendaccess(s)
    s = L.SDcreate(sd, b"unl", DFNT["int16"], 2, i32arr([0, 2]))
    L.SDwritedata(s, i32arr([0, 0]), None, i32arr([3, 2]), h4api.pack(22, [1, 2, 3, 4, 5, 6]))
    L.SDendaccess(s)
    s = L.SDcreate(sd, b"empty", DFNT["int32"], 1, i32arr([4]))      # a data set that never got data
    L.SDendaccess(s)
    s = L.SDselect(sd, L.SDnametoindex(sd, b"oldsds"))
    dm = L.SDgetdimid(s, 0)
    L.SDsetdimname(dm, b"rows")
    L.SDsetdimscale(dm, 3, DFNT["int16"], h4api.pack(22, [10, 20, 30]))
    L.SDsetattr(sd, b"title", DFNT["char8"], 5, b"hello")
    L.SDsetattr(dm, b"dnote", DFNT["int16"], 1, struct.pack("=h", 4))
    L.SDendaccess(s)
    L.SDend(sd)


def m_sdwrite_empty(c):
    """SDwritedata on a data set that holds no data yet (only the 'rich' file has one)"""
    L = c.L
    i = L.SDnametoindex(c.v["sd"], b"empty")
    if i == FAIL:
        return FAIL
    s = L.SDselect(c.v["sd"], i)
    if s == FAIL:
        return FAIL
    buf = h4api.pack(24, [5, 6])
    r = L.SDwritedata(s, i32arr([0]), None, i32arr([2]), buf)
    L.SDendaccess(s)
    return r


PREP = {"mixed": lambda L, d: workloads.prep_mixed(L, d), "rich": prep_rich}


# ---------------------------------------------------------------- sessions
def open_all(c, rw):
    L, v = c.L, c.v
    p = P(c)
    acc = DFACC_RDWR if rw else DFACC_READ
    m = b"w" if rw else b"r"
    v["fid"] = L.Hopen(p, acc, 0)
    L.Vinitialize(v["fid"])
    r = L.VSfind(v["fid"], b"oldvd")
    v["vs"] = L.VSattach(v["fid"], r, m) if r > 0 else FAIL
    v["vsref"] = r
    r = L.Vfind(v["fid"], b"oldvg")
    v["vg"] = L.Vattach(v["fid"], r, m) if r > 0 else FAIL
    v["vgref"] = r
    v["gr"] = L.GRstart(v["fid"])
    v["ri"] = L.GRselect(v["gr"], 0)
    v["pal"] = L.GRgetlutid(v["ri"], 0)
    v["an"] = L.ANstart(v["fid"])
    v["ann"] = L.ANselect(v["an"], 0, AN_FILE_LABEL)
    v["aid"] = L.Hstartread(v["fid"], 1000, 1)
    v["sd"] = L.SDstart(p, acc)
    i = L.SDnametoindex(v["sd"], b"oldsds")
    v["sds"] = L.SDselect(v["sd"], i)
    v["dim"] = L.SDgetdimid(v["sds"], 0)
    i = L.SDnametoindex(v["sd"], b"chk")
    v["chk"] = L.SDselect(v["sd"], i) if i != FAIL else FAIL
    ok = all(v[k] != FAIL for k in ("fid", "vs", "vg", "gr", "ri", "an", "ann", "aid", "sd", "sds"))
    return 0 if ok else FAIL


def close_all(c):
    L, v = c.L, c.v
    r = 0

    def end(k, f):
        nonlocal r
        if v.get(k, FAIL) != FAIL:
            if f(v[k]) == FAIL:
                r = FAIL
            v[k] = FAIL
    for x in v.pop("extra_sds", []):
        L.SDendaccess(x)
    for x in v.pop("extra_ri", []):
        L.GRendaccess(x)
    for x in v.pop("extra_aid", []):
        L.Hendaccess(x)
    for x in v.pop("extra_vs", []):
        L.VSdetach(x)
    for x in v.pop("extra_vg", []):
        L.Vdetach(x)
    for x in v.pop("extra_ann", []):
        L.ANendaccess(x)
    end("chk", L.SDendaccess)
    end("sds", L.SDendaccess)
    end("sd", L.SDend)
    end("aid", L.Hendaccess)
    end("ann", L.ANendaccess)
    end("an", L.ANend)
    end("ri", L.GRendaccess)
    end("gr", L.GRend)
    end("vs", L.VSdetach)
    end("vg", L.Vdetach)
    if v.get("fid", FAIL) != FAIL:
        L.Vfinish(v["fid"])
    end("fid", L.Hclose)
    return r


@teardown("ReadOnly")
def ro_teardown(c):
    close_all(c)


@op("ReadOnly", "Prep")
def ro_prep(c, a):
    L = c.L
    h4api.declare_all(L)
    L.VHstoredata.argtypes = [c_int32, ctypes.c_char_p, ctypes.c_void_p, c_int32, c_int32, ctypes.c_char_p, ctypes.c_char_p]
    L.VHmakegroup.argtypes = [c_int32, ctypes.POINTER(c_int32), ctypes.POINTER(c_int32), c_int32, ctypes.c_char_p, ctypes.c_char_p]
    L.ANcreate.argtypes = [c_int32, c_uint16, c_uint16, c_int32]
    L.ANannlist.argtypes = [c_int32, c_int32, c_uint16, c_uint16, ctypes.POINTER(c_int32)]
    L.HCcreate.argtypes = [c_int32, c_uint16, c_uint16, c_int32, ctypes.c_void_p, c_int32, ctypes.c_void_p]
    L.SDgetcal.argtypes = [c_int32] + [ctypes.POINTER(c_double)] * 4 + [ctypes.POINTER(c_int32)]
    PREP[a["file"]](L, c.dir)
    c.v["snap"] = snapshot(c)
    return {"ret": 0}


@op("ReadOnly", "OpenRO")
def ro_open(c, a):
    r = open_all(c, False)
    return {"ret": r, "intact": intact(c)}


@op("ReadOnly", "CloseRO")
def ro_close(c, a):
    r = close_all(c)
    return {"ret": r, "intact": intact(c)}


@op("ReadOnly", "RwCycle")
def ro_rwcycle(c, a):
    L = c.L
    before = h4api.dump_file(L, P(c))
    r1 = open_all(c, True)
    r2 = close_all(c)
    after = h4api.dump_file(L, P(c))
    c.v["snap"] = snapshot(c)
    o = {"ret": 0 if (r1 != FAIL and r2 != FAIL) else FAIL, "same": before == after}
    if before != after:
        o["diff"] = [k for k in set(before) | set(after) if before.get(k) != after.get(k)][:5]
    return o


# ---------------------------------------------------------------- the calls
def _buf(n):
    return create_string_buffer(n)


def q_dumpall(c):
    h4api.dump_file(c.L, P(c))


def q_hfindscan(c):
    L = c.L
    ft, fr, fo, fl = c_uint16(0), c_uint16(0), c_int32(0), c_int32(0)
    n = 0
    while n < 1000 and L.Hfind(c.v["fid"], 0, 0, byref(ft), byref(fr), byref(fo), byref(fl), 1) != FAIL:
        n += 1


def q_sdreaddata(c):
    b = CBuf(48)
    c.L.SDreaddata(c.v["sds"], i32arr([0, 0]), None, i32arr([3, 4]), b.ptr)
    b.free()


def q_sdreadchunk(c):
    b = CBuf(24)
    c.L.SDreadchunk(c.v["chk"] if c.v["chk"] != FAIL else c.v["sds"], i32arr([0, 0]), b.ptr)
    b.free()


def q_sdreadattr(c):
    L = c.L
    nm, nt, n = _buf(300), c_int32(), c_int32()
    for oid in (c.v["sd"], c.v["sds"], c.v["dim"]):
        if L.SDattrinfo(oid, 0, nm, byref(nt), byref(n)) != FAIL:
            b = CBuf(max(1, n.value * 8))
            L.SDreadattr(oid, 0, b.ptr)
            b.free()
        L.SDfindattr(oid, b"units")


def q_sdgetdimscale(c):
    b = CBuf(64)
    c.L.SDgetdimscale(c.v["dim"], b.ptr)
    b.free()


def q_sdgetdatainfo(c):
    o, l = (c_int32 * 8)(), (c_int32 * 8)()
    c.L.SDgetdatainfo(c.v["sds"], None, 0, 8, o, l)
    if c.v["chk"] != FAIL:
        c.L.SDgetdatainfo(c.v["chk"], i32arr([0, 0]), 0, 8, o, l)


def q_sdcomp(c):
    ct = c_int32()
    ci = (c_int32 * 16)()
    c.L.SDgetcompinfo(c.v["sds"], byref(ct), ci)


def q_sdchunkinfo(c):
    cd = h4api.ChunkDef()
    fl = c_int32()
    c.L.SDgetchunkinfo(c.v["chk"] if c.v["chk"] != FAIL else c.v["sds"], byref(cd), byref(fl))


def q_sdgetcal(c):
    d = [c_double() for _ in range(4)]
    nt = c_int32()
    c.L.SDgetcal(c.v["sds"], byref(d[0]), byref(d[1]), byref(d[2]), byref(d[3]), byref(nt))


def q_grreadimage(c):
    b = CBuf(64)
    c.L.GRreadimage(c.v["ri"], i32arr([0, 0]), i32arr([1, 1]), i32arr([3, 2]), b.ptr)
    b.free()


def q_grreadlut(c):
    b = CBuf(768)
    c.L.GRreadlut(c.v["pal"], b.ptr)
    b.free()


def q_grgetattr(c):
    L = c.L
    nm, nt, n = _buf(300), c_int32(), c_int32()
    for oid in (c.v["gr"], c.v["ri"]):
        if L.GRattrinfo(oid, 0, nm, byref(nt), byref(n)) != FAIL:
            b = CBuf(max(1, n.value * 8))
            L.GRgetattr(oid, 0, b.ptr)
            b.free()
        L.GRfindattr(oid, b"note")


def q_grdatainfo(c):
    o, l = (c_int32 * 8)(), (c_int32 * 8)()
    c.L.GRgetdatainfo(c.v["ri"], 0, 8, o, l)


def q_vsread(c):
    L = c.L
    L.VSsetfields(c.v["vs"], b"a,b")
    L.VSseek(c.v["vs"], 0)
    b = CBuf(40)
    L.VSread(c.v["vs"], b.ptr, 5, 0)
    b.free()


def q_vsinquire(c):
    n, il, sz = c_int32(), c_int32(), c_int32()
    f, nm = _buf(400), _buf(200)
    c.L.VSinquire(c.v["vs"], byref(n), byref(il), f, byref(sz), nm)


def q_vsdatainfo(c):
    o, l = (c_int32 * 8)(), (c_int32 * 8)()
    c.L.VSgetdatainfo(c.v["vs"], 0, 8, o, l)


def q_vgettagrefs(c):
    t, r = (c_int32 * 16)(), (c_int32 * 16)()
    c.L.Vgettagrefs(c.v["vg"], t, r, 16)
    c.L.Vntagrefs(c.v["vg"])


def q_vlone(c):
    a = (c_int32 * 32)()
    c.L.Vlone(c.v["fid"], a, 32)


def q_vslone(c):
    a = (c_int32 * 32)()
    c.L.VSlone(c.v["fid"], a, 32)


def q_vgetattr(c):
    L = c.L
    nm, nt, n, sz = _buf(300), c_int32(), c_int32(), c_int32()
    if L.Vattrinfo(c.v["vg"], 0, nm, byref(nt), byref(n), byref(sz)) != FAIL:
        b = CBuf(max(1, sz.value))
        L.Vgetattr(c.v["vg"], 0, b.ptr)
        b.free()


def q_anfileinfo(c):
    n = [c_int32() for _ in range(4)]
    c.L.ANfileinfo(c.v["an"], *[byref(x) for x in n])


def q_anreadann(c):
    b = CBuf(64)
    c.L.ANreadann(c.v["ann"], b.ptr, 64)
    b.free()


def q_anannlist(c):
    lst = (c_int32 * 16)()
    n = c.L.ANnumann(c.v["an"], AN_DATA_DESC, 1000, 1)
    if 0 < n <= 16:
        c.L.ANannlist(c.v["an"], AN_DATA_DESC, 1000, 1, lst)


def q_hread(c):
    L = c.L
    L.Hseek(c.v["aid"], 0, 0)
    b = CBuf(16)
    L.Hread(c.v["aid"], 5, b.ptr)
    b.free()


def q_hinquire(c):
    x = [c_int32() for _ in range(4)]
    t, r = c_uint16(), c_uint16()
    a, s = ctypes.c_int16(), ctypes.c_int16()
    c.L.Hinquire(c.v["aid"], byref(x[0]), byref(t), byref(r), byref(x[1]), byref(x[2]), byref(x[3]), byref(a), byref(s))


def q_version(c):
    x = [ctypes.c_uint32() for _ in range(3)]
    s = _buf(200)
    c.L.Hgetfileversion(c.v["fid"], byref(x[0]), byref(x[1]), byref(x[2]), s)


QUERIES = {
    "DumpAll": q_dumpall, "Hfindscan": q_hfindscan, "Hread": q_hread, "Hinquire": q_hinquire,
    "Hnewref": lambda c: c.L.Hnewref(c.v["fid"]), "Hsync": lambda c: c.L.Hsync(c.v["fid"]),
    "Hcache": lambda c: c.L.Hcache(c.v["fid"], 0), "Hgetfileversion": q_version,
    "SDfileinfo": lambda c: c.L.SDfileinfo(c.v["sd"], byref(c_int32()), byref(c_int32())),
    "SDreaddata": q_sdreaddata, "SDreadchunk": q_sdreadchunk, "SDreadattr": q_sdreadattr, "SDgetdimscale": q_sdgetdimscale,
    "SDgetdatainfo": q_sdgetdatainfo, "SDgetcompinfo": q_sdcomp, "SDgetchunkinfo": q_sdchunkinfo,
    "SDsetfillmode": lambda c: c.L.SDsetfillmode(c.v["sd"], 0x100), "SDsetchunkcache": lambda c: c.L.SDsetchunkcache(c.v["chk"] if c.v["chk"] != FAIL else c.v["sds"], 3, 0),
    "SDgetcal": q_sdgetcal,
    "SDgetrange": lambda c: c.L.SDgetrange(c.v["sds"], _buf(8), _buf(8)),
    "SDgetfillvalue": lambda c: c.L.SDgetfillvalue(c.v["sds"], _buf(8)),
    "SDgetdatastrs": lambda c: c.L.SDgetdatastrs(c.v["sds"], _buf(40), _buf(40), _buf(40), _buf(40), 39),
    "GRfileinfo": lambda c: c.L.GRfileinfo(c.v["gr"], byref(c_int32()), byref(c_int32())),
    "GRreadimage": q_grreadimage, "GRreadlut": q_grreadlut, "GRgetattr": q_grgetattr,
    "GRreqimageil": lambda c: c.L.GRreqimageil(c.v["ri"], 1), "GRgetdatainfo": q_grdatainfo,
    "VSread": q_vsread, "VSinquire": q_vsinquire, "VSgetdatainfo": q_vsdatainfo,
    "VSfindattr": lambda c: c.L.VSfindattr(c.v["vs"], -1, b"vattr"),
    "Vgettagrefs": q_vgettagrefs, "Vlone": q_vlone, "VSlone": q_vslone, "Vgetattr": q_vgetattr,
    "ANfileinfo": q_anfileinfo, "ANreadann": q_anreadann, "ANannlist": q_anannlist,
}


def keep(c, key, x, fail=FAIL):
    """a mutator that wrongly succeeded returned a handle: remember it for the teardown"""
    if x != fail:
        c.v.setdefault(key, []).append(x)
    return x


def m_hstartwrite_new(c):
    return keep(c, "extra_aid", c.L.Hstartwrite(c.v["fid"], 1001, 77, 8))


def m_hstartaccess_write(c):
    return keep(c, "extra_aid", c.L.Hstartaccess(c.v["fid"], 1000, 2, DFACC_WRITE))


def m_hccreate(c):
    mi, ci = _buf(64), _buf(64)
    return keep(c, "extra_aid", c.L.HCcreate(c.v["fid"], 1003, 1, 0, mi, 1, ci))


def m_vswrite(c):
    L = c.L
    L.VSsetfields(c.v["vs"], b"a,b")
    b = CBuf(8, struct.pack(">hBB", 1, 2, 3) + b"\0" * 4)
    r = L.VSwrite(c.v["vs"], b.ptr, 1, 0)
    b.free()
    return r


def m_vhmakegroup(c):
    return c.L.VHmakegroup(c.v["fid"], i32arr([1000]), i32arr([1]), 1, b"newgrp", b"cls")


def m_sdcreate(c):
    return keep(c, "extra_sds", c.L.SDcreate(c.v["sd"], b"newsds", DFNT["int16"], 1, i32arr([4])))


def m_sdwritedata(c):
    b = CBuf(48, h4api.pack(24, list(range(200, 212))))
    r = c.L.SDwritedata(c.v["sds"], i32arr([0, 0]), None, i32arr([3, 4]), b.ptr)
    b.free()
    return r


def m_sdwritechunk(c):
    b = CBuf(24, h4api.pack(24, [5] * 6))
    r = c.L.SDwritechunk(c.v["chk"] if c.v["chk"] != FAIL else c.v["sds"], i32arr([0, 0]), b.ptr)
    b.free()
    return r


def m_sdsetcompress(c):
    ci = (c_int32 * 8)()
    ci[0] = 6
    return c.L.SDsetcompress(c.v["sds"], COMP_CODE_DEFLATE, ci)


def m_grcreate(c):
    return keep(c, "extra_ri", c.L.GRcreate(c.v["gr"], b"newimg", 1, DFNT["uint8"], 0, i32arr([2, 2])))


def m_grwriteimage(c):
    b = CBuf(12, bytes(range(50, 62)))
    r = c.L.GRwriteimage(c.v["ri"], i32arr([0, 0]), None, i32arr([3, 2]), b.ptr)
    b.free()
    return r


def m_grsetcompress(c):
    ci = (c_int32 * 8)()
    ci[0] = 6
    return c.L.GRsetcompress(c.v["ri"], COMP_CODE_DEFLATE, ci)


MUTATORS = {
    "Hputelement_new": lambda c: c.L.Hputelement(c.v["fid"], 1001, 99, b"abcd", 4),
    "Hputelement_existing": lambda c: c.L.Hputelement(c.v["fid"], 1000, 1, b"abcd", 4),
    "Hstartwrite_new": m_hstartwrite_new,
    "Hstartwrite_existing": lambda c: keep(c, "extra_aid", c.L.Hstartwrite(c.v["fid"], 1000, 1, 4)),
    "Hstartaccess_write": m_hstartaccess_write,
    "Hwrite_on_read_aid": lambda c: c.L.Hwrite(c.v["aid"], 3, b"zzz"),
    "Hdeldd": lambda c: c.L.Hdeldd(c.v["fid"], 1000, 1),
    "Hdupdd": lambda c: c.L.Hdupdd(c.v["fid"], 1002, 50, 1000, 1),
    "HLcreate_new": lambda c: keep(c, "extra_aid", c.L.HLcreate(c.v["fid"], 1004, 1, 8, 2)),
    "HLcreate_existing": lambda c: keep(c, "extra_aid", c.L.HLcreate(c.v["fid"], 1000, 2, 8, 2)),
    "HXcreate_new": lambda c: keep(c, "extra_aid", c.L.HXcreate(c.v["fid"], 1005, 1, b"newext.dat", 0, 0)),
    "HXcreate_existing": lambda c: keep(c, "extra_aid", c.L.HXcreate(c.v["fid"], 1000, 2, b"newext2.dat", 0, 0)),
    "HCcreate_new": m_hccreate,
    "Htrunc_on_read_aid": lambda c: c.L.Htrunc(c.v["aid"], 2),
    "HLconvert_on_read_aid": lambda c: c.L.HLconvert(c.v["aid"], 8, 2),
    "Vattach_new": lambda c: keep(c, "extra_vg", c.L.Vattach(c.v["fid"], -1, b"w")),
    "Vattach_existing_w": lambda c: keep(c, "extra_vg", c.L.Vattach(c.v["fid"], c.v["vgref"], b"w")),
    "Vsetname": lambda c: c.L.Vsetname(c.v["vg"], b"renamed"),
    "Vsetclass": lambda c: c.L.Vsetclass(c.v["vg"], b"newclass"),
    "Vinsert": lambda c: c.L.Vinsert(c.v["vg"], c.v["vs"]),
    "Vaddtagref": lambda c: c.L.Vaddtagref(c.v["vg"], 1000, 2),
    "Vdeletetagref": lambda c: c.L.Vdeletetagref(c.v["vg"], 1000, 1),
    "Vdelete": lambda c: c.L.Vdelete(c.v["fid"], c.v["vgref"]),
    "Vsetattr": lambda c: c.L.Vsetattr(c.v["vg"], b"newattr", DFNT["int16"], 1, struct.pack("=h", 1)),
    "VSattach_new": lambda c: keep(c, "extra_vs", c.L.VSattach(c.v["fid"], -1, b"w")),
    "VSattach_existing_w": lambda c: keep(c, "extra_vs", c.L.VSattach(c.v["fid"], c.v["vsref"], b"w")),
    "VSwrite": m_vswrite,
    "VSsetname": lambda c: c.L.VSsetname(c.v["vs"], b"renamedvd"),
    "VSsetclass": lambda c: c.L.VSsetclass(c.v["vs"], b"newclass"),
    "VSfdefine": lambda c: c.L.VSfdefine(c.v["vs"], b"newfield", DFNT["int16"], 1),
    "VSsetattr": lambda c: c.L.VSsetattr(c.v["vs"], -1, b"newattr", DFNT["int16"], 1, struct.pack("=h", 1)),
    "VSdelete": lambda c: c.L.VSdelete(c.v["fid"], c.v["vsref"]),
    "VHstoredata": lambda c: c.L.VHstoredata(c.v["fid"], b"fld", struct.pack("=2h", 1, 2), 2, DFNT["int16"], b"newvd", b"cls"),
    "VHmakegroup": m_vhmakegroup,
    "SDcreate": m_sdcreate, "SDwritedata": m_sdwritedata, "SDwritechunk": m_sdwritechunk,
    "SDsetattr_file": lambda c: c.L.SDsetattr(c.v["sd"], b"newattr", DFNT["int16"], 1, struct.pack("=h", 1)),
    "SDsetattr_sds": lambda c: c.L.SDsetattr(c.v["sds"], b"newattr", DFNT["int16"], 1, struct.pack("=h", 1)),
    "SDsetattr_dim": lambda c: c.L.SDsetattr(c.v["dim"], b"newattr", DFNT["int16"], 1, struct.pack("=h", 1)),
    "SDsetdimname": lambda c: c.L.SDsetdimname(c.v["dim"], b"renamed_dim"),
    "SDsetdimscale": lambda c: c.L.SDsetdimscale(c.v["dim"], 3, DFNT["int16"], h4api.pack(22, [4, 5, 6])),
    "SDsetdimstrs": lambda c: c.L.SDsetdimstrs(c.v["dim"], b"lab", b"un", None),
    "SDsetdatastrs": lambda c: c.L.SDsetdatastrs(c.v["sds"], b"lab", b"un", None, None),
    "SDsetcal": lambda c: c.L.SDsetcal(c.v["sds"], 1.0, 2.0, 3.0, 4.0, 22),
    "SDsetrange": lambda c: c.L.SDsetrange(c.v["sds"], struct.pack("=i", 9), struct.pack("=i", 1)),
    "SDsetfillvalue": lambda c: c.L.SDsetfillvalue(c.v["sds"], struct.pack("=i", -1)),
    "SDsetcompress": m_sdsetcompress,
    "SDsetchunk": lambda c: c.L.SDsetchunk(c.v["sds"], chunkdef([2, 2]), HDF_CHUNK),
    "SDsetnbitdataset": lambda c: c.L.SDsetnbitdataset(c.v["sds"], 3, 4, 0, 0),
    "SDsetexternalfile": lambda c: c.L.SDsetexternalfile(c.v["sds"], b"newsdext.dat", 0),
    "GRcreate": m_grcreate, "GRwriteimage": m_grwriteimage,
    # the same setters on attributes that ARE in the file (same type and count: the replacement every interface allows)
    "Vsetattr_existing": lambda c: c.L.Vsetattr(c.v["vg"], b"gattr", DFNT["int32"], 1, struct.pack("=i", 78)),
    "VSsetattr_existing": lambda c: c.L.VSsetattr(c.v["vs"], -1, b"vattr", DFNT["int16"], 1, struct.pack("=h", 4)),
    "SDsetattr_file_existing": lambda c: c.L.SDsetattr(c.v["sd"], b"title", DFNT["char8"], 5, b"HELLO"),
    "SDsetattr_sds_existing": lambda c: c.L.SDsetattr(c.v["sds"], b"units", DFNT["char8"], 3, b"km "),
    "SDsetattr_dim_existing": lambda c: c.L.SDsetattr(c.v["dim"], b"dnote", DFNT["int16"], 1, struct.pack("=h", 5)),
    "GRsetattr_file_existing": lambda c: c.L.GRsetattr(c.v["gr"], b"gnote", DFNT["int16"], 1, struct.pack("=h", 10)),
    "GRsetattr_ri_existing": lambda c: c.L.GRsetattr(c.v["ri"], b"note", DFNT["int16"], 2, struct.pack("=2h", 7, 8)),
    "SDwritedata_empty": m_sdwrite_empty,
    "GRsetattr_file": lambda c: c.L.GRsetattr(c.v["gr"], b"newattr", DFNT["int16"], 1, struct.pack("=h", 1)),
    "GRsetattr_ri": lambda c: c.L.GRsetattr(c.v["ri"], b"newattr", DFNT["int16"], 1, struct.pack("=h", 1)),
    "GRwritelut": lambda c: c.L.GRwritelut(c.v["pal"], 3, DFNT["uint8"], 0, 256, bytes(768)),
    "GRsetcompress": m_grsetcompress,
    "GRsetchunk": lambda c: c.L.GRsetchunk(c.v["ri"], chunkdef([2, 2]), HDF_CHUNK),
    "GRsetexternalfile": lambda c: c.L.GRsetexternalfile(c.v["ri"], b"newgrext.dat", 0),
    "ANcreate": lambda c: keep(c, "extra_ann", c.L.ANcreate(c.v["an"], 1000, 2, AN_DATA_LABEL)),
    "ANcreatef": lambda c: keep(c, "extra_ann", c.L.ANcreatef(c.v["an"], AN_FILE_DESC)),
    "ANwriteann": lambda c: c.L.ANwriteann(c.v["ann"], b"changed label!", 14),
}


@op("ReadOnly", "Query")
def ro_query(c, a):
    QUERIES[a["call"]](c)
    return {"intact": intact(c)}


@op("ReadOnly", "Mutate")
def ro_mutate(c, a):
    r = MUTATORS[a["call"]](c)
    return {"ret": FAIL if r == FAIL else 0, "intact": intact(c)}
