"""operation handlers for specs/Annot.tla (C11)"""
import ctypes
from ctypes import byref, c_int32, c_uint16, create_string_buffer
from ops_common import *
import h4api
from h4api import CBuf

AN_DATA_LABEL, AN_DATA_DESC, AN_FILE_LABEL, AN_FILE_DESC = 0, 1, 2, 3
ANT = {"ol": AN_DATA_LABEL, "od": AN_DATA_DESC, "fl": AN_FILE_LABEL, "fd": AN_FILE_DESC}
ANTAG = {"ol": 104, "od": 105, "fl": 100, "fd": 101}      # DFTAG_DIL, DFTAG_DIA, DFTAG_FID, DFTAG_FD
TGT = {"t1": (702, 1), "t2": (702, 2), "t3": (306, 1)}    # DFTAG_SD ref 1,2 ; DFTAG_RIG ref 1 (plain elements here)
KMAX = 16


def text(ty, n, k):
    """labels: no NUL bytes; descriptions: every byte value incl. NUL"""
    if ty in ("fl", "ol"):
        return bytes(65 + (k * 5 + i * 3 + i // 26) % 26 for i in range(n))
    return bytes((k * 31 + i * 7 + i // 256) % 256 for i in range(n))


def recover(ty, raw):
    for k in range(KMAX):
        if text(ty, len(raw), k) == raw:
            return k
    return -7777


def an_open(c):
    L = c.L
    c.v["fid"] = L.Hopen(c.path(), DFACC_RDWR, 0)
    c.v["an"] = L.ANstart(c.v["fid"]) if c.v["fid"] != FAIL else FAIL
    return 0 if c.v["an"] != FAIL else FAIL


def an_close(c):
    L = c.L
    r = 0
    if c.v.get("an", FAIL) != FAIL:
        if L.ANend(c.v["an"]) == FAIL:
            r = FAIL
        c.v["an"] = FAIL
    if c.v.get("fid", FAIL) != FAIL:
        if L.Hclose(c.v["fid"]) == FAIL:
            r = FAIL
        c.v["fid"] = FAIL
    return r


@teardown("Annot")
def an_teardown(c):
    an_close(c)
    c.L.DFANclear()


@op("Annot", "Setup")
def an_setup(c, a):
    L = c.L
    h4api.declare_all(L)
    L.ANtagref2id.argtypes = [c_int32, c_uint16, c_uint16]
    L.ANcreate.argtypes = [c_int32, c_uint16, c_uint16, c_int32]
    L.ANnumann.argtypes = [c_int32, c_int32, c_uint16, c_uint16]
    L.ANannlist.argtypes = [c_int32, c_int32, c_uint16, c_uint16, ctypes.POINTER(c_int32)]
    for f in ("DFANputlabel", "DFANgetlablen", "DFANgetdesclen"):
        getattr(L, f).argtypes = None
    L.DFANputlabel.argtypes = [ctypes.c_char_p, c_uint16, c_uint16, ctypes.c_char_p]
    L.DFANputdesc.argtypes = [ctypes.c_char_p, c_uint16, c_uint16, ctypes.c_void_p, c_int32]
    L.DFANgetlablen.argtypes = [ctypes.c_char_p, c_uint16, c_uint16]
    L.DFANgetdesclen.argtypes = [ctypes.c_char_p, c_uint16, c_uint16]
    L.DFANgetlabel.argtypes = [ctypes.c_char_p, c_uint16, c_uint16, ctypes.c_void_p, c_int32]
    L.DFANgetdesc.argtypes = [ctypes.c_char_p, c_uint16, c_uint16, ctypes.c_void_p, c_int32]
    L.DFANclear()
    fid = L.Hopen(c.path(), DFACC_CREATE, 0)
    if fid == FAIL:
        return {"ret": FAIL}
    for (t, r) in TGT.values():
        L.Hputelement(fid, t, r, b"obj%d" % r, 4)
    L.Hclose(fid)
    c.v["refs"] = {"fl": [], "fd": [], "ol": [], "od": []}    # annotation refs in creation order, per type
    return {"ret": an_open(c)}


@op("Annot", "ToDF")
def an_todf(c, a):
    r = an_close(c)
    c.L.DFANclear()
    return {"ret": r}


@op("Annot", "ToAN")
def an_toan(c, a):
    c.L.DFANclear()
    return {"ret": an_open(c)}


def write_ann(c, ann, ty, n, k):
    raw = text(ty, n, k)
    b = CBuf(max(n, 1), raw)
    r = c.L.ANwriteann(ann, b.ptr, n)
    b.free()
    return r


@op("Annot", "Create")
def an_create(c, a):
    L = c.L
    ty = a["type"]
    if ty in ("ol", "od"):
        t, r = TGT[a["target"]]
        ann = L.ANcreate(c.v["an"], t, r, ANT[ty])
    else:
        ann = L.ANcreatef(c.v["an"], ANT[ty])
    if ann == FAIL:
        return {"ret": FAIL}
    w = write_ann(c, ann, ty, a["len"], a["k"])
    tg, rf = c_uint16(), c_uint16()
    if L.ANid2tagref(ann, byref(tg), byref(rf)) != FAIL:
        c.v["refs"][ty].append(rf.value)
    else:
        c.v["refs"][ty].append(-1)
    e = L.ANendaccess(ann)
    return {"ret": 0 if (w != FAIL and e != FAIL) else FAIL}


@op("Annot", "Rewrite")
def an_rewrite(c, a):
    L = c.L
    ty = a["type"]
    refs = c.v["refs"][ty]
    if a["index"] >= len(refs):
        return {"ret": FAIL}
    ann = L.ANtagref2id(c.v["an"], ANTAG[ty], refs[a["index"]])
    if ann == FAIL:
        return {"ret": FAIL}
    w = write_ann(c, ann, ty, a["len"], a["k"])
    e = L.ANendaccess(ann)
    return {"ret": 0 if (w != FAIL and e != FAIL) else FAIL}


@op("Annot", "FileInfo")
def an_fileinfo(c, a):
    fl, fd, ol, od = c_int32(), c_int32(), c_int32(), c_int32()
    if c.L.ANfileinfo(c.v["an"], byref(fl), byref(fd), byref(ol), byref(od)) == FAIL:
        return {"fl": -1, "fd": -1, "ol": -1, "od": -1}
    return {"fl": fl.value, "fd": fd.value, "ol": ol.value, "od": od.value}


def read_ann(c, ann, ty):
    """-> ({len,k}, (tag, ref)) ; len -1 on failure"""
    L = c.L
    n = L.ANannlen(ann)
    if n == FAIL:
        return {"len": -1, "k": -1}, None
    # labels are returned NUL-terminated: one byte more is needed
    extra = 1 if ty in ("fl", "ol") else 0
    b = CBuf(n + extra if n + extra > 0 else 1)
    r = L.ANreadann(ann, b.ptr, n + extra)
    raw = b.raw()[:n]
    term = b.raw()[n:n + 1] if extra else b"\0"
    b.free()
    tg, rf = c_uint16(), c_uint16()
    ident = (tg.value, rf.value) if L.ANid2tagref(ann, byref(tg), byref(rf)) != FAIL else None
    if ident:
        ident = (tg.value, rf.value)
    if r == FAIL:
        return {"len": n, "k": -7778}, ident
    if term != b"\0":
        return {"len": n, "k": -7779}, ident
    return {"len": n, "k": recover(ty, raw)}, ident


@op("Annot", "ReadAll")
def an_readall(c, a):
    L = c.L
    ty = a["type"]
    fl, fd, ol, od = c_int32(), c_int32(), c_int32(), c_int32()
    L.ANfileinfo(c.v["an"], byref(fl), byref(fd), byref(ol), byref(od))
    n = {"fl": fl, "fd": fd, "ol": ol, "od": od}[ty].value
    texts, same, why, ids = [], True, [], []
    got = {}
    refs = c.v["refs"][ty]
    for i in range(n):
        ann = L.ANselect(c.v["an"], i, ANT[ty])
        if ann == FAIL:
            same = False
            why.append("select %d" % i)
            continue
        t, ident = read_ann(c, ann, ty)
        ids.append(ann)
        if ident is None or ident[0] != ANTAG[ty] or ident[1] not in refs or ident[1] in got:
            same = False
            why.append("identity %d: %s" % (i, ident))
            got[("?", i)] = t
        else:
            got[ident[1]] = t
        if ident is None:
            pass
        elif L.ANtagref2id(c.v["an"], ident[0], ident[1]) != ann:
            same = False
            why.append("tagref2id %d" % i)
        else:
            tg, rf = c_uint16(), c_uint16()
            if L.ANget_tagref(c.v["an"], i, ANT[ty], byref(tg), byref(rf)) == FAIL or (tg.value, rf.value) != ident:
                same = False
                why.append("get_tagref %d" % i)
    if len(set(ids)) != len(ids):
        same = False
        why.append("duplicate ids")
    for ann in ids:
        L.ANendaccess(ann)
    if L.ANselect(c.v["an"], n, ANT[ty]) != FAIL:
        same = False
        why.append("select past the end succeeds")
    texts = [got[r] for r in refs if r in got] + [v for k2, v in got.items() if isinstance(k2, tuple)]
    if n != len(refs):
        same = False
        why.append("%d annotations listed, %d created" % (n, len(refs)))
    o = {"texts": texts, "same": same}
    if why:
        o["why"] = why
    return o


@op("Annot", "AnnList")
def an_annlist(c, a):
    L = c.L
    ty = a["type"]
    t, r = TGT[a["target"]]
    n = L.ANnumann(c.v["an"], ANT[ty], t, r)
    if n == FAIL:
        return {"n": -1, "texts": [], "same": False}
    lst = (c_int32 * (n + 1))(*([-5] * (n + 1)))
    got = L.ANannlist(c.v["an"], ANT[ty], t, r, lst) if n > 0 else 0
    same, why, texts = True, [], []
    if got != n or lst[n] != -5:
        same = False
        why.append("annlist returned %d of %d" % (got, n))
    ids = [lst[i] for i in range(n)]
    keyed = []
    refs = c.v["refs"][ty]
    for ann in ids:
        tx, ident = read_ann(c, ann, ty)
        if ident is None or ident[0] != ANTAG[ty] or ident[1] not in refs:
            same = False
            why.append("identity %s" % (ident,))
            keyed.append((1 << 20, tx))
        else:
            keyed.append((refs.index(ident[1]), tx))
    if len(set(k2 for k2, _ in keyed)) != len(keyed):
        same = False
        why.append("an annotation listed twice")
    texts = [tx for _, tx in sorted(keyed, key=lambda kv: kv[0])]
    if len(set(ids)) != len(ids):
        same = False
        why.append("duplicate ids")
    for ann in ids:
        L.ANendaccess(ann)
    o = {"n": n, "texts": texts, "same": same}
    if why:
        o["why"] = why
    return o


# ---------------------------------------------------------------- DFAN
def note_lastref(c, ty):
    """keep the per-type list of annotation refs (creation order) in step with the single-file interface"""
    c.L.DFANlastref.restype = c_uint16
    ref = c.L.DFANlastref()
    if ref not in c.v["refs"][ty]:
        c.v["refs"][ty].append(ref)


@op("Annot", "DfPut")
def df_put(c, a):
    L = c.L
    ty = a["type"]
    t, r = TGT[a["target"]]
    raw = text(ty, a["len"], a["k"])
    if ty == "ol":
        rr = L.DFANputlabel(c.path(), t, r, raw + b"\0")
        note_lastref(c, ty)
        return {"ret": rr}
    b = CBuf(max(len(raw), 1), raw)
    rr = L.DFANputdesc(c.path(), t, r, b.ptr, len(raw))
    b.free()
    note_lastref(c, ty)
    return {"ret": rr}


@op("Annot", "DfOther")
def df_other(c, a):
    """the same call on a second file (kept for the whole behaviour), read back from there"""
    L = c.L
    ty = a["type"]
    t, r = TGT[a["target"]]
    raw = text(ty, a["len"], a["k"])
    pa = c.path()
    pb = (pa if isinstance(pa, bytes) else pa.encode()) + b".other"
    if ty == "ol":
        rr = L.DFANputlabel(pb, t, r, raw + b"\0")
    else:
        b = CBuf(max(len(raw), 1), raw)
        rr = L.DFANputdesc(pb, t, r, b.ptr, len(raw))
        b.free()
    back = False
    if rr != FAIL:
        n = (L.DFANgetlablen if ty == "ol" else L.DFANgetdesclen)(pb, t, r)
        if n == len(raw):
            extra = 1 if ty == "ol" else 0
            b = CBuf(max(n + extra, 1))
            g = (L.DFANgetlabel if ty == "ol" else L.DFANgetdesc)(pb, t, r, b.ptr, n + extra)
            back = (g != FAIL and b.raw()[:n] == raw)
            b.free()
    return {"ret": rr, "back": back}


@op("Annot", "DfAddFile")
def df_addfile(c, a):
    L = c.L
    ty = a["type"]
    raw = text(ty, a["len"], a["k"])
    fid = L.Hopen(c.path(), DFACC_RDWR, 0)
    if fid == FAIL:
        return {"ret": FAIL}
    if ty == "fl":
        r = L.DFANaddfid(fid, raw + b"\0")
    else:
        b = CBuf(max(len(raw), 1), raw)
        r = L.DFANaddfds(fid, b.ptr, len(raw))
        b.free()
    note_lastref(c, ty)
    if L.Hclose(fid) == FAIL:
        r = FAIL
    return {"ret": r}


@op("Annot", "DfGet")
def df_get(c, a):
    L = c.L
    ty = a["type"]
    t, r = TGT[a["target"]]
    n = (L.DFANgetlablen if ty == "ol" else L.DFANgetdesclen)(c.path(), t, r)
    if n == FAIL:
        return {"ret": FAIL}
    extra = 1 if ty == "ol" else 0
    b = CBuf(n + extra if n + extra > 0 else 1)
    rr = (L.DFANgetlabel if ty == "ol" else L.DFANgetdesc)(c.path(), t, r, b.ptr, n + extra)
    raw = b.raw()[:n]
    b.free()
    got = {"len": n, "k": recover(ty, raw) if rr != FAIL else -7778}
    cands = (c.exp or {}).get("cands") if c.exp else None
    return {"ret": 0, "got": got, "cands": cands if (cands is not None and got in cands) else [got]}


@op("Annot", "DfFileAnns")
def df_fileanns(c, a):
    L = c.L
    ty = a["type"]
    fid = L.Hopen(c.path(), DFACC_READ, 0)
    if fid == FAIL:
        return {"texts": [{"len": -1, "k": -1}]}
    texts = []
    first = 1
    while len(texts) < 100:
        n = (L.DFANgetfidlen if ty == "fl" else L.DFANgetfdslen)(fid, first)
        if n == FAIL:
            break
        extra = 1      # both getters NUL-terminate inside maxlen
        b = CBuf(n + extra)
        rr = (L.DFANgetfid if ty == "fl" else L.DFANgetfds)(fid, b.ptr, n + extra, first)
        raw = b.raw()[:n]
        b.free()
        texts.append({"len": n, "k": recover(ty, raw) if rr != FAIL else -7778})
        first = 0
    L.Hclose(fid)
    return {"texts": sorted(texts, key=lambda t: (t["len"], t["k"]))}
