"""operation handlers for specs/Repack.tla (C18): hrepack preserves content, changes only layout"""
import ctypes, os, struct, subprocess, json
from ctypes import byref, c_int32, create_string_buffer
from ops_common import *
import h4api
from h4api import CBuf, DFNT, i32arr, chunkdef, HDF_CHUNK, HDF_COMP, COMP_CODE_RLE, COMP_CODE_SKPHUFF, COMP_CODE_DEFLATE
import content as C

COMPNAME = {0: "none", 1: "rle", 3: "huff", 4: "gzip", 2: "nbit"}
AN_DATA_LABEL, AN_DATA_DESC, AN_FILE_LABEL, AN_FILE_DESC = 0, 1, 2, 3


def vals(nt, n, seed):
    fmt = h4api.DFNT_FMT[nt]
    if fmt in ("f", "d"):
        return struct.pack("=%d%s" % (n, fmt), *[seed + 0.25 * (i % 97) for i in range(n)])
    if fmt == "c":
        return bytes(97 + (seed + i) % 26 for i in range(n))
    mod = {"b": 100, "B": 200, "h": 30000, "H": 60000, "i": 2000000000, "I": 4000000000}[fmt]
    return struct.pack("=%d%s" % (n, fmt), *[(seed * 131 + i * 7) % mod for i in range(n)])


def mk_sds(L, sd, name, nt, shape, seed, write=True, unlimited_rows=0):
    s = L.SDcreate(sd, name, nt, len(shape), i32arr(shape))
    wshape = list(shape)
    if shape[0] == 0:
        wshape[0] = unlimited_rows
    if write and all(x > 0 for x in wshape):
        n = 1
        for x in wshape:
            n *= x
        raw = vals(nt, n, seed)
        b = CBuf(len(raw), raw)
        L.SDwritedata(s, i32arr([0] * len(shape)), None, i32arr(wshape), b.ptr)
        b.free()
    return s


def build(L, d, kind):
    """the input files; every dataset/image of the roster of specs/Repack.tla is present in every kind"""
    p = os.path.join(d, "in0.hdf").encode()
    sd = L.SDstart(p, DFACC_CREATE)
    # --- the roster
    s = mk_sds(L, sd, b"big2d", DFNT["int32"], [20, 30], 1)
    L.SDsetattr(s, b"units", DFNT["char8"], 3, b"m/s")
    L.SDsetattr(s, b"cal", DFNT["float32"], 4, struct.pack("=4f", 1.0, 2.0, 4.0, 8.0))
    L.SDsetattr(s, b"steps", DFNT["int16"], 5, struct.pack("=5h", 1, 2, 3, 4, 5))
    L.SDsetdimname(L.SDgetdimid(s, 0), b"rows")
    L.SDsetdimscale(L.SDgetdimid(s, 0), 20, DFNT["int16"], vals(DFNT["int16"], 20, 5))
    L.SDsetdimstrs(L.SDgetdimid(s, 1), b"columns", b"km", None)
    L.SDsetfillvalue(s, struct.pack("=i", -9))
    L.SDsetrange(s, struct.pack("=i", 5000), struct.pack("=i", 0))
    L.SDendaccess(s)
    L.SDendaccess(mk_sds(L, sd, b"small", DFNT["int8"], [2, 2], 2))
    if kind in ("fixed", "big"):
        L.SDendaccess(mk_sds(L, sd, b"unl", DFNT["int16"], [25, 40], 3))
    else:
        L.SDendaccess(mk_sds(L, sd, b"unl", DFNT["int16"], [0, 40], 3, unlimited_rows=25))
    L.SDendaccess(mk_sds(L, sd, b"empty", DFNT["float32"], [20, 30], 4, write=False))
    # datasets sharing named dimensions of which only a LATER one has a coordinate variable (scale + attribute), and a
    # dataset whose coordinate variables were made in another order than its dimensions: the lists of coordinate
    # variables and of dimensions in use do not line up
    for nm, nt, seed in ((b"lvl_a", DFNT["int16"], 21), (b"lvl_b", DFNT["float32"], 22)):
        s = mk_sds(L, sd, nm, nt, [4, 6], seed)
        L.SDsetdimname(L.SDgetdimid(s, 0), b"level")
        L.SDsetdimname(L.SDgetdimid(s, 1), b"band")
        if nm == b"lvl_a":
            dm = L.SDgetdimid(s, 1)
            L.SDsetdimscale(dm, 6, DFNT["float32"], vals(DFNT["float32"], 6, 23))
            L.SDsetattr(dm, b"wavelength_unit", DFNT["char8"], 2, b"nm")
        L.SDendaccess(s)
    s = mk_sds(L, sd, b"rev3", DFNT["uint8"], [3, 5, 2], 24)
    for i, dn in ((2, b"zz"), (0, b"xx")):
        dm = L.SDgetdimid(s, i)
        L.SDsetdimname(dm, dn)
        n = [3, 5, 2][i]
        L.SDsetdimscale(dm, n, DFNT["int32"], vals(DFNT["int32"], n, 25 + i))
    L.SDsetdimname(L.SDgetdimid(s, 1), b"yy")
    L.SDendaccess(s)
    s = L.SDcreate(sd, b"chk", DFNT["int32"], 2, i32arr([20, 30]))
    L.SDsetchunk(s, chunkdef([7, 8]), HDF_CHUNK)
    raw = vals(DFNT["int32"], 600, 6)
    L.SDwritedata(s, i32arr([0, 0]), None, i32arr([20, 30]), raw)
    L.SDendaccess(s)
    s = L.SDcreate(sd, b"cmp", DFNT["int16"], 2, i32arr([20, 30]))
    ci = (c_int32 * 8)()
    ci[0] = 6
    L.SDsetcompress(s, COMP_CODE_DEFLATE, ci)
    L.SDwritedata(s, i32arr([0, 0]), None, i32arr([20, 30]), vals(DFNT["int16"], 600, 7))
    L.SDendaccess(s)
    if kind in ("types", "mixed", "fixed"):
        for i, (tn, nt) in enumerate(sorted(DFNT.items())):
            if tn in ("char8", "uchar8", "int8", "uint8", "int16", "uint16", "int32", "uint32", "float32", "float64"):
                shape = [[700], [5, 4, 3, 11], [3, 300]][i % 3]
                L.SDendaccess(mk_sds(L, sd, b"t_" + tn.encode(), nt, shape, 10 + i))
        s = L.SDcreate(sd, b"chkcmp", DFNT["uint8"], 3, i32arr([10, 12, 9]))
        L.SDsetchunk(s, chunkdef([4, 5, 3], COMP_CODE_DEFLATE, 6), HDF_COMP)
        L.SDwritedata(s, i32arr([0, 0, 0]), None, i32arr([10, 12, 9]), vals(DFNT["uint8"], 1080, 8))
        L.SDendaccess(s)
    if kind == "big":
        L.SDendaccess(mk_sds(L, sd, b"huge", DFNT["int32"], [3, 300001], 9))
    L.SDsetattr(sd, b"title", DFNT["char8"], 11, b"repack test")
    # numeric attributes of several elements wider than one byte (file-level and on a dataset)
    L.SDsetattr(sd, b"levels", DFNT["int32"], 6, struct.pack("=6i", 1, 10, 100, 1000, 10000, 100000))
    L.SDsetattr(sd, b"origin", DFNT["float64"], 3, struct.pack("=3d", 1.0, 2.0, 4.0))
    L.SDend(sd)
    fid = L.Hopen(p, DFACC_RDWR, 0)
    gr = L.GRstart(fid)
    ri = L.GRcreate(gr, b"img", 1, DFNT["uint8"], 0, i32arr([30, 40]))
    L.GRwriteimage(ri, i32arr([0, 0]), None, i32arr([30, 40]), vals(DFNT["uint8"], 1200, 11))
    L.GRsetattr(ri, b"note", DFNT["int16"], 2, struct.pack("=2h", 5, 6))
    lut = L.GRgetlutid(ri, 0)
    L.GRwritelut(lut, 3, DFNT["uint8"], 0, 256, bytes((j * 3 + ch) % 256 for j in range(256) for ch in range(3)))
    L.GRendaccess(ri)
    ri = L.GRcreate(gr, b"img3", 3, DFNT["uint8"], 0, i32arr([20, 25]))
    L.GRwriteimage(ri, i32arr([0, 0]), None, i32arr([20, 25]), vals(DFNT["uint8"], 1500, 12))
    L.GRendaccess(ri)
    L.GRsetattr(gr, b"grglobal", DFNT["float32"], 1, struct.pack("=f", 2.5))
    L.GRend(gr)
    L.Vinitialize(fid)
    refs = {}
    if kind in ("groups", "mixed", "fixed", "big"):
        for i, (nm, nrec) in enumerate(((b"table1", 5), (b"table2", 300))):
            vs = L.VSattach(fid, -1, b"w")
            L.VSsetname(vs, nm)
            L.VSsetclass(vs, b"records")
            L.VSfdefine(vs, b"a", DFNT["int16"], 1)
            L.VSfdefine(vs, b"b", DFNT["float32"], 2)
            L.VSfdefine(vs, b"c", DFNT["char8"], 3)
            L.VSsetfields(vs, b"a,b,c")
            if i == 1:
                L.VSsetinterlace(vs, 1)           # NO_INTERLACE
            rec = b"".join(struct.pack("=hff3s", k, k * 0.5, k * 2.0, bytes([97 + k % 26] * 3)) for k in range(nrec))
            if i == 1:
                # NO_INTERLACE buffers hold field after field
                rec = b"".join(struct.pack("=h", k) for k in range(nrec)) + b"".join(struct.pack("=ff", k * 0.5, k * 2.0) for k in range(nrec)) + \
                      b"".join(bytes([97 + k % 26] * 3) for k in range(nrec))
            b = CBuf(len(rec), rec)
            L.VSwrite(vs, b.ptr, nrec, 1 if i == 1 else 0)
            b.free()
            L.VSsetattr(vs, -1, b"vattr", DFNT["int32"], 1, struct.pack("=i", 77 + i))
            L.VSsetattr(vs, 1, b"fattr", DFNT["char8"], 2, b"xy")
            refs[nm] = L.VSQueryref(vs)
            L.VSdetach(vs)
        if kind == "big":
            # a Vdata of more than 1 MiB whose record count is not a multiple of the tools' buffer
            vs = L.VSattach(fid, -1, b"w")
            L.VSsetname(vs, b"bigtable")
            L.VSsetclass(vs, b"records")
            L.VSfdefine(vs, b"a", DFNT["int16"], 1)
            L.VSfdefine(vs, b"b", DFNT["float32"], 2)
            L.VSsetfields(vs, b"a,b")
            nrec = 150001
            rec = b"".join(struct.pack("=hff", k % 30000, (k % 1000) * 0.5, (k % 777) * 2.0) for k in range(nrec))
            bb = CBuf(len(rec), rec)
            L.VSwrite(vs, bb.ptr, nrec, 0)
            bb.free()
            L.VSdetach(vs)
        inner = L.Vattach(fid, -1, b"w")
        L.Vsetname(inner, b"inner")
        L.Vsetclass(inner, b"grp")
        L.Vaddtagref(inner, 1962, refs[b"table2"])
        L.Vsetattr(inner, b"gattr", DFNT["float64"], 1, struct.pack("=d", 1.5))
        outer = L.Vattach(fid, -1, b"w")
        L.Vsetname(outer, b"outer")
        L.Vsetclass(outer, b"grp")
        L.Vinsert(outer, inner)
        L.Vaddtagref(outer, 1962, refs[b"table1"])
        sd2 = L.SDstart(p, DFACC_READ)
        s = L.SDselect(sd2, L.SDnametoindex(sd2, b"big2d"))
        L.Vaddtagref(outer, 720, L.SDidtoref(s))
        L.SDendaccess(s)
        L.SDend(sd2)
        oref = L.VQueryref(outer)
        L.Vdetach(inner)
        L.Vdetach(outer)
        an = L.ANstart(fid)
        for (ty, txt) in ((AN_FILE_LABEL, b"file label one"), (AN_FILE_DESC, b"file description\0with a NUL"), (AN_FILE_DESC, b"second description")):
            a = L.ANcreatef(an, ty)
            L.ANwriteann(a, txt, len(txt))
            L.ANendaccess(a)
        L.ANcreate.argtypes = [c_int32, ctypes.c_uint16, ctypes.c_uint16, c_int32]
        for (ty, tag, ref, txt) in ((AN_DATA_LABEL, 1965, oref, b"label of outer"), (AN_DATA_DESC, 1962, refs[b"table1"], b"description of table1")):
            a = L.ANcreate(an, tag, ref, ty)
            L.ANwriteann(a, txt, len(txt))
            L.ANendaccess(a)
        L.ANend(an)
    L.Vfinish(fid)
    L.Hclose(fid)
    return p


def tools_dir(c):
    return os.environ.get("H4V_TOOLS", "/tmp/h4v_tools")


@op("Repack", "Build")
def rp_build(c, a):
    L = c.L
    h4api.declare_all(L)
    L.VFfieldname.restype = ctypes.c_void_p
    os.chdir(c.dir)
    p = build(L, c.dir, a["file"])
    c.v["cur"] = p
    c.v["gen"] = 0
    c.v["content"] = C.content(L, p)
    lay = C.layout(L, p)
    return {"ret": 0, "layout": view(lay, a.get("roster"))}


def view(lay, roster):
    out = {}
    for nm in roster or []:
        e = lay["sds"].get(nm) or lay["gr"].get(nm)
        out[nm] = {"comp": COMPNAME.get(e["comp"], "?%d" % e["comp"]), "chunked": e["chunk"] is not None} if e else {"comp": "?missing", "chunked": False}
    return out


def diff_content(a, b, path=""):
    if a == b:
        return []
    if isinstance(a, dict) and isinstance(b, dict):
        r = []
        for k in sorted(set(a) | set(b)):
            r += diff_content(a.get(k), b.get(k), path + "/" + str(k))
        return r
    if isinstance(a, list) and isinstance(b, list) and len(a) == len(b):
        r = []
        for i, (x, y) in enumerate(zip(a, b)):
            nm = x.get("name", i) if isinstance(x, dict) else i
            r += diff_content(x, y, path + "[%s]" % nm)
        return r
    return ["%s: %s -> %s" % (path, json.dumps(a)[:80], json.dumps(b)[:80])]


@op("Repack", "Repack")
def rp_repack(c, a):
    L = c.L
    c.v["gen"] += 1
    outp = os.path.join(c.dir, "out%d.hdf" % c.v["gen"]).encode()
    cmd = [os.path.join(tools_dir(c), "hrepack"), "-i", c.v["cur"].decode(), "-o", outp.decode()]
    if a["via_file"]:
        # the same options through an option file
        with open(os.path.join(c.dir, "opts.txt"), "w") as f:
            if a["t"]:
                f.write('-t "%s"\n' % a["t"])
            if a["c"]:
                f.write('-c "%s"\n' % a["c"])
        cmd += ["-f", os.path.join(c.dir, "opts.txt")]
    else:
        if a["t"]:
            cmd += ["-t", a["t"]]
        if a["c"]:
            cmd += ["-c", a["c"]]
    if a["m"] >= 0:
        cmd += ["-m", str(a["m"])]
    try:
        pr = subprocess.run(cmd, capture_output=True, text=True, timeout=120)
        rc = pr.returncode
    except subprocess.TimeoutExpired:
        return {"ret": -2, "same": False, "layout": {}}
    if rc != 0 or not os.path.exists(outp):
        return {"ret": rc if rc else -3, "same": False, "layout": {}, "stderr": (pr.stdout + pr.stderr)[-300:]}
    new = C.content(L, outp)
    d = diff_content(c.v["content"], new)
    lay = C.layout(L, outp)
    c.v["cur"] = outp
    o = {"ret": 0, "same": not d, "layout": view(lay, a.get("roster"))}
    if d:
        o["diff"] = d[:6]
    return o
