"""operation handlers for specs/Pal.tla: the single-file palette interface (dfp.c)"""
import ctypes, os
from ctypes import c_char_p, c_void_p, c_int, c_uint16
from ops_common import *
import h4api
from h4api import CBuf

FN = b"p.hdf"
INV31 = pow(31, -1, 256)


def pal_bytes(seed):
    return bytes((seed * 31 + i * 7) % 256 for i in range(768))


def seed_of(raw):
    s = (raw[0] * INV31) % 256
    return s if raw == pal_bytes(s) else -2


def _decl(L):
    L.DFPputpal.argtypes = [c_char_p, c_void_p, c_int, c_char_p]
    L.DFPgetpal.argtypes = [c_char_p, c_void_p]
    L.DFPnpals.argtypes = [c_char_p]
    L.DFPreadref.argtypes = [c_char_p, c_uint16]
    L.DFPwriteref.argtypes = [c_char_p, c_uint16]
    L.DFPlastref.restype = c_uint16


@setup("Pal")
def pal_setup(c, beh):
    L = c.L
    _decl(L)
    L.DFPrestart()                 # the interface's position is the process's: forget the previous behaviour's
    L.DFPwriteref(FN, 0)


@teardown("Pal")
def pal_teardown(c):
    c.L.DFPrestart()
    c.L.DFPwriteref(FN, 0)


@op("Pal", "Put")
def pal_put(c, a):
    L = c.L
    raw = pal_bytes(a["seed"])
    b = CBuf(768, raw)
    r = L.DFPputpal(FN, ctypes.c_void_p(b.p), 1 if a["ow"] else 0, a["mode"].encode())
    b.free()
    return {"ret": r, "lastref": L.DFPlastref()}


@op("Pal", "Get")
def pal_get(c, a):
    L = c.L
    b = CBuf(768)
    r = L.DFPgetpal(FN, ctypes.c_void_p(b.p))
    o = {"ret": r}
    if r != FAIL:
        o["seed"] = seed_of(b.raw(768))
        o["lastref"] = L.DFPlastref()
    b.free()
    return o


@op("Pal", "ReadRef")
def pal_readref(c, a):
    return {"ret": c.L.DFPreadref(FN, a["ref"])}


@op("Pal", "WriteRef")
def pal_writeref(c, a):
    return {"ret": c.L.DFPwriteref(FN, a["ref"])}


@op("Pal", "Restart")
def pal_restart(c, a):
    return {"ret": c.L.DFPrestart()}


@op("Pal", "Count")
def pal_count(c, a):
    return {"n": c.L.DFPnpals(FN), "lastref": c.L.DFPlastref()}
