"""registry + ctypes declarations shared by the operation handlers"""
import ctypes
from ctypes import c_int, c_int32, c_uint16, c_int16, c_uint32, c_char_p, c_void_p, c_long, POINTER, byref

OPS = {}      # spec -> {op -> handler(ctx, args) -> obs dict}
SETUP = {}    # spec -> function(ctx, behaviour) called at behaviour start
TEARDOWN = {} # spec -> function(ctx): release every handle still held at behaviour end

FAIL = -1
DFACC_READ, DFACC_WRITE, DFACC_CREATE, DFACC_RDWR = 1, 2, 4, 3
DFACC_APPENDABLE = 0x10
DF_START, DF_CURRENT, DF_END = 0, 1, 2
DF_FORWARD, DF_BACKWARD = 1, 2


def op(spec, name):
    def deco(fn):
        OPS.setdefault(spec, {})[name] = fn
        return fn
    return deco


def setup(spec):
    def deco(fn):
        SETUP[spec] = fn
        return fn
    return deco


def teardown(spec):
    def deco(fn):
        TEARDOWN[spec] = fn
        return fn
    return deco


def declare(L):
    u16 = c_uint16
    i32 = c_int32
    sigs = {
        "Hopen": (i32, [c_char_p, c_int, c_int16]),
        "Hclose": (c_int, [i32]),
        "Hputelement": (i32, [i32, u16, u16, c_void_p, i32]),
        "Hgetelement": (i32, [i32, u16, u16, c_void_p]),
        "Hlength": (i32, [i32, u16, u16]),
        "Hoffset": (i32, [i32, u16, u16]),
        "Hexist": (c_int, [i32, u16, u16]),
        "Hdeldd": (c_int, [i32, u16, u16]),
        "Hdupdd": (c_int, [i32, u16, u16, u16, u16]),
        "Hnumber": (i32, [i32, u16]),
        "Hnewref": (u16, [i32]),
        "Htagnewref": (u16, [i32, u16]),
        "Hfind": (c_int, [i32, u16, u16, POINTER(u16), POINTER(u16), POINTER(i32), POINTER(i32), c_int]),
        "Hcache": (c_int, [i32, c_int]),
        "Hsync": (c_int, [i32]),
        "Hstartread": (i32, [i32, u16, u16]),
        "Hstartwrite": (i32, [i32, u16, u16, i32]),
        "Hstartaccess": (i32, [i32, u16, u16, c_uint32]),
        "Hendaccess": (c_int, [i32]),
        "Hnextread": (c_int, [i32, u16, u16, c_int]),
        "Hread": (i32, [i32, i32, c_void_p]),
        "Hwrite": (i32, [i32, i32, c_void_p]),
        "Hseek": (c_int, [i32, i32, c_int]),
        "Htell": (i32, [i32]),
        "Htrunc": (i32, [i32, i32]),
        "Happendable": (c_int, [i32]),
        "Hinquire": (c_int, [i32, POINTER(i32), POINTER(u16), POINTER(u16), POINTER(i32), POINTER(i32),
                             POINTER(i32), POINTER(c_int16), POINTER(c_int16)]),
        "HLcreate": (i32, [i32, u16, u16, i32, i32]),
        "HLconvert": (c_int, [i32, i32, i32]),
        "HLsetblockinfo": (c_int, [i32, i32, i32]),
        "HXcreate": (i32, [i32, u16, u16, c_char_p, i32, i32]),
        "Hsetlength": (c_int, [i32, i32]),
        "h4v_log_start": (None, [c_int, c_int]),
        "h4v_log_stop": (None, []),
        "h4v_log_count": (c_long, []),
        "h4v_log_get": (c_int, [c_long, POINTER(c_int), POINTER(c_int), POINTER(c_long), POINTER(c_long),
                                POINTER(c_long), POINTER(c_long), c_char_p]),
        "h4v_log_bytes": (c_long, [c_long, c_char_p, c_long]),
        "h4v_fault_reset": (None, [c_long, c_int, c_int]),
        "h4v_fault_calls": (c_long, []),
        "h4v_fault_delivered": (c_long, []),
    }
    for name, (res, args) in sigs.items():
        f = getattr(L, name)
        f.restype = res
        f.argtypes = args


def get_log(L, with_bytes=True):
    """the wrapped-stdio event log as a list of dicts"""
    evs = []
    n = L.h4v_log_count()
    kind, stream = c_int(), c_int()
    off, ln, a, b = c_long(), c_long(), c_long(), c_long()
    name = ctypes.create_string_buffer(128)
    KN = {1: "open", 2: "write", 3: "flush", 4: "close", 5: "read", 6: "seek", 7: "hook"}
    for i in range(n):
        L.h4v_log_get(i, byref(kind), byref(stream), byref(off), byref(ln), byref(a), byref(b), name)
        e = {"k": KN.get(kind.value, "?"), "s": stream.value, "off": off.value, "len": ln.value,
             "a": a.value, "b": b.value, "name": name.value.decode(errors="replace")}
        if with_bytes and kind.value == 2 and ln.value > 0:
            buf = ctypes.create_string_buffer(ln.value)
            got = L.h4v_log_bytes(i, buf, ln.value)
            e["bytes"] = buf.raw[:got] if got > 0 else b""
        evs.append(e)
    return evs
