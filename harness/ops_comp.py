"""operation handlers for specs/Comp.tla and specs/Bitio.tla (C05)"""
import ctypes, os, struct
from ctypes import byref, c_int32, c_uint32, c_uint16, create_string_buffer
from ops_common import *
import h4api
from h4api import CBuf

CODER = {"none": 0, "rle": 1, "nbit": 2, "skphuff": 3, "deflate": 4}
CTAG, CREF = 700, 1


@teardown("Comp")
def cp_teardown(c):
    if c.v.get("aid", FAIL) != FAIL:
        c.L.Hendaccess(c.v["aid"])
    if c.h.get("F", FAIL) != FAIL:
        c.L.Hclose(c.h["F"])


@op("Comp", "Create")
def cp_create(c, a):
    L = c.L
    h4api.declare_all(L)
    L.HCcreate.argtypes = [c_int32, c_uint16, c_uint16, ctypes.c_int, ctypes.c_void_p, ctypes.c_int, ctypes.c_void_p]
    L.HCcreate.restype = c_int32
    fid = L.Hopen(c.path(), DFACC_CREATE, 0)
    c.h["F"] = fid
    name, par = a["coder"]
    minfo = (c_int32 * 16)()
    cinfo = (c_int32 * 8)()
    cinfo[0] = par
    aid = L.HCcreate(fid, CTAG, CREF, 0, minfo, CODER[name], cinfo)
    c.v["aid"] = aid
    return {"ret": 0 if aid != FAIL else FAIL}


def _len(c):
    ln = c_int32(-9)
    c.L.Hinquire(c.v["aid"], None, None, None, byref(ln), None, None, None, None)
    return ln.value


@op("Comp", "Write")
def cp_write(c, a):
    d = bytes(a["data"])
    b = CBuf(len(d), d)
    r = c.L.Hwrite(c.v["aid"], len(d), ctypes.c_void_p(b.p))
    b.free()
    return {"ret": r, "posn": c.L.Htell(c.v["aid"]), "len": _len(c)}


@op("Comp", "Seek")
def cp_seek(c, a):
    r = c.L.Hseek(c.v["aid"], a["off"], 0)
    return {"ret": r, "posn": c.L.Htell(c.v["aid"])}


@op("Comp", "Read")
def cp_read(c, a):
    aid = c.v["aid"]
    ln, pos = _len(c), c.L.Htell(aid)
    n = a["n"]
    need = n if n > 0 else max(ln - pos, 0)
    b = CBuf(need)
    r = c.L.Hread(aid, n, ctypes.c_void_p(b.p))
    o = {"ret": r, "posn": c.L.Htell(aid)}
    if r != FAIL:
        o["data"] = list(b.raw(min(max(r, 0), need)))
    b.free()
    return o


@op("Comp", "EndAccess")
def cp_endaccess(c, a):
    r = c.L.Hendaccess(c.v["aid"])
    c.v["aid"] = FAIL
    return {"ret": r}


@op("Comp", "Start")
def cp_start(c, a):
    L = c.L
    if a["reopen"]:
        if L.Hclose(c.h["F"]) == FAIL:
            return {"ret": FAIL}
        c.h["F"] = L.Hopen(c.path(), DFACC_RDWR, 0)
    fid = c.h["F"]
    aid = L.Hstartaccess(fid, CTAG, CREF, DFACC_RDWR) if a["w"] else L.Hstartread(fid, CTAG, CREF)
    c.v["aid"] = aid
    if aid == FAIL:
        return {"ret": FAIL}
    cs, osz = c_int32(-1), c_int32(-1)
    L.HCPgetdatasize(fid, CTAG, CREF, byref(cs), byref(osz))
    return {"ret": 0, "len": L.Hlength(fid, CTAG, CREF), "orig": osz.value}


# ------------------------------------------------------------------ Bitio
BTAG, BREF = 710, 1


@teardown("Bitio")
def bt_teardown(c):
    if c.v.get("bid", FAIL) != FAIL:
        c.L.Hendbitaccess(c.v["bid"], 0)
    if c.h.get("F", FAIL) != FAIL:
        c.L.Hclose(c.h["F"])


@op("Bitio", "Create")
def bt_create(c, a):
    L = c.L
    L.Hbitwrite.argtypes = [c_int32, ctypes.c_int, c_uint32]
    L.Hbitread.argtypes = [c_int32, ctypes.c_int, ctypes.POINTER(c_uint32)]
    fid = L.Hopen(c.path(), DFACC_CREATE, 0)
    c.h["F"] = fid
    bid = L.Hstartbitwrite(fid, BTAG, BREF, 0)
    c.v["bid"] = bid
    if bid != FAIL:
        L.Hbitappendable(bid)
    return {"ret": 0 if bid != FAIL else FAIL}


@op("Bitio", "WriteBits")
def bt_write(c, a):
    val = ((a["hi"] << 16) | a["lo"]) & 0xFFFFFFFF
    return {"ret": c.L.Hbitwrite(c.v["bid"], a["w"], val)}


@op("Bitio", "ReadBits")
def bt_read(c, a):
    v = c_uint32(0xEEEEEEEE)
    r = c.L.Hbitread(c.v["bid"], a["w"], byref(v))
    val = v.value & ((1 << a["w"]) - 1) if a["w"] < 32 else v.value
    if a["w"] > 16:
        return {"ret": r, "hi": val >> 16, "lo": val & 0xFFFF}
    return {"ret": r, "hi": 0, "lo": val}


@op("Bitio", "Seek")
def bt_seek(c, a):
    return {"ret": c.L.Hbitseek(c.v["bid"], a["byte"], a["bit"])}


@op("Bitio", "End")
def bt_end(c, a):
    r = c.L.Hendbitaccess(c.v["bid"], a["flush"])
    c.v["bid"] = FAIL
    return {"ret": r, "nbytes": c.L.Hlength(c.h["F"], BTAG, BREF)}


@op("Bitio", "Start")
def bt_start(c, a):
    L = c.L
    if a["reopen"]:
        if L.Hclose(c.h["F"]) == FAIL:
            return {"ret": FAIL}
        c.h["F"] = L.Hopen(c.path(), DFACC_RDWR, 0)
    bid = L.Hstartbitread(c.h["F"], BTAG, BREF)
    c.v["bid"] = bid
    return {"ret": 0 if bid != FAIL else FAIL}


# ------------------------------------------------------------------ NBit (through SDsetnbitdataset)
NB_NT = {(8, True): (20, "b"), (8, False): (21, "B"), (16, True): (22, "h"), (16, False): (23, "H"),
         (32, True): (24, "i"), (32, False): (25, "I")}


def nb_pack(c, pairs):
    w, fmt = c.v["w"], c.v["fmt"]
    out = []
    for hi, lo in pairs:
        u = ((hi << 16) | lo) & ((1 << w) - 1)
        if fmt in "bhi" and u >= (1 << (w - 1)):
            u -= (1 << w)
        out.append(u)
    return struct.pack("=%d%s" % (len(out), fmt), *out)


def nb_unpack(c, raw, n):
    w, fmt = c.v["w"], c.v["fmt"]
    vals = struct.unpack("=%d%s" % (n, fmt), raw)
    res = []
    for v in vals:
        u = v & ((1 << w) - 1)
        res.append([u >> 16, u & 0xFFFF])
    return res


@teardown("NBit")
def nb_teardown(c):
    if c.v.get("sds", FAIL) != FAIL:
        c.L.SDendaccess(c.v["sds"])
    if c.v.get("sd", FAIL) != FAIL:
        c.L.SDend(c.v["sd"])


@op("NBit", "Create")
def nb_create(c, a):
    L = c.L
    h4api.declare_all(L)
    nt, fmt = NB_NT[(a["w"], bool(a["signed"]))]
    c.v["w"], c.v["fmt"], c.v["n"] = a["w"], fmt, a["n"]
    sd = L.SDstart(c.path(), DFACC_CREATE)
    c.v["sd"] = sd
    s = L.SDcreate(sd, b"nb", nt, 1, h4api.i32arr([a["n"]]))
    c.v["sds"] = s
    r = L.SDsetnbitdataset(s, a["start"], a["len"], 1 if a["sext"] else 0, 1 if a["fill"] else 0)
    return {"ret": 0 if (sd != FAIL and s != FAIL and r != FAIL) else FAIL}


@op("NBit", "Write")
def nb_write(c, a):
    raw = nb_pack(c, a["data"])
    b = CBuf(len(raw), raw)
    r = c.L.SDwritedata(c.v["sds"], h4api.i32arr([0]), None, h4api.i32arr([c.v["n"]]), b.ptr)
    b.free()
    return {"ret": 0 if r != FAIL else FAIL}


@op("NBit", "Read")
def nb_read(c, a):
    sz = c.v["w"] // 8
    b = CBuf(sz * a["count"])
    r = c.L.SDreaddata(c.v["sds"], h4api.i32arr([a["start"]]), None, h4api.i32arr([a["count"]]), b.ptr)
    o = {"ret": 0 if r != FAIL else FAIL}
    if r != FAIL:
        o["data"] = nb_unpack(c, b.raw(), a["count"])
    b.free()
    return o


@op("NBit", "Reopen")
def nb_reopen(c, a):
    L = c.L
    L.SDendaccess(c.v["sds"])
    L.SDend(c.v["sd"])
    sd = L.SDstart(c.path(), DFACC_READ)
    c.v["sd"] = sd
    c.v["sds"] = L.SDselect(sd, 0)
    return {"ret": 0 if (sd != FAIL and c.v["sds"] != FAIL) else FAIL}
