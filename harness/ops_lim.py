"""operation handlers for specs/Limits.tla (C20)"""
import ctypes, os, struct
from ctypes import byref, c_int32, c_uint16, create_string_buffer
from ops_common import *
import h4api
from h4api import CBuf, DFNT, i32arr

RES_TAG = 1100


def P(c, name="w.hdf"):
    return os.path.join(c.dir, name).encode()


def h_open(c, create=False):
    c.v["fid"] = c.L.Hopen(P(c), DFACC_CREATE if create else DFACC_RDWR, 0)
    if c.v["fid"] != FAIL:
        c.L.Vinitialize(c.v["fid"])
    return c.v["fid"]


def h_close(c):
    L = c.L
    r = 0
    if c.v.get("vg", FAIL) != FAIL:
        if L.Vdetach(c.v["vg"]) == FAIL:
            r = FAIL
        c.v["vg"] = FAIL
    if c.v.get("fid", FAIL) != FAIL:
        L.Vfinish(c.v["fid"])
        if L.Hclose(c.v["fid"]) == FAIL:
            r = FAIL
        c.v["fid"] = FAIL
    return r


@teardown("Limits")
def lim_teardown(c):
    h_close(c)


@op("Limits", "Setup")
def lim_setup(c, a):
    h4api.declare_all(c.L)
    os.chdir(c.dir)
    c.v["granted"] = {}      # ref -> (offset, length)
    c.v["nres"] = 0
    c.v["nref"] = 0
    c.v["vgref"] = 0
    c.v["small"] = {}        # ref -> bytes of the small probe elements
    r = h_open(c, create=True)
    if r != FAIL:
        c.L.Hputelement(r, 1000, 1, b"abcd", 4)
    return {"ret": 0 if r != FAIL else FAIL}


def sane(c):
    """every granted element reports what it was granted; no negative or over-the-ceiling offsets"""
    L = c.L
    for ref, (off, ln) in c.v["granted"].items():
        o, l = L.Hoffset(c.v["fid"], RES_TAG, ref), L.Hlength(c.v["fid"], RES_TAG, ref)
        if o != off or l != ln or o < 0 or o + l > 0x7fffffff:
            return False
    # nothing else in the file may have a negative offset or length either
    ft, fr, fo, fl = c_uint16(0), c_uint16(0), c_int32(0), c_int32(0)
    n = 0
    while n < 100000 and L.Hfind(c.v["fid"], 0, 0, byref(ft), byref(fr), byref(fo), byref(fl), 1) != FAIL:
        n += 1
        if ft.value in (1, 30):
            continue
        empty = (fo.value == -1 and fl.value in (-1, 0))      # the format's "no data yet" descriptor
        if (ft.value & 0x4000) == 0 and not empty and (fo.value < 0 or fl.value < 0 or fo.value + fl.value > 0x7fffffff):
            c.v["bad_dd"] = [ft.value, fr.value, fo.value, fl.value]
            return False
    return True


@op("Limits", "Reserve")
def lim_reserve(c, a):
    L = c.L
    c.v["nref"] += 1
    ref = c.v["nref"]
    ln = a["k"] * 1024
    aid = L.Hstartwrite(c.v["fid"], RES_TAG, ref, ln)
    if aid == FAIL:
        return {"ret": FAIL, "sane": sane(c), "n": c.v["nres"]}
    L.Hendaccess(aid)
    c.v["granted"][ref] = (L.Hoffset(c.v["fid"], RES_TAG, ref), ln)
    c.v["nres"] += 1
    ok = L.Hlength(c.v["fid"], RES_TAG, ref) == ln
    return {"ret": 0 if ok else -2, "sane": sane(c), "n": c.v["nres"]}


@op("Limits", "AppendBig")
def lim_append(c, a):
    L = c.L
    c.v["nref"] += 1
    ref = c.v["nref"]
    n = a["k"] * 1024
    aid = L.Hstartaccess(c.v["fid"], RES_TAG, ref, DFACC_WRITE | DFACC_APPENDABLE)
    if aid == FAIL:
        return {"ret": FAIL, "sane": sane(c)}
    L.Hwrite(aid, 1, b"x")
    b = CBuf(n - 1, bytes((i * 7) % 251 for i in range(n - 1)))
    w = L.Hwrite(aid, n - 1, b.ptr)
    b.free()
    L.Hendaccess(aid)
    if w == FAIL:
        # the element keeps the byte that was stored before the refused growth
        ln = L.Hlength(c.v["fid"], RES_TAG, ref)
        c.v["granted"][ref] = (L.Hoffset(c.v["fid"], RES_TAG, ref), ln)
        return {"ret": FAIL, "sane": sane(c) and ln >= 1}
    c.v["granted"][ref] = (L.Hoffset(c.v["fid"], RES_TAG, ref), n)
    return {"ret": 0, "sane": sane(c)}


@op("Limits", "SeekAppend")
def lim_seekappend(c, a):
    L = c.L
    c.v["nref"] += 1
    ref = c.v["nref"]
    g, n = a["g"] * 1024, a["k"] * 1024
    aid = L.Hstartaccess(c.v["fid"], RES_TAG, ref, DFACC_WRITE | DFACC_APPENDABLE)
    if aid == FAIL:
        return {"ret": FAIL, "sane": sane(c)}
    L.Hwrite(aid, 1, b"x")
    w = FAIL
    if L.Hseek(aid, g, 0) != FAIL:
        b = CBuf(n, bytes((i * 7) % 251 for i in range(n)))
        w = L.Hwrite(aid, n, b.ptr)
        b.free()
    L.Hendaccess(aid)
    if w == FAIL:
        ln = L.Hlength(c.v["fid"], RES_TAG, ref)
        c.v["granted"][ref] = (L.Hoffset(c.v["fid"], RES_TAG, ref), ln)
        return {"ret": FAIL, "sane": sane(c) and ln >= 1}
    c.v["granted"][ref] = (L.Hoffset(c.v["fid"], RES_TAG, ref), g + n)
    return {"ret": 0, "sane": sane(c)}


def the_vg(c):
    L = c.L
    if c.v.get("vg", FAIL) == FAIL:
        if c.v["vgref"]:
            c.v["vg"] = L.Vattach(c.v["fid"], c.v["vgref"], b"w")
        else:
            c.v["vg"] = L.Vattach(c.v["fid"], -1, b"w")
            L.Vsetname(c.v["vg"], b"members")
            c.v["vgref"] = L.VQueryref(c.v["vg"])
    return c.v["vg"]


@op("Limits", "AddMembers")
def lim_members(c, a):
    L = c.L
    vg = the_vg(c)
    ok = 0
    for i in range(a["n"]):
        if L.Vaddtagref(vg, 1000, (i % 60000) + 1) == FAIL:
            break
        ok += 1
    return {"added": ok, "count": L.Vntagrefs(vg)}


@op("Limits", "Fields")
def lim_fields(c, a):
    L = c.L
    vs = L.VSattach(c.v["fid"], -1, b"w")
    r = 0
    for i in range(a["n"]):
        if L.VSfdefine(vs, b"f%d" % i, DFNT["int8"], 1) == FAIL:
            r = FAIL
            break
    if r != FAIL:
        r = L.VSsetfields(vs, b",".join(b"f%d" % i for i in range(a["n"])))
    if r != FAIL:
        rec = CBuf(a["n"], bytes(i % 100 for i in range(a["n"])))
        if L.VSwrite(vs, rec.ptr, 1, 0) != 1:
            r = -2
        rec.free()
    L.VSdetach(vs)
    return {"ret": 0 if r == 0 else r}


@op("Limits", "Order")
def lim_order(c, a):
    L = c.L
    nt = {1: DFNT["int8"], 2: DFNT["int16"], 4: DFNT["int32"], 8: DFNT["float64"]}[a["size"]]
    vs = L.VSattach(c.v["fid"], -1, b"w")
    r = L.VSfdefine(vs, b"fld", nt, a["order"])
    if r != FAIL:
        r = L.VSsetfields(vs, b"fld")
    if r != FAIL:
        n = a["size"] * a["order"]
        rec = CBuf(n, bytes(i % 100 for i in range(n)))
        if L.VSwrite(vs, rec.ptr, 1, 0) != 1:
            r = -2
        rec.free()
    L.VSdetach(vs)
    return {"ret": 0 if r == 0 else r}


@op("Limits", "RecSize")
def lim_recsize(c, a):
    L = c.L
    vs = L.VSattach(c.v["fid"], -1, b"w")
    r1 = L.VSfdefine(vs, b"a", DFNT["int8"], a["o1"])
    r2 = L.VSfdefine(vs, b"b", DFNT["int8"], a["o2"])
    r = L.VSsetfields(vs, b"a,b") if (r1 != FAIL and r2 != FAIL) else -3
    if r == 0:
        n = a["o1"] + a["o2"]
        rec = CBuf(n, bytes(i % 100 for i in range(n)))
        if L.VSwrite(vs, rec.ptr, 1, 0) != 1:
            r = -2
        rec.free()
    L.VSdetach(vs)
    return {"ret": 0 if r == 0 else r}


@op("Limits", "Rank")
def lim_rank(c, a):
    L = c.L
    sd = L.SDstart(P(c, "rank.hdf"), DFACC_CREATE)
    s = L.SDcreate(sd, b"r", DFNT["int8"], a["r"], i32arr([1] * a["r"]))
    r = 0 if s != FAIL else FAIL
    if s != FAIL:
        b = CBuf(1, b"\5")
        if L.SDwritedata(s, i32arr([0] * a["r"]), None, i32arr([1] * a["r"]), b.ptr) == FAIL:
            r = -2
        b.free()
        L.SDendaccess(s)
    if L.SDend(sd) == FAIL:
        r = -3
    return {"ret": r}


def nm(n, ch=b"q"):
    return ch * (n - 1) + b"Z"


def classify(given, back):
    if back is None:
        return "cut"            # refused
    if back == given:
        return "kept"
    if len(back) < len(given) and given.startswith(back):
        return "cut"
    return "garbled:%d" % len(back)


@op("Limits", "SetName")
def lim_setname(c, a):
    """set the name in a scratch file, close, reopen, read it back with a buffer of the reported length"""
    L = c.L
    kind, n = a["kind"], a["len"]
    p = P(c, "names.hdf")
    given = nm(n)
    back = None
    big = n + 70100
    # (the V layer keeps packing buffers that only ever grow: let go of them, so that every request sizes its own;
    #  the session's own file is closed meanwhile)
    h_close(c)
    L.VPshutdown()
    L.VSPhshutdown()
    if kind in ("vsname", "vsclass", "field"):
        fid = L.Hopen(p, DFACC_CREATE, 0)
        L.Vinitialize(fid)
        vs = L.VSattach(fid, -1, b"w")
        fld = given if kind == "field" else b"fld"
        r = L.VSfdefine(vs, fld, DFNT["int16"], 1)
        if r != FAIL:
            r = L.VSsetfields(vs, fld)
        if r != FAIL and kind == "vsname":
            r = L.VSsetname(vs, given)
        if r != FAIL and kind == "vsclass":
            r = L.VSsetclass(vs, given)
        if r != FAIL:
            L.VSwrite(vs, b"\1\2", 1, 0)
        ref = L.VSQueryref(vs)
        L.VSdetach(vs)
        L.Vfinish(fid)
        L.Hclose(fid)
        if r != FAIL:
            fid = L.Hopen(p, DFACC_READ, 0)
            L.Vinitialize(fid)
            vs = L.VSattach(fid, ref, b"r")
            b = create_string_buffer(big)
            if vs != FAIL:
                {"vsname": L.VSgetname, "vsclass": L.VSgetclass, "field": L.VSgetfields}[kind](vs, b)
                back = b.value
                L.VSdetach(vs)
            L.Vfinish(fid)
            L.Hclose(fid)
    elif kind in ("vgname", "vgclass"):
        fid = L.Hopen(p, DFACC_CREATE, 0)
        L.Vinitialize(fid)
        vg = L.Vattach(fid, -1, b"w")
        # (the other of the two is set to something short: name and class share the packing buffer)
        (L.Vsetclass if kind == "vgname" else L.Vsetname)(vg, b"short")
        r = (L.Vsetname if kind == "vgname" else L.Vsetclass)(vg, given)
        ref = L.VQueryref(vg)
        L.Vdetach(vg)
        L.Vfinish(fid)
        L.Hclose(fid)
        if r != FAIL:
            fid = L.Hopen(p, DFACC_READ, 0)
            L.Vinitialize(fid)
            vg = L.Vattach(fid, ref, b"r")
            if vg != FAIL:
                ln = c_uint16()
                (L.Vgetnamelen if kind == "vgname" else L.Vgetclassnamelen)(vg, byref(ln))
                b = CBuf(ln.value + 1)          # exactly what the length inquiry asks for
                (L.Vgetname if kind == "vgname" else L.Vgetclass)(vg, b.ptr)
                back = b.raw().split(b"\0")[0]
                b.free()
                L.Vdetach(vg)
            L.Vfinish(fid)
            L.Hclose(fid)
    elif kind in ("grname", "grattr"):
        fid = L.Hopen(p, DFACC_CREATE, 0)
        gr = L.GRstart(fid)
        ri = L.GRcreate(gr, given if kind == "grname" else b"img", 1, DFNT["uint8"], 0, i32arr([2, 2]))
        r = 0 if ri != FAIL else FAIL
        if ri != FAIL:
            L.GRwriteimage(ri, i32arr([0, 0]), None, i32arr([2, 2]), b"\1\2\3\4")
            if kind == "grattr":
                r = L.GRsetattr(ri, given, DFNT["int16"], 1, b"\1\0")
            L.GRendaccess(ri)
        L.GRend(gr)
        L.Hclose(fid)
        if r != FAIL:
            fid = L.Hopen(p, DFACC_READ, 0)
            gr = L.GRstart(fid)
            ri = L.GRselect(gr, 0)
            if ri != FAIL:
                b = create_string_buffer(big)
                x = [c_int32() for _ in range(4)]
                dims = (c_int32 * 2)()
                if kind == "grname":
                    L.GRgetiminfo(ri, b, byref(x[0]), byref(x[1]), byref(x[2]), dims, byref(x[3]))
                    back = b.value
                elif L.GRattrinfo(ri, 0, b, byref(x[0]), byref(x[1])) != FAIL:
                    back = b.value
                L.GRendaccess(ri)
            L.GRend(gr)
            L.Hclose(fid)
    elif kind in ("sdname", "dimname", "sdattr"):
        sd = L.SDstart(p, DFACC_CREATE)
        s = L.SDcreate(sd, given if kind == "sdname" else b"sds", DFNT["int16"], 1, i32arr([2]))
        r = 0 if s != FAIL else FAIL
        if s != FAIL:
            if kind == "dimname":
                r = L.SDsetdimname(L.SDgetdimid(s, 0), given)
            if kind == "sdattr":
                r = L.SDsetattr(s, given, DFNT["int16"], 1, b"\1\0")
            L.SDendaccess(s)
        L.SDend(sd)
        if r != FAIL:
            sd = L.SDstart(p, DFACC_READ)
            s = L.SDselect(sd, 0)
            if s != FAIL:
                b = create_string_buffer(big)
                x = [c_int32() for _ in range(3)]
                dims = (c_int32 * 4)()
                if kind == "sdname":
                    L.SDgetinfo(s, b, byref(x[0]), dims, byref(x[1]), byref(x[2]))
                    back = b.value
                elif kind == "dimname":
                    L.SDdiminfo(L.SDgetdimid(s, 0), b, byref(x[0]), byref(x[1]), byref(x[2]))
                    back = b.value
                elif L.SDattrinfo(s, 0, b, byref(x[0]), byref(x[1])) != FAIL:
                    back = b.value
                L.SDendaccess(s)
            L.SDend(sd)
    elif kind in ("hxname", "extname"):
        # a path made of "./" repetitions so that every length names an existing directory
        given = b"./" * ((n - 5) // 2) + (b"x" if (n - 5) % 2 else b"") + b"e.dat"
        if kind == "hxname":
            fid = L.Hopen(p, DFACC_CREATE, 0)
            aid = L.HXcreate(fid, 2000, 1, given, 0, 0)
            r = 0 if aid != FAIL else FAIL
            if aid != FAIL:
                L.Hwrite(aid, 3, b"abc")
                L.Hendaccess(aid)
            L.Hclose(fid)
            if r != FAIL:
                fid = L.Hopen(p, DFACC_READ, 0)
                b = create_string_buffer(8)
                if L.Hgetelement(fid, 2000, 1, b) == 3 and b.raw[:3] == b"abc":
                    back = given
                else:
                    back = b"?unreadable"
                L.Hclose(fid)
        else:
            sd = L.SDstart(p, DFACC_CREATE)
            s = L.SDcreate(sd, b"sds", DFNT["int16"], 1, i32arr([2]))
            r = L.SDsetexternalfile(s, given, 0)
            w = L.SDwritedata(s, i32arr([0]), None, i32arr([2]), struct.pack("=2h", 7, 8))
            L.SDendaccess(s)
            L.SDend(sd)
            if r != FAIL:
                sd = L.SDstart(p, DFACC_READ)
                s = L.SDselect(sd, 0)
                b = CBuf(4)
                ok = L.SDreaddata(s, i32arr([0]), None, i32arr([2]), b.ptr) != FAIL and b.raw() == struct.pack("=2h", 7, 8)
                b.free()
                ln = L.SDgetexternalinfo(s, 0, None, None, None)
                back = given if (ok and ln == len(given)) else b"?unreadable"
                L.SDendaccess(s)
                L.SDend(sd)
    h_open(c)
    return {"outcome": classify(given, back), "len": len(back) if back is not None else -1}


@op("Limits", "Probe")
def lim_probe(c, a):
    """close, reopen, check everything granted, store and read back something small"""
    L = c.L
    why = []
    if h_close(c) == FAIL:
        why.append("close failed")
    if h_open(c) == FAIL:
        return {"healthy": False, "why": ["reopen failed"], "n": -1, "members": -1}
    if not sane(c):
        why.append("granted elements changed %s" % c.v.get("bad_dd"))
    b = create_string_buffer(8)
    if L.Hgetelement(c.v["fid"], 1000, 1, b) != 4 or b.raw[:4] != b"abcd":
        why.append("first element unreadable")
    members = 0
    if c.v["vgref"]:
        members = L.Vntagrefs(the_vg(c))
    if a["room"]:
        c.v["nref"] += 1
        ref = c.v["nref"]
        data = struct.pack("=i", ref)
        if L.Hputelement(c.v["fid"], 1001, ref, data, 4) != 4:
            why.append("small element refused although there is room")
        else:
            b = create_string_buffer(8)
            if L.Hgetelement(c.v["fid"], 1001, ref, b) != 4 or b.raw[:4] != data:
                why.append("small element reads back wrong")
        vs = L.VSattach(c.v["fid"], -1, b"w")
        if vs == FAIL or L.VSfdefine(vs, b"x", DFNT["int16"], 1) == FAIL or L.VSsetfields(vs, b"x") == FAIL or L.VSwrite(vs, b"\1\2", 1, 0) != 1:
            why.append("small vdata refused")
        if vs != FAIL and L.VSdetach(vs) == FAIL:
            why.append("vdata detach failed")
    o = {"healthy": not why, "n": c.v["nres"], "members": members}
    if why:
        o["why"] = why
    return o
