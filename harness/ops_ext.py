"""operation handlers for specs/ExtElem.tla: external elements and the rules that locate their files

The driver has made the behaviour's scratch directory the working directory ("c"); "a" and "b" are
sub-directories of it.  Directory settings are the process's: they are reset at teardown."""
import ctypes, os, shutil
from ctypes import c_int32, c_char_p
from ops_common import *
import h4api
from h4api import CBuf

TAG = 800
FNAME = {"x": "x.dat", "y": "y.dat"}


def _dir(c, d):
    return c.dir if d == "c" else os.path.join(c.dir, d)


def _fpath(c, d, n):
    return os.path.join(_dir(c, d), FNAME[n])


def _given(c, name, form):
    """the file name as handed to HXcreate"""
    if form == "abs":
        return os.path.join(c.dir, "a", FNAME[name]).encode()
    return FNAME[name].encode()


def _decl(L):
    L.HXsetcreatedir.argtypes = [c_char_p]
    L.HXsetdir.argtypes = [c_char_p]


@teardown("ExtElem")
def ex_teardown(c):
    L = c.L
    _decl(L)
    if c.v.get("aid", FAIL) != FAIL:
        L.Hendaccess(c.v["aid"])
    if c.h.get("F", FAIL) != FAIL:
        L.Hclose(c.h["F"])
    L.HXsetcreatedir(None)
    L.HXsetdir(None)


@op("ExtElem", "Setup")
def ex_setup(c, a):
    L = c.L
    h4api.declare_all(L)
    _decl(L)
    L.HXsetcreatedir(None)
    L.HXsetdir(None)
    os.makedirs(os.path.join(c.dir, "a"), exist_ok=True)
    os.makedirs(os.path.join(c.dir, "b"), exist_ok=True)
    c.h["F"] = L.Hopen(b"f.hdf", DFACC_CREATE, 0)
    return {"ret": 0 if c.h["F"] != FAIL else FAIL}


@op("ExtElem", "SetCreateDir")
def ex_setcreatedir(c, a):
    d = a["dir"]
    return {"ret": c.L.HXsetcreatedir(None if d == "none" else _dir(c, d).encode())}


@op("ExtElem", "SetSearch")
def ex_setsearch(c, a):
    dirs = a["dirs"]
    return {"ret": c.L.HXsetdir(None if not dirs else "|".join(_dir(c, d) for d in dirs).encode())}


@op("ExtElem", "PutPlain")
def ex_putplain(c, a):
    d = bytes(a["data"])
    b = CBuf(len(d), d)
    r = c.L.Hputelement(c.h["F"], TAG, a["e"], ctypes.c_void_p(b.p), len(d))
    b.free()
    return {"ret": r}


@op("ExtElem", "Create")
def ex_create(c, a):
    L = c.L
    d = bytes(a["data"])
    aid = L.HXcreate(c.h["F"], TAG, a["e"], _given(c, a["name"], a["form"]), a["off"], 0)
    if aid == FAIL:
        return {"ret": FAIL}
    b = CBuf(len(d), d)
    r = L.Hwrite(aid, len(d), ctypes.c_void_p(b.p))
    b.free()
    if L.Hendaccess(aid) == FAIL:
        return {"ret": FAIL}
    return {"ret": r}


@op("ExtElem", "Promote")
def ex_promote(c, a):
    L = c.L
    aid = L.HXcreate(c.h["F"], TAG, a["e"], _given(c, a["name"], a["form"]), a["off"], 0)
    if aid == FAIL:
        return {"ret": FAIL}
    return {"ret": L.Hendaccess(aid)}


@op("ExtElem", "Read")
def ex_read(c, a):
    L = c.L
    fid = c.h["F"]
    aid = L.Hstartread(fid, TAG, a["e"])
    if aid == FAIL:
        return {"ret": FAIL}
    ln = c_int32(-1)
    L.Hinquire(aid, None, None, None, ctypes.byref(ln), None, None, None, None)
    n = max(ln.value, 0)
    b = CBuf(max(n, 1))
    r = L.Hread(aid, n, ctypes.c_void_p(b.p)) if n > 0 else 0
    o = {"ret": r}
    if r != FAIL:
        o["data"] = list(b.raw(r))
    b.free()
    L.Hendaccess(aid)
    return o


@op("ExtElem", "Overwrite")
def ex_overwrite(c, a):
    L = c.L
    d = bytes(a["data"])
    aid = L.Hstartaccess(c.h["F"], TAG, a["e"], DFACC_RDWR)
    if aid == FAIL:
        return {"ret": FAIL}
    r = FAIL
    if L.Hseek(aid, a["pos"], 0) != FAIL:
        b = CBuf(len(d), d)
        r = L.Hwrite(aid, len(d), ctypes.c_void_p(b.p))
        b.free()
    if L.Hendaccess(aid) == FAIL:
        r = FAIL
    return {"ret": r}


@op("ExtElem", "RWOverwrite")
def ex_rwoverwrite(c, a):
    L = c.L
    fid = c.h["F"]
    d = bytes(a["data"])
    rd = {"ret": FAIL}
    aid1 = L.Hstartread(fid, TAG, a["e"])
    if aid1 != FAIL:
        ln = c_int32(-1)
        L.Hinquire(aid1, None, None, None, ctypes.byref(ln), None, None, None, None)
        n = max(ln.value, 0)
        b = CBuf(max(n, 1))
        r = L.Hread(aid1, n, ctypes.c_void_p(b.p)) if n > 0 else 0
        rd = {"ret": r}
        if r != FAIL:
            rd["data"] = list(b.raw(r))
        b.free()
    r = FAIL
    aid2 = L.Hstartaccess(fid, TAG, a["e"], DFACC_WRITE)
    if aid2 != FAIL:
        if L.Hseek(aid2, a["pos"], 0) != FAIL:
            b = CBuf(len(d), d)
            r = L.Hwrite(aid2, len(d), ctypes.c_void_p(b.p))
            b.free()
        if L.Hendaccess(aid2) == FAIL:
            r = FAIL
    if aid1 != FAIL:
        L.Hendaccess(aid1)
    return {"ret": r, "rd": rd}


@op("ExtElem", "Attach")
def ex_attach(c, a):
    aid = c.L.Hstartaccess(c.h["F"], TAG, a["e"], DFACC_RDWR)
    c.v["aid"] = aid
    return {"ret": 0 if aid != FAIL else FAIL}


@op("ExtElem", "HRead")
def ex_hread(c, a):
    L = c.L
    aid = c.v["aid"]
    ln = c_int32(-1)
    L.Hinquire(aid, None, None, None, ctypes.byref(ln), None, None, None, None)
    n = max(ln.value, 0)
    if L.Hseek(aid, 0, 0) == FAIL:
        return {"ret": FAIL}
    b = CBuf(max(n, 1))
    r = L.Hread(aid, n, ctypes.c_void_p(b.p))
    o = {"ret": r}
    if r != FAIL:
        o["data"] = list(b.raw(r))
    b.free()
    return o


@op("ExtElem", "HWrite")
def ex_hwrite(c, a):
    L = c.L
    aid = c.v["aid"]
    d = bytes(a["data"])
    if L.Hseek(aid, a["pos"], 0) == FAIL:
        return {"ret": FAIL}
    b = CBuf(len(d), d)
    r = L.Hwrite(aid, len(d), ctypes.c_void_p(b.p))
    b.free()
    return {"ret": r}


@op("ExtElem", "Detach")
def ex_detach(c, a):
    r = c.L.Hendaccess(c.v["aid"])
    c.v["aid"] = FAIL
    return {"ret": r}


@op("ExtElem", "Move")
def ex_move(c, a):
    os.rename(_fpath(c, a["from"], a["name"]), _fpath(c, a["to"], a["name"]))
    return {"ret": 0}


@op("ExtElem", "Plant")
def ex_plant(c, a):
    with open(_fpath(c, a["dir"], a["name"]), "wb") as f:
        f.write(bytes(a["data"]))
    return {"ret": 0}


@op("ExtElem", "Remove")
def ex_remove(c, a):
    os.unlink(_fpath(c, a["dir"], a["name"]))
    return {"ret": 0}


@op("ExtElem", "Reopen")
def ex_reopen(c, a):
    L = c.L
    if L.Hclose(c.h["F"]) == FAIL:
        return {"ret": FAIL}
    c.h["F"] = L.Hopen(b"f.hdf", DFACC_RDWR, 0)
    return {"ret": 0 if c.h["F"] != FAIL else FAIL}


@op("ExtElem", "Dump")
def ex_dump(c, a):
    files = []
    for d in ("c", "a", "b"):
        for n in ("x", "y"):
            p = _fpath(c, d, n)
            if os.path.exists(p):
                files.append({"dir": d, "name": n, "data": list(open(p, "rb").read())})
    return {"files": files}
