#!/usr/bin/env python3
"""crashcut.py -- C17: enumerate every crash point of append-only sessions.

For each workload: prepare a pre-populated file, record the ordered physical writes of the session
(wrapped stdio), and for EVERY prefix of that write log materialise the file as it would be on disk,
reopen it with the real library (forked child, ASan) and with the independent reader, and compare
every previously stored object.  Output: NDJSON trace for Trace_HDiskLog (TLC is the judge) +
per-cut details for replay."""
import sys, os, json, ctypes, shutil, tempfile, signal, argparse, time
HERE = os.path.dirname(os.path.abspath(__file__))
sys.path.insert(0, HERE)
sys.path.insert(0, os.path.join(HERE, "..", "reader"))
import ops_common, h4api, workloads, h4read


def subset_intact(gold, cur, path=""):
    """every object of the golden dump is present in the current dump with identical content"""
    bad = []
    if isinstance(gold, dict):
        if not isinstance(cur, dict):
            return [path + ": missing"]
        for k, v in gold.items():
            if k not in cur:
                bad.append("%s/%s: missing" % (path, k))
            else:
                bad += subset_intact(v, cur[k], path + "/" + str(k))
    elif isinstance(gold, list) and gold and isinstance(gold[0], dict) and "name" in gold[0]:
        # named objects (SDS, images): match by name
        byname = {x.get("name"): x for x in cur if isinstance(x, dict)} if isinstance(cur, list) else {}
        for x in gold:
            if x["name"] not in byname:
                bad.append("%s[%s]: missing" % (path, x["name"]))
            else:
                bad += subset_intact(x, byname[x["name"]], path + "[" + x["name"] + "]")
    elif isinstance(gold, list) and path.endswith("/anns"):
        for x in gold:
            if x not in (cur or []):
                bad.append("%s: annotation %s missing" % (path, x[:3]))
    else:
        if gold != cur:
            bad.append("%s: differs" % path)
    return bad[:6]


def eval_image(L, img, gold, tmo=30):
    """child process: open the image with the real library, dump, compare; returns dict"""
    r, w = os.pipe()
    pid = os.fork()
    if pid == 0:
        os.close(r)
        try:
            signal.alarm(tmo)
            devnull = os.open(os.devnull, os.O_WRONLY)
            os.dup2(devnull, 2)
            cur = h4api.dump_file(L, img)
            res = {"opens": cur.get("open") == "ok", "bad": subset_intact(gold, cur) if cur.get("open") == "ok" else ["does not open"]}
        except BaseException as e:
            res = {"opens": False, "bad": ["harness exception %r" % (e,)], "harness": True}
        os.write(w, json.dumps(res).encode())
        os._exit(0)
    os.close(w)
    data = b""
    while True:
        ch = os.read(r, 65536)
        if not ch:
            break
        data += ch
    os.close(r)
    _, st = os.waitpid(pid, 0)
    if not data:
        return {"opens": False, "bad": ["library crashed or hung on the image (status %d)" % st], "crash": True}
    return json.loads(data)


def run_workload(L, wl, outdir, stride=1):
    name, prep, sess, clause2 = wl
    d = tempfile.mkdtemp(prefix="cc_" + name + "_")
    os.chdir(d)
    events = []
    prep(L, d)
    f = os.path.join(d, workloads.F)
    base = open(f, "rb").read()
    gold = h4api.dump_file(L, f)
    v = h4read.parse(f)
    end_at_open = 0
    for (s, e, _) in v.extent_map():
        end_at_open = max(end_at_open, e)
    marks = {}
    calls = []

    def rec(nm, ret, failval):
        calls.append((nm, ret))
        return ret

    def mark(nm):
        marks[nm] = L.h4v_log_count()
    L.h4v_log_start(1, 1)
    sess(L, d, rec, mark)
    L.h4v_log_stop()
    log = ops_common.get_log(L)
    failed_calls = [c for c in calls if c[1] == -1]
    # the writes to the HDF file itself, in order
    sid = None
    writes = []
    for i, e in enumerate(log):
        if e["k"] == "open" and e["name"].endswith(workloads.F):
            sid = e["s"]
        elif e["k"] == "write" and e["s"] == sid:
            writes.append((i, e["off"], e.get("bytes", b"")))
    flush_at = marks.get("flush", len(log))
    events.append({"op": "Reset", "args": {"workload": name}, "obs": {}})
    events.append({"op": "Open", "args": {"end": end_at_open, "size": len(base), "clause2": clause2,
                                          "session_ok": not failed_calls}, "obs": {}})
    img = os.path.join(d, "cut.hdf")
    cur = bytearray(base)
    cuts = []
    nflush = False
    for k in range(len(writes) + 1):
        if k > 0:
            li, off, b = writes[k - 1]
            if li >= flush_at and not nflush:
                events.append({"op": "FlushBegin", "args": {}, "obs": {}})
                nflush = True
            if off + len(b) > len(cur):
                cur.extend(b"\0" * (off + len(b) - len(cur)))
            cur[off:off + len(b)] = b
            events.append({"op": "Write", "args": {"off": off, "len": len(b)}, "obs": {}})
        if k % stride and k != len(writes):
            continue
        open(img, "wb").write(cur)
        r = eval_image(L, img, gold)
        rv = h4read.parse(img)
        struct_err = [e for e in rv.errors if e.split()[0] in ("MAGIC", "CHAIN", "DUP")]
        obs = {"opens": bool(r["opens"]), "intact": not r["bad"], "wellformed": not struct_err}
        events.append({"op": "Cut", "args": {"k": k}, "obs": obs})
        if r["bad"] or struct_err:
            cuts.append({"k": k, "bad": r["bad"], "reader": struct_err[:3], "in_flush": nflush})
    if not nflush:
        events.append({"op": "FlushBegin", "args": {}, "obs": {}})
    events.append({"op": "Close", "args": {"nwrites": len(writes)}, "obs": {}})
    os.chdir("/")
    shutil.rmtree(d, ignore_errors=True)
    return {"workload": name, "nwrites": len(writes), "flush_at_write": sum(1 for w in writes if w[0] < flush_at),
            "events": events, "bad_cuts": cuts, "clause2": clause2}


def main():
    ap = argparse.ArgumentParser()
    ap.add_argument("--lib", required=True)
    ap.add_argument("--out", required=True)
    ap.add_argument("--only", default="")
    ap.add_argument("--stride", type=int, default=1)
    ap.add_argument("--tier", default="quick")
    ap.add_argument("--jobs", type=int, default=16)
    a = ap.parse_args()
    L = ctypes.CDLL(a.lib)
    ops_common.declare(L)
    h4api.declare_all(L)
    src = workloads.C17_WORKLOADS_THOROUGH if (a.tier == "thorough" or a.only) else workloads.C17_WORKLOADS
    wls = [w for w in src if not a.only or w[0] in a.only.split(",")]
    pids = []
    for i, wl in enumerate(wls):
        while len(pids) >= a.jobs:
            os.waitpid(pids.pop(0), 0)
        pid = os.fork()
        if pid == 0:
            try:
                res = run_workload(L, wl, a.out, a.stride)
            except BaseException as e:
                import traceback
                res = {"workload": wl[0], "error": "%r" % (e,), "tb": traceback.format_exc()[-1500:]}
            json.dump(res, open("%s.%d" % (a.out, i), "w"))
            os._exit(0)
        pids.append(pid)
    for p in pids:
        os.waitpid(p, 0)
    allres = []
    for i in range(len(wls)):
        fn = "%s.%d" % (a.out, i)
        if os.path.exists(fn):
            allres.append(json.load(open(fn)))
            os.unlink(fn)
        else:
            allres.append({"workload": wls[i][0], "error": "session process died (crash in the fault-free session)"})
    json.dump(allres, open(a.out, "w"))


if __name__ == "__main__":
    main()
