"""operation handlers for specs/Attrs.tla (C10)"""
import ctypes, struct
from ctypes import byref, c_int32, c_double, create_string_buffer
from ops_common import *
import h4api
from h4api import CBuf, DFNT, i32arr

TY = {"i8": (20, "b"), "u8": (21, "B"), "i16": (22, "h"), "u16": (23, "H"), "i32": (24, "i"), "u32": (25, "I"),
      "f32": (5, "f"), "f64": (6, "d"), "c8": (4, "c"), "uc8": (3, "B"),
      # little-endian flavours (DFNT_LITEND | type): same values in memory, other byte order in the file
      "li16": (0x4000 | 22, "h"), "lu32": (0x4000 | 25, "I"), "lf32": (0x4000 | 5, "f"), "lf64": (0x4000 | 6, "d")}
TYNAME = {v[0]: k for k, v in TY.items()}
KMAX = 16
DIMSLOT = {"d10": ("s1", 0), "d20": ("s2", 0), "d21": ("s2", 1)}


def val(ty, k, n):
    if ty[0] == "l" and ty[1:] in TY:      # little-endian flavour: the values of the base type
        ty = ty[1:]
    if ty in ("i8",):
        return ((k * 37 + n * 11) % 200) - 100
    if ty in ("u8", "uc8"):
        return (k * 37 + n * 11 + 3) % 250
    if ty == "i16":
        v = (k * 1000 + n * 7 + 1) % 30000
        return -v if n % 2 else v
    if ty == "u16":
        return (k * 4000 + n * 7 + 1) % 65000
    if ty == "i32":
        v = (k * 100003 + n * 13 + 1) % 2000000000
        return -v if n % 2 else v
    if ty == "u32":
        return (k * 200003 + n * 13 + 1) % 4000000000
    if ty == "f32":
        return k + 0.25 * (n % 64)
    if ty == "f64":
        return k * 1.5 + 0.125 * (n % 1024)
    if ty == "c8":
        return bytes([97 + (k * 7 + n * 3) % 26])
    raise KeyError(ty)


_cache = {}


def packv(ty, c, k):
    key = (ty, c, k)
    if key not in _cache:
        if len(_cache) > 64:
            _cache.clear()
        _cache[key] = struct.pack("=%d%s" % (c, TY[ty][1]), *[val(ty, k, n) for n in range(c)])
    return _cache[key]


def recover(ty, c, raw):
    for k in range(KMAX):
        if packv(ty, c, k) == raw:
            return k
    return -7777


def long_name(iface, nm):
    """model names -> real names: 'L1'/'L2' are names of the interface's maximal length differing in the last byte;
    'X1'/'X2' (SD only) are longer than a Vdata name (the form attributes are stored in) but within H4_MAX_NC_NAME"""
    if nm in ("L1", "L2"):
        n = {"SD": 64, "GR": 128, "V": 64}[iface]      # VSNAMELENMAX, FIELDNAMELENMAX, VSNAMELENMAX
        return ("n" * (n - 1) + nm[1]).encode()
    if nm in ("X1", "X2"):
        return ("x" * 99 + nm[1]).encode()
    return nm.encode()


def model_name(b):
    s = b.decode(errors="replace")
    if len(s) > 40 and s[:-1] == "n" * (len(s) - 1):
        return "L" + s[-1]
    if len(s) > 40 and s[:-1] == "x" * (len(s) - 1):
        return "X" + s[-1] + ("" if len(s) == 100 else ":%d" % len(s))
    return s


def iface(o):
    return "SD" if o in ("sd", "s1", "s2", "d10", "d20", "d21") else "GR" if o in ("gr", "ri") else "V"


# ---------------------------------------------------------------- session handling
def a_open(c, rw, create=False):
    L = c.L
    v = c.v
    v["rw"] = rw
    v["sd"] = L.SDstart(c.path(), DFACC_CREATE if create else (DFACC_RDWR if rw else DFACC_READ))
    v["fid"] = L.Hopen(c.path(), DFACC_RDWR if rw else DFACC_READ, 0)
    L.Vinitialize(v["fid"])
    v["gr"] = L.GRstart(v["fid"])
    ok = v["sd"] != FAIL and v["fid"] != FAIL and v["gr"] != FAIL
    if create:
        v["s1"] = L.SDcreate(v["sd"], b"s1", DFNT["int16"], 1, i32arr([3]))
        v["s2"] = L.SDcreate(v["sd"], b"s2", DFNT["int16"], 2, i32arr([3, 2]))
        v["ri"] = L.GRcreate(v["gr"], b"image", 1, DFNT["uint8"], 0, i32arr([2, 2]))
        b = CBuf(4, b"\1\2\3\4")
        L.GRwriteimage(v["ri"], i32arr([0, 0]), None, i32arr([2, 2]), b.ptr)
        b.free()
        vs = L.VSattach(v["fid"], -1, b"w")
        L.VSsetname(vs, b"table")
        L.VSfdefine(vs, b"f0", DFNT["int16"], 1)
        L.VSfdefine(vs, b"f1", DFNT["int32"], 2)
        L.VSsetfields(vs, b"f0,f1")
        rec = CBuf(10, struct.pack("=hii", 1, 2, 3))
        L.VSwrite(vs, rec.ptr, 1, 0)
        rec.free()
        v["vd"] = vs
        vg = L.Vattach(v["fid"], -1, b"w")
        L.Vsetname(vg, b"group")
        v["vg"] = vg
    else:
        i1, i2 = L.SDnametoindex(v["sd"], b"s1"), L.SDnametoindex(v["sd"], b"s2")
        v["s1"] = L.SDselect(v["sd"], i1) if i1 != FAIL else FAIL
        v["s2"] = L.SDselect(v["sd"], i2) if i2 != FAIL else FAIL
        v["ri"] = L.GRselect(v["gr"], 0)
        ref = L.VSfind(v["fid"], b"table")
        v["vd"] = L.VSattach(v["fid"], ref, b"w" if rw else b"r") if ref > 0 else FAIL
        gref = L.Vfind(v["fid"], b"group")
        v["vg"] = L.Vattach(v["fid"], gref, b"w" if rw else b"r") if gref > 0 else FAIL
    for k in ("s1", "s2", "ri", "vd", "vg"):
        ok = ok and v[k] != FAIL
    return 0 if ok else FAIL


def a_close(c):
    L = c.L
    v = c.v
    r = 0
    for k, f in (("s1", L.SDendaccess), ("s2", L.SDendaccess), ("ri", L.GRendaccess), ("vd", L.VSdetach), ("vg", L.Vdetach)):
        if v.get(k, FAIL) != FAIL:
            if f(v[k]) == FAIL:
                r = FAIL
            v[k] = FAIL
    if v.get("gr", FAIL) != FAIL:
        if L.GRend(v["gr"]) == FAIL:
            r = FAIL
        v["gr"] = FAIL
    if v.get("sd", FAIL) != FAIL:
        if L.SDend(v["sd"]) == FAIL:
            r = FAIL
        v["sd"] = FAIL
    if v.get("fid", FAIL) != FAIL:
        L.Vfinish(v["fid"])
        if L.Hclose(v["fid"]) == FAIL:
            r = FAIL
        v["fid"] = FAIL
    return r


@teardown("Attrs")
def attr_teardown(c):
    a_close(c)


def oid(c, o):
    """library id (+ field index for the V interface) of a model object"""
    v = c.v
    if o in DIMSLOT:
        s, i = DIMSLOT[o]
        return c.L.SDgetdimid(v[s], i), None
    if o in ("vdf0", "vdf1"):
        return v["vd"], int(o[-1])
    if o == "vd":
        return v["vd"], -1
    return v[o], None


# ---------------------------------------------------------------- generic attribute calls per interface
def set_attr(c, o, name, ty, cnt, raw):
    L = c.L
    i, fx = oid(c, o)
    nt = TY[ty][0]
    b = CBuf(len(raw), raw)
    f = iface(o)
    if f == "SD":
        r = L.SDsetattr(i, name, nt, cnt, b.ptr)
    elif f == "GR":
        r = L.GRsetattr(i, name, nt, cnt, b.ptr)
    elif o == "vg":
        r = L.Vsetattr(i, name, nt, cnt, b.ptr)
    else:
        r = L.VSsetattr(i, fx, name, nt, cnt, b.ptr)
    b.free()
    return 0 if r != FAIL else FAIL


def find_attr(c, o, name):
    L = c.L
    i, fx = oid(c, o)
    f = iface(o)
    if f == "SD":
        return L.SDfindattr(i, name)
    if f == "GR":
        return L.GRfindattr(i, name)
    if o == "vg":
        return L.Vfindattr(i, name)
    return L.VSfindattr(i, fx, name)


def nattrs(c, o):
    L = c.L
    i, fx = oid(c, o)
    n = c_int32(-5)
    x = c_int32()
    if o == "sd":
        r = L.SDfileinfo(i, byref(x), byref(n))
    elif o in ("s1", "s2"):
        nm = create_string_buffer(300)
        dims = (c_int32 * 8)()
        r = L.SDgetinfo(i, nm, byref(x), dims, byref(x), byref(n))
    elif o in DIMSLOT:
        nm = create_string_buffer(300)
        sz, nt = c_int32(), c_int32()
        r = L.SDdiminfo(i, nm, byref(sz), byref(nt), byref(n))
    elif o == "gr":
        r = L.GRfileinfo(i, byref(x), byref(n))
    elif o == "ri":
        nm = create_string_buffer(300)
        dims = (c_int32 * 2)()
        r = L.GRgetiminfo(i, nm, byref(x), byref(x), byref(x), dims, byref(n))
    elif o == "vg":
        return L.Vnattrs(i)
    else:
        return L.VSfnattrs(i, fx)
    return n.value if r != FAIL else FAIL


def attr_info(c, o, idx):
    """-> (name bytes, nt, count) or None"""
    L = c.L
    i, fx = oid(c, o)
    nm = create_string_buffer(400)
    nt, cnt, sz = c_int32(), c_int32(), c_int32()
    f = iface(o)
    if f == "SD":
        r = L.SDattrinfo(i, idx, nm, byref(nt), byref(cnt))
    elif f == "GR":
        r = L.GRattrinfo(i, idx, nm, byref(nt), byref(cnt))
    elif o == "vg":
        r = L.Vattrinfo(i, idx, nm, byref(nt), byref(cnt), byref(sz))
    else:
        r = L.VSattrinfo(i, fx, idx, nm, byref(nt), byref(cnt), byref(sz))
    if r == FAIL:
        return None
    return nm.value, nt.value, cnt.value


def read_attr(c, o, idx, nbytes):
    L = c.L
    i, fx = oid(c, o)
    b = CBuf(max(nbytes, 1))
    f = iface(o)
    if f == "SD":
        r = L.SDreadattr(i, idx, b.ptr)
    elif f == "GR":
        r = L.GRgetattr(i, idx, b.ptr)
    elif o == "vg":
        r = L.Vgetattr(i, idx, b.ptr)
    else:
        r = L.VSgetattr(i, fx, idx, b.ptr)
    raw = b.raw()[:nbytes]
    b.free()
    return raw if r != FAIL else None


# ---------------------------------------------------------------- operations
@op("Attrs", "Setup")
def at_setup(c, a):
    h4api.declare_all(c.L)
    c.L.SDgetcal.argtypes = [c_int32] + [ctypes.POINTER(c_double)] * 4 + [ctypes.POINTER(c_int32)]
    return {"ret": a_open(c, True, create=True)}


@op("Attrs", "Reopen")
def at_reopen(c, a):
    r = a_close(c)
    r2 = a_open(c, bool(a["rw"]))
    return {"ret": 0 if (r != FAIL and r2 != FAIL) else FAIL}


@op("Attrs", "Set")
def at_set(c, a):
    ty, cnt, k = a["type"], a["count"], a["k"]
    # a refused size is still given a buffer of that size
    raw = packv(ty, cnt, k)
    return {"ret": set_attr(c, a["obj"], long_name(iface(a["obj"]), a["name"]), ty, cnt, raw)}


@op("Attrs", "Find")
def at_find(c, a):
    r = find_attr(c, a["obj"], long_name(iface(a["obj"]), a["name"]))
    return {"index": r if r >= 0 else -1}


@op("Attrs", "Dump")
def at_dump(c, a):
    o = a["obj"]
    n = nattrs(c, o)
    out = []
    for i in range(max(n, 0)):
        inf = attr_info(c, o, i)
        if inf is None:
            out.append({"name": "?info", "type": "?", "count": -1, "k": -1})
            continue
        nm, nt, cnt = inf
        ty = TYNAME.get(nt, "?%d" % nt)
        d = {"name": model_name(nm), "type": ty, "count": cnt, "k": -7777}
        if ty in TY and 0 < cnt <= 70000:
            raw = read_attr(c, o, i, cnt * struct.calcsize("=" + TY[ty][1]))
            d["k"] = recover(ty, cnt, raw) if raw is not None else -7778
            # query by name must give this index
            if find_attr(c, o, nm) != i:
                d["name"] = "?find:" + d["name"]
        out.append(d)
    return {"n": n, "attrs": out}


@op("Attrs", "SetRange")
def at_setrange(c, a):
    raw = packv("i16", 2, a["k"])
    mn, mx = CBuf(2, raw[0:2]), CBuf(2, raw[2:4])
    r = c.L.SDsetrange(c.v[a["obj"]], mx.ptr, mn.ptr)
    mn.free(); mx.free()
    return {"ret": r}


@op("Attrs", "GetRange")
def at_getrange(c, a):
    mn, mx = CBuf(2), CBuf(2)
    r = c.L.SDgetrange(c.v[a["obj"]], mx.ptr, mn.ptr)
    raw = mn.raw() + mx.raw()
    mn.free(); mx.free()
    if r == FAIL:
        return {"ret": FAIL}
    return {"ret": 0, "k": recover("i16", 2, raw)}


@op("Attrs", "SetFill")
def at_setfill(c, a):
    b = CBuf(2, packv("i16", 1, a["k"]))
    r = c.L.SDsetfillvalue(c.v[a["obj"]], b.ptr)
    b.free()
    return {"ret": r}


@op("Attrs", "GetFill")
def at_getfill(c, a):
    b = CBuf(2)
    r = c.L.SDgetfillvalue(c.v[a["obj"]], b.ptr)
    raw = b.raw()
    b.free()
    return {"ret": FAIL} if r == FAIL else {"ret": 0, "k": recover("i16", 1, raw)}


def strk(raw, n):
    """k of an n-character string, -2 if empty"""
    s = raw.split(b"\0")[0]
    if s == b"":
        return -2
    return recover("c8", n, s) if len(s) == n else -7777


@op("Attrs", "SetStrs")
def at_setstrs(c, a):
    k = a["k"]
    return {"ret": c.L.SDsetdatastrs(c.v[a["obj"]], packv("c8", 3, k), packv("c8", 2, (k + 1) % KMAX), None, None)}


@op("Attrs", "GetStrs")
def at_getstrs(c, a):
    l, u, f, cs = CBuf(40), CBuf(40), CBuf(40), CBuf(40)
    r = c.L.SDgetdatastrs(c.v[a["obj"]], l.ptr, u.ptr, f.ptr, cs.ptr, 39)
    o = {"label": strk(l.raw(), 3), "unit": strk(u.raw(), 2), "ret": r}
    for b in (l, u, f, cs):
        b.free()
    return o


@op("Attrs", "SetCal")
def at_setcal(c, a):
    k, dm = a["k"], KMAX
    vals = [val("f64", (k + j) % dm, 0) for j in range(4)]
    nt = val("i32", (k + 4) % dm, 0)
    return {"ret": c.L.SDsetcal(c.v[a["obj"]], vals[0], vals[1], vals[2], vals[3], nt)}


@op("Attrs", "GetCal")
def at_getcal(c, a):
    d = [c_double() for _ in range(4)]
    nt = c_int32()
    r = c.L.SDgetcal(c.v[a["obj"]], byref(d[0]), byref(d[1]), byref(d[2]), byref(d[3]), byref(nt))
    if r == FAIL:
        return {"ret": FAIL}
    ks = [recover("f64", 1, struct.pack("=d", x.value)) for x in d] + [recover("i32", 1, struct.pack("=i", nt.value))]
    return {"ret": 0, "ks": ks}


@op("Attrs", "SetDimName")
def at_setdimname(c, a):
    i, _ = oid(c, a["obj"])
    return {"ret": c.L.SDsetdimname(i, a["name"].encode())}


@op("Attrs", "DimInfo")
def at_diminfo(c, a):
    i, _ = oid(c, a["obj"])
    nm = create_string_buffer(300)
    sz, nt, n = c_int32(), c_int32(), c_int32()
    if c.L.SDdiminfo(i, nm, byref(sz), byref(nt), byref(n)) == FAIL:
        return {"name": "?", "size": -1, "n": -1}
    return {"name": nm.value.decode(), "size": sz.value, "n": n.value}


@op("Attrs", "SetDimScale")
def at_setdimscale(c, a):
    i, _ = oid(c, a["obj"])
    cnt = 2 if a["obj"] == "d21" else 3
    raw = packv(a["type"], cnt, a["k"])
    b = CBuf(len(raw), raw)
    r = c.L.SDsetdimscale(i, cnt, TY[a["type"]][0], b.ptr)
    b.free()
    return {"ret": r}


@op("Attrs", "GetDimScale")
def at_getdimscale(c, a):
    i, _ = oid(c, a["obj"])
    cnt = 2 if a["obj"] == "d21" else 3
    nm = create_string_buffer(300)
    sz, nt, n = c_int32(), c_int32(), c_int32()
    if c.L.SDdiminfo(i, nm, byref(sz), byref(nt), byref(n)) == FAIL:
        return {"ret": FAIL}
    ty = TYNAME.get(nt.value, "?%d" % nt.value)
    if ty not in TY:
        return {"ret": 0, "type": ty, "k": -7777}
    nb = cnt * struct.calcsize("=" + TY[ty][1])
    b = CBuf(nb)
    r = c.L.SDgetdimscale(i, b.ptr)
    raw = b.raw()
    b.free()
    if r == FAIL:
        return {"ret": FAIL}
    return {"ret": 0, "type": ty, "k": recover(ty, cnt, raw)}


@op("Attrs", "SetDimStrs")
def at_setdimstrs(c, a):
    i, _ = oid(c, a["obj"])
    k = a["k"]
    return {"ret": c.L.SDsetdimstrs(i, packv("c8", 3, k), packv("c8", 2, (k + 1) % KMAX), None)}


@op("Attrs", "GetDimStrs")
def at_getdimstrs(c, a):
    i, _ = oid(c, a["obj"])
    l, u, f = CBuf(40), CBuf(40), CBuf(40)
    r = c.L.SDgetdimstrs(i, l.ptr, u.ptr, f.ptr, 39)
    o = {"label": strk(l.raw(), 3), "unit": strk(u.raw(), 2), "ret": r}
    for b in (l, u, f):
        b.free()
    return o


@op("Attrs", "AddDs")
def at_addds(c, a):
    s = c.L.SDcreate(c.v["sd"], b"e%d" % a["n"], DFNT["int16"], 1, i32arr([2]))
    if s == FAIL:
        return {"ret": FAIL}
    return {"ret": c.L.SDendaccess(s)}


@op("Attrs", "Lookups")
def at_lookups(c, a):
    L = c.L
    sd = c.v["sd"]
    nd, na = c_int32(), c_int32()
    if L.SDfileinfo(sd, byref(nd), byref(na)) == FAIL:
        return {"vars": [], "consistent": False}
    vars_, refs, ok = [], [], True
    why = []
    for i in range(nd.value):
        s = L.SDselect(sd, i)
        if s == FAIL:
            ok = False
            why.append("select %d" % i)
            continue
        nm = create_string_buffer(300)
        rank, nt, n = c_int32(), c_int32(), c_int32()
        dims = (c_int32 * 8)()
        if L.SDgetinfo(s, nm, byref(rank), dims, byref(nt), byref(n)) == FAIL:
            ok = False
            why.append("getinfo %d" % i)
        vars_.append({"name": nm.value.decode(errors="replace"), "coord": bool(L.SDiscoordvar(s))})
        ref = L.SDidtoref(s)
        refs.append(ref)
        if ref == FAIL or L.SDreftoindex(sd, ref) != i:
            ok = False
            why.append("ref %d" % i)
        L.SDendaccess(s)
    names = [v["name"] for v in vars_]
    for i, nm in enumerate(names):
        if L.SDnametoindex(sd, nm.encode()) != names.index(nm):
            ok = False
            why.append("nametoindex %s" % nm)
    if len(set(refs)) != len(refs):
        ok = False
        why.append("duplicate refs")
    if L.SDnametoindex(sd, b"no-such-dataset") != FAIL or L.SDselect(sd, nd.value) != FAIL:
        ok = False
        why.append("nonexistent")
    o = {"vars": vars_, "consistent": ok}
    if why:
        o["why"] = why
    return o
