"""h4api.py -- thin ctypes conveniences over libh4v.so for the workload-style drivers (C02/C14/C16/C17...).
No numpy: data travels as Python lists, packed/unpacked with struct."""
import ctypes, struct, os
from ctypes import byref, c_int32, c_int, c_uint16, c_char_p, c_void_p, c_double, c_float, POINTER, create_string_buffer

FAIL = -1
DFACC_READ, DFACC_WRITE, DFACC_CREATE, DFACC_RDWR = 1, 2, 4, 3
DFNT = {"int8": 20, "uint8": 21, "int16": 22, "uint16": 23, "int32": 24, "uint32": 25, "float32": 5, "float64": 6,
        "char8": 4, "uchar8": 3}
DFNT_FMT = {20: "b", 21: "B", 22: "h", 23: "H", 24: "i", 25: "I", 5: "f", 6: "d", 4: "c", 3: "B"}
DFNT_SIZE = {20: 1, 21: 1, 22: 2, 23: 2, 24: 4, 25: 4, 5: 4, 6: 8, 4: 1, 3: 1}
DFTAG_VG, DFTAG_VH, DFTAG_VS = 1965, 1962, 1963
FULL_INTERLACE, NO_INTERLACE = 0, 1
SD_UNLIMITED = 0
COMP_CODE_NONE, COMP_CODE_RLE, COMP_CODE_NBIT, COMP_CODE_SKPHUFF, COMP_CODE_DEFLATE = 0, 1, 2, 3, 4
MFGR_INTERLACE_PIXEL, MFGR_INTERLACE_LINE, MFGR_INTERLACE_COMPONENT = 0, 1, 2
AN_DATA_LABEL, AN_DATA_DESC, AN_FILE_LABEL, AN_FILE_DESC = 0, 1, 2, 3


def i32arr(vals):
    return (c_int32 * max(len(vals), 1))(*vals)


def pack(nt, vals):
    base = nt & 0x0FFF
    fmt = DFNT_FMT[base]
    if fmt == "c":
        return bytes(vals)
    return struct.pack("=%d%s" % (len(vals), fmt), *vals)


def unpack(nt, raw, n):
    base = nt & 0x0FFF
    fmt = DFNT_FMT[base]
    if fmt == "c":
        return list(raw[:n])
    return list(struct.unpack("=%d%s" % (n, fmt), raw[:n * DFNT_SIZE[base]]))


def prod(xs):
    p = 1
    for x in xs:
        p *= x
    return p


class CBuf:
    """exact-size buffer from the ASan-intercepted C allocator"""
    _libc = ctypes.CDLL(None)
    _libc.malloc.restype = c_void_p
    _libc.malloc.argtypes = [ctypes.c_size_t]
    _libc.free.argtypes = [c_void_p]

    def __init__(self, n, init=None):
        self.n = n
        self.p = self._libc.malloc(max(n, 1))
        if init is not None:
            ctypes.memmove(self.p, init, len(init))
        else:
            ctypes.memset(self.p, 0xEE, max(n, 1))

    @property
    def ptr(self):
        return ctypes.cast(self.p, c_void_p)

    def raw(self, m=None):
        m = self.n if m is None else m
        return ctypes.string_at(self.p, m) if m > 0 else b""

    def free(self):
        self._libc.free(self.p)


def declare_all(L):
    """signatures that need care (doubles, pointers returned, 16-bit returns)"""
    L.SDsetcal.argtypes = [c_int32, c_double, c_double, c_double, c_double, c_int32]
    L.Hnewref.restype = c_uint16
    L.Htagnewref.restype = c_uint16
    L.HEstring.restype = c_char_p
    for f in ("Hopen", "SDstart", "GRstart", "ANstart", "VSattach", "Vattach"):
        getattr(L, f).restype = c_int32


# ------------------------------------------------------------------ generic content dump through the API
def dump_file(L, path, want_h=True, only_h=False):
    """API-level dump of everything the library reports for a file (read-only): low-level elements,
    vdatas, vgroups, SDS, GR images, annotations.  Used as 'content' for crash/fault/read-only checks.
    Returns a JSON-able dict; raises nothing (errors become entries)."""
    out = {}
    p = path.encode() if isinstance(path, str) else path
    fid = L.Hopen(p, DFACC_READ, 0)
    if fid == FAIL:
        return {"open": "FAIL"}
    out["open"] = "ok"
    if want_h:
        # every DD with its logical content
        els = {}
        ft, fr = c_uint16(0), c_uint16(0)
        fo, fl = c_int32(0), c_int32(0)
        n = 0
        while n < 100000 and L.Hfind(fid, 0, 0, byref(ft), byref(fr), byref(fo), byref(fl), 1) != FAIL:
            n += 1
            t = ft.value
            bt = (t & ~0x4000) if (t & 0x8000) == 0 and (t & 0x4000) else t
            ln = L.Hlength(fid, bt, fr.value)
            data = None
            if 0 <= ln <= (1 << 22):
                b = CBuf(ln)
                r = L.Hgetelement(fid, bt, fr.value, b.ptr)
                data = b.raw(ln).hex() if r == ln else "READFAIL(%d)" % r
                b.free()
            els["%d/%d" % (bt, fr.value)] = [ln, data]
        out["elements"] = els
    if only_h:
        L.Hclose(fid)
        return out
    L.Vinitialize(fid)
    # vdatas
    vds = {}
    ref = -1
    cnt = 0
    while cnt < 10000:
        ref = L.VSgetid(fid, ref)
        if ref == FAIL:
            break
        cnt += 1
        vs = L.VSattach(fid, ref, b"r")
        if vs == FAIL:
            vds[str(ref)] = "ATTACHFAIL"
            continue
        name = create_string_buffer(256)
        cls = create_string_buffer(256)
        fields = create_string_buffer(8192)
        nrec, il, sz = c_int32(), c_int32(), c_int32()
        L.VSinquire(vs, byref(nrec), byref(il), fields, byref(sz), name)
        L.VSgetclass(vs, cls)
        d = {"name": name.value.decode(errors="replace"), "class": cls.value.decode(errors="replace"),
             "n": nrec.value, "fields": fields.value.decode(errors="replace"), "size": sz.value}
        if nrec.value > 0 and sz.value > 0 and nrec.value * sz.value < (1 << 22) and fields.value:
            if L.VSsetfields(vs, fields.value) != FAIL:
                b = CBuf(nrec.value * sz.value)
                r = L.VSread(vs, b.ptr, nrec.value, FULL_INTERLACE)
                d["data"] = b.raw().hex() if r == nrec.value else "READFAIL(%d)" % r
                b.free()
        L.VSdetach(vs)
        vds[str(ref)] = d
    out["vdatas"] = vds
    # vgroups
    vgs = {}
    ref = -1
    cnt = 0
    while cnt < 10000:
        ref = L.Vgetid(fid, ref)
        if ref == FAIL:
            break
        cnt += 1
        vg = L.Vattach(fid, ref, b"r")
        if vg == FAIL:
            vgs[str(ref)] = "ATTACHFAIL"
            continue
        name = create_string_buffer(1024)
        cls = create_string_buffer(1024)
        L.Vgetname(vg, name)
        L.Vgetclass(vg, cls)
        n = L.Vntagrefs(vg)
        mem = []
        if n > 0:
            tags, refs = i32arr([0] * n), i32arr([0] * n)
            L.Vgettagrefs(vg, tags, refs, n)
            mem = [[tags[i], refs[i]] for i in range(n)]
        vgs[str(ref)] = {"name": name.value.decode(errors="replace"), "class": cls.value.decode(errors="replace"), "members": mem}
        L.Vdetach(vg)
    out["vgroups"] = vgs
    L.Vfinish(fid)
    L.Hclose(fid)
    # SD
    sd = L.SDstart(p, DFACC_READ)
    if sd != FAIL:
        nds, nat = c_int32(), c_int32()
        L.SDfileinfo(sd, byref(nds), byref(nat))
        sds = []
        for i in range(nds.value):
            s = L.SDselect(sd, i)
            name = create_string_buffer(256)
            rank, nt, na = c_int32(), c_int32(), c_int32()
            dims = i32arr([0] * 32)
            L.SDgetinfo(s, name, byref(rank), dims, byref(nt), byref(na))
            shape = [dims[k] for k in range(rank.value)]
            d = {"name": name.value.decode(errors="replace"), "shape": shape, "nt": nt.value, "nattrs": na.value}
            tot = prod(shape) if shape else 1
            if 0 < tot * DFNT_SIZE.get(nt.value & 0xFFF, 8) < (1 << 22) and all(x > 0 for x in shape):
                b = CBuf(tot * DFNT_SIZE.get(nt.value & 0xFFF, 8))
                r = L.SDreaddata(s, i32arr([0] * len(shape)), None, i32arr(shape), b.ptr)
                d["data"] = b.raw().hex() if r != FAIL else "READFAIL"
                b.free()
            d["attrs"] = read_attrs(L, s, na.value, "SD")
            L.SDendaccess(s)
            sds.append(d)
        out["sds"] = sds
        out["sd_fileattrs"] = read_attrs(L, sd, nat.value, "SD")
        L.SDend(sd)
    else:
        out["sds"] = "SDSTARTFAIL"
    # GR + AN
    fid = L.Hopen(p, DFACC_READ, 0)
    if fid != FAIL:
        gr = L.GRstart(fid)
        if gr != FAIL:
            nim, nat = c_int32(), c_int32()
            L.GRfileinfo(gr, byref(nim), byref(nat))
            ims = []
            for i in range(nim.value):
                ri = L.GRselect(gr, i)
                name = create_string_buffer(256)
                nc, nt, il, na = c_int32(), c_int32(), c_int32(), c_int32()
                dm = i32arr([0, 0])
                L.GRgetiminfo(ri, name, byref(nc), byref(nt), byref(il), dm, byref(na))
                d = {"name": name.value.decode(errors="replace"), "ncomp": nc.value, "nt": nt.value, "il": il.value, "dims": [dm[0], dm[1]]}
                tot = dm[0] * dm[1] * nc.value * DFNT_SIZE.get(nt.value & 0xFFF, 8)
                if 0 < tot < (1 << 22):
                    b = CBuf(tot)
                    r = L.GRreadimage(ri, i32arr([0, 0]), None, i32arr([dm[0], dm[1]]), b.ptr)
                    d["data"] = b.raw().hex() if r != FAIL else "READFAIL"
                    b.free()
                L.GRendaccess(ri)
                ims.append(d)
            out["images"] = ims
            L.GRend(gr)
        an = L.ANstart(fid)
        if an != FAIL:
            c = [c_int32() for _ in range(4)]
            L.ANfileinfo(an, byref(c[0]), byref(c[1]), byref(c[2]), byref(c[3]))
            anns = []
            for typ, cnt in ((AN_FILE_LABEL, c[0].value), (AN_FILE_DESC, c[1].value), (AN_DATA_LABEL, c[2].value), (AN_DATA_DESC, c[3].value)):
                for i in range(cnt):
                    a = L.ANselect(an, i, typ)
                    ln = L.ANannlen(a)
                    txt = None
                    if 0 <= ln < (1 << 20):
                        b = CBuf(ln + 1)
                        r = L.ANreadann(a, b.ptr, ln + 1)
                        txt = b.raw(ln).hex() if r != FAIL else "READFAIL"
                        b.free()
                    tg, rf = c_uint16(), c_uint16()
                    L.ANid2tagref(a, byref(tg), byref(rf))
                    anns.append([typ, tg.value, rf.value, ln, txt])
                    L.ANendaccess(a)
            out["anns"] = anns
            L.ANend(an)
        L.Hclose(fid)
    return out


def read_attrs(L, oid, n, kind):
    res = []
    for i in range(n):
        name = create_string_buffer(256)
        nt, cnt = c_int32(), c_int32()
        if kind == "SD":
            if L.SDattrinfo(oid, i, name, byref(nt), byref(cnt)) == FAIL:
                res.append("INFOFAIL")
                continue
            sz = cnt.value * DFNT_SIZE.get(nt.value & 0xFFF, 8)
            b = CBuf(sz)
            r = L.SDreadattr(oid, i, b.ptr)
            res.append([name.value.decode(errors="replace"), nt.value, cnt.value, b.raw().hex() if r != FAIL else "READFAIL"])
            b.free()
    return res


class ChunkDef(ctypes.Structure):
    """HDF_CHUNK_DEF (a 176-byte union passed BY VALUE to SDsetchunk/GRsetchunk):
    words 0..31 chunk_lengths; comp variant: word 32 comp_type, 33 model_type, 34.. comp_info (deflate level / skphuff skip size);
    nbit variant: word 32 start_bit, 33 bit_len, 34 sign_ext, 35 fill_one"""
    _fields_ = [("w", c_int32 * 44)]


HDF_NONE, HDF_CHUNK, HDF_COMP, HDF_NBIT = 0x0, 0x1, 0x3, 0x5


def chunkdef(lengths, comp=None, level=6):
    c = ChunkDef()
    for i, x in enumerate(lengths):
        c.w[i] = x
    if comp is not None:
        c.w[32] = comp
        c.w[33] = 0
        c.w[34] = level
    return c
