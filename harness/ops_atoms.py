"""operation handlers for specs/Atoms.tla: drives atom.c directly (HAinit_group ... HAdestroy_group)
on a group the rest of the library does not use in these behaviours (ANIDGROUP)."""
import ctypes
from ctypes import c_void_p, c_int32, c_int
from ops_common import *

GRP = 8   # ANIDGROUP


def _decl(L):
    L.HAinit_group.argtypes = [c_int, c_int]
    L.HAregister_atom.argtypes = [c_int, c_void_p]
    L.HAregister_atom.restype = c_int32
    L.HAatom_object.argtypes = [c_int32]
    L.HAatom_object.restype = c_void_p
    L.HAremove_atom.argtypes = [c_int32]
    L.HAremove_atom.restype = c_void_p
    L.HAdestroy_group.argtypes = [c_int]


SPACE = 1 << 28          # the library's id space (ATOM_BITS = 28)


def real_id(c, mid):
    """model id -> the library's atom.  The model's id space is small (IdSpace); it is laid over the library's 2^28 ids
    so that the two ends coincide: model ids below the Burn target are the library's ids of the same number, model ids
    from the Burn target on (only issued after a Burn step) are the LAST ids of the library's space.  Ids never issued
    in this behaviour map to an atom number of the same group that was never issued."""
    if mid in c.v.setdefault("ids", {}):
        return c.v["ids"][mid]
    return to32((GRP << 28) | (100000 + mid))


def to32(x):
    x &= 0xFFFFFFFF
    return x - (1 << 32) if x & 0x80000000 else x


def model_id(c, rid):
    r = rid & (SPACE - 1)
    sp = c.v.get("space")
    if sp and r >= SPACE // 2:
        return sp - (SPACE - r)
    return r


@teardown("Atoms")
def at_teardown(c):
    if c.v.get("inited"):
        c.L.HAdestroy_group(GRP)


@op("Atoms", "InitGroup")
def at_init(c, a):
    _decl(c.L)
    c.v["ids"] = {}
    c.v["removed"] = set()
    c.v.pop("space", None)
    c.v["n"] = 0
    c.v["inited"] = True
    # (a hash table of 2 buckets: every other id shares a bucket, so the chains are walked, unlinked in the middle, ...)
    return {"ret": c.L.HAinit_group(GRP, 2)}


@op("Atoms", "Register")
def at_register(c, a):
    rid = c.L.HAregister_atom(GRP, a["obj"])
    live_now = set(c.v["ids"][m] for m in c.v["ids"] if m not in c.v.setdefault("removed", set()))
    if rid == FAIL:
        return {"ret": FAIL}
    mid = model_id(c, rid)
    fresh = rid not in live_now
    c.v["ids"][mid] = rid
    c.v["removed"].discard(mid)
    return {"ret": mid if fresh else -2}      # -2: the library issued the number of a live atom


@op("Atoms", "Burn")
def at_burn(c, a):
    """(2^28 - 3 - from) register/remove pairs of a throwaway object: the counter then shows the last three ids"""
    c.L.h4v_burn_atoms.restype = ctypes.c_ulong
    c.L.h4v_burn_atoms.argtypes = [c_int, ctypes.c_ulong]
    n = SPACE - 3 - a["from"]
    done = c.L.h4v_burn_atoms(GRP, n)
    c.v["space"] = a["space"]
    return {"ret": 0 if done == n else FAIL}


_SEARCH_T = ctypes.CFUNCTYPE(c_int, c_void_p, c_void_p)


@_SEARCH_T
def _same_object(obj, key):
    return 1 if (obj or 0) == (key or 0) else 0


@op("Atoms", "Search")
def at_search(c, a):
    c.L.HAsearch_atom.argtypes = [c_int, _SEARCH_T, c_void_p]
    c.L.HAsearch_atom.restype = c_void_p
    r = c.L.HAsearch_atom(GRP, _same_object, a["obj"])
    return {"ret": int(r) if r else 0}


@op("Atoms", "Lookup")
def at_lookup(c, a):
    r = c.L.HAatom_object(real_id(c, a["id"]))
    return {"ret": int(r) if r else 0}


@op("Atoms", "Remove")
def at_remove(c, a):
    r = c.L.HAremove_atom(real_id(c, a["id"]))
    if r:
        c.v.setdefault("removed", set()).add(a["id"])
    return {"ret": int(r) if r else 0}


@op("Atoms", "Destroy")
def at_destroy(c, a):
    r = c.L.HAdestroy_group(GRP)
    c.v["inited"] = False
    c.v["ids"] = {}
    c.v["removed"] = set()
    c.v["n"] = 0
    c.v.pop("space", None)
    return {"ret": 0 if r != FAIL else FAIL}
