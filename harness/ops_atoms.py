"""operation handlers for specs/Atoms.tla: drives atom.c directly (HAinit_group ... HAdestroy_group)
on a group the rest of the library does not use in these behaviours (ANIDGROUP)."""
import ctypes
from ctypes import c_void_p, c_int32, c_int
from ops_common import *

GRP = 8   # ANIDGROUP


def _decl(L):
    L.HAinit_group.argtypes = [c_int, c_int]
    L.HAregister_atom.argtypes = [c_int, c_void_p]
    L.HAregister_atom.restype = c_int32
    L.HAatom_object.argtypes = [c_int32]
    L.HAatom_object.restype = c_void_p
    L.HAremove_atom.argtypes = [c_int32]
    L.HAremove_atom.restype = c_void_p
    L.HAdestroy_group.argtypes = [c_int]


def real_id(c, mid):
    """model id (the counter value at registration) -> the library's atom; ids never issued in this
    behaviour map to an atom number of the same group that was never issued"""
    if mid in c.v.setdefault("ids", {}):
        return c.v["ids"][mid]
    return (GRP << 28) | (100000 + mid)


@teardown("Atoms")
def at_teardown(c):
    if c.v.get("inited"):
        c.L.HAdestroy_group(GRP)


@op("Atoms", "InitGroup")
def at_init(c, a):
    _decl(c.L)
    c.v["ids"] = {}
    c.v["n"] = 0
    c.v["inited"] = True
    return {"ret": c.L.HAinit_group(GRP, 8)}


@op("Atoms", "Register")
def at_register(c, a):
    rid = c.L.HAregister_atom(GRP, a["obj"])
    live_now = set(c.v["ids"][m] for m in c.v["ids"] if m not in c.v.setdefault("removed", set()))
    mid = c.v["n"]
    c.v["n"] += 1
    if rid == FAIL:
        return {"ret": FAIL}
    fresh = rid not in live_now
    c.v["ids"][mid] = rid
    return {"ret": mid if fresh else -2}      # -2: the library issued the number of a live atom


@op("Atoms", "Lookup")
def at_lookup(c, a):
    r = c.L.HAatom_object(real_id(c, a["id"]))
    return {"ret": int(r) if r else 0}


@op("Atoms", "Remove")
def at_remove(c, a):
    r = c.L.HAremove_atom(real_id(c, a["id"]))
    if r:
        c.v.setdefault("removed", set()).add(a["id"])
    return {"ret": int(r) if r else 0}


@op("Atoms", "Destroy")
def at_destroy(c, a):
    r = c.L.HAdestroy_group(GRP)
    c.v["inited"] = False
    c.v["ids"] = {}
    c.v["removed"] = set()
    c.v["n"] = 0
    return {"ret": 0 if r != FAIL else FAIL}
